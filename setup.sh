#!/bin/sh
# Build everything the checks need, offline, from files on disk. (cwd /verif)
set -e
cd /verif
export CARGO_NET_OFFLINE=true
(cd harness && cargo build --offline 2>&1 | tail -1)
(cd harness && cargo build --offline --no-default-features --target-dir /verif/.build/cargo-nostd 2>&1 | tail -1)
(cd harness && cargo build --offline --features serialize --target-dir /verif/.build/cargo-serialize 2>&1 | tail -1)
(cd harness_sendsync && cargo build --offline 2>&1 | tail -1)
python3 tools/gen_tables.py >/dev/null
(cd lean && lake build driver TlsModel 2>&1 | tail -2)
