#!/bin/sh
# Build everything the checks need, offline, from files on disk. (run from /verif; works from any copy of it)
set -e
cd "$(dirname "$0")"
V=$(pwd)
export CARGO_NET_OFFLINE=true
(cd harness && cargo build --offline --target-dir $V/.build/cargo 2>&1 | tail -1)
(cd harness && cargo build --offline --no-default-features --target-dir $V/.build/cargo-nostd 2>&1 | tail -1)
(cd harness && cargo build --offline --features serialize --target-dir $V/.build/cargo-serialize 2>&1 | tail -1)
(cd harness_sendsync && cargo build --offline --target-dir $V/.build/cargo-sendsync 2>&1 | tail -1)
python3 tools/gen_tables.py >/dev/null
(cd lean && lake build driver TlsModel DriverLib:static TlsModel:static 2>&1 | tail -2)
# coverage-guided corpus generator (tools/cg.py): pre-build so that a later rebuild against a changed /repo is incremental
(cd cgfuzz && RUSTFLAGS="--cfg tls_parser_verif" cargo +nightly fuzz build -s none --target-dir $V/.build/cgfuzz 2>&1 | tail -1)
