#!/bin/sh
# Build everything the checks need, offline, from files on disk.
set -e
cd /verif
export CARGO_NET_OFFLINE=true
(cd harness && cargo build --offline 2>&1 | tail -2)
python3 tools/gen_tables.py >/dev/null
(cd lean && lake build driver TlsModel 2>&1 | tail -3)
