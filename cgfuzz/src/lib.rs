// placeholder (cargo fuzz needs a root package)
