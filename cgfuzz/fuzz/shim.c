// C shim between the Rust fuzz target and the Lean model driver (lean.h's string accessors are static inline).
#include <lean/lean.h>
#include <string.h>
#include <stdlib.h>

extern void lean_initialize_runtime_module(void);
extern lean_object* initialize_TlsModel_DriverFFI(uint8_t builtin, lean_object* w);
extern lean_object* tlsmodel_handle(lean_object* line);

static int model_ready = 0;

static void model_init(void) {
    lean_initialize_runtime_module();
    lean_object* res = initialize_TlsModel_DriverFFI(1, lean_io_mk_world());
    if (lean_io_result_is_ok(res)) {
        lean_dec_ref(res);
    } else {
        lean_io_result_show_error(res);
        lean_dec(res);
        abort();
    }
    lean_io_mark_end_initialization();
    model_ready = 1;
}

// returns a malloc'ed NUL-terminated copy of the model's answer to one op line; the caller frees it with model_free
char* model_handle(const char* line) {
    if (!model_ready) model_init();
    lean_object* s = lean_mk_string(line);
    lean_object* r = tlsmodel_handle(s);
    const char* c = lean_string_cstr(r);
    size_t n = strlen(c);
    char* out = (char*)malloc(n + 1);
    memcpy(out, c, n + 1);
    lean_dec(r);
    return out;
}

void model_free(char* p) { free(p); }
