// Links the Lean model (static libraries built by `lake build DriverLib:static TlsModel:static`) and its C shim into the
// fuzz target, so that every execution is answered by implementation *and* model in-process.
use std::path::PathBuf;

fn main() {
    let here = PathBuf::from(std::env::var("CARGO_MANIFEST_DIR").unwrap());
    let lean_lib = here.join("../../lean/.lake/build/lib");
    let lean_home = std::env::var("LEAN_SYSROOT").unwrap_or_else(|_| "/opt/veriftools/lean".to_string());
    cc::Build::new()
        .file("shim.c")
        .include(format!("{}/include", lean_home))
        .warnings(false)
        .compile("tlsmodelshim");
    println!("cargo:rustc-link-search=native={}", lean_lib.display());
    println!("cargo:rustc-link-lib=static=TlsModel_DriverLib");
    println!("cargo:rustc-link-lib=static=TlsModel_TlsModel");
    println!("cargo:rustc-link-search=native={}/lib/lean", lean_home);
    println!("cargo:rustc-link-lib=dylib=leanshared");
    println!("cargo:rustc-link-lib=dylib=Init_shared");
    println!("cargo:rustc-link-arg=-Wl,-rpath,{}/lib/lean", lean_home);
    println!("cargo:rerun-if-changed=shim.c");
    println!("cargo:rerun-if-changed={}", lean_lib.join("libTlsModel_DriverLib.a").display());
    println!("cargo:rerun-if-changed={}", lean_lib.join("libTlsModel_TlsModel.a").display());
}
