//! Coverage-guided differential corpus generation: libFuzzer input -> one op line of the line protocol -> the
//! harness's own `dispatch` (the real crate, in-process) *and* the Lean model driver (linked in through
//! DriverFFI.lean + shim.c). Inputs reaching new coverage, panicking, or on which the two answers differ are kept.
//! Nothing is decided here: the kept inputs are replayed through harness and model driver by the property checks.
//!
//! Input layout (mirrored by tools/cg.py `decode`):
//!   byte 0          op index (mod number of ops)
//!   ops with args   the argument bytes listed in OPS (big-endian), then the op's byte string
//!   op `rp`         a history: repeated steps  k:u8  [type:u8 ver:u16 len:u16 dlen:u16 data]
#![no_main]
#![allow(dead_code, unused_imports, deprecated)]
use libfuzzer_sys::fuzz_target;
use std::fmt::Write as _;
use std::sync::Once;

use tlsverif as h;

/// (op, argument widths in bytes). `rp` is special-cased.
pub const OPS: &[(&str, &[usize])] = &[
    ("tls_header", &[]), ("tls_raw", &[]), ("tls_encrypted", &[]), ("tls_plaintext", &[]), ("tls_parser", &[]),
    ("tls_many", &[]), ("rec_with_hdr", &[1, 2, 2]), ("msg_ccs", &[]), ("msg_alert", &[]), ("msg_appdata", &[]),
    ("msg_handshake", &[]), ("msg_heartbeat", &[2]), ("hs_hello_request", &[]), ("hs_client_hello", &[]),
    ("hs_msg_client_hello", &[]), ("hs_server_hello", &[]), ("hs_msg_server_hello", &[]),
    ("hs_newsessionticket", &[2]), ("hs_hello_retry_request", &[]), ("hs_certificate", &[]),
    ("hs_serverkeyexchange", &[2]), ("hs_serverdone", &[2]), ("hs_certificateverify", &[2]),
    ("hs_clientkeyexchange", &[2]), ("hs_finished", &[2]), ("hs_certificaterequest", &[]),
    ("hs_msg_certificaterequest", &[]), ("hs_certificatestatus", &[]), ("hs_msg_certificatestatus", &[]),
    ("hs_next_protocol", &[]), ("hs_msg_next_protocol", &[]), ("hs_key_update", &[]),
    ("ext", &[]), ("ext_client", &[]), ("ext_server", &[]), ("exts", &[]), ("exts_client", &[]), ("exts_server", &[]),
    ("ext_sni_hostname", &[]), ("ext_unknown", &[]),
    ("dh", &[]), ("ec_params", &[]), ("ecdh", &[]), ("named_groups", &[]), ("dsig", &[]), ("dsig_old", &[]),
    ("content_sig dh 0", &[]), ("content_sig dh 1", &[]), ("content_sig ecdh 0", &[]), ("content_sig ecdh 1", &[]),
    ("sct", &[]), ("sct_list", &[]),
    ("dtls_header", &[]), ("dtls_record", &[]), ("dtls_records", &[]), ("dtls_hs", &[]), ("dtls_ccs", &[]),
    ("dtls_alert", &[]), ("dtls_rec_with_hdr", &[1, 2, 2]),
    ("ext_tag_sni", &[]), ("ext_tag_max_fragment_length", &[]), ("ext_tag_status_request", &[]),
    ("ext_tag_elliptic_curves", &[]), ("ext_tag_ec_point_formats", &[]), ("ext_tag_signature_algorithms", &[]),
    ("ext_tag_heartbeat", &[]), ("ext_tag_encrypt_then_mac", &[]), ("ext_tag_extended_master_secret", &[]),
    ("ext_tag_session_ticket", &[]), ("ext_tag_key_share", &[]), ("ext_tag_pre_shared_key", &[]),
    ("ext_tag_early_data", &[]), ("ext_tag_supported_versions", &[]), ("ext_tag_cookie", &[]),
    ("ext_tag_psk_key_exchange_modes", &[]),
    ("ext_c_sni", &[]), ("ext_c_max_fragment_length", &[]), ("ext_c_elliptic_curves", &[]),
    ("ext_c_ec_point_formats", &[]), ("ext_c_signature_algorithms", &[]), ("ext_c_heartbeat", &[]),
    ("ext_c_alpn", &[]), ("ext_c_signed_certificate_timestamp", &[]), ("ext_c_psk_key_exchange_modes", &[]),
    ("ext_c_renegotiation_info", &[]), ("ext_c_encrypted_server_name", &[]),
    ("ext_type_of ext", &[]), ("ext_type_of ext_client", &[]), ("ext_type_of ext_server", &[]),
    ("rp", &[]),
];

fn push_hex(o: &mut String, b: &[u8]) {
    if b.is_empty() {
        o.push('-');
        return;
    }
    const D: &[u8; 16] = b"0123456789abcdef";
    for &x in b {
        o.push(D[(x >> 4) as usize] as char);
        o.push(D[(x & 15) as usize] as char);
    }
}

/// the op line for a libFuzzer input (None: too short to name an op)
pub fn line_of(data: &[u8]) -> Option<String> {
    let (&sel, mut rest) = data.split_first()?;
    let (op, widths) = OPS[sel as usize % OPS.len()];
    let mut line = String::with_capacity(16 + 2 * rest.len());
    line.push_str(op);
    if op == "rp" {
        let mut steps = 0;
        while let Some((&k, r)) = rest.split_first() {
            rest = r;
            if steps >= 12 {
                break;
            }
            steps += 1;
            if k % 8 == 7 {
                line.push_str(" r");
                continue;
            }
            if rest.len() < 7 {
                break;
            }
            let ty = rest[0];
            let ver = u16::from_be_bytes([rest[1], rest[2]]);
            let len = u16::from_be_bytes([rest[3], rest[4]]);
            let dlen = (u16::from_be_bytes([rest[5], rest[6]]) as usize).min(rest.len() - 7);
            let _ = write!(line, " {}:{}:{}:{}:", if k % 8 == 6 { 'n' } else { 'p' }, ty, ver, len);
            push_hex(&mut line, &rest[7..7 + dlen]);
            rest = &rest[7 + dlen..];
        }
        if steps == 0 {
            return None;
        }
        return Some(line);
    }
    for &w in widths {
        if rest.len() < w {
            return None;
        }
        let mut v: u64 = 0;
        for &b in &rest[..w] {
            v = v << 8 | b as u64;
        }
        let _ = write!(line, " {}", v);
        rest = &rest[w..];
    }
    line.push(' ');
    push_hex(&mut line, rest);
    Some(line)
}

extern "C" {
    fn model_handle(line: *const std::os::raw::c_char) -> *mut std::os::raw::c_char;
    fn model_free(p: *mut std::os::raw::c_char);
}

/// the Lean model's answer to one op line (the model driver linked in-process)
fn model(line: &str) -> String {
    let c = std::ffi::CString::new(line).expect("op lines contain no NUL");
    unsafe {
        let p = model_handle(c.as_ptr());
        let s = std::ffi::CStr::from_ptr(p).to_string_lossy().into_owned();
        model_free(p);
        s
    }
}

fn save(kind: &str, data: &[u8]) {
    if let Ok(dir) = std::env::var("CG_PANIC_DIR") {
        let mut hsh: u64 = 1469598103934665603;
        for &b in data {
            hsh = (hsh ^ b as u64).wrapping_mul(1099511628211);
        }
        let _ = std::fs::write(format!("{}/{}-{:016x}", dir, kind, hsh), data);
    }
}

static INIT: Once = Once::new();
static DIFFS: std::sync::atomic::AtomicUsize = std::sync::atomic::AtomicUsize::new(0);

fuzz_target!(|data: &[u8]| {
    INIT.call_once(|| std::panic::set_hook(Box::new(|_| {})));
    if let Some(line) = line_of(data) {
        let out = h::handle(&line);
        if out.starts_with("panic") || out.contains("panic") {
            save("panic", data);
        }
        // differential: the model answers the same line in-process. Any textual difference is only *recorded* (at most
        // 300 per process); the property checks replay the recorded inputs and judge them under their projections.
        let m = model(&line);
        if out.split('\t').next().unwrap_or("") != m && DIFFS.fetch_add(1, std::sync::atomic::Ordering::Relaxed) < 300 {
            save("diff", data);
        }
        std::hint::black_box(out);
    }
});
