"""iana.py — reference values of the protocol registries, entered by hand from the IANA TLS registries and the RFCs
(RFC 5246, 8446, 6066, 6520, 7301, 7685, 7366, 7627, 8449, 5077, 8701, 7919, 8422, 8734, 8998, 6962, 5746, draft-agl-npn,
draft-ietf-tls-esni). Independent of /repo: the checks compare the crate's constants with THIS table.
Names are the crate's constant names (they are what Display prints); values are the registry's."""

IANA = {
 'TlsRecordType': {'ChangeCipherSpec': 20, 'Alert': 21, 'Handshake': 22, 'ApplicationData': 23, 'Heartbeat': 24},
 'TlsHandshakeType': {'HelloRequest': 0, 'ClientHello': 1, 'ServerHello': 2, 'HelloVerifyRequest': 3, 'NewSessionTicket': 4,
    'EndOfEarlyData': 5, 'HelloRetryRequest': 6, 'EncryptedExtensions': 8, 'Certificate': 11, 'ServerKeyExchange': 12,
    'CertificateRequest': 13, 'ServerDone': 14, 'CertificateVerify': 15, 'ClientKeyExchange': 16, 'Finished': 20,
    'CertificateURL': 21, 'CertificateStatus': 22, 'KeyUpdate': 24, 'NextProtocol': 67},
 'TlsVersion': {'Ssl30': 0x0300, 'Tls10': 0x0301, 'Tls11': 0x0302, 'Tls12': 0x0303, 'Tls13': 0x0304,
    'Tls13Draft18': 0x7f12, 'Tls13Draft19': 0x7f13, 'Tls13Draft20': 0x7f14, 'Tls13Draft21': 0x7f15, 'Tls13Draft22': 0x7f16,
    'Tls13Draft23': 0x7f17, 'DTls10': 0xfeff, 'DTls11': 0xfefe, 'DTls12': 0xfefd},
 'TlsHeartbeatMessageType': {'HeartBeatRequest': 1, 'HeartBeatResponse': 2},
 'TlsCompressionID': {'Null': 0, 'Deflate': 1},
 'KeyUpdateRequest': {'NotRequested': 0, 'Requested': 1},
 'TlsAlertSeverity': {'Warning': 1, 'Fatal': 2},
 'TlsAlertDescription': {'CloseNotify': 0, 'UnexpectedMessage': 10, 'BadRecordMac': 20, 'DecryptionFailed': 21, 'RecordOverflow': 22,
    'DecompressionFailure': 30, 'HandshakeFailure': 40, 'NoCertificate': 41, 'BadCertificate': 42, 'UnsupportedCertificate': 43,
    'CertificateRevoked': 44, 'CertificateExpired': 45, 'CertificateUnknown': 46, 'IllegalParameter': 47, 'UnknownCa': 48,
    'AccessDenied': 49, 'DecodeError': 50, 'DecryptError': 51, 'ExportRestriction': 60, 'ProtocolVersion': 70,
    'InsufficientSecurity': 71, 'InternalError': 80, 'InappropriateFallback': 86, 'UserCancelled': 90, 'NoRenegotiation': 100,
    'MissingExtension': 109, 'UnsupportedExtension': 110, 'CertUnobtainable': 111, 'UnrecognizedName': 112,
    'BadCertStatusResponse': 113, 'BadCertHashValue': 114, 'UnknownPskIdentity': 115, 'CertificateRequired': 116,
    'NoApplicationProtocol': 120},
 'TlsExtensionType': {'ServerName': 0, 'MaxFragmentLength': 1, 'ClientCertificate': 2, 'TrustedCaKeys': 3, 'TruncatedHMac': 4,
    'StatusRequest': 5, 'UserMapping': 6, 'ClientAuthz': 7, 'ServerAuthz': 8, 'CertType': 9, 'SupportedGroups': 10,
    'EcPointFormats': 11, 'Srp': 12, 'SignatureAlgorithms': 13, 'UseSrtp': 14, 'Heartbeat': 15,
    'ApplicationLayerProtocolNegotiation': 16, 'StatusRequestv2': 17, 'SignedCertificateTimestamp': 18,
    'ClientCertificateType': 19, 'ServerCertificateType': 20, 'Padding': 21, 'EncryptThenMac': 22, 'ExtendedMasterSecret': 23,
    'TokenBinding': 24, 'CachedInfo': 25, 'RecordSizeLimit': 28, 'SessionTicketTLS': 35, 'KeyShareOld': 40, 'PreSharedKey': 41,
    'EarlyData': 42, 'SupportedVersions': 43, 'Cookie': 44, 'PskExchangeModes': 45, 'TicketEarlyDataInfo': 46,
    'CertificateAuthorities': 47, 'OidFilters': 48, 'PostHandshakeAuth': 49, 'SigAlgorithmsCert': 50, 'KeyShare': 51,
    'NextProtocolNegotiation': 13172, 'Grease': 0xfafa, 'RenegotiationInfo': 0xff01, 'EncryptedServerName': 0xffce},
 'PskKeyExchangeMode': {'Psk': 0, 'PskDhe': 1},
 'SNIType': {'HostName': 0},
 'CertificateStatusType': {'OCSP': 1},
 'NamedGroup': {'Sect163k1': 1, 'Sect163r1': 2, 'Sect163r2': 3, 'Sect193r1': 4, 'Sect193r2': 5, 'Sect233k1': 6, 'Sect233r1': 7,
    'Sect239k1': 8, 'Sect283k1': 9, 'Sect283r1': 10, 'Sect409k1': 11, 'Sect409r1': 12, 'Sect571k1': 13, 'Sect571r1': 14,
    'Secp160k1': 15, 'Secp160r1': 16, 'Secp160r2': 17, 'Secp192k1': 18, 'Secp192r1': 19, 'Secp224k1': 20, 'Secp224r1': 21,
    'Secp256k1': 22, 'Secp256r1': 23, 'Secp384r1': 24, 'Secp521r1': 25, 'BrainpoolP256r1': 26, 'BrainpoolP384r1': 27,
    'BrainpoolP512r1': 28, 'EcdhX25519': 29, 'EcdhX448': 30, 'BrainpoolP256r1tls13': 31, 'BrainpoolP384r1tls13': 32,
    'BrainpoolP512r1tls13': 33, 'Sm2': 41, 'Ffdhe2048': 256, 'Ffdhe3072': 257, 'Ffdhe4096': 258, 'Ffdhe6144': 259,
    'Ffdhe8192': 260, 'ArbitraryExplicitPrimeCurves': 0xff01, 'ArbitraryExplicitChar2Curves': 0xff02},
 'ECCurveType': {'ExplicitPrime': 1, 'ExplicitChar2': 2, 'NamedGroup': 3},
 'HashAlgorithm': {'None': 0, 'Md5': 1, 'Sha1': 2, 'Sha224': 3, 'Sha256': 4, 'Sha384': 5, 'Sha512': 6, 'Intrinsic': 8},
 'SignAlgorithm': {'Anonymous': 0, 'Rsa': 1, 'Dsa': 2, 'Ecdsa': 3, 'Ed25519': 7, 'Ed448': 8},
 'SignatureScheme': {'rsa_pkcs1_sha256': 0x0401, 'rsa_pkcs1_sha384': 0x0501, 'rsa_pkcs1_sha512': 0x0601,
    'ecdsa_secp256r1_sha256': 0x0403, 'ecdsa_secp384r1_sha384': 0x0503, 'ecdsa_secp521r1_sha512': 0x0603, 'sm2sig_sm3': 0x0708,
    'rsa_pss_rsae_sha256': 0x0804, 'rsa_pss_rsae_sha384': 0x0805, 'rsa_pss_rsae_sha512': 0x0806, 'ed25519': 0x0807, 'ed448': 0x0808,
    'rsa_pss_pss_sha256': 0x0809, 'rsa_pss_pss_sha384': 0x080a, 'rsa_pss_pss_sha512': 0x080b,
    'ecdsa_brainpoolP256r1tls13_sha256': 0x081a, 'ecdsa_brainpoolP384r1tls13_sha384': 0x081b,
    'ecdsa_brainpoolP512r1tls13_sha512': 0x081c, 'rsa_pkcs1_sha1': 0x0201, 'ecdsa_sha1': 0x0203},
 'CtVersion': {'V1': 0},
}
CONSTS = {'MAX_RECORD_LEN': 2 ** 14 + 256, 'MAX_RECORD_DATA': 10 * 1024 * 1024}

# width of each registry newtype in bits, and whether Display / Debug print names
WIDTH = {'TlsRecordType': 8, 'TlsHandshakeType': 8, 'TlsVersion': 16, 'TlsHeartbeatMessageType': 8, 'TlsCompressionID': 8,
         'KeyUpdateRequest': 8, 'TlsAlertSeverity': 8, 'TlsAlertDescription': 8, 'TlsExtensionType': 16, 'PskKeyExchangeMode': 8,
         'SNIType': 8, 'CertificateStatusType': 8, 'NamedGroup': 16, 'ECCurveType': 8, 'HashAlgorithm': 8, 'SignAlgorithm': 8,
         'SignatureScheme': 16, 'CtVersion': 8}
DISPLAY = [t for t in WIDTH if t not in ('KeyUpdateRequest', 'PskKeyExchangeMode')]
DEBUG_IS_DISPLAY = ['TlsRecordType', 'TlsHandshakeType', 'TlsVersion', 'TlsHeartbeatMessageType', 'TlsCompressionID',
                    'CertificateStatusType', 'NamedGroup']          # the `impl debug` blocks

import re


def curve_bits(name):
    """field size stated by a curve name of the form (Sect|Secp|BrainpoolP)<n>..., else None"""
    m = re.match(r'(Sect|Secp|BrainpoolP)(\d+)', name)
    return int(m.group(2)) if m else None
