#!/usr/bin/env python3
"""enc.py — independent RFC encoders for TLS/DTLS structures, with the canonical answer.

Oracle side of the differential test of the Rust crate `tls-parser` against the Lean model:
every `gen_*` writes the wire encoding of a random abstract value at the current position of a
core.Writer and returns the canonical value text (PROTOCOL.md grammar, absolute spans) that a
correct parser must answer.  Every length field goes through Writer.lenfield/close so that its
offset is recorded in `w.fields` (used by `corruptions`).

    gen_*(rng, w, ...) -> str        value generators
    cases_<family>(rng, n) -> [Case] request lines with their expected result
    corruptions(case, rng)           length-field mutations and truncations (expect=None)
    with_suffix(case, bytes)         same value, remainder increased (self-delimiting ops only)
    python3 enc.py --selftest [--seed N] [--n K] [--corrupt]

Sizes are biased to boundaries, code points are drawn from the whole field domain.
Deterministic given the rng.  Importing the module has no side effects.
"""
import os, sys, random, collections

sys.path.insert(0, os.path.dirname(os.path.abspath(__file__)))
import dictionary  # noqa: E402
from core import (Writer, span, opt, lst, hexs, run_lines, split_side, DRIVER,  # noqa: E402
                  build_harness, CARGO_TARGET, REPO)

HARNESS = CARGO_TARGET + '/debug/tlsverif'
MAX_REC = (1 << 14) + 256          # MAX_RECORD_LEN of the crate (RFC 8446 5.2 ciphertext bound)
BOUNDS = (0, 1, 2, 3, 31, 32, 33, 254, 255, 256)

# ------------------------------------------------------------------ random helpers


def rlen(rng, big=600, lo=0, hi=None):
    """a length in [lo, min(big, hi)], mostly a boundary value"""
    if MINIMAL:                      # count ladder, minimal variant: every variable-length field as short as it may be
        return lo
    m = big if hi is None else min(big, hi)
    m = max(m, lo)
    if rng.random() < 0.8:
        c = [b for b in BOUNDS if lo <= b <= m]
        if c:
            return rng.choice(c)
    return rng.randint(lo, m)


MANY = 0.03
FORCED = None
MINIMAL = False
MANY_COUNTS = (15, 16, 17, 31, 32, 33, 63, 64, 65, 100, 127, 128, 129, 255, 256, 257, 400)


def nrecords(rng):
    """number of records in one buffer / messages in one record: mostly a few, sometimes many"""
    return rng.choice(MANY_COUNTS) if rng.random() < 2 * MANY else rng.choice((1, 2, 2, 3, 4, 6))


def rcount(rng, lo=0, hi=40):
    """number of entries of a list: mostly 0..3, sometimes up to hi"""
    global FORCED
    if FORCED is not None:           # count ladder: the next list gets exactly this many entries
        n, FORCED = FORCED, None
        return max(lo, n)
    r = rng.random()
    if r >= 1 - MANY:
        # loops must also be driven far: counts around the powers of two an implementation might use as a limit
        return max(lo, rng.choice(MANY_COUNTS))
    n = (0 if r < .12 else 1 if r < .45 else 2 if r < .65 else 3 if r < .8
         else rng.randint(4, 8) if r < .95 else rng.randint(9, max(9, hi)))
    return max(lo, min(n, hi))


def pick_big(rng, cap=65535):
    """soft size bound of one case: 600 mostly, a few cases up to 16384 / 65535"""
    r = rng.random()
    return 600 if r < .93 else min(cap, 16384) if r < .98 else min(cap, 65535)


def code(rng, width, known=()):
    """a code point of `width` bytes: uniform over the whole domain, with a share of registered values"""
    if known and rng.random() < 0.25:
        return rng.choice(known)
    return rng.randrange(1 << (8 * width))


def each(big, total, n, overhead):
    """per-entry size bound so that n entries (+overhead each) stay under total"""
    return max(0, min(big, total // max(n, 1) - overhead))


def _fit(w, limit, gen, big):
    """run gen(big) at the current position; if it wrote more than `limit` bytes or overflowed a
    length field, roll back and retry with half the size bound (the rng stream simply continues)"""
    mark = (len(w.b), len(w.fields))
    while True:
        try:
            v = gen(big)
            if len(w.b) - mark[0] <= limit:
                return v
        except OverflowError:
            pass
        del w.b[mark[0]:]
        del w.fields[mark[1]:]
        big = max(big // 2, 1)


def ctor(name, *f):
    return '(%s)' % ' '.join([name] + [str(x) for x in f]) if f else name


def rbytes(rng, n, p=0.12):
    """n value bytes: random, or carrying a dictionary entry (protocol magic values and the literals of /repo's sources)"""
    return dictionary.plant(rng, n, dictionary.harvest(REPO), p)


def opaque(rng, w, width, n, kind):
    """length-prefixed random bytes -> span of the bytes"""
    h = w.lenfield(width, kind)
    s = w.raw(rbytes(rng, n))
    w.close(h)
    return s


def u16s(rng, w, n):
    vs = [rng.randrange(65536) for _ in range(n)]
    for v in vs:
        w.u(2, v)
    return lst([str(v) for v in vs])


def u8s(rng, w, n):
    bs = rng.randbytes(n)
    w.raw(bs)
    return lst([str(b) for b in bs])


VERSIONS = (0x0300, 0x0301, 0x0302, 0x0303, 0x0304, 0x7f12, 0x7f17, 0xfeff, 0xfefd)
GROUPS = (1, 23, 24, 25, 29, 30, 41, 0x100, 0x104, 0xff01, 0xff02)

# ------------------------------------------------------------------ DH / EC / signatures / SCT


def gen_named_groups(rng, w, n=None, big=600):
    """the whole input is a list of u16 groups -> [int...]"""
    n = rlen(rng, big, hi=32767) if n is None else n
    return u16s(rng, w, n)


def gen_dh(rng, w, big=600):
    """ServerDHParams: dh_p, dh_g, dh_Ys as opaque<..2^16-1>"""
    return ctor('DH', *[opaque(rng, w, 2, rlen(rng, big, hi=65535), 'dh_' + k) for k in ('p', 'g', 'ys')])


def gen_ec_params(rng, w, big=600, curve=None):
    """ECParameters: named_curve(3) + group, or explicit_prime(1) with six opaque<..255>"""
    curve = rng.choice((3, 3, 1)) if curve is None else curve
    w.u(1, curve)
    if curve == 3:
        g = code(rng, 2, GROUPS)
        w.u(2, g)
        return ctor('ECParams', 3, ctor('NamedGroup', g))
    fs = [opaque(rng, w, 1, rlen(rng, big, hi=255), 'ec_' + k)
          for k in ('p', 'a', 'b', 'base', 'order', 'cofactor')]
    return ctor('ECParams', 1, ctor('ExplicitPrime', *fs))


def gen_ecdh(rng, w, big=600, curve=None):
    p = gen_ec_params(rng, w, big, curve)
    return ctor('ECDH', p, opaque(rng, w, 1, rlen(rng, big, hi=255), 'ec_point'))


def gen_dsig(rng, w, new=True, big=600):
    """DigitallySigned: RFC 5246 form (hash, sign, opaque<..2^16-1>) or the RFC 2246 form"""
    alg = None
    if new:
        hs, sg = code(rng, 1, (0, 1, 2, 3, 4, 5, 6, 8)), code(rng, 1, (0, 1, 2, 3, 7, 8))
        w.u(1, hs)
        w.u(1, sg)
        alg = ctor('P', hs, sg)
    return ctor('DSig', opt(alg), opaque(rng, w, 2, rlen(rng, big, hi=65535), 'sig'))


def gen_sct_entry(rng, w, big=600):
    """RFC 6962 3.3 SerializedSCT: u16 length, then version, log id, timestamp, extensions, signature"""
    h = w.lenfield(2, 'sct')
    ver = code(rng, 1, (0,))
    w.u(1, ver)
    kid = w.raw(rbytes(rng, 32))
    ts = rng.choice((0, 1, (1 << 64) - 1, rng.randrange(1 << 64), rng.randrange(1 << 41)))
    w.u(8, ts)
    ext = opaque(rng, w, 2, rlen(rng, min(big, 4000), hi=65535), 'sct_ext')
    ds = gen_dsig(rng, w, True, min(big, 4000))
    w.close(h)
    return ctor('SCTE', ver, kid, ts, ext, ds)


def gen_sct_list(rng, w, big=600, n=None):
    def g(big):
        k = rcount(rng, 0, 12) if n is None else n
        h = w.lenfield(2, 'sct_list')
        vs = [gen_sct_entry(rng, w, each(big, 60000, k, 60)) for _ in range(k)]
        w.close(h)
        return lst(vs)
    return _fit(w, 65537, g, big)

# ------------------------------------------------------------------ extensions


def _x_sni(rng, w, big):
    if rng.random() < .15:
        return '(SNI [])'                       # empty extension_data (server side form)
    n = rcount(rng, 0, 20)
    cap = each(big, 60000, n, 3)
    h = w.lenfield(2, 'sni_list')
    it = []
    for _ in range(n):
        t = code(rng, 1, (0,))
        w.u(1, t)
        it.append(ctor('P', t, opaque(rng, w, 2, rlen(rng, cap), 'sni_name')))
    w.close(h)
    return ctor('SNI', lst(it))


def _x_byte(name, known=()):
    def f(rng, w, big):
        v = code(rng, 1, known)
        w.u(1, v)
        return ctor(name, v)
    return f


def _x_status_request(rng, w, big):
    if rng.random() < .3:
        return '(StatusRequest none)'
    t = code(rng, 1, (1, 2))
    w.u(1, t)
    return ctor('StatusRequest', opt(ctor('P', t, w.raw(rng.randbytes(rlen(rng, big, hi=65534))))))


def _x_u16list(name, kind):
    def f(rng, w, big):
        h = w.lenfield(2, kind)
        v = u16s(rng, w, rlen(rng, big, hi=32000))
        w.close(h)
        return ctor(name, v)
    return f


def _x_vec8(name, kind, owned=False):
    def f(rng, w, big):
        n = rlen(rng, big, hi=255)
        h = w.lenfield(1, kind)
        bs = rng.randbytes(n)
        s = w.raw(bs)
        w.close(h)
        return ctor(name, 'x:' + bs.hex() if owned else s)
    return f


def _x_alpn(rng, w, big):
    n = rcount(rng, 0, 40)
    h = w.lenfield(2, 'alpn_list')
    v = [opaque(rng, w, 1, rlen(rng, big, hi=255), 'alpn_name') for _ in range(n)]
    w.close(h)
    return ctor('ALPN', lst(v))


def _x_sct(rng, w, big):
    if rng.random() < .3:
        return '(SCT none)'                     # ClientHello form: empty extension_data
    if rng.random() < .5:                       # ServerHello form: a real SignedCertificateTimestampList
        p = w.pos()
        gen_sct_list(rng, w, min(big, 4000))
        return ctor('SCT', opt(span(p + 2, w.pos() - p - 2)))
    return ctor('SCT', opt(opaque(rng, w, 2, rlen(rng, big, hi=65533), 'sct_list')))


def _x_opaque(name):
    def f(rng, w, big):
        return ctor(name, w.raw(rng.randbytes(rlen(rng, big, hi=65535))))
    return f


def _x_empty(name):
    return lambda rng, w, big: name


def _x_record_size_limit(rng, w, big):
    v = code(rng, 2, (64, 16384, 16385))
    w.u(2, v)
    return ctor('RecordSizeLimit', v)


def _x_early_data(rng, w, big):
    if rng.random() < .5:
        return '(EarlyData none)'
    v = rng.choice((0, 1, (1 << 32) - 1, rng.randrange(1 << 32)))
    w.u(4, v)
    return ctor('EarlyData', opt(v))


def _x_supported_versions(rng, w, big):
    r = rng.random()
    if r < .35:                                  # ServerHello / HRR form: selected_version
        v = code(rng, 2, VERSIONS)
        w.u(2, v)
        return ctor('SupportedVersions', lst([str(v)]))
    n = 0 if r < .45 else rlen(rng, min(big, 127), lo=1, hi=127)
    h = w.lenfield(1, 'versions')                # ClientHello form: versions<2..254>
    vs = [code(rng, 2, VERSIONS) for _ in range(n)]
    for v in vs:
        w.u(2, v)
    w.close(h)
    return ctor('SupportedVersions', lst([str(v) for v in vs]))


def _x_oid_filters(rng, w, big):
    n = rcount(rng, 0, 30)
    cap = each(big, 60000, n, 3)
    h = w.lenfield(2, 'oid_list')
    it = []
    for _ in range(n):
        o = opaque(rng, w, 1, rlen(rng, cap, hi=255), 'oid')
        it.append(ctor('P', o, opaque(rng, w, 2, rlen(rng, cap), 'oid_val')))
    w.close(h)
    return ctor('OidFilters', lst(it))


def _x_esni(rng, w, big):
    c, g = code(rng, 2, (0x1301, 0x1302)), code(rng, 2, GROUPS)
    w.u(2, c)
    w.u(2, g)
    cap = min(big, 20000)
    return ctor('ESNI', c, g, *[opaque(rng, w, 2, rlen(rng, cap), 'esni_' + k)
                                for k in ('key_share', 'digest', 'sni')])


def _x_grease(rng, w, big, t):
    return ctor('Grease', t, w.raw(rbytes(rng, rlen(rng, big, hi=65535))))


def _x_unknown(rng, w, big, t):
    return ctor('Unknown', t, w.raw(rbytes(rng, rlen(rng, big, hi=65535))))


# kind -> (extension type, content generator).  28 variants of TlsExtension.
EXT = collections.OrderedDict([
    ('sni', (0, _x_sni)),
    ('max_fragment_length', (1, _x_byte('MaxFragmentLength', (1, 2, 3, 4)))),
    ('status_request', (5, _x_status_request)),
    ('elliptic_curves', (10, _x_u16list('EllipticCurves', 'groups'))),
    ('ec_point_formats', (11, _x_vec8('EcPointFormats', 'point_formats'))),
    ('signature_algorithms', (13, _x_u16list('SignatureAlgorithms', 'sig_algs'))),
    ('heartbeat', (15, _x_byte('Heartbeat', (1, 2)))),
    ('alpn', (16, _x_alpn)),
    ('sct', (18, _x_sct)),
    ('padding', (21, _x_opaque('Padding'))),
    ('encrypt_then_mac', (22, _x_empty('EncryptThenMac'))),
    ('extended_master_secret', (23, _x_empty('ExtendedMasterSecret'))),
    ('record_size_limit', (28, _x_record_size_limit)),
    ('session_ticket', (35, _x_opaque('SessionTicket'))),
    ('key_share_old', (40, _x_opaque('KeyShareOld'))),
    ('pre_shared_key', (41, _x_opaque('PreSharedKey'))),
    ('early_data', (42, _x_early_data)),
    ('supported_versions', (43, _x_supported_versions)),
    ('cookie', (44, _x_opaque('Cookie'))),
    ('psk_key_exchange_modes', (45, _x_vec8('PskExchangeModes', 'psk_modes', owned=True))),
    ('oid_filters', (48, _x_oid_filters)),
    ('post_handshake_auth', (49, _x_empty('PostHandshakeAuth'))),
    ('key_share', (51, _x_opaque('KeyShare'))),
    ('npn', (13172, _x_empty('NextProtocolNegotiation'))),
    ('renegotiation_info', (0xff01, _x_vec8('RenegotiationInfo', 'reneg'))),
    ('esni', (0xffce, _x_esni)),
    ('grease', (None, _x_grease)),
    ('unknown', (None, _x_unknown)),
])
EXT_KINDS = tuple(EXT)
KNOWN_EXT_TYPES = frozenset(t for t, _ in EXT.values() if t is not None)
GREASE_TYPES = tuple(0x0a0a + 0x1010 * k for k in range(16))
SERVER_EXT_TYPES = frozenset((0, 1, 5, 11, 13, 15, 16, 18, 22, 23, 28, 35, 41, 42, 43, 44, 51, 13172, 0xff01))
DISPATCHERS = ('ext', 'ext_client', 'ext_server')
# content of these kinds may be followed by junk inside the extension (map_parser drops it)
EXT_JUNK_OK = ('max_fragment_length', 'elliptic_curves', 'ec_point_formats', 'signature_algorithms', 'heartbeat',
               'alpn', 'record_size_limit', 'psk_key_exchange_modes', 'oid_filters', 'renegotiation_info', 'esni')


def ext_decoders(kind):
    """the dispatchers that decode `kind` as its own variant (the others answer Unknown)"""
    t = EXT[kind][0]
    if t is None:
        return DISPATCHERS
    return tuple(d for d in DISPATCHERS
                 if not (d == 'ext_client' and t == 40) and not (d == 'ext_server' and t not in SERVER_EXT_TYPES))


ExtInfo = collections.namedtuple('ExtInfo', 'kind etype vals typeof content')


def gen_extension_all(rng, w, kind=None, big=600, junk=0):
    """write one extension; -> ExtInfo with the expected value and TlsExtensionType per dispatcher"""
    kind = kind or rng.choice(EXT_KINDS)
    et, fn = EXT[kind]
    if kind == 'grease':
        et = rng.choice(GREASE_TYPES)
    elif kind == 'unknown':
        while et is None or et in KNOWN_EXT_TYPES or et in GREASE_TYPES:
            et = rng.choice((rng.randrange(65536), rng.randrange(64), rng.choice((2, 3, 4, 17, 47, 50, 0xfe0d))))

    def g(big):
        w.u(2, et)
        h = w.lenfield(2, 'ext')
        v = fn(rng, w, big, et) if kind in ('grease', 'unknown') else fn(rng, w, big)
        if junk:
            w.raw(rng.randbytes(junk))
        w.close(h)
        return v, w.span_since(h)
    v, content = _fit(w, 65539, g, big)
    unk = ctor('Unknown', et, content)
    dec = ext_decoders(kind)
    vals = {d: (v if d in dec else unk) for d in DISPATCHERS}
    # From<&TlsExtension> for TlsExtensionType: every Grease maps to 0xfafa, Unknown to its own type
    typeof = {d: (0xfafa if kind == 'grease' else et) for d in DISPATCHERS}
    return ExtInfo(kind, et, vals, typeof, content)


def gen_extension(rng, w, kind=None, disp='ext', big=600):
    return gen_extension_all(rng, w, kind, big).vals[disp]


def gen_extension_list_all(rng, w, n=None, big=600):
    n = rcount(rng, 0, 12) if n is None else n
    infos = [gen_extension_all(rng, w, None, big) for _ in range(n)]
    return {d: lst([i.vals[d] for i in infos]) for d in DISPATCHERS}


def gen_extension_list(rng, w, n=None, disp='ext', big=600):
    return gen_extension_list_all(rng, w, n, big)[disp]

# ------------------------------------------------------------------ handshake bodies


def _sid(rng, w):
    n = rng.choice((0, 0, 0, 1, 2, 16, 31, 32, 32, rng.randint(0, 32)))
    h = w.lenfield(1, 'sid')
    s = w.raw(rbytes(rng, n))
    w.close(h)
    return opt(s if n else None)


def _ext_block(rng, w, big, present):
    """optional `Extension extensions<0..2^16-1>` -> none | (some span-of-the-bytes)"""
    if not present:
        return 'none'

    def g(big):
        h = w.lenfield(2, 'exts')
        if rng.random() < .5:
            gen_extension_list_all(rng, w, rcount(rng, 0, 8), min(big, 2000))
        else:
            w.raw(rng.randbytes(rlen(rng, big, hi=65535)))
        w.close(h)
        return opt(w.span_since(h))
    return _fit(w, 65537, g, big)


def body_client_hello(rng, w, big=600, ext=None, dtls=False):
    ext = rng.random() < .6 if ext is None else ext
    ver = code(rng, 2, VERSIONS)
    w.u(2, ver)
    f = [ver, w.raw(rbytes(rng, 32, .25)), _sid(rng, w)]
    if dtls:
        f.append(opaque(rng, w, 1, rlen(rng, big, hi=255), 'cookie'))
    h = w.lenfield(2, 'ciphers')
    f.append(u16s(rng, w, rlen(rng, big, hi=32767)))
    w.close(h)
    h = w.lenfield(1, 'comp')
    f.append(u8s(rng, w, rlen(rng, big, hi=255)))
    w.close(h)
    f.append(_ext_block(rng, w, big, ext))
    return ctor('ClientHello', *f)


SH_VERSIONS = (0x0300, 0x0301, 0x0302, 0x0303, 0x7f12)


def body_server_hello(rng, w, big=600, version=None, ext=None, dtls=False):
    """TLS: version selects the layout (0x0300: no extensions; 0x7f12: draft-18). DTLS: always the 1.2 layout."""
    if version is None:
        version = code(rng, 2, VERSIONS) if dtls else rng.choice(SH_VERSIONS)
    ext = rng.random() < .6 if ext is None else ext
    w.u(2, version)
    rnd = w.raw(rbytes(rng, 32, .25))
    if version == 0x7f12 and not dtls:
        c = code(rng, 2, (0x1301, 0x1302, 0x1303))
        w.u(2, c)
        return ctor('ServerHello13d18', version, rnd, c, _ext_block(rng, w, big, ext))
    sid = _sid(rng, w)
    c, comp = code(rng, 2, (0x002f, 0xc02f, 0x1301)), code(rng, 1, (0, 1))
    w.u(2, c)
    w.u(1, comp)
    if version == 0x0300 and not dtls:
        ext = False
    return ctor('ServerHello', version, rnd, sid, c, comp, _ext_block(rng, w, big, ext))


def body_new_session_ticket(rng, w, big=600):
    """RFC 5077: u32 lifetime hint, opaque ticket<0..2^16-1>; the parser's `ticket` is the rest of the body"""
    hint = rng.choice((0, 1, (1 << 32) - 1, rng.randrange(1 << 32)))
    w.u(4, hint)
    p = w.pos()
    opaque(rng, w, 2, rlen(rng, big, hi=65535), 'ticket')
    return ctor('NewSessionTicket', hint, span(p, w.pos() - p))


def body_hello_retry_request(rng, w, big=600, ext=None):
    ext = rng.random() < .6 if ext is None else ext
    v, c = code(rng, 2, VERSIONS), code(rng, 2, (0x1301, 0x1302))
    w.u(2, v)
    w.u(2, c)
    return ctor('HelloRetryRequest', v, c, _ext_block(rng, w, big, ext))


def body_certificate(rng, w, big=600):
    n = rcount(rng, 0, 30)
    h = w.lenfield(3, 'cert_list')
    v = [opaque(rng, w, 3, rlen(rng, big), 'cert') for _ in range(n)]
    w.close(h)
    return ctor('Certificate', lst(v))


def body_certificate_request(rng, w, big=600, form=None):
    """form 'full' = TLS 1.2 (with supported_signature_algorithms), 'legacy' = TLS 1.0/1.1"""
    form = form or rng.choice(('full', 'full', 'legacy'))
    h = w.lenfield(1, 'cert_types')
    types = u8s(rng, w, rlen(rng, big, hi=255))
    w.close(h)
    algs = None
    if form == 'full':
        h = w.lenfield(2, 'sig_algs')
        algs = u16s(rng, w, rlen(rng, big, hi=32767))
        w.close(h)
    n = rcount(rng, 0, 30)
    cap = each(big, 60000, n, 2)
    h = w.lenfield(2, 'ca_list')
    cas = [opaque(rng, w, 2, rlen(rng, cap), 'ca') for _ in range(n)]
    w.close(h)
    return ctor('CertificateRequest', types, opt(algs), lst(cas))


def _body_opaque(name, inner=None):
    def f(rng, w, big=600):
        p = w.pos()
        if name == 'ServerKeyExchange' and rng.random() < .5:      # a real DHE/ECDHE ServerKeyExchange
            (gen_dh if rng.random() < .5 else gen_ecdh)(rng, w, min(big, 2000))
            gen_dsig(rng, w, rng.random() < .5, min(big, 2000))
        elif name == 'ServerDone' and rng.random() < .7:
            pass                                                   # RFC: struct { } ServerHelloDone
        else:
            w.raw(rng.randbytes(rlen(rng, big)))
        s = span(p, w.pos() - p)
        return ctor(name, ctor(inner, s) if inner else s)
    return f


def body_certificate_status(rng, w, big=600):
    t = code(rng, 1, (1, 2))
    w.u(1, t)
    return ctor('CertificateStatus', t, opaque(rng, w, 3, rlen(rng, big), 'ocsp'))


def body_key_update(rng, w, big=600):
    v = code(rng, 1, (0, 1))
    w.u(1, v)
    return ctor('KeyUpdate', v)


def body_next_protocol(rng, w, big=600):
    return ctor('NextProtocol', opaque(rng, w, 1, rlen(rng, big, hi=255), 'np_selected'),
                opaque(rng, w, 1, rlen(rng, big, hi=255), 'np_padding'))


# kind -> (handshake type, body generator); server_hello covers ServerHello and ServerHelloV13Draft18
HS = collections.OrderedDict([
    ('hello_request', (0, lambda rng, w, big=600: 'HelloRequest')),
    ('client_hello', (1, body_client_hello)),
    ('server_hello', (2, body_server_hello)),
    ('new_session_ticket', (4, body_new_session_ticket)),
    ('end_of_early_data', (5, lambda rng, w, big=600: 'EndOfEarlyData')),
    ('hello_retry_request', (6, body_hello_retry_request)),
    ('certificate', (11, body_certificate)),
    ('server_key_exchange', (12, _body_opaque('ServerKeyExchange'))),
    ('certificate_request', (13, body_certificate_request)),
    ('server_done', (14, _body_opaque('ServerDone'))),
    ('certificate_verify', (15, _body_opaque('CertificateVerify'))),
    ('client_key_exchange', (16, _body_opaque('ClientKeyExchange', 'Unknown'))),
    ('finished', (20, _body_opaque('Finished'))),
    ('certificate_status', (22, body_certificate_status)),
    ('key_update', (24, body_key_update)),
    ('next_protocol', (0x43, body_next_protocol)),
])
HS_KINDS = tuple(HS)


def gen_hs_body(rng, w, kind, big=600, **kw):
    """the body of a handshake message at the current position -> handshake value"""
    return _fit(w, (1 << 24) - 1, lambda b: HS[kind][1](rng, w, b, **kw), big)


def gen_handshake_msg(rng, w, kind=None, big=600, junk=0, **kw):
    """a full handshake message (type, u24 length, body) -> handshake value without the (Hs ..) wrapper.
    junk > 0 appends that many bytes inside the body after the structure (ignored by the parser
    for the kinds where the body is self-delimiting)."""
    kind = kind or rng.choice(HS_KINDS)

    def g(big):
        w.u(1, HS[kind][0])
        h = w.lenfield(3, 'hs')
        v = HS[kind][1](rng, w, big, **kw)
        if junk:
            w.raw(rng.randbytes(junk))
        w.close(h)
        return v
    return _fit(w, (1 << 24) + 3, g, big)


def gen_hs_message(rng, w, kind=None, big=600, **kw):
    """same, as a TlsMessage: (Hs <value>)"""
    return ctor('Hs', gen_handshake_msg(rng, w, kind, big, **kw))

# ------------------------------------------------------------------ TLS records


RECORD_TYPES = (20, 21, 22, 23, 24)


def gen_alert(rng, w):
    s, c = code(rng, 1, (1, 2)), code(rng, 1, (0, 10, 40, 70, 80, 112))
    w.u(1, s)
    w.u(1, c)
    return ctor('Alert', s, c)


def gen_record_payload(rng, w, ctype, big=600, hs_kind=None):
    """the fragment of a plaintext record of type ctype -> ([msg...], heartbeat padding length)"""
    pad = 0
    if ctype == 20:
        n = rlen(rng, big, lo=1, hi=MAX_REC)
        w.raw(b'\x01' * n)
        msgs = ['CCS'] * n
    elif ctype == 21:
        msgs = [gen_alert(rng, w) for _ in range(rlen(rng, min(big, 600), lo=1, hi=MAX_REC // 2))]
    elif ctype == 22:
        k = rng.choice(MANY_COUNTS) if rng.random() < MANY else rng.choice((1, 1, 1, 2, 2, 3, 4))
        msgs = [gen_hs_message(rng, w, hs_kind, big if k < 8 else min(big, 6000 // k)) for _ in range(k)]
    elif ctype == 23:
        n = rng.choice((16383, 16384, 16385, MAX_REC - 1, MAX_REC)) if rng.random() < .05 else rlen(rng, big, hi=MAX_REC)
        msgs = [ctor('App', w.raw(rng.randbytes(n)))]
    elif ctype == 24:
        t = code(rng, 1, (1, 2))
        w.u(1, t)
        h = w.lenfield(2, 'hb_payload')
        p = w.raw(rng.randbytes(rlen(rng, big, hi=MAX_REC - 3)))
        n = w.close(h)
        pad = rng.choice((0, 0, 16, 16, 17, rlen(rng, big)))
        w.raw(rng.randbytes(pad))
        msgs = [ctor('Hb', t, n, p)]
    else:
        raise ValueError(ctype)
    return msgs, pad


def gen_plaintext_record(rng, w, ctype=None, big=600, hs_kind=None):
    """TLSPlaintext: type, version, u16 length, fragment (at most 2^14+256 bytes) -> (Plain (Hdr t v len) [msgs])"""
    ctype = rng.choice(RECORD_TYPES) if ctype is None else ctype

    def g(big):
        v = code(rng, 2, VERSIONS)
        w.u(1, ctype)
        w.u(2, v)
        h = w.lenfield(2, 'rec')
        msgs, _ = gen_record_payload(rng, w, ctype, big, hs_kind)
        n = w.close(h)
        return ctor('Plain', ctor('Hdr', ctype, v, n), lst(msgs))
    return _fit(w, MAX_REC + 5, g, big)


def gen_opaque_record(rng, w, name, big=600):
    """a record whose fragment is not interpreted -> (Raw hdr data) | (Enc hdr blob); any type, any version"""
    t, v = code(rng, 1, RECORD_TYPES), code(rng, 2, VERSIONS)
    n = rng.choice((16384, MAX_REC - 1, MAX_REC)) if rng.random() < .05 else rlen(rng, big, hi=MAX_REC)
    w.u(1, t)
    w.u(2, v)
    return ctor(name, ctor('Hdr', t, v, n), opaque(rng, w, 2, n, 'rec'))

# ------------------------------------------------------------------ DTLS


DTLS_HS = collections.OrderedDict([
    ('client_hello', (1, lambda rng, w, big: body_client_hello(rng, w, big, dtls=True))),
    ('hello_verify_request', (3, None)),
    ('server_hello', (2, lambda rng, w, big: body_server_hello(rng, w, big, dtls=True))),
    ('certificate', (11, body_certificate)),
    ('server_done', (14, _body_opaque('ServerDone'))),
    ('client_key_exchange', (16, _body_opaque('ClientKeyExchange', 'Unknown'))),
    ('fragment', (None, None)),
])
DTLS_HS_KINDS = tuple(DTLS_HS)
DTLS_VERSIONS = (0xfeff, 0xfefd, 0xfefc, 0x0303)


def body_hello_verify_request(rng, w, big=600):
    v = code(rng, 2, DTLS_VERSIONS)
    w.u(2, v)
    return ctor('HelloVerifyRequest', v, opaque(rng, w, 1, rlen(rng, big, hi=255), 'cookie'))


DTLS_HS['hello_verify_request'] = (3, body_hello_verify_request)


def gen_dtls_handshake_msg(rng, w, kind=None, big=600):
    """DTLS handshake message with the 12-byte header -> (M isfrag (Hs type length seq off flen body))"""
    kind = kind or rng.choice(DTLS_HS_KINDS)
    seq = code(rng, 2, (0, 1))
    if kind == 'fragment':
        t = code(rng, 1, tuple(v[0] for v in HS.values()))
        flen = rlen(rng, big)
        extra = rng.choice((1, 1, 2, rlen(rng, big, lo=1), rng.randint(1, (1 << 24) - 1 - flen)))
        length = flen + extra                    # so that fragment_length < length
        off = rng.choice((0, extra, rng.randint(0, extra)))
        w.u(1, t)
        w.close(w.lenfield(3, 'dhs_len'), length)
        w.u(2, seq)
        w.u(3, off)
        frag = opaque(rng, w, 3, flen, 'dhs_flen')
        return ctor('M', 1, ctor('Hs', t, length, seq, off, flen, ctor('Fragment', frag)))
    t, fn = DTLS_HS[kind]

    def g(big):
        w.u(1, t)
        h1 = w.lenfield(3, 'dhs_len')
        w.u(2, seq)
        w.u(3, 0)
        h2 = w.lenfield(3, 'dhs_flen')
        body = fn(rng, w, big)
        n = w.close(h2)
        w.close(h1, n)                           # unfragmented: length == fragment_length
        return ctor('M', 0, ctor('Hs', t, n, seq, 0, n, body))
    return _fit(w, 1 << 24, g, big)


def gen_dtls_payload(rng, w, ctype, big=600, hs_kind=None):
    if ctype == 20:
        n = rlen(rng, big, lo=1, hi=MAX_REC)
        w.raw(b'\x01' * n)
        return ['(M 0 CCS)'] * n
    if ctype == 21:
        return [ctor('M', 0, gen_alert(rng, w)) for _ in range(rlen(rng, min(big, 600), lo=1))]
    if ctype == 22:
        return [gen_dtls_handshake_msg(rng, w, hs_kind, big) for _ in range(rng.choice((1, 1, 1, 2, 2, 3, 4)))]
    raise ValueError(ctype)


def gen_dtls_record(rng, w, ctype=None, big=600, hs_kind=None):
    """DTLSPlaintext (RFC 6347 4.1) -> (DPlain (DHdr t v epoch seq len) [(M isfrag msg)...])"""
    ctype = rng.choice((22, 22, 22, 20, 21)) if ctype is None else ctype

    def g(big):
        v, ep = code(rng, 2, DTLS_VERSIONS), code(rng, 2, (0, 1))
        sq = rng.choice((0, 1, (1 << 48) - 1, rng.randrange(1 << 48)))
        w.u(1, ctype)
        w.u(2, v)
        w.u(2, ep)
        w.u(6, sq)
        h = w.lenfield(2, 'drec')
        msgs = gen_dtls_payload(rng, w, ctype, big, hs_kind)
        n = w.close(h)
        return ctor('DPlain', ctor('DHdr', ctype, v, ep, sq, n), lst(msgs))
    return _fit(w, MAX_REC + 13, g, big)

# ------------------------------------------------------------------ cases


class Case:
    """one request line with its expected result (None = no expectation).
    value / rem are the parts of an `ok` expectation; sd tells whether the op is self-delimiting
    on this input (appending bytes only lengthens the remainder)."""
    __slots__ = ('line', 'expect', 'fam', 'fields', 'buf', 'op', 'value', 'rem', 'sd')

    def __init__(self, fam, op, buf, fields, value=None, rem=0, sd=True, expect=''):
        self.fam, self.op, self.buf = fam, tuple(op), bytes(buf)
        self.fields = [list(f) for f in fields]
        self.value, self.rem, self.sd = value, rem, sd
        self.line = ' '.join(self.op + (hexs(self.buf),))
        self.expect = ('ok %d %s' % (rem, value) if value is not None else None) if expect == '' else expect

    def __repr__(self):
        return 'Case(%s: %s -> %s)' % (self.fam, self.line[:80], (self.expect or 'None')[:80])


def _trail(rng, w, p=.5, lo=1, hi=None):
    """append random trailing bytes after the structure with probability p -> their number"""
    if rng.random() >= p:
        return 0
    n = rlen(rng, 40, lo=lo, hi=hi)
    w.raw(rng.randbytes(n))
    return n


FAMILIES = collections.OrderedDict()


def _fam(name, one):
    """register family `name`; one(rng) -> Case.  Defines cases_<name>(rng, n)."""
    def cases(rng, n):
        out = []
        for _ in range(n):
            c = one(rng)
            c.fam = name
            out.append(c)
        return out
    cases.__name__ = 'cases_' + name
    cases.__doc__ = 'n cases of family %s' % name
    FAMILIES[name] = cases
    globals()['cases_' + name] = cases
    return cases


def _simple(name, op, gen, sd=True, trail=True, cap=65535):
    """family of a pure op whose whole input is one generated structure (+ optional trailing bytes)"""
    def one(rng):
        w = Writer()
        v = gen(rng, w, pick_big(rng, cap))
        rem = _trail(rng, w) if (trail and sd) else 0
        return Case(name, op, w.b, w.fields, v, rem, sd)
    return _fam(name, one)


# --- TLS records
for _op in ('tls_plaintext', 'tls_parser'):
    _simple(_op, [_op], lambda rng, w, big: gen_plaintext_record(rng, w, None, big))
_simple('tls_raw', ['tls_raw'], lambda rng, w, big: gen_opaque_record(rng, w, 'Raw', big))
_simple('tls_encrypted', ['tls_encrypted'], lambda rng, w, big: gen_opaque_record(rng, w, 'Enc', big))
for _t in RECORD_TYPES:                      # one family per content type so that each gets its share
    _simple('tls_plaintext_%d' % _t, ['tls_plaintext'], lambda rng, w, big, t=_t: gen_plaintext_record(rng, w, t, big))


def _one_tls_header(rng):
    w = Writer()
    t, v, n = code(rng, 1, RECORD_TYPES), code(rng, 2, VERSIONS), code(rng, 2, (0, MAX_REC, MAX_REC + 1))
    w.u(1, t)
    w.u(2, v)
    w.u(2, n)
    return Case('', ['tls_header'], w.b, w.fields, ctor('Hdr', t, v, n), _trail(rng, w))


_fam('tls_header', _one_tls_header)


def _one_tls_many(rng):
    w = Writer()
    k = nrecords(rng)
    recs = [gen_plaintext_record(rng, w, None, 600 if k < 8 else 6) for _ in range(k)]
    rem = _trail(rng, w, .4, 1, 4)            # fewer than 5 bytes cannot start another record
    return Case('', ['tls_many'], w.b, w.fields, lst(recs), rem, sd=False)


_fam('tls_many', _one_tls_many)


def _one_rec_with_hdr(rng):
    w = Writer()
    t, v = rng.choice(RECORD_TYPES), code(rng, 2, VERSIONS)
    msgs, pad = _fit(w, MAX_REC, lambda b: gen_record_payload(rng, w, t, b), pick_big(rng, 16384))
    # the heartbeat arm is not confined by map_parser here: the padding is the remainder
    return Case('', ['rec_with_hdr', str(t), str(v), str(len(w.b))], w.b, w.fields, lst(msgs), pad, sd=False)


_fam('rec_with_hdr', _one_rec_with_hdr)


def _one_too_large(rng):
    """length above 2^14+256 -> error TooLarge whatever follows (the only negative expectation here)"""
    w = Writer()
    op = rng.choice(('tls_plaintext', 'tls_raw', 'tls_encrypted', 'dtls_record'))
    n = rng.choice((MAX_REC + 1, MAX_REC + 2, 65535, rng.randint(MAX_REC + 1, 65535)))
    w.u(1, rng.choice((20, 21, 22) if op == 'dtls_record' else RECORD_TYPES))
    w.u(2, code(rng, 2, VERSIONS))
    if op == 'dtls_record':
        w.u(8, rng.randrange(1 << 64))
    h = w.lenfield(2, 'rec')
    w.raw(rng.randbytes(rng.choice((0, 1, 40, n))))
    w.close(h, n)
    return Case('', [op], w.b, w.fields, None, sd=False, expect='error TooLarge')


_fam('too_large', _one_too_large)

# --- messages


def _one_msg_handshake(rng, kind=None):
    w = Writer()
    v = gen_hs_message(rng, w, kind, pick_big(rng))
    return Case('', ['msg_handshake'], w.b, w.fields, v, _trail(rng, w))


_fam('msg_handshake', _one_msg_handshake)
for _k in HS_KINDS:
    _fam('msg_handshake_' + _k, lambda rng, k=_k: _one_msg_handshake(rng, k))


def _one_msg_simple(rng):
    w = Writer()
    k = rng.randrange(3)
    if k == 0:
        w.u(1, 1)
        return Case('', ['msg_ccs'], w.b, w.fields, 'CCS', _trail(rng, w))
    if k == 1:
        v = gen_alert(rng, w)
        return Case('', ['msg_alert'], w.b, w.fields, v, _trail(rng, w))
    v = ctor('App', w.raw(rng.randbytes(rlen(rng, pick_big(rng)))))
    return Case('', ['msg_appdata'], w.b, w.fields, v, 0, sd=False)


_fam('msg_simple', _one_msg_simple)


def _one_msg_heartbeat(rng):
    w = Writer()
    msgs, pad = gen_record_payload(rng, w, 24, pick_big(rng, 16000))
    n = len(w.b)
    return Case('', ['msg_heartbeat', str(n)], w.b, w.fields, lst(msgs), pad + _trail(rng, w))


_fam('msg_heartbeat', _one_msg_heartbeat)

# --- handshake bodies fed directly


def _hs_body_fam(op, kind, needs_len=False, **kw):
    def one(rng):
        w = Writer()
        k = dict(kw)
        sd = True
        if kind in ('client_hello', 'server_hello', 'hello_retry_request'):
            k['ext'] = rng.random() < .6
            if kind == 'server_hello':
                k['version'] = rng.choice(SH_VERSIONS[:4] if op == 'hs_server_hello' else SH_VERSIONS)
            sd = k['ext'] or k.get('version') == 0x0300    # an absent block is only recognised at end of input
        if kind == 'certificate_request':
            k['form'] = rng.choice(('full', 'full', 'legacy'))
            sd = k['form'] == 'full'                       # the legacy form relies on the body being confined
        v = gen_hs_body(rng, w, kind, pick_big(rng), **k)
        n = len(w.b)
        rem = _trail(rng, w) if sd else 0
        if kind == 'hello_request':
            rem = len(w.b)                                 # consumes nothing
        return Case('', [op] + ([str(n)] if needs_len else []), w.b, w.fields, v, rem, sd)
    return _fam(op, one)


_hs_body_fam('hs_hello_request', 'hello_request')
_hs_body_fam('hs_client_hello', 'client_hello')
_hs_body_fam('hs_msg_client_hello', 'client_hello')
_hs_body_fam('hs_server_hello', 'server_hello')
_hs_body_fam('hs_msg_server_hello', 'server_hello')
_hs_body_fam('hs_newsessionticket', 'new_session_ticket', True)
_hs_body_fam('hs_hello_retry_request', 'hello_retry_request')
_hs_body_fam('hs_certificate', 'certificate')
_hs_body_fam('hs_serverkeyexchange', 'server_key_exchange', True)
_hs_body_fam('hs_serverdone', 'server_done', True)
_hs_body_fam('hs_certificateverify', 'certificate_verify', True)
_hs_body_fam('hs_clientkeyexchange', 'client_key_exchange', True)
_hs_body_fam('hs_finished', 'finished', True)
_hs_body_fam('hs_certificaterequest', 'certificate_request')
_hs_body_fam('hs_msg_certificaterequest', 'certificate_request')
_hs_body_fam('hs_certificatestatus', 'certificate_status')
_hs_body_fam('hs_msg_certificatestatus', 'certificate_status')
_hs_body_fam('hs_next_protocol', 'next_protocol')
_hs_body_fam('hs_msg_next_protocol', 'next_protocol')
_hs_body_fam('hs_key_update', 'key_update')

# --- extensions


def _ext_fam(disp, kind=None, typeof=False):
    def one(rng):
        w = Writer()
        info = gen_extension_all(rng, w, kind, pick_big(rng))
        rem = _trail(rng, w)
        if typeof:
            return Case('', ['ext_type_of', disp], w.b, w.fields, str(info.typeof[disp]), rem)
        return Case('', [disp], w.b, w.fields, info.vals[disp], rem)
    return one


for _d in DISPATCHERS:
    _fam(_d, _ext_fam(_d))
    _fam('ext_type_of_' + _d, _ext_fam(_d, typeof=True))
_fam('ext_type_of', lambda rng: _ext_fam(rng.choice(DISPATCHERS), typeof=True)(rng))
for _k in EXT_KINDS:                         # per-variant families, dispatcher drawn per case
    _fam('ext_kind_' + _k, lambda rng, k=_k: _ext_fam(rng.choice(DISPATCHERS), k)(rng))


def _exts_fam(disp):
    def one(rng):
        w = Writer()
        vals = _fit(w, 1 << 20, lambda b: gen_extension_list_all(rng, w, None, b), pick_big(rng, 16384))
        return Case('', ['exts' + disp[3:]], w.b, w.fields, vals[disp], 0, sd=False)
    return one


for _d in DISPATCHERS:
    _fam('exts' + _d[3:], _exts_fam(_d))

# tag-specific parsers (whole extension) and public content parsers (extension_data only)
EXT_TAG = {'sni': 'sni', 'max_fragment_length': 'max_fragment_length', 'status_request': 'status_request',
           'elliptic_curves': 'elliptic_curves', 'ec_point_formats': 'ec_point_formats',
           'signature_algorithms': 'signature_algorithms', 'heartbeat': 'heartbeat',
           'encrypt_then_mac': 'encrypt_then_mac', 'extended_master_secret': 'extended_master_secret',
           'session_ticket': 'session_ticket', 'key_share': 'key_share', 'pre_shared_key': 'pre_shared_key',
           'early_data': 'early_data', 'supported_versions': 'supported_versions', 'cookie': 'cookie',
           'psk_key_exchange_modes': 'psk_key_exchange_modes'}
EXT_C = {'sni': 'sni', 'max_fragment_length': 'max_fragment_length', 'elliptic_curves': 'elliptic_curves',
         'ec_point_formats': 'ec_point_formats', 'signature_algorithms': 'signature_algorithms',
         'heartbeat': 'heartbeat', 'alpn': 'alpn', 'sct': 'signed_certificate_timestamp',
         'psk_key_exchange_modes': 'psk_key_exchange_modes', 'renegotiation_info': 'renegotiation_info',
         'esni': 'encrypted_server_name'}


def _one_ext_tag(rng):
    w = Writer()
    kind = rng.choice(sorted(EXT_TAG))
    info = gen_extension_all(rng, w, kind, pick_big(rng))
    return Case('', ['ext_tag_' + EXT_TAG[kind]], w.b, w.fields, info.vals['ext'], _trail(rng, w))


def _one_ext_c(rng):
    w = Writer()
    kind = rng.choice(sorted(EXT_C))
    v = _fit(w, 65535, lambda b: EXT[kind][1](rng, w, b), pick_big(rng))
    sd = len(w.b) > 0                        # empty SNI / SCT content is recognised by emptiness
    return Case('', ['ext_c_' + EXT_C[kind]], w.b, w.fields, v, _trail(rng, w) if sd else 0, sd)


def _one_ext_misc(rng):
    w = Writer()
    if rng.random() < .5:                    # parse_tls_extension_unknown: any type, raw data
        t = code(rng, 2, tuple(KNOWN_EXT_TYPES))
        w.u(2, t)
        v = ctor('Unknown', t, opaque(rng, w, 2, rlen(rng, pick_big(rng), hi=65535), 'ext'))
        return Case('', ['ext_unknown'], w.b, w.fields, v, _trail(rng, w))
    t = code(rng, 1, (0,))
    w.u(1, t)
    v = ctor('P', t, opaque(rng, w, 2, rlen(rng, pick_big(rng), hi=65535), 'sni_name'))
    return Case('', ['ext_sni_hostname'], w.b, w.fields, v, _trail(rng, w))


_fam('ext_tag', _one_ext_tag)
_fam('ext_c', _one_ext_c)
_fam('ext_misc', _one_ext_misc)

# --- DH / EC / signatures / SCT
_simple('dh', ['dh'], gen_dh)
_simple('ec_params', ['ec_params'], gen_ec_params)
_simple('ecdh', ['ecdh'], gen_ecdh)
_simple('dsig', ['dsig'], lambda rng, w, big: gen_dsig(rng, w, True, big))
_simple('dsig_old', ['dsig_old'], lambda rng, w, big: gen_dsig(rng, w, False, big))
_simple('sct', ['sct'], lambda rng, w, big: gen_sct_entry(rng, w, min(big, 16384)))
_simple('sct_list', ['sct_list'], gen_sct_list)
_simple('named_groups', ['named_groups'], lambda rng, w, big: gen_named_groups(rng, w, None, big), sd=False)


def _one_content_sig(rng):
    w = Writer()
    kx, new = rng.choice(('dh', 'ecdh')), rng.random() < .5
    big = pick_big(rng, 16384)
    c = (gen_dh if kx == 'dh' else gen_ecdh)(rng, w, big)
    v = ctor('P', c, gen_dsig(rng, w, new, big))
    return Case('', ['content_sig', kx, '1' if new else '0'], w.b, w.fields, v, _trail(rng, w))


_fam('content_sig', _one_content_sig)


def _one_content_sig_dual(rng):
    """bytes that are a well-formed signature under BOTH readings: (hash, sign, u16 L, L bytes) where the first
    two bytes, read as a legacy u16 length, cover exactly the rest (L + 2) - with or without trailing bytes. Which value
    comes out must depend on the caller's flag alone."""
    w = Writer()
    kx, new = rng.choice(('dh', 'ecdh')), rng.random() < .5
    c = (gen_dh if kx == 'dh' else gen_ecdh)(rng, w, rng.choice((4, 40)))
    L = rng.choice((0, 1, 2, 3, 253, 254, 255, 256, 510, 1023, 1025, 4094, rng.randrange(0, 3000)))
    start = w.pos()
    w.u(2, L + 2)
    w.u(2, L)
    body = w.raw(rng.randbytes(L))
    if new:
        v = ctor('P', c, ctor('DSig', opt(ctor('P', (L + 2) >> 8, (L + 2) & 255)), body))
    else:
        v = ctor('P', c, ctor('DSig', 'none', span(start + 2, L + 2)))
    return Case('', ['content_sig', kx, '1' if new else '0'], w.b, w.fields, v, _trail(rng, w, .3))


_fam('content_sig_dual', _one_content_sig_dual)

# --- DTLS
_simple('dtls_record', ['dtls_record'], lambda rng, w, big: gen_dtls_record(rng, w, None, big))
_simple('dtls_hs', ['dtls_hs'], lambda rng, w, big: gen_dtls_handshake_msg(rng, w, None, big))
for _k in DTLS_HS_KINDS:
    _simple('dtls_hs_' + _k, ['dtls_hs'], lambda rng, w, big, k=_k: gen_dtls_handshake_msg(rng, w, k, big))


def _one_dtls_records(rng):
    w = Writer()
    k = nrecords(rng)
    recs = [gen_dtls_record(rng, w, None, 600 if k < 8 else 6) for _ in range(k)]
    rem = _trail(rng, w, .4, 1, 12)           # fewer than 13 bytes cannot start another record
    return Case('', ['dtls_records'], w.b, w.fields, lst(recs), rem, sd=False)


def _one_dtls_misc(rng):
    w = Writer()
    k = rng.randrange(4)
    if k == 0:
        t, v, ep = code(rng, 1, RECORD_TYPES), code(rng, 2, DTLS_VERSIONS), code(rng, 2)
        sq, n = rng.randrange(1 << 48), code(rng, 2)
        for width, x in ((1, t), (2, v), (2, ep), (6, sq), (2, n)):
            w.u(width, x)
        return Case('', ['dtls_header'], w.b, w.fields, ctor('DHdr', t, v, ep, sq, n), _trail(rng, w))
    if k == 1:
        w.u(1, 1)
        return Case('', ['dtls_ccs'], w.b, w.fields, '(M 0 CCS)', _trail(rng, w))
    if k == 2:
        v = ctor('M', 0, gen_alert(rng, w))
        return Case('', ['dtls_alert'], w.b, w.fields, v, _trail(rng, w))
    t, v = rng.choice((20, 21, 22)), code(rng, 2, DTLS_VERSIONS)
    msgs = _fit(w, MAX_REC, lambda b: gen_dtls_payload(rng, w, t, b), pick_big(rng, 16384))
    return Case('', ['dtls_rec_with_hdr', str(t), str(v), str(len(w.b))], w.b, w.fields, lst(msgs), 0, sd=False)


_fam('dtls_records', _one_dtls_records)
_fam('dtls_misc', _one_dtls_misc)

# --- documented quirks of the parsers (non-RFC inputs whose answer is nevertheless determined)
HS_JUNK_OK = ('hello_request', 'end_of_early_data', 'certificate', 'certificate_status', 'key_update',
              'next_protocol', 'certificate_request', 'client_hello', 'server_hello', 'hello_retry_request')


def _one_quirk(rng):
    w = Writer()
    r = rng.randrange(4)
    if r == 0:                                # junk after a self-delimiting handshake body is dropped
        kind = rng.choice(HS_JUNK_OK)
        kw = {}
        junk = rlen(rng, 40, lo=1)
        if kind in ('client_hello', 'server_hello', 'hello_retry_request'):
            kw['ext'] = rng.random() < .5
            if kind == 'server_hello':
                kw['version'] = rng.choice(SH_VERSIONS)
            if not kw['ext'] and kw.get('version') != 0x0300:
                junk = 1                      # one stray byte cannot be a u16 length: ext = none
        if kind == 'certificate_request':
            kw['form'] = 'full'
        v = gen_hs_message(rng, w, kind, 600, junk=junk, **kw)
        return Case('', ['msg_handshake'], w.b, w.fields, v, _trail(rng, w))
    if r == 1:                                # junk after the structure inside extension_data is dropped
        kind = rng.choice(EXT_JUNK_OK)
        d = rng.choice(DISPATCHERS)
        info = gen_extension_all(rng, w, kind, 600, junk=rlen(rng, 40, lo=1))
        return Case('', [d], w.b, w.fields, info.vals[d], _trail(rng, w))
    if r == 2:                                # ClientHello body + exactly one byte, fed directly: ext none, rem 1
        v = gen_hs_body(rng, w, 'client_hello', 600, ext=False)
        w.raw(rng.randbytes(1))
        return Case('', ['hs_client_hello'], w.b, w.fields, v, 1, sd=False)
    n = rng.choice((2, 3, 5))                 # several CCS / alerts in one DTLS or TLS record are all returned
    v = code(rng, 2, VERSIONS)
    w.u(1, 20)
    w.u(2, v)
    h = w.lenfield(2, 'rec')
    w.raw(b'\x01' * n)
    w.close(h)
    return Case('', ['tls_plaintext'], w.b, w.fields, ctor('Plain', ctor('Hdr', 20, v, n), lst(['CCS'] * n)), _trail(rng, w))


_fam('quirks', _one_quirk)

# ------------------------------------------------------------------ derived cases


def with_suffix(case, suffix):
    """the same structure followed by `suffix`: same value, remainder longer by len(suffix).
    None when the op is not self-delimiting on this input (or the case has no ok expectation)."""
    if not case.sd or case.value is None:
        return None
    return Case(case.fam, case.op, case.buf + bytes(suffix), case.fields, case.value, case.rem + len(suffix), True)


def corruptions(case, rng, limit=None):
    """mutants of a case, without expectation: every recorded length field set to each of
    {0, 1, true-1, true+1, max of its width}, and the buffer cut at every length-field boundary
    (start of the field, start of its content, end of its content) -1/+0/+1.
    `limit` subsamples with rng."""
    buf = case.buf
    fam = case.fam + '/corrupt'
    todo = []                              # descriptors first; the (possibly large) mutants are built only for the sampled ones
    for off, width, kind, val in case.fields:
        if val is None:
            continue
        top = (1 << (8 * width)) - 1
        cand = {0, 1, val - 1, val + 1, top}
        for k in range(1, width):          # bump each higher byte alone: what a truncating cast (`as u8`, `as u16`) would hide
            cand.add((val + (1 << (8 * k))) & top)
            cand.add(val | (0x80 << (8 * k)))
        for v in sorted(cand):
            if v == val or v < 0 or v > top:
                continue
            todo.append((off, width, v))
    cuts = set()
    for off, width, kind, val in case.fields:
        for p in (off, off + width, off + width + (val or 0)):
            cuts.update((p - 1, p, p + 1))
    for c in sorted(cuts):
        if 0 <= c < len(buf):
            todo.append((c,))
    if limit is not None and len(todo) > limit:
        todo = rng.sample(todo, limit)
    out = []
    for d in todo:
        if len(d) == 3:
            off, width, v = d
            b = bytearray(buf)
            b[off:off + width] = v.to_bytes(width, 'big')
            out.append(Case(fam, case.op, b, [], None, sd=False))
        else:
            out.append(Case(case.fam + '/trunc', case.op, buf[:d[0]], [], None, sd=False))
    return out


def count_ladder(rng, families, counts=None):
    """one case per (family, count): the first list generated for the case gets exactly `count` entries - every count an
    implementation might use as a limit is exercised deterministically, not only when the dice say so"""
    global FORCED, MINIMAL
    out = []
    for name in families:
        for k in (counts or MANY_COUNTS):
            for minimal in (False, True):   # ordinary element sizes, and the smallest elements the grammar allows
                FORCED, MINIMAL = k, minimal
                try:
                    cs = FAMILIES[name](rng, 1)
                finally:
                    FORCED, MINIMAL = None, False
                for c in cs:
                    c.fam = name + '/count%d%s' % (k, 'min' if minimal else '')
                    out.append(c)
    return out


def all_cases(seed, n, families=None):
    """n cases of every family (deterministic per (seed, family))"""
    out = []
    for name, fn in FAMILIES.items():
        if families and name not in families:
            continue
        out += fn(random.Random('%d/%s' % (seed, name)), n)
    return out

# ------------------------------------------------------------------ self-test


def selftest(seed=1, n=300, families=None, corrupt=False, build=False, show=20, verbose=True):
    exe = build_harness() if build or not os.path.exists(HARNESS) else HARNESS
    cases = all_cases(seed, n, families)
    rng = random.Random('%d/suffix' % seed)
    for c in list(cases):
        if c.sd and rng.random() < .25:
            s = with_suffix(c, rng.randbytes(rng.choice((1, 1, 2, 5, 13, 40))))
            s.fam = c.fam + '+sfx'
            cases.append(s)
    lines = [c.line for c in cases]
    hout = [split_side(x)[0] for x in run_lines(exe, lines, chunk=500)]
    dout = [split_side(x)[0] for x in run_lines(DRIVER, lines, chunk=500)]
    stats = collections.OrderedDict()
    bad = []
    for c, ho, do in zip(cases, hout, dout):
        st = stats.setdefault(c.fam.replace('+sfx', ''), [0, 0, 0])
        st[0] += 1
        if ho != c.expect or do != c.expect:
            st[1] += ho != c.expect
            st[2] += do != c.expect
            bad.append((c, ho, do))
    if verbose:
        print('%-34s %7s %9s %9s' % ('family (incl. +sfx)', 'cases', 'harness!=', 'driver!='))
        for k, (a, b, d) in stats.items():
            print('%-34s %7d %9d %9d' % (k, a, b, d))
        print('%-34s %7d %9d %9d' % ('TOTAL', len(cases), sum(s[1] for s in stats.values()),
                                     sum(s[2] for s in stats.values())))
        for c, ho, do in bad[:show]:
            print('--- %s\n  line    %s\n  expect  %s\n  harness %s\n  driver  %s'
                  % (c.fam, c.line[:300], _short(c.expect), _short(ho, c.expect), _short(do, c.expect)))
        if len(bad) > show:
            print('... %d more mismatches' % (len(bad) - show))
    ndis = 0
    if corrupt:
        rng = random.Random('%d/corrupt' % seed)
        base = [c for c in cases if '+sfx' not in c.fam and c.fields]
        mut = []
        for c in rng.sample(base, min(len(base), 40 * max(1, n // 10))):
            mut += corruptions(c, rng, limit=12)
        ml = [c.line for c in mut]
        ho = [split_side(x)[0] for x in run_lines(exe, ml, chunk=500)]
        do = run_lines(DRIVER, ml, chunk=500)
        dis = [(c, a, b) for c, a, b in zip(mut, ho, do) if a != b]
        ndis = len(dis)
        kinds = collections.Counter(a.split(' ')[0] for a in ho)
        print('corruptions: %d mutants, harness result classes %s, harness!=driver: %d' % (len(mut), dict(kinds), ndis))
        for c, a, b in dis[:show]:
            print('--- %s\n  line    %s\n  harness %s\n  driver  %s' % (c.fam, c.line[:300], _short(a, b), _short(b, a)))
    return len(bad), ndis


def _short(s, ref=None, width=260):
    """truncate a long result, keeping the neighbourhood of the first difference with ref"""
    s = str(s)
    if len(s) <= width:
        return s
    k = 0
    if ref:
        m = min(len(s), len(ref))
        k = next((i for i in range(m) if s[i] != ref[i]), m)
    a = max(0, k - width // 2)
    return ('...' if a else '') + s[a:a + width] + ('...' if a + width < len(s) else '') + ' (len %d, first diff at %d)' % (len(s), k)


def main(argv):
    import argparse
    ap = argparse.ArgumentParser(description=__doc__.split('\n')[0])
    ap.add_argument('--selftest', action='store_true')
    ap.add_argument('--seed', type=int, default=1)
    ap.add_argument('--n', type=int, default=300)
    ap.add_argument('--family', action='append', help='restrict to this family (repeatable)')
    ap.add_argument('--corrupt', action='store_true', help='also run corruptions and report harness/driver disagreements')
    ap.add_argument('--build', action='store_true', help='rebuild the harness first (core.build_harness)')
    ap.add_argument('--list', action='store_true', help='list the families')
    ap.add_argument('--dump', action='store_true', help='print the generated lines and expectations instead of running')
    a = ap.parse_args(argv)
    if a.list:
        print('\n'.join(FAMILIES))
        return 0
    if a.dump:
        for c in all_cases(a.seed, a.n, a.family):
            print('%s\t%s\t%s' % (c.fam, c.line, c.expect))
        return 0
    if a.selftest:
        nbad, ndis = selftest(a.seed, a.n, a.family, a.corrupt, a.build)
        print('selftest seed=%d n=%d: %s' % (a.seed, a.n, 'PASS' if nbad == 0 else 'FAIL (%d mismatches)' % nbad))
        return 1 if nbad else 0
    ap.print_help()
    return 0


if __name__ == '__main__':
    sys.exit(main(sys.argv[1:]))
