"""framework.py — what every check does: build from /repo's working tree, regenerate Gen tables,
re-check the Lean obligations, audit axioms, run case families through the implementation
(harness) and the model (driver), decide verdicts, write evidence / replay files."""
import os, sys, re, json, time, random, subprocess, glob
sys.path.insert(0, os.path.dirname(__file__))
import core

ALLOWED_AXIOMS = {'propext', 'Classical.choice', 'Quot.sound'}
FORBIDDEN = re.compile(r'\b(sorry|admit|native_decide|bv_decide|implemented_by|unsafe)\b|^\s*axiom\s|maxHeartbeats\s+0')

TRUSTED_BASE = [
    'Lean 4.33.0 kernel (thorough tier: re-checked with leanchecker)',
    'axioms: subset of {propext, Classical.choice, Quot.sound}; no native_decide, no bv_decide, no sorry, no added axioms (audited every run)',
    'hand-written Lean model of the Rust (TlsModel/*.lean), tied to /repo by exhaustive table extraction (Gen/*.lean, re-checked by the kernel) and by differential execution on the line protocol',
    'nom 7.1.3 / nom-derive / rusticata-macros / cookie-factory semantics as modelled in Nom.lean (read from vendored sources, exercised by the correspondence)',
    'Rust harness printer, Lean driver printer, Python generators/oracles/diff (tools/)',
    'assumptions: 64-bit usize, inputs < 2^63 bytes, dev profile (overflow-checks, debug-assertions on)',
]


class Ctx:
    def __init__(self, pid, tier, seed):
        self.pid, self.tier, self.seed = pid, tier, seed
        self.rng = random.Random(seed * 1000003 + int(pid[1:]))
        self.t0 = time.time()
        self.violations = []        # (what, replay_path, found_input)
        self.known_hits = []
        self.notes = []
        self.cov = {'evaluations': 0, 'families': {}, 'samples': [], 'drift': 0, 'drift_samples': [],
                    'impl_vs_oracle_failures': 0, 'model_vs_impl_disagreements': 0, 'model_vs_oracle_failures': 0}
        self.distinct = set()
        self.obligations = 0
        self.discharged = 0
        self.failed_theorems = []
        self.lean_modules = []
        self.machinery_errors = []
        self.kf = core.load_known_findings()
        self.thorough = tier == 'thorough'

    # ---- verdict bookkeeping
    def violation(self, what, payload, found_input=True, key=None):
        """key: stable identifier of the failing input/call site, matched against known_findings.json"""
        for k in self.kf.get('known', []):
            if k.get('property') == self.pid and key is not None and k.get('key') == key:
                self.known_hits.append(k)
                return
        payload = dict(payload, property=self.pid, what=what, seed=self.seed, found_failing_input=found_input)
        path = core.write_replay(self.pid, payload)
        self.violations.append((what, path, found_input))

    def fam(self, name):
        return self.cov['families'].setdefault(name, {'cases': 0, 'outcomes': {}})

    def count(self, fam, outcome, n=1):
        f = self.fam(fam)
        f['cases'] += n
        f['outcomes'][outcome] = f['outcomes'].get(outcome, 0) + n
        self.cov['evaluations'] += n

    def sample(self, obj):
        if len(self.cov['samples']) < 12:
            self.cov['samples'].append(obj)

    # ---- lean
    def lean(self, modules, gen_note=None):
        """build the property's modules; count theorems; on failure record which theorems broke"""
        self.lean_modules = list(modules)
        thms = []
        for m in modules:
            path = core.LEAN_DIR + '/' + m.replace('.', '/') + '.lean'
            src = open(path).read()
            bad = [l for l in strip_comments(src).split('\n') if FORBIDDEN.search(l)]
            if bad:
                self.machinery_errors.append('forbidden token in %s: %s' % (m, bad[0].strip()))
            for mm in re.finditer(r'^(?:theorem|example)\s*([A-Za-z0-9_.\'?!]*)', src, flags=re.M):
                thms.append((m, mm.group(1) or 'example@%d' % (src[:mm.start()].count('\n') + 1), src[:mm.start()].count('\n') + 1))
        self.obligations = len(thms)
        ok, out = core.build_lean(modules)
        failed = []
        if not ok:
            # map error lines to theorem names
            for em in re.finditer(r'error: ([A-Za-z0-9_/]+\.lean):(\d+):\d+', out):
                f, line = em.group(1), int(em.group(2))
                mod = f[:-5].replace('/', '.')
                cands = [(ln, n) for (m, n, ln) in thms if m == mod and ln <= line]
                if cands:
                    failed.append('%s.%s' % (mod, max(cands)[1]))
                else:
                    failed.append('%s:%d' % (mod, line))
            if not failed:
                failed.append('lake build failed: ' + out[-600:])
        self.failed_theorems = sorted(set(failed))
        self.discharged = self.obligations - len(self.failed_theorems) if ok or failed else 0
        self.lean_output = out[-3000:] if not ok else ''
        return ok

    def audit_axioms(self, modules):
        """#print axioms for every theorem of the modules; all must be within ALLOWED_AXIOMS"""
        names = []
        for m in modules:
            path = core.LEAN_DIR + '/' + m.replace('.', '/') + '.lean'
            src = strip_comments(open(path).read())
            ns = re.findall(r'^namespace\s+(\S+)', src, flags=re.M)
            ns = ns[0] + '.' if ns else ''
            for mm in re.finditer(r'^theorem\s+([A-Za-z0-9_.\'?!]+)', src, flags=re.M):
                names.append(ns + mm.group(1))
        if not names:
            return {}
        tmp = core.VERIF + '/.build/audit_%s.lean' % self.pid
        os.makedirs(os.path.dirname(tmp), exist_ok=True)
        open(tmp, 'w').write(''.join('import %s\n' % m for m in modules) + ''.join('#print axioms %s\n' % n for n in names))
        r = core.sh(['lake', 'env', 'lean', tmp], cwd=core.LEAN_DIR, check=False, timeout=1800)
        used = {}
        for mm in re.finditer(r"'([^']+)' depends on axioms: \[([^\]]*)\]", r.stdout):
            used[mm.group(1)] = [a.strip() for a in mm.group(2).split(',')]
        for mm in re.finditer(r"'([^']+)' does not depend on any axioms", r.stdout):
            used[mm.group(1)] = []
        bad = {n: a for n, a in used.items() if not set(a) <= ALLOWED_AXIOMS}
        if bad:
            self.machinery_errors.append('axiom audit: %s' % bad)
        if len(used) < len(names):
            self.machinery_errors.append('axiom audit incomplete: %d of %d theorems reported; %s' % (len(used), len(names), (r.stdout + r.stderr)[-500:]))
        self.axioms_used = sorted(set(a for v in used.values() for a in v))
        return used

    def leanchecker(self, modules):
        for m in modules:
            r = core.sh(['lake', 'env', 'leanchecker', m], cwd=core.LEAN_DIR, check=False, timeout=3600)
            if r.returncode != 0:
                self.machinery_errors.append('leanchecker %s: %s' % (m, (r.stdout + r.stderr)[-400:]))

    # ---- running cases
    def run_both(self, lines, config='default'):
        exe = core.build_harness(config)
        impl = core.run_lines(exe, lines)
        model = core.run_lines(core.DRIVER, lines)
        return impl, model

    # ---- finish
    def finish(self, level, rule, checker_cmd, assumptions, extra=None):
        cov = self.cov
        cov['distinct_nontrivial'] = len(self.distinct)
        cov['rule'] = rule
        cov['obligations'] = self.obligations
        cov['discharged'] = self.discharged
        cov['failed_theorems'] = self.failed_theorems
        cov['checker_cmd'] = checker_cmd
        cov['trusted_base'] = TRUSTED_BASE
        cov['axioms_used'] = getattr(self, 'axioms_used', [])
        cov['lean_modules'] = self.lean_modules
        cov['notes'] = self.notes
        cov['known_findings_hit'] = [k.get('key') for k in self.known_hits]
        if extra:
            cov.update(extra)
        if not cov['samples']:
            cov['samples'] = ['(no case families in this run)']
        wall = time.time() - self.t0
        core.write_evidence(self.pid, self.tier, self.seed, level, cov, wall, len(self.violations), assumptions)
        for k in self.known_hits[:20]:
            print('KNOWN-FINDING: property=%s %s' % (self.pid, k.get('what', k.get('key'))))
        if self.machinery_errors:
            for e in self.machinery_errors:
                print('MACHINERY-ERROR: %s' % e)
        for what, path, found in sorted(self.violations, key=lambda v: not v[2])[:10]:   # failing inputs first
            print('VIOLATION property=%s replay=%s%s' % (self.pid, path, '' if found else ' no-failing-input-found'))
            print('  ' + what[:400])
        print('%s %s: %d evaluations, %d obligations (%d discharged), %d violations, %.1fs' % (
            self.pid, self.tier, cov['evaluations'], self.obligations, self.discharged, len(self.violations), wall))
        if self.violations:
            return 1
        if self.machinery_errors:
            return 2
        return 0


def strip_comments(src):
    src = re.sub(r'/-.*?-/', lambda m: '\n' * m.group(0).count('\n'), src, flags=re.S)
    src = re.sub(r'--.*', '', src)
    return src


def differential(ctx, fam, lines, impl, model, project, describe=None, oracle=None):
    """Compare implementation and model under a projection. A disagreement inside the projection
    breaks the correspondence: violation (with the disagreeing input named). Outside: drift."""
    dis = []
    for ln, a, b in zip(lines, impl, model):
        ra, _ = core.split_side(a)
        rb, _ = core.split_side(b)
        pa, pb = project(ra), project(rb)
        ctx.count(fam, core.res_class(ra))
        ctx.distinct.add((fam, shape(ra)))
        if pa != pb:
            dis.append((ln, ra, rb))
        elif ra != rb:
            ctx.cov['drift'] += 1
            if len(ctx.cov['drift_samples']) < 5:
                ctx.cov['drift_samples'].append({'line': ln[:200], 'impl': ra[:200], 'model': rb[:200]})
    ctx.cov['model_vs_impl_disagreements'] += len(dis)
    return dis


def shape(res):
    """outcome shape: result with numbers/spans/hex blanked (for counting distinct non-trivial cases)"""
    s = re.sub(r'@\d+\+\d+|B@\d+\+\d+', '@', res)
    s = re.sub(r'x:[0-9a-f]*', 'x', s)
    s = re.sub(r'\b\d+\b', 'N', s)
    return s[:300]
