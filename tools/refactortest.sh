#!/bin/sh
# usage: tools/refactortest.sh <refactor-name> [checks...] — apply a behaviour-preserving refactoring to /repo, run the checks
# (all by default): every one must stay quiet (exit 0). Evidence / Gen tables are restored afterwards.
cd /verif
R=$1; shift
CHECKS=${@:-C01 C02 C03 C04 C05 C06 C07 C08 C09 C10 C11 C12 C13 C14 C15 C16 C17 C18}
rm -rf .build/seed_backup; mkdir -p .build/seed_backup
cp -r evidence .build/seed_backup/evidence; cp -r lean/TlsModel/Gen .build/seed_backup/Gen
git -C /repo apply /verif/refactors/$R/patch.diff || exit 9
(cd /repo && cargo test --workspace --no-fail-fast --offline 2>&1 | grep -E "^test result" | awk '{p+=$4; f+=$6} END {print "suite: passed", p, "failed", f}')
bad=0
for c in $CHECKS; do
  ./check $c --tier quick > .build/rf.out 2>&1; rc=$?
  if [ $rc -ne 0 ]; then bad=1; echo "ALARM $R $c rc=$rc"; grep -E "^VIOLATION|^MACHINERY|^  " .build/rf.out | cut -c1-300 | head -4; fi
done
git -C /repo checkout -- .
rm -rf evidence; cp -r .build/seed_backup/evidence evidence
for f in .build/seed_backup/Gen/*.lean; do cmp -s $f lean/TlsModel/Gen/$(basename $f) || cp $f lean/TlsModel/Gen/$(basename $f); done
echo "refactor=$R quiet=$((1-bad))"
