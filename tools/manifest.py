"""manifest.py — writes /verif/MANIFEST.json from the table below (single source of truth)."""
import json, os
VERIF = '/verif'
props = [json.loads(l) for l in open(VERIF + '/properties.jsonl')]

NOTE = ('Trusted: Lean 4.33 kernel; axioms within {propext, Classical.choice, Quot.sound} (audited by #print axioms on every run); '
        'the hand-written Lean model as a description of the Rust, tied to /repo on every run by regenerated Gen tables re-checked in the kernel '
        'and by differential execution of harness (real crate, cfg tls_parser_verif, dev profile) against the compiled model driver; '
        'Python generators/oracles; 64-bit usize.')

CLAIMS = {
 'C02': dict(category='proof', technique='Lean 4 theorems on the record-framing model (header decode, frame_exact, too_large, incomplete_iff, needed_exact) + differential/oracle correspondence over all content types and boundary lengths',
   text='Theorems header_decode/header_roundtrip, raw/encrypted_frame_exact, *_too_large, *_incomplete_iff and *_needed_exact hold for every input of the three record parsers (plaintext: plaintext_frame reduces it to the payload parser, recordWithHeader_neverIncomplete gives the only-if direction). The tie: a sweep of all 256 content types x boundary lengths x prefixes judged by the property\'s own framing oracle on the implementation and compared with the model, plus well-formed records, exact-Needed prefixes, suffixes and length-field corruptions.',
   design_ref='DESIGN.md section 6 C02'),
 'C08': dict(category='proof', technique='Lean 4 theorem (model = flow specification, by kernel evaluation over all cells) + regenerated implementation table re-checked by decide +kernel + exhaustive cell execution',
   text='Theorem transition_eq_spec: the model of tls_state_transition equals an independently written specification of the documented flows for every state, message (any content) and direction, lifted to all finite sequences (run_eq_spec); corollaries for absorbing states, alerts, HelloRequest and sender-only. The tie is exhaustive: all 13850 cells (25 states x 2 directions x every kind incl. 256 alert severities, all 256 descriptions) are executed on the implementation every run, regenerated into Gen/States.lean and re-checked against the model by the kernel; content-independence is additionally sampled with random payloads.',
   design_ref='DESIGN.md section 6 C08'),
}

def main():
    checks = []
    for p in props:
        pid = p['id']
        if pid not in CLAIMS:
            continue
        c = CLAIMS[pid]
        checks.append({
            'property_id': pid,
            'quick_cmd': './check %s --tier quick' % pid,
            'thorough_cmd': './check %s --tier thorough' % pid,
            'evidence_file': '/verif/evidence/%s.json' % pid,
            'replay_cmd_template': './check %s --replay {path}' % pid,
            'engine': 'lean-model+correspondence',
            'level_claimed': {'category': c['category'], 'text': c['text'], 'design_ref': c['design_ref']},
            'level_note': c.get('note', NOTE),
            'technique': c['technique'],
        })
    m = {
        'version': 1,
        'setup_cmd': 'cd /verif && ./setup.sh',
        'hooks': {'guard': 'tls_parser_verif',
                  'enable': "rustflags = [\"--cfg\", \"tls_parser_verif\"] in /verif/harness/.cargo/config.toml (harness crate path-depends on /repo)",
                  'baseline_off_cmd': 'cd /repo && cargo test --workspace --no-fail-fast --offline',
                  'source_commits': ['a461099'], 'add_only': True},
        'engines': [{'name': 'lean-model+correspondence', 'path': '/verif/lean, /verif/harness, /verif/tools',
                     'serves_properties': sorted(CLAIMS), 'kind_free_text': 'Lean 4 model + theorems; Rust harness vs compiled Lean driver over a line protocol; Python orchestration'}],
        'checks': checks,
        'not_applicable': [{'property_id': p['id'], 'reason': 'check still under construction in this round (model exists; theorems/tie not yet registered)'}
                           for p in props if p['id'] not in CLAIMS],
        'notes': 'See DESIGN.md. ./check <ID> [--tier quick|thorough] [--replay F]; evidence in /verif/evidence/<ID>.json.',
    }
    json.dump(m, open(VERIF + '/MANIFEST.json', 'w'), indent=1)

if __name__ == '__main__':
    main()
