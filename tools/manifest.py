"""manifest.py — writes /verif/MANIFEST.json from the table below (single source of truth)."""
import json, os
VERIF = '/verif'
props = [json.loads(l) for l in open(VERIF + '/properties.jsonl')]

NOTE = ('Trusted: Lean 4.33 kernel; axioms within {propext, Classical.choice, Quot.sound} (audited by #print axioms on every run); '
        'the hand-written Lean model as a description of the Rust, tied to /repo on every run by regenerated Gen tables re-checked in the kernel '
        'and by differential execution of harness (real crate, cfg tls_parser_verif, dev profile) against the compiled model driver; '
        'Python generators/oracles; 64-bit usize.')

CLAIMS = {
 'C09': dict(category='proof', technique='Lean 4 model of the cookie-factory serializers (truncating casts as written) proved equal to the RFC encoder of the normal form under the wire limits; round trip = parser round-trip theorems; three-stage correspondence (serialize / re-parse / re-serialize)',
   text='Theorems serClientHello_eq / clientHello_serialize_roundtrip, serverHello_serialize_roundtrip, sslv3ServerHello_serialize_roundtrip, serverHello13d18_serialize_roundtrip, clientKeyExchange_serialize_roundtrip (Unknown / Dh / Ecdh read back as the opaque length-prefixed value), finished_ / helloRequest_ / ccs_serialize_roundtrip, plaintext_serialize_roundtrip (records of serializable handshake / CCS messages: the u16 length is the payload length, parsing consumes everything), extension_serialize_roundtrip (SNI, max-fragment-length, supported groups), unsupported_* (NotYetImplemented, never bytes), encLD_length_field (every emitted length field is the length of what it prefixes). Tie: value descriptions within and beyond the wire limits serialized by the real code and by the Lean model (exact equality), compared with an independent encoder, re-parsed by the real parser and re-serialized.',
   design_ref='DESIGN.md section 6 C09'),
 'C15': dict(category='proof', technique='Lean 4 theorems on the accessor model (rand_time / rand_bytes / cipher_suites) and on parsed hellos + exact-oracle execution of every accessor and constructor',
   text='Theorems randTime_eq (big-endian u32 of the first four random bytes), randBytes_eq, rand_split, randTime_lt, parsed_hello_random (every parsed ClientHello has a 32-byte random, 28 rand_bytes, rand_time = first four bytes), cipherSuites_length / cipherSuites_get (each advertised id, in order, maps to its registry lookup). The plain accessors are the structure fields. Tie: parsed TLS and DTLS ClientHellos and constructed ClientHello / ServerHello values (boundary random lengths and leading words) with every accessor compared with the generator\'s own field values and the registry file.',
   design_ref='DESIGN.md section 6 C15'),
 'C17': dict(category='proof', technique='registry tables regenerated from the running implementation over the whole domain of every registry type, proved equal to a hand-entered IANA reference by decide +kernel; Lean theorems for SignatureScheme arithmetic; exhaustive textual comparison of Display/Debug/conversions/key_bits',
   text='Kernel-checked on regenerated tables: impl_constants_eq_iana (all 207 named constants have the reference value, none missing or extra), impl_names_eq_constants (over the whole domain of every Display type, the values not printing the numeric fallback are exactly the named constants with exactly their names), impl_debug_eq_display, impl_keybits_named_sizes / impl_keybits_only_registered, impl_record_limits; sigScheme_split / sigScheme_reserved_iff for all values. Tie: every value of every registry type through disp / dbg / conv / keybits / sigscheme compared with the reference (572k lines).',
   design_ref='DESIGN.md section 6 C17',
   note='reference/iana.py is hand-entered (trusted). ' + NOTE),
 'C12': dict(category='proof', technique='registry tables regenerated from the running implementation and from the registry file, checked against each other / the pinned copy / the size specification by decide +kernel; general Lean theorems on the lookup model; exhaustive id and name sweeps',
   text='Kernel-checked on the regenerated tables: runtime_eq_file (the dumped CIPHERS map equals the file mapped through the documented token table, all 10 columns and 3 derived sizes, row for row), pinned_sub_file (every IANA assignment of the pinned copy is present unchanged), runtime_ids_sorted (no duplicate id, key = id), runtime_names_distinct, runtime_derived_sizes. General theorems for every id / name: registry_fromId (some iff listed, and the suite carries the id), registry_fromName (the unique suite with that name, none for any other string). Tie: all 65536 ids through the four lookup routes and the full row through from_id, every name and 8+ perturbations through both name routes, compared with the registry file; name-token agreement by rules over every row.',
   design_ref='DESIGN.md section 6 C12',
   note='The agreement of parameters with the algorithm tokens of the IANA name is checked by Python rules over every row (with the two TLS_PSK_DHE_* spellings as listed exceptions), not by a Lean theorem. ' + NOTE),
 'C01': dict(category='proof', technique='Lean 4 closure proofs (Clean = never panic / never Failure) for every modelled entry point, induction over all defragmenter histories; termination by Lean\'s termination checker; heap/format/abort measured on the implementation',
   text='PARTIAL by nature. Proved on the model: X_clean / X_noPanic for 81 parsing entry points (the model produces panic exactly where the Rust can panic: slice indexing, checked arithmetic, expect; the theorems say the guards suffice), recordsParser_noPanic for every operation sequence, and totality of every model function (many0/many1 recursion accepted on the strength of nom\'s progress check). Measured on the implementation (not provable on any executable model): every op on empty/short/garbage/lying-length/cap-sized inputs and all generated families under catch_unwind with overflow-checks and debug-assertions on, Debug/Display of every returned value, peak heap against a fixed linear bound (+10 MiB for the defragmenter), process death.',
   design_ref='DESIGN.md section 6 C01',
   note='PARTIAL: heap use, formatting and hangs are runtime behaviour the Lean model cannot exhibit; they are measured by the harness (counting allocator, catch_unwind, fmt of every value). ' + NOTE),
 'C06': dict(category='proof', technique='Lean 4 closure proofs: Suffix and Stable for every listed self-delimiting parser (confinement lemma: map_parser(take n, Q) is stable whatever Q is), framed stability, alias for primitives and raw records + suffix/alias correspondence on pointer offsets',
   text='Theorems X_suffix / X_stable for TLS and DTLS record parsers, handshake messages (TLS and DTLS), the three extension dispatchers, SCT and SCT list, DH / EC / ECDH parameters and both DigitallySigned forms: on success appending bytes leaves the value unchanged and extends the remainder, a non-Incomplete failure stays the same; plaintext_framed / dtlsRecord_framed / handshake_framed / extension_framed: with the declared length present this holds whatever the outcome (even an Incomplete from inside the confined content); take_alias / lengthData_alias / rawRecord_alias. Tie: each self-delimiting op re-run with suffixes on well-formed and corrupted inputs; pointer offsets of every slice of every returned value (harness) compared with the spans of the model run on position-tagged bytes; defragmenter slices classified through the hook.',
   design_ref='DESIGN.md section 6 C06',
   note='Alias (zero-copy) is a theorem for the slice-producing primitives and raw records only; for composite values it is established span by span by the correspondence check (implementation pointer offsets = model positions). ' + NOTE),
 'C11': dict(category='proof', technique='Lean 4 corollaries of the round-trip theorems, one per enumerated field and universally quantified over the field domain + exhaustive per-field value sweeps with exact expectations',
   text='One theorem per field named by the property (record type/version, alert level/description, heartbeat type, ClientHello version / cipher ids / compression ids, ServerHello cipher/compression, HelloRetryRequest version, KeyUpdate, certificate-status type, certificate types and sig/hash algs of CertificateRequest, extension type, named groups, signature algorithms, DigitallySigned algorithms, SNI name type, status_request type, PSK modes, EC point formats, EC named group, CT version): for every value of the domain the parsed structure carries that value. Tie: 33 field sweeps over the whole domain (thorough) or a dense sample (quick) with hand-written exact expected output, on the implementation and the model.',
   design_ref='DESIGN.md section 6 C11'),
 'C05': dict(category='proof', technique='Lean 4 theorems (dispatch by type over a table, per-variant content round trips, GREASE iff RFC 8701, Unknown preservation, list induction, dispatcher agreement, empty-extension and overrun rejections) + regenerated implementation dispatch map re-checked by decide +kernel + exhaustive type sweep',
   text='Theorems dispatch_known, content_roundtrip (all 26 typed variants), extension_roundtrip (typed / GREASE / Unknown through each dispatcher that decodes them), isGrease_iff (exactly the 16 RFC 8701 values), missing_arm_gives_unknown, extensions_roundtrip (lists by induction), extension_overrun / extensions_stop_at_overrun, empty_extension_with_data_rejected, typeOf_* and dispatchers_agree(_parse). Tie to the code: the type->variant map of the three dispatchers observed over ALL 65536 types and the TlsExtensionType::from map are regenerated into Gen/ExtDispatch.lean and proved equal to the specification in the kernel; every type x dispatcher is additionally executed against the Python specification and the model; all variants with well-formed contents from an independent encoder; tag-specific parsers swept over types.',
   design_ref='DESIGN.md section 6 C05'),
 'C03': dict(category='proof', technique='Lean 4 theorems: payload round trip by induction over the message list (many1_complete_roundtrip), stop-at-first-bad, rejections, application data / heartbeat, one-step = two-step + exact-value correspondence',
   text='Theorems payload_roundtrip (any non-empty list of well-formed CCS / alert / handshake messages decodes to exactly those messages in order), payload_stops_at_first_bad (two-step remainder = undecoded tail), payload_first_bad_rejected, empty_payload_rejected, unknown_content_type_rejected (all types outside 20..24), appdata_payload (any payload = one blob), heartbeat_payload (padding as remainder), one_step_eq_two_step. Tie: independent encoder for every content type, derived two-step calls, stop/first-bad/empty/unknown-type families with exact or class oracles, corruptions.',
   design_ref='DESIGN.md section 6 C03'),
 'C04': dict(category='proof', technique='Lean 4 round-trip theorem for all 17 handshake variants (encoder/parser inverse, induction for lists), confinement and rejection theorems + exact-value correspondence with an independent encoder',
   text='Theorem handshake_roundtrip: for every value of the 17 variants within field ranges (WFHandshake restricts no code point except those that select the structure), parseMessageHandshake (encHandshake h ++ r) = ok r h, via per-body theorems (ClientHello with/without session id and extension block, ServerHello for 0x0301-0x0303 / SSLv3 / draft-18, both CertificateRequest forms — the legacy form provably cannot be taken for the 1.2 form — certificate chains by induction, etc.); handshake_confined (nothing beyond the 24-bit length influences the result); rejection theorems for session id > 32, odd/overlong cipher list, overlong compression list, short NewSessionTicket, certificate list / status blob overrun, unsupported ServerHello version, unknown type, cut mandatory fields. Tie: exact values from the independent Python encoder through every public body parser, every length field corrupted, rejection shapes, confinement pairs.',
   design_ref='DESIGN.md section 6 C04'),
 'C13': dict(category='proof', technique='Lean 4 round-trip theorems (encoder/parser inverse for all field values) + curve-type rejection + content/signature switch, with exact-value and exhaustive code-point correspondence',
   text='Theorems dh_roundtrip, explicitPrime_roundtrip, ecParameters_roundtrip (all 65536 named groups; explicit prime with all six u8-length fields), ecdh_roundtrip, digitallySigned(_Old)_roundtrip — each of the form parse (enc v ++ r) = ok r v for every v within field ranges and every trailing r, i.e. exact value and exact self-delimitation; curve_type_rejected for every curve type other than 1 and 3; contentAndSignature_eq / _roundtrip for any content parser and both flag values. Tie: independent Python encoder (exact), all 256 curve types, named-group sweep, corruptions and all truncations.',
   design_ref='DESIGN.md section 6 C13'),
 'C14': dict(category='proof', technique='Lean 4 round-trip theorem over all SCT lists (induction via many0_complete_roundtrip) + overrun theorems + exact-value correspondence',
   text='Theorems sctContent_roundtrip, sct_roundtrip (single entry consumes exactly one length-prefixed entry), sctList_roundtrip (every list of well-formed SCTs, any length, parses to exactly those SCTs in order), sctList_overrun and sctEntries_stop_at_overrun. Tie: independent RFC 6962 encoder with boundary lengths, nested length corruptions, entry/list overrun families with exact/class oracles, the captured list from tests/.',
   design_ref='DESIGN.md section 6 C14'),
 'C07': dict(category='proof', technique='Lean 4 theorems on the defragmenter state machine (generic in the payload parser): accumulate_then_parse by induction over fragments, refusals, buffer_bound invariant over all histories, fresh-equivalence bisimulation + history correspondence with hook observations',
   text='Theorems (for any one-shot payload parser R and any byte type): fast_path, refuse_other_type / refuse_too_large / nocopy_refuses (state unchanged), buffer_bound (invariant over every operation sequence), idle_behaves_fresh (bisimulation: a non-defragmenting parser, whatever its stale buffer, is output-equivalent to a fresh one on every future history; reset gives init), accumulate_then_parse / continuation_phase (induction over the fragment list: every call but the last answers Incomplete and stays in progress, the last returns R on the accumulated bytes with the pseudo header), accAll_eq_concat, and handshake_prefix_fragLike / handshake_cut_incomplete discharging the fragment hypothesis for cuts anywhere incl. inside the 4-byte header. Tie: thousands of generated histories (k-way splits, empty fragments, interleaved foreign records and nocopy calls, resets, chained messages, a stream to the 10 MiB cap) compared step by step with an accumulate-then-parse oracle and with the model, observing buffer length and in-progress flag through the hook.',
   design_ref='DESIGN.md section 6 C07'),
 'C10': dict(category='proof', technique='Lean 4 theorems (DTLS header round-trip for all epochs / 48-bit sequence numbers, too_large, incomplete_iff, needed_exact, frame, fragment rule) + framing sweep and exact-value correspondence',
   text='Theorems dtls_header_roundtrip, dtls_too_large, dtls_incomplete_iff, dtls_needed_exact, dtls_frame, dtls_fragment / dtls_not_fragment (fragment iff offset>0 or fragment_length<length, body = exactly fragment_length bytes, is_fragment true) and the multi-record instance of C16. Body round-trips are tied by exact-value correspondence (independent Python RFC encoder) rather than by a per-body theorem in this round; the level note says so.',
   design_ref='DESIGN.md section 6 C10',
   note='PARTIAL at theorem level: framing, header and fragment rule are proved for all inputs; the six DTLS handshake body round-trips (ClientHello with cookie, HelloVerifyRequest, ServerHello, Certificate, ServerHelloDone, ClientKeyExchange) are covered by exact-value differential testing against an independent encoder, not yet by a Lean round-trip theorem. ' + NOTE),
 'C16': dict(category='proof', technique='Lean 4 theorem generic in the single-record parser: many1(complete p) = repeated application (well-founded induction), instantiated for TLS and DTLS + oracle correspondence',
   text='many1_complete_eq_repeat / many1_complete_fails_iff: for any parser p that never panics or answers Failure and consumes on success, many1(complete p) returns exactly the records of repeated application and the remainder where it stops, and succeeds iff the first application does; instantiated with parsePlaintext (Clean by C01, Consumes by parsePlaintext_ok_rem) and parseDtlsPlaintextRecord; tlsParser = parsePlaintext by rfl. Tie: concatenations of 0..5 records with six kinds of tails against the direct oracle and the single-record parser on the same buffer.',
   design_ref='DESIGN.md section 6 C16'),
 'C02': dict(category='proof', technique='Lean 4 theorems on the record-framing model (header decode, frame_exact, too_large, incomplete_iff, needed_exact) + differential/oracle correspondence over all content types and boundary lengths',
   text='Theorems header_decode/header_roundtrip, raw/encrypted_frame_exact, *_too_large, *_incomplete_iff and *_needed_exact hold for every input of the three record parsers (plaintext: plaintext_frame reduces it to the payload parser, recordWithHeader_neverIncomplete gives the only-if direction). The tie: a sweep of all 256 content types x boundary lengths x prefixes judged by the property\'s own framing oracle on the implementation and compared with the model, plus well-formed records, exact-Needed prefixes, suffixes and length-field corruptions.',
   design_ref='DESIGN.md section 6 C02'),
 'C08': dict(category='proof', technique='Lean 4 theorem (model = flow specification, by kernel evaluation over all cells) + regenerated implementation table re-checked by decide +kernel + exhaustive cell execution',
   text='Theorem transition_eq_spec: the model of tls_state_transition equals an independently written specification of the documented flows for every state, message (any content) and direction, lifted to all finite sequences (run_eq_spec); corollaries for absorbing states, alerts, HelloRequest and sender-only. The tie is exhaustive: all 13850 cells (25 states x 2 directions x every kind incl. 256 alert severities, all 256 descriptions) are executed on the implementation every run, regenerated into Gen/States.lean and re-checked against the model by the kernel; content-independence is additionally sampled with random payloads.',
   design_ref='DESIGN.md section 6 C08'),
}

def main():
    checks = []
    for p in props:
        pid = p['id']
        if pid not in CLAIMS:
            continue
        c = CLAIMS[pid]
        checks.append({
            'property_id': pid,
            'quick_cmd': './check %s --tier quick' % pid,
            'thorough_cmd': './check %s --tier thorough' % pid,
            'evidence_file': '/verif/evidence/%s.json' % pid,
            'replay_cmd_template': './check %s --replay {path}' % pid,
            'engine': 'lean-model+correspondence',
            'level_claimed': {'category': c['category'], 'text': c['text'], 'design_ref': c['design_ref']},
            'level_note': c.get('note', NOTE),
            'technique': c['technique'],
        })
    m = {
        'version': 1,
        'setup_cmd': 'cd /verif && ./setup.sh',
        'hooks': {'guard': 'tls_parser_verif',
                  'enable': "rustflags = [\"--cfg\", \"tls_parser_verif\"] in /verif/harness/.cargo/config.toml (harness crate path-depends on /repo)",
                  'baseline_off_cmd': 'cd /repo && cargo test --workspace --no-fail-fast --offline',
                  'source_commits': ['a461099'], 'add_only': True},
        'engines': [{'name': 'lean-model+correspondence', 'path': '/verif/lean, /verif/harness, /verif/tools',
                     'serves_properties': sorted(CLAIMS), 'kind_free_text': 'Lean 4 model + theorems; Rust harness vs compiled Lean driver over a line protocol; Python orchestration'}],
        'checks': checks,
        'not_applicable': [{'property_id': p['id'], 'reason': 'check still under construction in this round (model exists; theorems/tie not yet registered)'}
                           for p in props if p['id'] not in CLAIMS],
        'notes': 'See DESIGN.md. ./check <ID> [--tier quick|thorough] [--replay F]; evidence in /verif/evidence/<ID>.json.',
    }
    json.dump(m, open(VERIF + '/MANIFEST.json', 'w'), indent=1)

if __name__ == '__main__':
    main()
