"""C03 — a record's payload decodes to exactly its messages, in order."""
import re
import core, framework, enc
from props import common
from props.c16 import shift

LEVEL = 'proof'
MODULES = ['TlsModel.Props.C03']


def two_step(c):
    """from a one-step case (tls_plaintext, expected (Plain (Hdr t v l) [msgs])) derive the second step of
    two-step parsing: rec_with_hdr t v l payload -> the same messages with spans relative to the payload"""
    m = re.match(r'ok (\d+) \(Plain \(Hdr (\d+) (\d+) (\d+)\) (\[.*\])\)$', c.expect or '')
    if not m:
        return None
    t, v, l, msgs = int(m.group(2)), int(m.group(3)), int(m.group(4)), m.group(5)
    payload = c.buf[5:5 + l]
    rem = 0
    if t == 24:   # heartbeat padding is the two-step remainder
        pl = int.from_bytes(payload[1:3], 'big')
        rem = l - 3 - pl
    return enc.Case(c.fam + '/two_step', ('rec_with_hdr', str(t), str(v), str(l)), payload, [], None,
                    expect='ok %d %s' % (rem, shift(msgs, -5)))


def bad_tail(rng, t):
    """a tail on which the per-message parser of content type t fails"""
    if t == 20:
        return bytes([rng.choice([0, 2, 3, 255])]) + rng.randbytes(rng.choice((0, 2)))
    if t == 21:
        return rng.randbytes(1)                       # half an alert
    r = rng.random()
    if r < .4:                                        # truncated handshake message
        w = core.Writer(); enc.gen_hs_message(rng, w, None, 60); b = w.bytes()
        return b[:rng.randrange(1, len(b))]
    if r < .7:                                        # unknown handshake type with a complete body
        return bytes([rng.choice((3, 7, 9, 17, 19, 21, 23, 25, 0x42, 0x44, 255)), 0, 0, 2, 1, 2])
    return bytes([2, 0, 0, 2, 0x03, 0x04])             # ServerHello cut inside its mandatory fields


def run(ctx):
    core.build_harness()
    ok = common.lean_step(ctx, MODULES)
    rng = ctx.rng
    n = 1500 if ctx.thorough else 150
    fams = ['tls_plaintext', 'tls_plaintext_20', 'tls_plaintext_21', 'tls_plaintext_22', 'tls_plaintext_23', 'tls_plaintext_24',
            'rec_with_hdr', 'msg_simple', 'msg_heartbeat', 'msg_handshake', 'quirks']
    fams = [f for f in fams if f in enc.FAMILIES]
    exact, mutants = common.gen_cases(ctx, fams, n)
    common.run_exact(ctx, exact)
    ts = [x for x in (two_step(c) for c in exact if c.op[0] == 'tls_plaintext' and c.rem == 0) if x]
    common.run_exact(ctx, ts)
    common.run_differential(ctx, mutants, common.proj_value)
    # decoding stops at the first malformed message: two-step returns the tail, one-step drops it (map_parser)
    stops = []
    for _ in range(6000 if ctx.thorough else 600):
        t = rng.choice((20, 21, 22))
        w = core.Writer()
        msgs, _ = enc.gen_record_payload(rng, w, t, 60)
        tail = bad_tail(rng, t)
        buf = w.bytes() + tail
        if len(buf) > 16640:
            continue
        v = rng.choice((0x0301, 0x0303, rng.randrange(65536)))
        stops.append(enc.Case('stops_at_first_bad', ('rec_with_hdr', str(t), str(v), str(len(buf))), buf, [], None,
                              expect='ok %d %s' % (len(tail), core.lst(msgs))))
        # first message malformed / empty payload: never a value
        stops.append(enc.Case('first_bad', ('rec_with_hdr', str(t), str(v), str(len(tail))), tail, [], None))
        stops.append(enc.Case('empty_payload', ('rec_with_hdr', str(t), str(v), '0'), b'', [], None))
    common.run_exact(ctx, [c for c in stops if c.expect])
    common.run_differential(ctx, [c for c in stops if not c.expect], common.proj_value,
                            classify=lambda c, r: 'a payload whose first message is malformed (or an empty payload) must be rejected' if r.startswith('ok ') else None)
    # a handshake message whose 24-bit length has a non-zero top byte it cannot honour inside the record, with as many bytes
    # *behind the record* as that length asks for: the record is confined to its own length, so the message is cut short and
    # the record must be rejected - never decoded from what follows it (and never consumed beyond 5 + length)
    over = []
    for ht in (20, 16, 12, 14, 11, 1):
        for blen in (0, 9, 300):
            for top in (1, 2):
                body = rng.randbytes(blen)
                msg = bytes([ht]) + (top * 65536 + blen).to_bytes(3, 'big') + body
                rec = bytes([22, 3, 3]) + len(msg).to_bytes(2, 'big') + msg
                tail = rng.randbytes(top * 65536 + rng.choice((0, 1, 40)))
                over.append(enc.Case('message_longer_than_its_record', ('tls_plaintext',), rec + tail, [], None))
                over.append(enc.Case('message_longer_than_its_record', ('tls_parser',), rec + tail, [], None))
    common.run_differential(ctx, over, common.proj_value,
                            classify=lambda c, r: 'a message that declares more bytes than its record holds must be rejected, whatever follows the record' if r.startswith('ok ') else None)
    # records at and around every plausible size limit (2^14, the 2^14+256 cap), for every content type: the limit that
    # exists is the record cap and it does not depend on the content type
    S = core.span
    big = []
    for ln in (16382, 16383, 16384, 16385, 16386, 16638, 16639, 16640):
        for v in (0x0301, 0x0303, 0x0304):
            hdr = lambda t: bytes([t]) + v.to_bytes(2, 'big') + ln.to_bytes(2, 'big')
            if ln in (16384, 16640) and v == 0x0303 or ctx.thorough:
              big.append((hdr(20) + b'\x01' * ln, 'ok 0 (Plain (Hdr 20 %d %d) [%s])' % (v, ln, ' '.join(['CCS'] * ln))))
            if ln % 2 == 0 and (ln in (16384, 16640) and v == 0x0303 or ctx.thorough):
                big.append((hdr(21) + b'\x01\x00' * (ln // 2), 'ok 0 (Plain (Hdr 21 %d %d) [%s])' % (v, ln, ' '.join(['(Alert 1 0)'] * (ln // 2)))))
            big.append((hdr(22) + bytes([20]) + (ln - 4).to_bytes(3, 'big') + bytes(ln - 4), 'ok 0 (Plain (Hdr 22 %d %d) [(Hs (Finished %s))])' % (v, ln, S(9, ln - 4))))
            big.append((hdr(23) + bytes(ln), 'ok 0 (Plain (Hdr 23 %d %d) [(App %s)])' % (v, ln, S(5, ln))))
            for pad in (0, 16):
                pl = ln - 3 - pad
                big.append((hdr(24) + b'\x01' + pl.to_bytes(2, 'big') + bytes(pl + pad), 'ok 0 (Plain (Hdr 24 %d %d) [(Hb 1 %d %s)])' % (v, ln, pl, S(8, pl))))
    # the most handshake messages a record can hold: 4-byte messages with an empty body, up to the record cap
    for ln in (16384, 16388, 16640):
        big.append((bytes([22, 3, 3]) + ln.to_bytes(2, 'big') + b'\x00\x00\x00\x00' * (ln // 4), 'ok 0 (Plain (Hdr 22 771 %d) [%s])' % (ln, ' '.join(['(Hs HelloRequest)'] * (ln // 4)))))
    common.run_exact(ctx, [enc.Case('limit_sized_records', ('tls_plaintext',), b, [], None, expect=e) for b, e in big])
    # every unknown content type is rejected, for any payload
    unk = []
    for t in range(256):
        if t in (20, 21, 22, 23, 24):
            continue
        for pl in (b'', b'\x01', rng.randbytes(rng.choice((2, 5, 40)))):
            unk.append(enc.Case('unknown_content_type', ('rec_with_hdr', str(t), '771', str(len(pl))), pl, [], None))
            unk.append(enc.Case('unknown_content_type', ('tls_plaintext',), bytes([t, 3, 3]) + len(pl).to_bytes(2, 'big') + pl, [], None))
    common.run_differential(ctx, unk, common.proj_value,
                            classify=lambda c, r: 'unknown content type must be rejected with an error' if not r.startswith('error') else None)
    common.run_cg(ctx, ('tls_plaintext ', 'tls_parser ', 'rec_with_hdr ', 'msg_'), common.proj_value)
    common.lean_failure_violation(ctx, ok)
    return ctx.finish(LEVEL,
        rule='records of every content type built from 1..n messages by the independent encoder (exact values, all versions), the derived two-step call on the same payload (exact: same messages, spans shifted, padding as remainder), payloads followed by a malformed message (exact: messages before it, tail as remainder), first-message-malformed and empty payloads (class: rejected), all 251 unknown content types (class: error), records of every content type sized at and around 2^14 and the 2^14+256 cap (exact), single-field corruptions and truncations (differential); distinct = (family, outcome shape)',
        checker_cmd='cd /verif/lean && lake build TlsModel.Props.C03', assumptions=[])


def replay(ctx, payload):
    return common.generic_replay(ctx, payload)
