"""C01 — parsing never panics, hangs or over-allocates, whatever the bytes."""
import random
import core, framework, enc
from props import common, c07

LEVEL = 'proof'
MODULES = ['TlsModel.Props.C01', 'TlsModel.Props.C01Weight']
HEAP_A, HEAP_B = 640, 2 * 1024 * 1024     # peak heap <= A*len + B: A ~ 2 x size_of the largest element type per consumed byte (nom doubling); B generous, so that a fixed pre-allocation (a record-sized or even 1 MiB buffer) is not mistaken for growth with a *declared* length

PLAIN_OPS = ['tls_header', 'tls_raw', 'tls_encrypted', 'tls_plaintext', 'tls_parser', 'tls_many', 'msg_ccs', 'msg_alert', 'msg_appdata',
             'msg_handshake', 'hs_hello_request', 'hs_client_hello', 'hs_msg_client_hello', 'hs_server_hello', 'hs_msg_server_hello',
             'hs_hello_retry_request', 'hs_certificate', 'hs_certificaterequest', 'hs_msg_certificaterequest', 'hs_certificatestatus',
             'hs_msg_certificatestatus', 'hs_next_protocol', 'hs_msg_next_protocol', 'hs_key_update', 'ext', 'ext_client', 'ext_server',
             'exts', 'exts_client', 'exts_server', 'ext_sni_hostname', 'ext_unknown', 'dh', 'ec_params', 'ecdh', 'named_groups', 'dsig',
             'dsig_old', 'sct', 'sct_list', 'dtls_header', 'dtls_record', 'dtls_records', 'dtls_hs', 'dtls_ccs', 'dtls_alert']
LEN_OPS = ['hs_newsessionticket', 'hs_serverkeyexchange', 'hs_serverdone', 'hs_certificateverify', 'hs_clientkeyexchange', 'hs_finished', 'msg_heartbeat']
TAGS = ['sni', 'max_fragment_length', 'status_request', 'elliptic_curves', 'ec_point_formats', 'signature_algorithms', 'heartbeat',
        'encrypt_then_mac', 'extended_master_secret', 'session_ticket', 'key_share', 'pre_shared_key', 'early_data', 'supported_versions',
        'cookie', 'psk_key_exchange_modes']
CONTENT = ['sni', 'max_fragment_length', 'elliptic_curves', 'ec_point_formats', 'signature_algorithms', 'heartbeat', 'alpn',
           'signed_certificate_timestamp', 'psk_key_exchange_modes', 'renegotiation_info', 'encrypted_server_name']


def all_ops(rng):
    ops = [(o,) for o in PLAIN_OPS] + [('ext_tag_' + t,) for t in TAGS] + [('ext_c_' + t,) for t in CONTENT]
    ops += [('ext_type_of', d) for d in ('ext', 'ext_client', 'ext_server')]
    ops += [('content_sig', k, f) for k in ('dh', 'ecdh') for f in ('0', '1')]
    return ops


def len_arg(rng, n):
    return str(rng.choice((0, 1, 2, 3, 4, 5, n, max(0, n - 1), n + 1, 255, 65535, 2 ** 24 - 1)))


def garbage(rng, thorough):
    """byte strings that stress guards: empty, 1-2 bytes exhaustively sampled, headers with lying lengths, max-count lists"""
    out = [b'']
    out += [bytes([a]) for a in range(0, 256, 5 if not thorough else 1)]
    out += [bytes([a, b]) for a in (0, 1, 2, 0x16, 0x7f, 0xff) for b in (0, 1, 2, 3, 0x80, 0xff)]
    for _ in range(400 if thorough else 60):
        n = rng.choice((3, 4, 5, 6, 12, 13, 14, 33, 34, 35, 40, 64, 300))
        b = bytearray(rng.randbytes(n))
        # plant extreme length fields
        for _ in range(rng.randint(0, 3)):
            p = rng.randrange(n)
            v = rng.choice((b'\xff\xff\xff', b'\xff\xff', b'\x00\x00', b'\x00\x01', b'\xff', b'\x00', b'\x40\x00', b'\x41\x00', b'\x41\x01'))
            b[p:p + len(v)] = v
        out.append(bytes(b[:n]))
    return out


def lying(rng):
    """tiny inputs that declare huge element counts / lengths: allocation must follow the bytes present, not the declaration"""
    z32 = b'\0' * 32
    return [
        ('msg_handshake', b'\x01\xff\xff\xff' + b'\3\3' + z32 + b'\0' + b'\xff\xfe'),
        ('hs_client_hello', b'\3\3' + z32 + b'\0' + b'\xff\xfe' + b'\0' * 10),
        ('hs_client_hello', b'\3\3' + z32 + b'\x20' + b'\0' * 5),
        ('hs_certificaterequest', b'\xff' + b'\1' * 20),
        ('hs_certificaterequest', b'\0' + b'\xff\xfe' + b'\0' * 6),
        ('hs_certificate', b'\xff\xff\xff' + b'\0\0\1'),
        ('exts', b'\0\0\xff\xff\0\0'),
        ('ext', b'\0\x10\0\4\xff\xff\0\0'),
        ('ext', b'\0\0\0\4\xff\xff\0\0'),
        ('ext', b'\0\x0d\0\4\xff\xfe\0\0'),
        ('sct_list', b'\xff\xff' + b'\0\1'),
        ('tls_plaintext', b'\x16\x03\x03\x40\xff' + b'\0' * 8),
        ('tls_many', b'\x14\x03\x03\x00\x01\x01' * 50),
        ('dtls_records', (b'\x14\xfe\xfd' + b'\0' * 8 + b'\x00\x01\x01') * 40),
        ('tls_plaintext', b'\x14\x03\x03\x41\x00' + b'\x01' * 16640),
        ('tls_plaintext', b'\x15\x03\x03\x41\x00' + b'\x01\x00' * 8320),
        ('tls_plaintext', b'\x16\x03\x03\x41\x00' + b'\x00\x00\x00\x00' * 4160),
        ('exts', b'\x12\x34\x00\x00' * 4000),
        ('hs_certificate', (12000).to_bytes(3, 'big') + b'\0\0\0' * 4000),
        ('ext_c_alpn', (16000).to_bytes(2, 'big') + b'\0' * 16000),
        ('ext_c_sni', (15000).to_bytes(2, 'big') + b'\0\0\0' * 5000),
    ]


def text_fields():
    """host names / protocol names that the Debug impls decode as UTF-8: multi-byte characters at every alignment, so
    that a byte-offset cut at any fixed position (a truncated log line) falls inside a character in at least one
    of them; plus malformed UTF-8. The values must format, whatever they are."""
    out = []
    units = ['\u00e9', '\u20ac', '\U0001f600']
    pats = []
    for u in units:
        w = len(u.encode())
        for pre in range(w):
            pats.append(lambda n, u=u, pre=pre, w=w: (b'a' * pre + u.encode() * (max(0, n - pre) // w + 1))[:max(n, 0) // 1] if False else (b'a' * pre + u.encode() * ((max(0, n - pre) + w - 1) // w)))
    bad = [b'\xc3', b'\xe2\x82', b'\x80\x80', b'\xff', b'\xc0\xaf', b'\xed\xa0\x80', b'abc\xf0\x9f\x98']
    lens = [1, 2, 3, 4, 7, 8, 9, 31, 32, 33, 63, 64, 65, 127, 128, 129, 254, 255, 256, 257, 258, 511, 512, 513, 1023, 1024, 1025, 4095, 4097, 8191, 16000]
    names = [p(n) for p in pats for n in lens] + bad + [b'x' * n + b_ for n in (0, 253, 254, 255, 256) for b_ in bad]
    for nm in names:
        if len(nm) <= 65000:
            lst = b'\0' + len(nm).to_bytes(2, 'big') + nm
            content = len(lst).to_bytes(2, 'big') + lst
            if len(content) < 65536:
                e = b'\0\0' + len(content).to_bytes(2, 'big') + content
                out += [('ext', e), ('ext_client', e + b'\0\x17\0\0'), ('ext_tag_sni', e), ('ext_c_sni', content)]
        if len(nm) <= 255:
            lst = bytes([len(nm)]) + nm + b'\2h2'
            content = len(lst).to_bytes(2, 'big') + lst
            e = b'\0\x10' + len(content).to_bytes(2, 'big') + content
            out += [('ext', e), ('ext_server', e), ('ext_c_alpn', content)]
    return out


def run(ctx):
    core.build_harness()
    ok = common.lean_step(ctx, MODULES)
    rng = ctx.rng
    lines = []
    g = garbage(rng, ctx.thorough)
    for op in all_ops(rng):
        for b in (g if ctx.thorough else rng.sample(g, 60) + g[:3]):
            lines.append(' '.join(op + (core.hexs(b),)))
    for op in LEN_OPS:
        for b in rng.sample(g, 80):
            lines.append('%s %s %s' % (op, len_arg(rng, len(b)) if op != 'msg_heartbeat' else str(min(65535, int(len_arg(rng, len(b))))), core.hexs(b)))
    for _ in range(3000 if ctx.thorough else 300):
        b = rng.choice(g)
        lines.append('rec_with_hdr %d %d %d %s' % (rng.choice((20, 21, 22, 23, 24, 25, 0, 255)), rng.randrange(65536), rng.choice((0, 2, 3, len(b), 65535)), core.hexs(b)))
        lines.append('dtls_rec_with_hdr %d %d %d %s' % (rng.choice((20, 21, 22, 23, 24, 0)), rng.randrange(65536), len(b), core.hexs(b)))
    for op, b in lying(rng) + text_fields():
        lines.append('%s %s' % (op, core.hexs(b)))
    # well-formed values of every family and their corruptions (all prefixes for small ones)
    n = 200 if ctx.thorough else 20
    for name, fn in enc.FAMILIES.items():
        r = random.Random('%d/C01/%s' % (ctx.seed, name))
        for c in fn(r, n):
            lines.append(c.line)
            for m in enc.corruptions(c, r, limit=4):
                lines.append(m.line)
    # defragmenter: oracle histories and random op sequences
    hl = ['rp ' + ' '.join(c07.gen_history(rng).steps) for _ in range(2000 if ctx.thorough else 300)]
    hl += ['rp ' + ' '.join(c07.random_history(rng)) for _ in range(6000 if ctx.thorough else 1000)]
    hl += ['rp ' + ' '.join(c07.overfull_first_fragment(rng, x).steps) for x in (0, 1)] + ['rp ' + ' '.join(c07.oversize_history(rng, jump=True).steps)]
    hl += ['rp ' + ' '.join(c07.big_message_history(rng).steps) for _ in range(8 if ctx.thorough else 3)]
    # a handshake header split across records (first fragments of 0..3 bytes) announcing the largest lengths: nothing may be
    # reserved on the strength of a declared length
    for cut in ((1, 3), (0, 4), (2, 2), (3, 1), (1, 1, 2), (0, 1, 0, 3)):
        for L in ('ffffff', 'a00000', '7fffff'):
            hdr = bytes.fromhex('0b' + L)
            parts, pos = [], 0
            for c in cut:
                parts.append(hdr[pos:pos + c]); pos += c
            hl.append('rp ' + ' '.join(c07.step('p', 22, 0x0303, x) for x in parts) + ' ' + c07.step('p', 22, 0x0303, b'\x00\x01\x02'))
    hl += ['rp p:22:771:0:- p:22:771:4:0e000000', 'rp p:24:771:0:- p:24:771:3:010000', 'rp p:22:771:0:- p:22:771:0:- n:22:771:0:- r p:22:771:0:-']
    lines += hl
    lines += common.cg_lines(ctx, None)
    impl, model = ctx.run_both(lines)
    nv = 0
    maxratio = 0.0
    for ln, a, b in zip(lines, impl, model):
        ra, side = core.split_side(a)
        op = ln.split(' ', 1)[0]
        fam = 'histories' if op == 'rp' else 'inputs'
        cls = 'panic' if 'panic' in ra.split(' ; ')[0:1000] and op != 'rp' else core.res_class(ra)
        ctx.count(fam, core.res_class(ra) if op != 'rp' else 'run')
        ctx.distinct.add((op, framework.shape(ra)[:60]))
        nbytes = sum(len(x) for x in ln.split(' ')[1:]) // 2 if op != 'rp' else len(ln) // 2
        bad = None
        if ra == 'crash':
            bad = 'the process died on this input (abort / stack overflow / allocation failure)'
        elif 'panic' in ra:
            bad = 'panic'
        elif side.get('fmt') == 'panic':
            bad = 'Debug/Display formatting of the returned value panicked'
        elif 'heap' in side:
            heap = int(side['heap'])
            # histories: the defragmenter's buffer only ever holds bytes that were fed to it, so the same linear bound in the total
            # number of bytes of the history applies (the documented 10 MiB is a cap on top of it, not an allowance)
            bound = HEAP_A * nbytes + HEAP_B
            if nbytes:
                maxratio = max(maxratio, heap / max(1, nbytes)) if heap > HEAP_B else maxratio
            if heap > bound:
                bad = 'peak heap %d bytes for %d input bytes exceeds the linear bound %d*len+%d' % (heap, nbytes, HEAP_A, HEAP_B)
        if bad:
            nv += 1
            ctx.cov['impl_vs_oracle_failures'] += 1
            if nv <= 6:
                ctx.violation('%s: %s; implementation: "%s"' % (ln[:120], bad, ra[:160]), {'lines': [ln if len(ln) < 100000 else ln[:100000]], 'impl': ra[:2000]}, key='%s:%s' % (op, bad[:20]))
        elif ('panic' in b) != ('panic' in ra):
            ctx.cov['model_vs_impl_disagreements'] += 1
            ctx.violation('model predicts a panic where the implementation has none: %s' % ln[:120], {'lines': [ln[:100000]], 'impl': ra[:500], 'model': b[:500]}, found_input=False, key='modelpanic:' + op)
    ctx.notes.append('largest observed heap/input ratio above the constant: %.1f bytes per input byte (bound %d)' % (maxratio, HEAP_A))
    ctx.sample({'line': lines[7][:200], 'impl': impl[7][:200]})
    ctx.sample({'line': hl[0][:200], 'impl': impl[len(lines) - len(hl)][:300]})
    common.lean_failure_violation(ctx, ok)
    return ctx.finish(LEVEL,
        rule='every public parse op on: empty input, 1-2 byte strings, random bytes with planted extreme length fields, tiny inputs declaring huge lengths/counts, cap-sized records of minimal-size elements, host / protocol names made of multi-byte UTF-8 characters at every alignment and of malformed UTF-8, all independent-encoder families and their corruptions; defragmenter oracle and random histories (incl. empty first fragments); each call under catch_unwind with overflow-checks and debug-assertions on, counting allocator, Debug/Display of every returned value; verdicts: panic / crash / fmt panic / peak heap above %d*len+%d (histories: linear in the bytes fed so far); distinct = (op, outcome shape)' % (HEAP_A, HEAP_B),
        checker_cmd='cd /verif/lean && lake build TlsModel.Props.C01',
        assumptions=['PARTIAL: absence of panics and termination are theorems about the model (81 entry points + all defragmenter histories); heap bytes, formatting and wall-clock are measured on the implementation, not proved',
                     'a hang would surface as a check timeout (no per-case watchdog)'])


def replay(ctx, payload):
    return common.generic_replay(ctx, payload)
