"""C11 — unknown enumerated code points are accepted and preserved, not rejected."""
import core, framework, enc
from props import common

LEVEL = 'proof'
MODULES = ['TlsModel.Props.C11']
Z32 = b'\x11' * 32
VERS = (0x0000, 0x0002, 0x0200, 0x0300, 0x0301, 0x0302, 0x0303, 0x0304, 0x7f12, 0x7f1c, 0xfeff, 0xfefd, 0xfefc, 0xffff)
KNOWN_EXT = {0, 1, 5, 10, 11, 13, 15, 16, 18, 21, 22, 23, 28, 35, 40, 41, 42, 43, 44, 45, 48, 49, 51, 13172, 0xff01, 0xffce}


def hs(t, body):
    return bytes([t]) + len(body).to_bytes(3, 'big') + body


def ext(t, data):
    return t.to_bytes(2, 'big') + len(data).to_bytes(2, 'big') + data


def u16(v):
    return v.to_bytes(2, 'big')


def fields():
    """(name, domain size, builder v -> (op, bytes, expected result))"""
    S = core.span
    f = []
    f.append(('raw_record_type', 256, lambda v: ('tls_raw', bytes([v, 3, 3, 0, 2, 7, 8]), 'ok 0 (Raw (Hdr %d 771 2) %s)' % (v, S(5, 2)))))
    f.append(('encrypted_record_type', 256, lambda v: ('tls_encrypted', bytes([v, 3, 3, 0, 2, 7, 8]), 'ok 0 (Enc (Hdr %d 771 2) %s)' % (v, S(5, 2)))))
    # joint sweeps: a code point must be preserved whatever the *other* code points of the structure are (a check keyed
    # on a combination, e.g. "TLS 1.3 records must be application data", is invisible when one field varies alone)
    for ver in VERS:
        if ver != 0x0303:
            f.append(('raw_record_type@%04x' % ver, 256, lambda v, ver=ver: ('tls_raw', bytes([v]) + u16(ver) + b'\0\2\7\x08', 'ok 0 (Raw (Hdr %d %d 2) %s)' % (v, ver, S(5, 2)))))
            f.append(('encrypted_record_type@%04x' % ver, 256, lambda v, ver=ver: ('tls_encrypted', bytes([v]) + u16(ver) + b'\0\2\7\x08', 'ok 0 (Enc (Hdr %d %d 2) %s)' % (v, ver, S(5, 2)))))
            f.append(('heartbeat_type@%04x' % ver, 256, lambda v, ver=ver: ('tls_plaintext', bytes([24]) + u16(ver) + bytes([0, 5, v, 0, 2, 9, 9]), 'ok 0 (Plain (Hdr 24 %d 5) [(Hb %d 2 %s)])' % (ver, v, S(8, 2)))))
            f.append(('alert@%04x' % ver, 65536, lambda v, ver=ver: ('tls_plaintext', bytes([21]) + u16(ver) + b'\0\2' + u16(v), 'ok 0 (Plain (Hdr 21 %d 2) [(Alert %d %d)])' % (ver, v >> 8, v & 255))))
            f.append(('dtls_record_type@%04x' % ver, 256, lambda v, ver=ver: ('dtls_header', bytes([v]) + u16(ver) + b'\0\1' + b'\0' * 6 + b'\0\0', 'ok 0 (DHdr %d %d 1 0 0)' % (v, ver))))
        f.append(('client_hello_cipher@%04x' % ver, 65536, lambda v, ver=ver: ('msg_handshake', hs(1, u16(ver) + Z32 + b'\0' + b'\0\4' + u16(v) + u16(65535 - v) + b'\2' + bytes([v & 255, 255 - (v & 255)])),
                  'ok 0 (Hs (ClientHello %d %s none [%d %d] [%d %d] none))' % (ver, S(6, 32), v, 65535 - v, v & 255, 255 - (v & 255)))))
    for ver in (0x0300, 0x0301, 0x0302, 0x0303):
        f.append(('server_hello_cipher_comp@%04x' % ver, 65536, lambda v, ver=ver: ('msg_handshake', hs(2, u16(ver) + Z32 + b'\0' + u16(v) + bytes([v >> 8])),
                  'ok 0 (Hs (ServerHello %d %s none %d %d none))' % (ver, S(6, 32), v, v >> 8))))
    f.append(('server_hello_d18_cipher', 65536, lambda v: ('msg_handshake', hs(2, u16(0x7f12) + Z32 + u16(v) + b'\0\0'),
              'ok 0 (Hs (ServerHello13d18 32530 %s %d (some +0)))' % (S(6, 32), v))))
    for ct, payload, val in ((20, b'\1', '[CCS]'), (23, b'\7\x08', None), (22, hs(0, b''), '[(Hs HelloRequest)]')):
        def recver(v, ct=ct, payload=payload, val=val):
            vv = val if val is not None else '[(App %s)]' % S(5, len(payload))
            return ('tls_plaintext', bytes([ct]) + u16(v) + u16(len(payload)) + payload, 'ok 0 (Plain (Hdr %d %d %d) %s)' % (ct, v, len(payload), vv))
        f.append(('record_version/type%d' % ct, 65536, recver))
    f.append(('record_version', 65536, lambda v: ('tls_plaintext', bytes([21]) + u16(v) + b'\0\2\1\0', 'ok 0 (Plain (Hdr 21 %d 2) [(Alert 1 0)])' % v)))
    f.append(('raw_record_version', 65536, lambda v: ('tls_raw', bytes([22]) + u16(v) + b'\0\1\7', 'ok 0 (Raw (Hdr 22 %d 1) %s)' % (v, S(5, 1)))))
    f.append(('alert_level_x_description', 65536, lambda v: ('msg_alert', u16(v), 'ok 0 (Alert %d %d)' % (v >> 8, v & 255))))
    f.append(('heartbeat_type', 256, lambda v: ('tls_plaintext', bytes([24, 3, 3, 0, 5, v, 0, 2, 9, 9]), 'ok 0 (Plain (Hdr 24 771 5) [(Hb %d 2 %s)])' % (v, S(8, 2)))))
    f.append(('client_hello_version', 65536, lambda v: ('msg_handshake', hs(1, u16(v) + Z32 + b'\0' + b'\0\2\0\x2f' + b'\1\0'),
              'ok 0 (Hs (ClientHello %d %s none [47] [0] none))' % (v, S(6, 32)))))
    f.append(('cipher_suite_id', 65536, lambda v: ('msg_handshake', hs(1, b'\3\3' + Z32 + b'\0' + b'\0\4' + u16(v) + u16(65535 - v) + b'\1\0'),
              'ok 0 (Hs (ClientHello 771 %s none [%d %d] [0] none))' % (S(6, 32), v, 65535 - v))))
    f.append(('compression_id', 256, lambda v: ('msg_handshake', hs(1, b'\3\3' + Z32 + b'\0' + b'\0\2\0\x2f' + b'\2' + bytes([v, 255 - v])),
              'ok 0 (Hs (ClientHello 771 %s none [47] [%d %d] none))' % (S(6, 32), v, 255 - v))))
    f.append(('server_hello_cipher', 65536, lambda v: ('msg_handshake', hs(2, b'\3\3' + Z32 + b'\0' + u16(v) + b'\0'),
              'ok 0 (Hs (ServerHello 771 %s none %d 0 none))' % (S(6, 32), v))))
    f.append(('server_hello_compression', 256, lambda v: ('msg_handshake', hs(2, b'\3\1' + Z32 + b'\0' + b'\0\x2f' + bytes([v])),
              'ok 0 (Hs (ServerHello 769 %s none 47 %d none))' % (S(6, 32), v))))
    f.append(('hello_retry_request_version', 65536, lambda v: ('msg_handshake', hs(6, u16(v) + u16(0x1301)), 'ok 0 (Hs (HelloRetryRequest %d 4865 none))' % v)))
    f.append(('key_update_value', 256, lambda v: ('msg_handshake', hs(24, bytes([v])), 'ok 0 (Hs (KeyUpdate %d))' % v)))
    f.append(('certificate_status_type', 256, lambda v: ('msg_handshake', hs(22, bytes([v]) + b'\0\0\1\x30'), 'ok 0 (Hs (CertificateStatus %d %s))' % (v, S(8, 1)))))
    f.append(('certificate_type', 256, lambda v: ('msg_handshake', hs(13, b'\2' + bytes([v, 255 - v]) + b'\0\0' + b'\0\0'),
              'ok 0 (Hs (CertificateRequest [%d %d] (some []) []))' % (v, 255 - v))))
    f.append(('certreq_sig_hash_alg', 65536, lambda v: ('msg_handshake', hs(13, b'\1\1' + b'\0\2' + u16(v) + b'\0\0'),
              'ok 0 (Hs (CertificateRequest [1] (some [%d]) []))' % v)))
    def ext_unknown(v):
        if v in KNOWN_EXT or (v & 0x0f0f) == 0x0a0a and (v >> 8) == (v & 255):
            return None
        return ('ext', ext(v, b'\1\2\3'), 'ok 0 (Unknown %d %s)' % (v, S(4, 3)))
    f.append(('extension_type', 65536, ext_unknown))
    for d in ('ext_client', 'ext_server'):
        def ext_unknown_d(v, d=d):
            r = ext_unknown(v)
            return None if r is None else (d, r[1], r[2])
        f.append(('extension_type/' + d, 65536, ext_unknown_d))
    for d in ('exts', 'exts_client', 'exts_server'):
        def ext_twice(v, d=d):
            r = ext_unknown(v)
            if r is None:
                return None
            return (d, ext(v, b'\1\2\3') + ext(v, b''), 'ok 0 [(Unknown %d %s) (Unknown %d +0)]' % (v, S(4, 3), v))
        f.append(('extension_type_twice/' + d, 65536, ext_twice))
        def grease_pair(v, d=d):
            a, b = 0x0a0a + 0x1010 * (v >> 4), 0x0a0a + 0x1010 * (v & 15)
            return (d, ext(a, b'\7') + ext(b, b''), 'ok 0 [(Grease %d %s) (Grease %d +0)]' % (a, S(4, 1), b))
        f.append(('grease_pair/' + d, 256, grease_pair))
    f.append(('named_group_ext', 65536, lambda v: ('ext', ext(10, b'\0\4' + u16(v) + u16(65535 - v)), 'ok 0 (EllipticCurves [%d %d])' % (v, 65535 - v))))
    f.append(('named_group_ec_params', 65536, lambda v: ('ec_params', b'\3' + u16(v), 'ok 0 (ECParams 3 (NamedGroup %d))' % v)))
    f.append(('named_groups_list', 65536, lambda v: ('named_groups', u16(v), 'ok 0 [%d]' % v)))
    f.append(('signature_algorithm_ext', 65536, lambda v: ('ext', ext(13, b'\0\2' + u16(v)), 'ok 0 (SignatureAlgorithms [%d])' % v)))
    f.append(('dsig_hash_x_sign', 65536, lambda v: ('dsig', u16(v) + b'\0\1\x55', 'ok 0 (DSig (some (P %d %d)) %s)' % (v >> 8, v & 255, S(4, 1)))))
    f.append(('sni_name_type', 256, lambda v: ('ext', ext(0, b'\0\4' + bytes([v]) + b'\0\1a'), 'ok 0 (SNI [(P %d %s)])' % (v, S(9, 1)))))
    f.append(('status_request_type', 256, lambda v: ('ext', ext(5, bytes([v]) + b'\0\0\0\0'), 'ok 0 (StatusRequest (some (P %d %s)))' % (v, S(5, 4)))))
    f.append(('psk_mode', 256, lambda v: ('ext', ext(45, b'\2' + bytes([v, 255 - v])), 'ok 0 (PskExchangeModes x:%02x%02x)' % (v, 255 - v))))
    f.append(('ec_point_format', 256, lambda v: ('ext', ext(11, b'\1' + bytes([v])), 'ok 0 (EcPointFormats %s)' % S(5, 1))))
    f.append(('supported_version', 65536, lambda v: ('ext', ext(43, b'\2' + u16(v)), 'ok 0 (SupportedVersions [%d])' % v)))
    f.append(('esni_cipher_and_group', 65536, lambda v: ('ext', ext(0xffce, u16(v) + u16(65535 - v) + b'\0\0\0\0\0\0'), 'ok 0 (ESNI %d %d +0 +0 +0)' % (v, 65535 - v))))
    sct_tail = Z32 + b'\0' * 8 + b'\0\0' + b'\4\3' + b'\0\1\x99'
    f.append(('ct_version', 256, lambda v: ('sct', u16(1 + len(sct_tail)) + bytes([v]) + sct_tail,
              'ok 0 (SCTE %d %s 0 +0 (DSig (some (P 4 3)) %s))' % (v, S(3, 32), S(3 + 32 + 8 + 2 + 2 + 2, 1)))))
    f.append(('dtls_record_type_version', 65536, lambda v: ('dtls_header', bytes([v >> 8]) + u16(v) + b'\0\1' + b'\0' * 6 + b'\0\0', 'ok 0 (DHdr %d %d 1 0 0)' % (v >> 8, v))))
    f.append(('dtls_hello_verify_version', 65536, lambda v: ('dtls_hs', bytes([3]) + b'\0\0\3' + b'\0\0' + b'\0\0\0' + b'\0\0\3' + u16(v) + b'\0',
              'ok 0 (M 0 (Hs 3 3 0 0 3 (HelloVerifyRequest %d +0)))' % v)))
    # size axis: a code point must be preserved whatever the *sizes* of its sibling fields are (a check keyed on a code point
    # together with a length window - "names longer than 255", "records of 768..1023 bytes" - is invisible at one fixed size)
    PAY = (0, 1, 255, 256, 767, 768, 1023, 1024, 4096, 16384, 16640)
    for L in PAY:
        def rawrec(v, L=L, op='tls_raw', name='Raw'):
            ver = VERS[(v + L) % len(VERS)]
            return (op, bytes([v]) + u16(ver) + u16(L) + bytes(L), 'ok 0 (%s (Hdr %d %d %d) %s)' % (name, v, ver, L, S(5, L)))
        f.append(('raw_record_type/len%d' % L, 256, rawrec))
        f.append(('encrypted_record_type/len%d' % L, 256, lambda v, L=L: rawrec(v, L, 'tls_encrypted', 'Enc')))
    for L, pad in ((0, 0), (1, 16), (255, 0), (256, 1), (4096, 16), (16000, 300)):
        f.append(('heartbeat_type/len%d' % L, 256, lambda v, L=L, pad=pad: ('tls_plaintext', bytes([24, 3, 3]) + u16(3 + L + pad) + bytes([v]) + u16(L) + bytes(L + pad),
                  'ok 0 (Plain (Hdr 24 771 %d) [(Hb %d %d %s)])' % (3 + L + pad, v, L, S(8, L)))))
    for L in (0, 2, 255, 256, 257, 1000, 16000):
        def sni(v, L=L):
            item = bytes([v]) + u16(L) + b'a' * L
            data = u16(len(item) * 2) + item + item
            return ('ext', ext(0, data), 'ok 0 (SNI [(P %d %s) (P %d %s)])' % (v, S(9, L), v, S(9 + 3 + L + 3 - 3, L)))
        f.append(('sni_name_type/len%d' % L, 256, sni))
    for L in (0, 1, 255, 256, 1000):
        f.append(('status_request_type/len%d' % L, 256, lambda v, L=L: ('ext', ext(5, bytes([v]) + bytes(L)), 'ok 0 (StatusRequest (some (P %d %s)))' % (v, S(5, L)))))
    for L in (0, 255, 256, 65535, 70000):
        f.append(('certificate_status_type/len%d' % L, 256, lambda v, L=L: ('msg_handshake', hs(22, bytes([v]) + L.to_bytes(3, 'big') + bytes(L)),
                  'ok 0 (Hs (CertificateStatus %d %s))' % (v, S(8, L)))))
    for n in (1, 2, 16, 255):
        f.append(('psk_mode/n%d' % n, 256, lambda v, n=n: ('ext', ext(45, bytes([n]) + bytes([(v + k) % 256 for k in range(n)])), 'ok 0 (PskExchangeModes x:%s)' % bytes([(v + k) % 256 for k in range(n)]).hex())))
        f.append(('ec_point_format/n%d' % n, 256, lambda v, n=n: ('ext', ext(11, bytes([n]) + bytes([v] * n)), 'ok 0 (EcPointFormats %s)' % S(5, n))))
        f.append(('compression_id/n%d' % n, 256, lambda v, n=n: ('msg_handshake', hs(1, b'\3\3' + Z32 + b'\0' + b'\0\2\0\x2f' + bytes([n]) + bytes([(v + k) % 256 for k in range(n)])),
                  'ok 0 (Hs (ClientHello 771 %s none [47] [%s] none))' % (S(6, 32), ' '.join(str((v + k) % 256) for k in range(n))))))
        f.append(('certificate_type/n%d' % n, 256, lambda v, n=n: ('msg_handshake', hs(13, bytes([n]) + bytes([(v + k) % 256 for k in range(n)]) + b'\0\0' + b'\0\0'),
                  'ok 0 (Hs (CertificateRequest [%s] (some []) []))' % ' '.join(str((v + k) % 256) for k in range(n)))))
    for n in (1, 16, 128, 129, 1000):
        f.append(('cipher_suite_id/n%d' % n, 65536, lambda v, n=n: ('msg_handshake', hs(1, b'\3\3' + Z32 + b'\0' + u16(2 * n) + b''.join(u16((v + k) % 65536) for k in range(n)) + b'\1\0'),
                  'ok 0 (Hs (ClientHello 771 %s none [%s] [0] none))' % (S(6, 32), ' '.join(str((v + k) % 65536) for k in range(n))))))
        f.append(('named_group_ext/n%d' % n, 65536, lambda v, n=n: ('ext', ext(10, u16(2 * n) + b''.join(u16((v + k) % 65536) for k in range(n))), 'ok 0 (EllipticCurves [%s])' % ' '.join(str((v + k) % 65536) for k in range(n)))))
        f.append(('signature_algorithm_ext/n%d' % n, 65536, lambda v, n=n: ('ext', ext(13, u16(2 * n) + b''.join(u16((v + k) % 65536) for k in range(n))), 'ok 0 (SignatureAlgorithms [%s])' % ' '.join(str((v + k) % 65536) for k in range(n)))))
    for el, sl in ((0, 0), (255, 1), (256, 256), (1000, 0)):
        def sctv(v, el=el, sl=sl):
            tail = Z32 + b'\0' * 8 + u16(el) + bytes(el) + b'\4\3' + u16(sl) + b'\x99' * sl
            return ('sct', u16(1 + len(tail)) + bytes([v]) + tail, 'ok 0 (SCTE %d %s 0 %s (DSig (some (P 4 3)) %s))' % (v, S(3, 32), S(45, el), S(45 + el + 4, sl)))
        f.append(('ct_version/ext%d_sig%d' % (el, sl), 256, sctv))
    for cl in (0, 32, 33, 255):
        f.append(('dtls_hello_verify_version/cookie%d' % cl, 65536, lambda v, cl=cl: ('dtls_hs', bytes([3]) + (3 + cl).to_bytes(3, 'big') + b'\0\0' + b'\0\0\0' + (3 + cl).to_bytes(3, 'big') + u16(v) + bytes([cl]) + b'c' * cl,
                  'ok 0 (M 0 (Hs 3 %d 0 0 %d (HelloVerifyRequest %d %s)))' % (3 + cl, 3 + cl, v, S(15, cl)))))
        def dch(v, cl=cl):
            body = u16(v) + Z32 + b'\0' + bytes([cl]) + b'c' * cl + b'\0\2\0\x2f' + b'\1\0'
            return ('dtls_hs', bytes([1]) + len(body).to_bytes(3, 'big') + b'\0\0' + b'\0\0\0' + len(body).to_bytes(3, 'big') + body,
                    'ok 0 (M 0 (Hs 1 %d 0 0 %d (ClientHello %d %s none %s [47] [0] none)))' % (len(body), len(body), v, S(14, 32), S(48, cl)))
        f.append(('dtls_client_hello_version/cookie%d' % cl, 65536, dch))
    return f


def run(ctx):
    core.build_harness()
    ok = common.lean_step(ctx, MODULES)
    cases = []
    for name, dom, build in fields():
        if dom == 256 or (ctx.thorough and '/n' not in name) or (name.startswith('extension_type') and 'twice' not in name):
            vals = range(dom)
        elif '/n' in name and ctx.thorough:
            vals = sorted(set(range(0, dom, 7 if int(name.split('/n')[1]) <= 129 else 61)) | set(common.interesting_values(dom)))
        elif '/n' in name:
            vals = sorted(set(range(0, dom, 251)) | set(range(0, 64)) | {dom - 1, 0x7f12, 0x0a0a, 0xfafa, 0xfe00, 0xff01} | set(common.interesting_values(dom)[::3]))
        else:
            vals = sorted(set(range(0, dom, 13)) | set(range(0, 600)) | {dom - 1, dom - 2, 0x7f12, 0x0a0a, 0xfafa, 0xfe00, 0xfeff, 0xff01, 0xffce} | set(common.interesting_values(dom)))
        for v in vals:
            r = build(v)
            if r is None:
                continue
            op, buf, exp = r
            cases.append(enc.Case('sweep/' + name, (op,), buf, [], None, expect=exp))
    common.run_exact(ctx, cases)
    for c in cases[::997]:
        ctx.sample({'field': c.fam, 'line': c.line[:160], 'expect': c.expect[:160]})
    common.run_cg(ctx, ('tls_raw ', 'tls_encrypted ', 'tls_header ', 'dtls_header ', 'msg_alert ', 'msg_heartbeat ', 'hs_key_update ', 'named_groups ', 'ext_c_', 'ext_sni_hostname '), common.proj_value)
    common.lean_failure_violation(ctx, ok)
    return ctx.finish(LEVEL,
        rule='for each enumerated field named by the property (33 field sweeps): every value of its domain (all 256; all 65536 in the thorough tier, every 13th value plus boundaries and registry neighbourhoods in the quick tier) inside a fixed otherwise well-formed enclosing structure, and again with the sibling fields at several sizes (record payloads 0..16640, names 0..16000, lists of 1..1000 entries) and versions; exact expected value; distinct = (field, outcome shape)',
        checker_cmd='cd /verif/lean && lake build TlsModel.Props.C11', assumptions=[],
        extra={'exhaustive': bool(ctx.thorough)})


def replay(ctx, payload):
    return common.generic_replay(ctx, payload)
