"""C04 — handshake messages decode to the values an RFC encoder wrote; bad ones fail."""
import core, framework, enc
from props import common

LEVEL = 'proof'
MODULES = ['TlsModel.Props.C04']
Z32 = b'\0' * 32


def hs(t, body):
    return bytes([t]) + len(body).to_bytes(3, 'big') + body


def rejection_cases(ctx):
    """structurally invalid bodies named by the property: each must be rejected (never a value)"""
    rng = ctx.rng
    out = []

    def add(name, buf, op=('msg_handshake',)):
        out.append(enc.Case('reject/' + name, op, buf, [], None))
    for _ in range(300 if ctx.thorough else 40):
        rnd = rng.randbytes(32)
        ver = rng.choice((0x0301, 0x0303, rng.randrange(65536))).to_bytes(2, 'big')
        n = rng.randrange(33, 256)
        add('sid_over_32', hs(1, ver + rnd + bytes([n]) + rng.randbytes(n) + b'\0\2\0\x2f\1\0'))
        add('sid_over_32_sh', hs(2, b'\3\3' + rnd + bytes([n]) + rng.randbytes(n) + b'\0\x2f\0'))
        k = rng.choice((1, 3, 5, 255, 65535))
        add('odd_cipher_list', hs(1, ver + rnd + b'\0' + k.to_bytes(2, 'big') + rng.randbytes(min(k, 300)) + b'\1\0'))
        k = rng.choice((2, 4, 100, 65534))
        add('overlong_cipher_list', hs(1, ver + rnd + b'\0' + k.to_bytes(2, 'big') + rng.randbytes(k - 1 if k < 50 else 10)))
        k = rng.randrange(1, 256)
        add('overlong_compression', hs(1, ver + rnd + b'\0' + b'\0\2\0\x2f' + bytes([k]) + rng.randbytes(k - 1)))
        add('ticket_short', hs(4, rng.randbytes(rng.randrange(0, 4))))
        body = rng.randbytes(rng.randrange(0, 30))
        add('cert_list_overrun', hs(11, (len(body) + rng.choice((1, 2, 1000, 0xffffff - len(body)))).to_bytes(3, 'big') + body))
        add('status_blob_overrun', hs(22, bytes([rng.randrange(256)]) + (len(body) + rng.choice((1, 5, 70000))).to_bytes(3, 'big') + body))
        v = rng.choice([x for x in (0x0304, 0x0305, 0x02ff, 0xfefd, 0xfeff, 0x7f13, 0x7f11, 0, 0xffff, rng.randrange(65536))
                        if x not in (0x0300, 0x0301, 0x0302, 0x0303, 0x7f12)])
        add('serverhello_bad_version', hs(2, v.to_bytes(2, 'big') + rnd + b'\0' + b'\0\x2f' + b'\0'))
        t = rng.choice([x for x in range(256) if x not in (0, 1, 2, 4, 5, 6, 11, 12, 13, 14, 15, 16, 20, 22, 24, 0x43)])
        add('unknown_type', hs(t, rng.randbytes(rng.choice((0, 1, 40)))))
        # mandatory field cut by the declared message length (the bytes are there, but outside the message)
        w = core.Writer()
        kind = rng.choice(('client_hello', 'server_hello', 'hello_retry_request', 'certificate_status', 'next_protocol', 'key_update', 'certificate'))
        try:
            enc.gen_handshake_msg(rng, w, kind, 40, ext=False) if kind in ('client_hello', 'server_hello', 'hello_retry_request') else enc.gen_handshake_msg(rng, w, kind, 40)
        except TypeError:
            enc.gen_handshake_msg(rng, w, kind, 40)
        b = bytearray(w.bytes())
        hl = int.from_bytes(b[1:4], 'big')
        if hl > 0:
            cut = rng.randrange(0, hl) if kind not in ('certificate',) else rng.randrange(0, min(hl, 3))
            b[1:4] = cut.to_bytes(3, 'big')
            add('field_cut_by_length', bytes(b))
    return out


def run(ctx):
    core.build_harness()
    ok = common.lean_step(ctx, MODULES)
    n = 600 if ctx.thorough else 60
    fams = [f for f in enc.FAMILIES if f.startswith('msg_handshake') or f.startswith('hs_')]
    exact, mutants = common.gen_cases(ctx, fams, n)
    common.run_exact(ctx, exact)
    common.run_exact(ctx, common.long_tails(ctx, exact))
    common.run_differential(ctx, mutants, common.proj_value)
    rej = rejection_cases(ctx)
    common.run_differential(ctx, rej, common.proj_value,
                            classify=lambda c, r: 'structurally invalid handshake message must be rejected, not decoded' if r.startswith('ok ') else None)
    # confinement: the declared length present => trailing bytes never change value or outcome class
    conf = []
    rng = ctx.rng
    elig = [c for c in exact if c.op[0] == 'msg_handshake' and len(c.buf) >= 4 and len(c.buf) >= 4 + int.from_bytes(c.buf[1:4], 'big')]
    elig = rng.sample(elig, min(len(elig), 6000 if ctx.thorough else 800))
    # every rejection shape too (a length that over-runs the message must not start reading what follows it), each with
    # random bytes and with a complete further message behind it
    for c in elig + [c for c in rej if c.op[0] == 'msg_handshake' and len(c.buf) >= 4 + int.from_bytes(c.buf[1:4], 'big')]:
        conf.append((c, rng.randbytes(rng.choice((1, 3, 17)))))
        if c.fam.startswith('reject/'):
            conf.append((c, bytes([14, 0, 0, 0]) + hs(20, rng.randbytes(12)) + rng.randbytes(40)))
    lines = [c.line for c, s in conf] + [' '.join(c.op + (core.hexs(c.buf + s),)) for c, s in conf]
    impl, model = ctx.run_both(lines)
    N = len(conf)
    for k, (c, s) in enumerate(conf):
        a, _ = core.split_side(impl[k]); b, _ = core.split_side(impl[N + k])
        ctx.count('confinement', core.res_class(a))
        pa, pb = core.parse_result(a), core.parse_result(b)
        good = (pa[0] == pb[0]) and (pa[0] != 'ok' or (pb[1] == pa[1] + len(s) and pb[2] == pa[2]))
        if not good:
            ctx.violation('bytes after the declared message length change the result: "%s" vs "%s" with %d more bytes' % (a[:150], b[:150], len(s)),
                          {'lines': [lines[k], lines[N + k]], 'impl': [a, b]}, key='confine:' + c.fam)
    def cg_class(c, r):
        # rejection shapes of the statement that can be read off a corpus line: NewSessionTicket declared shorter than 4 bytes
        t = c.line.split(' ')
        if t[0] == 'hs_newsessionticket' and int(t[1]) < 4 and r.startswith('ok '):
            return 'a NewSessionTicket shorter than 4 bytes must be rejected'
        return None
    common.run_cg(ctx, ('msg_handshake ', 'hs_'), common.proj_value, classify=cg_class)
    common.lean_failure_violation(ctx, ok)
    return ctx.finish(LEVEL,
        rule='all 17 handshake variants (16 type codes) as messages and through every public body parser, from the independent RFC encoder with boundary sizes (session id 0/1/32, extension block present/absent/empty, SSLv3 and draft-18 ServerHello, both CertificateRequest forms): exact values; suffixes; every length field set to {0,1,true-1,true+1,max} and truncations (differential); the property\'s rejection shapes (class: never a value); confinement pairs (same message with and without trailing bytes); distinct = (family, outcome shape)',
        checker_cmd='cd /verif/lean && lake build TlsModel.Props.C04', assumptions=[])


def replay(ctx, payload):
    return common.generic_replay(ctx, payload)
