"""C15 — hello accessors and constructors reflect the parsed fields."""
import core, framework, gen_tables
from props import common

LEVEL = 'proof'
MODULES = ['TlsModel.Props.C15']


def S(off, n):
    return core.span(off, n)


def ids_list(ids, reg):
    return '[' + ' '.join(str(i) if i in reg else 'none' for i in ids) + ']'


def build_tls(rng, reg):
    version = rng.choice((0x0301, 0x0303, rng.randrange(65536)))
    lead = rng.choice((0, 1, 0x7fffffff, 0x80000000, 0xffffffff, rng.randrange(2 ** 32)))
    random = lead.to_bytes(4, 'big') + rng.randbytes(28)
    sid = rng.randbytes(rng.choice((0, 0, 1, 32)))
    regl = sorted(reg)
    # list lengths: mostly short, now and then up to the wire maximum (32767 ids) and around sizes an implementation might cap at
    nids = rng.choice((255, 256, 257, 4160, 8320, 8321, 16384, 32766, 32767)) if rng.random() < .012 else rng.choice((0, 1, 2, 5, 40))
    ids = [rng.choice(regl) if rng.random() < .6 else rng.randrange(65536) for _ in range(nids)]
    comp = [rng.randrange(256) for _ in range(rng.choice((0, 1, 2, 2, 255)))]
    r = rng.random()
    if r < .3:
        ext = None
    elif r < .6:
        ext = rng.randbytes(rng.choice((0, 4, 30)))
    elif r < .8:
        # a well-formed extension block (accessors return the structure's own fields whatever the block says)
        ext = rng.choice((bytes.fromhex('002b00020304'), bytes.fromhex('002b0003020304'), bytes.fromhex('00170000002b00020304'), bytes.fromhex('002b00027f1c'),
                          bytes.fromhex('0000000e000c0000096c6f63616c686f7374'), bytes.fromhex('00230000'), bytes.fromhex('ff01000100')))
    else:
        import enc as _enc, core as _core
        w = _core.Writer()
        try:
            _enc.gen_extension_list(rng, w, rng.choice((1, 2, 3)), 'ext', 40)
            ext = w.bytes()
        except Exception:
            ext = b''
    return version, random, sid, ids, comp, ext, lead


def enc_tls(version, random, sid, ids, comp, ext, base=0, cookie=None):
    b = bytearray()
    b += version.to_bytes(2, 'big')
    ro = base + len(b); b += random
    b += bytes([len(sid)]); so = base + len(b); b += sid
    if cookie is not None:
        b += bytes([len(cookie)]) + cookie
    b += (2 * len(ids)).to_bytes(2, 'big') + b''.join(i.to_bytes(2, 'big') for i in ids)
    b += bytes([len(comp)]) + bytes(comp)
    eo = None
    if ext is not None:
        b += len(ext).to_bytes(2, 'big'); eo = base + len(b); b += ext
    return bytes(b), ro, so, eo


def run(ctx):
    exe = core.build_harness()
    ok = common.lean_step(ctx, MODULES)
    rng = ctx.rng
    reg = {f[0] for f in gen_tables.parse_cipher_file(core.REPO + '/scripts/tls-ciphersuites.txt')}
    lines, want = [], []
    n = 20000 if ctx.thorough else 2500
    for _ in range(n):
        version, random, sid, ids, comp, ext, lead = build_tls(rng, reg)
        kind = rng.choice(('tls', 'tls', 'dtls', 'new', 'newsh'))
        if kind == 'tls':
            buf, ro, so, eo = enc_tls(version, random, sid, ids, comp, ext)
            lines.append('hello_acc tls ' + core.hexs(buf))
            want.append('ok (Acc %d %s %s %s %s %s %d %s %s %s %d)' % (
                version, S(ro, 32), core.opt(S(so, len(sid)) if sid else None), core.lst(map(str, ids)), core.lst(map(str, comp)),
                core.opt(S(eo, len(ext)) if ext is not None else None), lead, S(ro + 4, 28), ids_list(ids, reg), ids_list(ids, reg), version))
        elif kind == 'dtls':
            cookie = rng.randbytes(rng.choice((0, 1, 20, 255)))
            body, ro, so, eo = enc_tls(version, random, sid, ids, comp, ext, base=12, cookie=cookie)
            hdr = bytes([1]) + len(body).to_bytes(3, 'big') + b'\0\0' + b'\0\0\0' + len(body).to_bytes(3, 'big')
            lines.append('hello_acc dtls ' + core.hexs(hdr + body))
            want.append('ok (Acc %d %s %s %s %s %s %d %s %s [] 0)' % (
                version, S(ro, 32), core.opt(S(so, len(sid)) if sid else None), core.lst(map(str, ids)), core.lst(map(str, comp)),
                core.opt(S(eo, len(ext)) if ext is not None else None), lead, S(ro + 4, 28), ids_list(ids, reg)))
        elif kind == 'new':
            rl = rng.choice((0, 3, 4, 5, 32, 33))
            rnd = (lead.to_bytes(4, 'big') + rng.randbytes(40))[:rl]
            sidarg = 'none' if rng.random() < .4 else core.hexs(sid)
            extarg = 'none' if ext is None else core.hexs(ext)
            lines.append('hello_new ch %d %s %s %s %s %s' % (version, core.hexs(rnd), sidarg, ','.join(map(str, ids)) or '-', ','.join(map(str, comp)) or '-', extarg))
            rt = int.from_bytes(rnd[:4], 'big') if rl >= 4 else 0
            rb = rnd[4:] if rl >= 4 else b''
            want.append('ok (Acc %d x:%s %s %s %s %s %d x:%s %s %s %d)' % (
                version, rnd.hex(), 'none' if sidarg == 'none' else '(some x:%s)' % sid.hex(), core.lst(map(str, ids)), core.lst(map(str, comp)),
                'none' if ext is None else '(some x:%s)' % ext.hex(), rt, rb.hex(), ids_list(ids, reg), ids_list(ids, reg), version))
        else:
            cipher = rng.choice(sorted(reg)) if rng.random() < .5 else rng.randrange(65536)
            co = rng.randrange(256)
            rnd = rng.randbytes(rng.choice((0, 4, 32)))
            sidarg = 'none' if rng.random() < .4 else core.hexs(sid)
            extarg = 'none' if ext is None else core.hexs(ext)
            lines.append('hello_new sh %d %s %s %d %d %s' % (version, core.hexs(rnd), sidarg, cipher, co, extarg))
            want.append('ok (ShAcc %d x:%s %s %d %d %s %d %s)' % (
                version, rnd.hex(), 'none' if sidarg == 'none' else '(some x:%s)' % sid.hex(), cipher, co,
                'none' if ext is None else '(some x:%s)' % ext.hex(), version, str(cipher) if cipher in reg else 'none'))
    impl = core.run_lines(exe, lines)
    nv = 0
    for ln, a, w in zip(lines, impl, want):
        a = core.split_side(a)[0]
        ctx.count(' '.join(ln.split(' ')[:2]), 'match' if a == w else 'MISMATCH')
        ctx.distinct.add((ln.split(' ')[1], framework.shape(a)[:120]))
        if a != w:
            nv += 1
            ctx.cov['impl_vs_oracle_failures'] += 1
            if nv <= 5:
                ctx.violation('%s: accessors answer "%s", the fields demand "%s"' % (ln[:100], a[:300], w[:300]), {'lines': [ln], 'expect': w, 'impl': a}, key=' '.join(ln.split(' ')[:2]))
    ctx.sample({'line': lines[0][:200], 'expect': want[0][:300], 'impl': impl[0][:300]})
    # the accessor model (Accessors.lean, through the driver): parsed hellos of this run, and every ClientHello-parser input of the
    # coverage-guided corpus (mostly malformed) re-used as accessor input - implementation and model must answer alike
    acc = [ln for ln in lines if ln.startswith('hello_acc ')]
    for l in common.cg_lines(ctx, ('hs_client_hello ', 'dtls_hs ')):
        acc.append('hello_acc %s %s' % ('tls' if l.startswith('hs_client_hello') else 'dtls', l.split(' ')[-1]))
    ai, am = ctx.run_both(acc)
    nd = 0
    for ln, a, b in zip(acc, ai, am):
        a = core.split_side(a)[0]
        # the property speaks about hellos that parse: which error a non-hello gets is not its business
        ctx.count('accessor_model', 'agree' if common.proj_value(a) == common.proj_value(b) else 'differ')
        if common.proj_value(a) != common.proj_value(b):
            nd += 1
            ctx.cov['model_vs_impl_disagreements'] += 1
            if nd <= 3 and not nv:
                ctx.violation('correspondence broken on %s: accessors of the implementation "%s", accessor model "%s"' % (ln[:100], a[:200], b[:200]),
                              {'lines': [ln], 'impl': a, 'model': b}, found_input=False, key='corr:acc')
    ctx.sample({'line': lines[1][:200], 'expect': want[1][:300], 'impl': impl[1][:300]})
    common.lean_failure_violation(ctx, ok)
    return ctx.finish(LEVEL,
        rule='parsed TLS and DTLS ClientHellos and constructed ClientHello / ServerHello values (random slices of length 0,3,4,5,32,33; leading words 0, 1, 0x7fffffff, 0x80000000, 0xffffffff and random; cipher lists mixing registered and unregistered ids; session id / extension block present, absent, empty): every accessor (version, random, session_id, ciphers, comp, ext, rand_time, rand_bytes, cipher_suites, get_ciphers, get_version, get_cipher) against the fields the generator wrote and the registry file, and against the accessor model run by the driver (also on the ClientHello inputs of the coverage-guided corpus); distinct = (kind, outcome shape)',
        checker_cmd='cd /verif/lean && lake build TlsModel.Props.C15',
        assumptions=['the trait accessors are the structure fields; the oracle is the generator\'s own field values and the registry file, not the Lean driver'])


def replay(ctx, payload):
    exe = core.build_harness()
    out = core.run_lines(exe, payload['lines'])
    print(payload['lines'][0][:200], '\n ->', out[0][:400], '\n expected', payload.get('expect', '')[:400])
    bad = core.split_side(out[0])[0] != payload.get('expect')
    print('REPLAY: %s' % ('violation reproduced' if bad else 'not reproduced'))
    return 1 if bad else 0
