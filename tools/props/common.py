"""common.py — generic family runner shared by the per-property modules."""
import random
import core, framework, enc


def proj_value(res):
    """what most properties talk about: the value and remainder on success, 'rejected' otherwise"""
    return res if res.startswith('ok ') else 'rejected'


def proj_framing(res):
    """C02/C10: also the Incomplete contract and TooLarge"""
    if res.startswith('ok ') or res.startswith('incomplete ') or res == 'error TooLarge':
        return res
    return 'rejected'


def proj_trunc(res):
    """truncation / corruption families of C13, C14 (their quantifiers name truncations): the value on success, and otherwise
    whether the parser asks for more input or rejects. The statements themselves do not fix the latter, so a difference there is
    reported as a broken correspondence (`no-failing-input-found`), never as a failing input; the class oracles of those
    families ("a strict prefix never yields a value") are what can name a failing input."""
    if res.startswith('ok '):
        return res
    return 'incomplete' if res.startswith('incomplete') else 'rejected'


RECORD_HDR = {'tls_raw': 5, 'tls_encrypted': 5, 'tls_plaintext': 5, 'tls_parser': 5, 'dtls_record': 13}


def proj_framing_line(res, line):
    """proj_framing, with the Needed count kept only where the property fixes it: for the record parsers once the
    record header is available. Shorter inputs and non-record ops: only the fact of answering Incomplete (a difference there
    is a broken correspondence, reported as `no-failing-input-found`)."""
    if res.startswith('incomplete '):
        toks = line.split(' ')
        hdr = RECORD_HDR.get(toks[0])
        nbytes = 0 if toks[-1] == '-' else len(toks[-1]) // 2
        if hdr is None or nbytes < hdr:
            return 'incomplete'
    return proj_framing(res)


proj_framing_line.wants_line = True


def proj_class(res):
    return core.res_class(res)


def gen_cases(ctx, families, n, suffix_share=0.3, corrupt_limit=6, corrupt_share=0.5):
    """exact cases (+ suffix variants) and corruption mutants for the given enc families"""
    exact, mutants = [], []
    for name in families:
        rng = random.Random('%d/%s/%s' % (ctx.seed, ctx.pid, name))
        for c in enc.FAMILIES[name](rng, n):
            exact.append(c)
            if c.sd and c.value is not None and rng.random() < suffix_share:
                sfx = suffix_bytes(rng, c)
                s = enc.with_suffix(c, sfx)
                if s is not None:
                    s.fam = c.fam + '+sfx'
                    exact.append(s)
            if corrupt_limit and rng.random() < corrupt_share:
                mutants += enc.corruptions(c, rng, limit=corrupt_limit)
        # count ladder: the first list of a case with exactly k entries, for every k around a power of two (each once)
        exact += enc.count_ladder(rng, [name], None if ctx.thorough else (16, 17, 64, 65, 128, 129, 256, 257, 400))
    return exact, mutants


def suffix_bytes(rng, c):
    """arbitrary bytes, or bytes that themselves look like a valid structure (the case's own encoding)"""
    r = rng.random()
    if r < 0.4:
        return rng.randbytes(rng.choice((1, 2, 3, 5, 8, 40)))
    if r < 0.8:
        return c.buf[:len(c.buf) - c.rem] if c.rem else c.buf
    return bytes([rng.choice((0, 0xff, 0x16))]) * rng.choice((1, 4, 6))


def run_exact(ctx, cases, config='default', label=None):
    """cases with an expectation: implementation must answer exactly that (else violation with the
    input as replay); the model must too (else the machinery is wrong, never reported against the crate)"""
    if not cases:
        return
    lines = [c.line for c in cases]
    impl, model = ctx.run_both(lines, config)
    nviol = 0
    for c, a, b in zip(cases, impl, model):
        ra, side = core.split_side(a)
        fam = label or c.fam
        ctx.count(fam, core.res_class(ra))
        ctx.distinct.add((fam, framework.shape(ra)))
        if c.expect is None:
            continue
        if ra != c.expect:
            ctx.cov['impl_vs_oracle_failures'] += 1
            nviol += 1
            if nviol <= 5:
                ctx.violation('%s: implementation answers "%s", the encoded value demands "%s"' % (c.line[:100], ra[:300], c.expect[:300]),
                              {'lines': [c.line], 'expect': c.expect, 'impl': ra, 'model': b, 'family': fam},
                              key='%s:%s' % (fam, c.line[:80]))
        if b != c.expect:
            ctx.cov['model_vs_oracle_failures'] += 1
            if len(ctx.machinery_errors) < 5:
                ctx.machinery_errors.append('model != oracle on %s: model "%s" oracle "%s"' % (c.line[:100], b[:200], c.expect[:200]))
    if cases:
        k = ctx.rng.randrange(len(cases))
        ctx.sample({'family': cases[k].fam, 'line': cases[k].line[:300], 'expect': (cases[k].expect or '')[:300],
                    'impl': core.split_side(impl[k])[0][:300], 'model': model[k][:300]})
    return impl, model


def run_differential(ctx, cases, project, config='default', label=None, classify=None):
    """cases without expectation (mutants, garbage): implementation and model are compared under the
    property's projection. `classify(case, impl_result)` may return a violation text when the
    implementation's answer is wrong by the property itself (class oracle)."""
    if not cases:
        return
    lines = [c.line if hasattr(c, 'line') else c for c in cases]
    impl, model = ctx.run_both(lines, config)
    ndis = 0
    for c, ln, a, b in zip(cases, lines, impl, model):
        ra, side = core.split_side(a)
        fam = label or getattr(c, 'fam', 'differential')
        ctx.count(fam, core.res_class(ra))
        ctx.distinct.add((fam, framework.shape(ra)))
        if classify is not None:
            v = classify(c, ra)
            if v:
                ctx.cov['impl_vs_oracle_failures'] += 1
                ctx.violation('%s: %s (implementation: "%s")' % (ln[:100], v, ra[:200]),
                              {'lines': [ln], 'impl': ra, 'model': b, 'family': fam, 'class_oracle': v}, key='%s:%s' % (fam, ln[:80]))
                continue
        wl = getattr(project, 'wants_line', False)
        if (project(ra, ln) if wl else project(ra)) != (project(b, ln) if wl else project(b)):
            ndis += 1
            ctx.cov['model_vs_impl_disagreements'] += 1
            if ndis <= 3:
                ctx.violation('correspondence broken on %s: implementation "%s", model "%s" (family %s)' % (ln[:100], ra[:200], b[:200], fam),
                              {'lines': [ln], 'impl': ra, 'model': b, 'family': fam, 'correspondence': ln.split(' ')[0]},
                              found_input=False, key='%s:%s' % (fam, ln[:80]))
        elif ra != b:
            ctx.cov['drift'] += 1
            if len(ctx.cov['drift_samples']) < 5:
                ctx.cov['drift_samples'].append({'line': ln[:200], 'impl': ra[:200], 'model': b[:200]})
    if cases:
        k = ctx.rng.randrange(len(cases))
        ctx.sample({'family': label or getattr(cases[k], 'fam', ''), 'line': lines[k][:300],
                    'impl': core.split_side(impl[k])[0][:300], 'model': model[k][:300]})
    return impl, model


_interesting = None


def interesting_values(dom):
    """values a quick-tier sweep over a 2^16 domain must not skip: every code point any registry names (reference/iana.py:
    versions, extension types, named groups, signature schemes, cipher-suite ids, ...) and its neighbours, byte-swapped
    forms, hash/sign byte pairs of the registered algorithms, powers of two and their neighbours"""
    global _interesting
    if _interesting is None:
        import sys
        sys.path.insert(0, core.VERIF + '/reference')
        import iana
        vals = set()
        for t, names in iana.IANA.items():
            for v in names.values():
                vals.update((v - 1, v, v + 1, ((v & 255) << 8) | (v >> 8)))
        hs = list(iana.IANA.get('HashAlgorithm', {}).values()) + [7, 9]
        sg = list(iana.IANA.get('SignAlgorithm', {}).values()) + [4, 5, 6, 9, 10, 11]
        vals.update(h * 256 + g for h in hs for g in sg)
        for k in range(17):
            vals.update((2 ** k - 1, 2 ** k, 2 ** k + 1))
        try:
            for l in open(core.REPO + '/scripts/tls-ciphersuites.txt'):
                if ':' in l:
                    vals.add(int(l.split(':')[0], 16))
        except (OSError, ValueError):
            pass
        _interesting = vals
    return sorted(v for v in _interesting if 0 <= v < dom)


def long_tails(ctx, cases, k=24):
    """exact cases re-run with a tail that carries the input length across 2^16 (and 2^17): a self-delimiting structure that is
    complete must decode to the same value with the tail as remainder, however long the tail is (an `available bytes` count kept
    in 16 bits would wrap)"""
    rng = random.Random('%d/%s/longtails' % (ctx.seed, ctx.pid))
    elig = [c for c in cases if c.sd and c.value is not None and c.rem == 0 and 2 <= len(c.buf) <= 4000]
    byfam = {}
    for c in elig:
        byfam.setdefault(c.fam, []).append(c)
    out = []
    for fam, cs in byfam.items():
        for c in rng.sample(cs, min(len(cs), max(1, k // max(1, len(byfam))))):
            L = len(c.buf)
            for n in (65536 - L + rng.choice((-1, 0, 1)), 65536 + rng.randrange(0, max(1, L)), 65536 - rng.randrange(1, 6), 131072 - L + rng.randrange(0, L + 1)):
                if n > 0:
                    s = enc.with_suffix(c, rng.randbytes(n))
                    if s is not None:
                        s.fam = c.fam + '+longtail'
                        out.append(s)
    return out


class CgCase:
    """one decoded input of the coverage-guided corpus (tools/cg.py)"""
    __slots__ = ('line', 'fam')

    def __init__(self, line):
        self.line = line
        self.fam = 'cg/' + line.split(' ', 1)[0]


def cg_lines(ctx, ops):
    """op lines of the coverage-guided corpus for the given op-name prefixes (committed corpus; plus, when /repo's
    sources differ from the tree it was grown on or in the thorough tier, a fresh coverage-guided stage)"""
    import cg
    return cg.lines(ctx.thorough, ops, ctx.notes if not any('coverage-guided' in n for n in ctx.notes) else None)


def run_cg(ctx, ops, project, classify=None):
    """the coverage-guided corpus through implementation and model under the property's projection"""
    cases = [CgCase(l) for l in cg_lines(ctx, ops)]
    if cases:
        run_differential(ctx, cases, project, classify=classify)
    return cases


def lean_step(ctx, modules, audit=None):
    ok = ctx.lean(modules)
    if ok:
        ctx.audit_axioms(audit if audit is not None else [m for m in modules if '.Props.' in m])
        if ctx.thorough:
            ctx.leanchecker(modules)
    else:
        ctx.notes.append('axiom audit skipped: the modules did not build')
    return ok


def lean_failure_violation(ctx, ok):
    """a broken obligation with no failing input found by the families of this run"""
    if not ok and not any(v[2] for v in ctx.violations):
        ctx.violation('Lean obligation(s) no longer check: %s' % ', '.join(ctx.failed_theorems),
                      {'failed_theorems': ctx.failed_theorems, 'lean_output': getattr(ctx, 'lean_output', '')}, found_input=False)


def generic_replay(ctx, payload, config='default'):
    lines = payload.get('lines', [])
    impl, model = ctx.run_both(lines, config)
    bad = 0
    for ln, a, b in zip(lines, impl, model):
        a, _ = core.split_side(a)
        print('%s\n  implementation: %s\n  model         : %s' % (ln[:300], a[:600], b[:600]))
        if 'expect' in payload:
            print('  expected      : %s' % payload['expect'][:600])
            bad += a != payload['expect']
        else:
            bad += a != b
    print('REPLAY: %s' % ('violation reproduced' if bad else 'not reproduced'))
    return 1 if bad else 0
