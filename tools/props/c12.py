"""C12 — cipher-suite registry is exact, self-consistent and invertible."""
import core, framework, gen_tables
from props import common

LEVEL = 'proof'
MODULES = ['TlsModel.Props.C12', 'TlsModel.Gen.CiphersCheck', 'TlsModel.Gen.CipherNamesCheck']

KX = ['NULL', 'PSK', 'KRB5', 'SRP', 'RSA', 'DH', 'DHE', 'ECDH', 'ECDHE', 'AECDH', 'ECCPWD', 'TLS13']
AU = ['NULL', 'PSK', 'KRB5', 'SRP', 'SRP+DSS', 'SRP+RSA', 'DSS', 'RSA', 'DHE', 'ECDSA', 'ECCPWD', 'TLS13']
ENC = ['NULL', 'DES', '3DES', 'RC2', 'RC4', 'ARIA', 'IDEA', 'SEED', 'AES', 'CAMELLIA', 'CHACHA20_POLY1305', 'SM4', 'AEGIS']
MODE = ['NULL', 'CBC', 'CCM', 'GCM']
MAC = ['NULL', 'HMAC-MD5', 'HMAC-SHA1', 'HMAC-SHA256', 'HMAC-SHA384', 'HMAC-SHA512', 'AEAD']
PRF = ['DEFAULT', 'NULL', 'MD5ANDSHA1', 'SHA1', 'SHA256', 'SHA384', 'SHA512', 'SM3']
MACLEN = {'NULL': 0, 'AEAD': 0, 'HMAC-MD5': 16, 'HMAC-SHA1': 20, 'HMAC-SHA256': 32, 'HMAC-SHA384': 48, 'HMAC-SHA512': 64}
BLOCK = {'DES': 8, '3DES': 8, 'IDEA': 8, 'RC2': 8, 'AES': 16, 'ARIA': 16, 'CAMELLIA': 16, 'SEED': 16, 'SM4': 16}


def spec_row(f):
    """canonical cs_row answer demanded by a line of the registry file (enum columns as discriminants in declaration order)"""
    id_, name, kx, au, enc, mode, size, mac, macsize, prf = f
    return 'ok (Row %d x:%s %d %d %d %d %d %d %d %d %d %d %d)' % (
        id_, name.encode().hex(), KX.index(kx), AU.index(au), ENC.index(enc), MODE.index(mode or 'NULL'), size, MAC.index(mac), macsize,
        PRF.index(prf), size // 8, BLOCK.get(enc, 0), MACLEN[mac])


def name_tokens_agree(f):
    """the parameters agree with the algorithm tokens of the IANA name (rules derived from the IANA naming scheme;
    the two TLS_PSK_DHE_* names, which IANA spells in the opposite order, are the only listed exceptions)"""
    id_, name, kx, au, enc, mode, size, mac, macsize, prf = f
    T = name.split('_')[1:]
    pre, post = (T[:T.index('WITH')], T[T.index('WITH') + 1:]) if 'WITH' in T else ([], T)
    enctok = {'AES': ['AES'], '3DES': ['3DES'], 'ARIA': ['ARIA'], 'CAMELLIA': ['CAMELLIA'], 'CHACHA20_POLY1305': ['CHACHA20', 'POLY1305'],
              'IDEA': ['IDEA'], 'RC2': ['RC2'], 'RC4': ['RC4'], 'SEED': ['SEED'], 'SM4': ['SM4'], 'AEGIS': ['AEGIS']}
    if enc in enctok and not all(t in post for t in enctok[enc]):
        return 'cipher token'
    if enc == 'DES' and not ('DES' in post or 'DES40' in post):
        return 'cipher token'
    if enc == 'NULL' and (any(t in post for ts in enctok.values() for t in ts) or 'DES' in post):
        return 'cipher token'
    nums = [t for t in post if t.isdigit() and int(t) in (40, 56, 128, 256)]
    if 'DES40' in post:
        nums = ['40']
    if '128L' in post:
        nums = ['128']
    if nums and int(nums[0]) != size:
        return 'key size token'
    m = 'GCM' if 'GCM' in post else 'CCM' if 'CCM' in post else 'CBC' if 'CBC' in post else ''
    if m != mode and not (mode == 'NULL' and m == ''):
        return 'mode token'
    last = post[-1] if post else ''
    if last == '8':
        last = post[-2] if post[-2] != 'CCM' else ''
    if mac == 'AEAD':
        if last in ('SHA256', 'SHA384', 'SM3') and prf != last:
            return 'PRF token'
        if last in ('SHA', 'MD5'):
            return 'MAC token'
    else:
        exp = {'SHA': 'HMAC-SHA1', 'MD5': 'HMAC-MD5', 'SHA256': 'HMAC-SHA256', 'SHA384': 'HMAC-SHA384', 'SHA512': 'HMAC-SHA512', 'NULL': 'NULL', 'SCSV': 'NULL'}.get(last)
        if exp != mac:
            return 'MAC token'
    if pre and id_ not in (0xc0aa, 0xc0ab):
        if pre[0] != kx:
            return 'key exchange token'
        p = [t for t in pre if t not in ('EXPORT', 'EXPORT1024')]
        a = {'anon': 'NULL'}.get(p[-1], p[-1])
        if p[:2] == ['SRP', 'SHA']:
            a = 'SRP' if len(p) == 2 else 'SRP+' + p[-1]
        if a != au:
            return 'authentication token'
    if not pre and kx not in ('TLS13', 'NULL'):
        return 'key exchange token'
    return None


def run(ctx):
    exe = core.build_harness()
    g = gen_tables.gen_ciphers(exe)
    ctx.notes.append('Gen/Ciphers.lean: runtime %d rows, file %d rows, pinned %d rows (changed=%s)' % (g['runtime_rows'], g['file_rows'], g['pinned_rows'], g['changed']))
    ok = common.lean_step(ctx, MODULES, audit=['TlsModel.Props.C12', 'TlsModel.Gen.CiphersCheck', 'TlsModel.Gen.CipherNamesCheck'])
    rng = ctx.rng
    frows = {f[0]: f for f in g['file']}
    pinned = {f[0]: f for f in g['pinned']}
    # altered or dropped IANA assignments (also a kernel obligation; here with the concrete row as replay)
    for i, f in pinned.items():
        if frows.get(i) != f:
            ctx.violation('IANA assignment 0x%04x altered or removed: pinned %s, file now %s' % (i, f, frows.get(i)), {'id': i, 'pinned': list(f), 'now': list(frows.get(i) or [])}, key='pinned:%04x' % i)
    # all 65536 ids through the four lookup routes, and the row contents through from_id
    lines = ['cs_id %d' % i for i in range(65536)] + ['cs_row %d' % i for i in range(65536)]
    impl = core.run_lines(exe, lines)
    nv = 0
    for i in range(65536):
        a = impl[i]
        ctx.count('ids_x_4_routes', 'some' if 'some' in a else 'none')
        want = 'ok (R (some %d) (some %d) (some %d) (some %d))' % (i, i, i, i) if i in frows else 'ok (R none none none none)'
        if a != want:
            nv += 1
            ctx.cov['impl_vs_oracle_failures'] += 1
            if nv <= 4:
                ctx.violation('cs_id %d: implementation "%s", registry file demands "%s"' % (i, a, want), {'lines': ['cs_id %d' % i], 'expect': want, 'impl': a}, key='id:%d' % i)
        r = impl[65536 + i]
        ctx.count('rows', 'row' if r != 'ok none' else 'none')
        wantr = spec_row(frows[i]) if i in frows else 'ok none'
        if r != wantr:
            nv += 1
            ctx.cov['impl_vs_oracle_failures'] += 1
            if nv <= 8:
                ctx.violation('cs_row %d: implementation "%s", registry file demands "%s"' % (i, r[:200], wantr[:200]), {'lines': ['cs_row %d' % i], 'expect': wantr, 'impl': r}, key='row:%d' % i)
        if i in frows:
            ctx.distinct.add(tuple(frows[i][2:]))
    ctx.sample({'line': 'cs_row 49199', 'impl': impl[65536 + 49199]})
    # a lookup has no memory: every listed id (and some unlisted ones) as the *first* call of a fresh process, and in
    # descending order, must answer exactly what it answers inside the ascending sweep
    probe_ids = sorted(frows) + [rng.randrange(65536) for _ in range(40)] + [0, 1, 65535]
    fl = ['cs_id %d' % i for i in probe_ids]
    first = core.run_lines(exe, fl, chunk=1)
    desc = core.run_lines(exe, fl[::-1], chunk=len(fl))[::-1]
    for i, a, d in zip(probe_ids, first, desc):
        ctx.count('first_call_lookups', 'same' if a == impl[i] == d else 'DIFFER')
        if not (a == impl[i] == d):
            ctx.violation('cs_id %d answers "%s" as the first call of a process, "%s" in a descending sweep and "%s" inside the ascending sweep' % (i, a, d, impl[i]),
                          {'lines': ['cs_id %d' % i], 'first_call': a, 'descending': d, 'in_sweep': impl[i]}, key='state:%d' % i)
    # names: every registry name and perturbed names (prefix, suffix, case, neighbour) through both name routes
    names = {f[1]: f[0] for f in frows.values()}
    probes = []
    for nm in names:
        probes += [nm, nm[:-1], nm + '_', nm.lower(), nm[:4] + nm[4:].capitalize(), ' ' + nm, nm + '\0', nm.replace('_', '-', 1), nm[:len(nm) // 2]]
        if ctx.thorough:
            for _ in range(20):
                p = rng.randrange(len(nm))
                probes.append(nm[:p] + chr((ord(nm[p]) + 1) % 127 or 65) + nm[p + 1:])
    # a name followed by 2^8 / 2^9 / 2^16 further bytes (a length kept in 8 or 16 bits would not see them)
    for k, nm in enumerate(sorted(names)):
        probes += [nm + 'A' * 256, nm + '_' * 512, nm + nm[-1] * 255]
        if k % 40 == 0:
            probes += [nm + 'A' * 65536, nm + 'B' * 65535, ('C' * 256) + nm]
    probes += ['', 'TLS', 'TLS_', 'X', 'TLS_AES_128_GCM_SHA256\n']
    plines = ['cs_name %s' % core.hexs(p.encode()) for p in probes]
    pim = core.run_lines(exe, plines)
    for p, ln, a in zip(probes, plines, pim):
        ctx.count('names', 'some' if 'some' in a else 'none')
        want = 'ok (N (some %d) (some %d))' % (names[p], names[p]) if p in names else 'ok (N none none)'
        if a != want:
            ctx.cov['impl_vs_oracle_failures'] += 1
            ctx.violation('cs_name %r: implementation "%s", demanded "%s"' % (p, a, want), {'lines': [ln], 'expect': want, 'impl': a}, key='name:' + p[:30])
    ctx.sample({'line': plines[0], 'impl': pim[0]})
    # no memory across *different* entry points either: id and name lookups interleaved in one process (the same id before and
    # after a lookup by another suite's name, a name before and after lookups by id) answer what each answers alone
    nlist = sorted(names)
    seq = []
    for _ in range(400 if ctx.thorough else 150):
        x = rng.choice(sorted(frows)) if rng.random() < .6 else rng.randrange(65536)
        nm = rng.choice(nlist)
        other = rng.choice((nm, nm[:-1], nm + '_'))
        seq += ['cs_id %d' % x, 'cs_name %s' % core.hexs(other.encode()), 'cs_id %d' % x, 'cs_row %d' % x, 'cs_name %s' % core.hexs(nm.encode()), 'cs_id %d' % names[nm]]
    together = core.run_lines(exe, seq, chunk=len(seq))
    alone = core.run_lines(exe, seq, chunk=1)
    for ln, a, b in zip(seq, together, alone):
        ctx.count('interleaved_lookups', 'same' if a == b else 'DIFFER')
        if a != b:
            ctx.violation('%s answers "%s" after other lookups in the same process, "%s" as the only call of a fresh process' % (ln[:80], a[:120], b[:120]),
                          {'lines': seq[:seq.index(ln) + 1][-8:], 'in_sequence': a, 'alone': b}, key='interleave:' + ln.split(' ')[0])
            break
    # "nothing for any other string", at scale: millions of near-miss strings (registry names with numeric / alphabetic tails,
    # one changed character, a changed prefix) generated inside the harness; none may resolve (a lookup that trusts a short
    # hash or a prefix match would let some through)
    per = 20000000 if ctx.thorough else 3000000
    bl = ['cs_name_bulk %d %d' % (1000003 * (k + 1) + ctx.seed, per) for k in range(core.NPROC)]
    for ln, a in zip(bl, core.run_lines(exe, bl, chunk=1)):
        ctx.count('names_bulk', 'none-resolve' if a == 'ok (Bulk %d 0)' % per else 'RESOLVED', per)
        if a != 'ok (Bulk %d 0)' % per:
            ctx.cov['impl_vs_oracle_failures'] += 1
            ctx.violation('%s: strings that are not registry names resolve to suites: %s' % (ln, a[:300]), {'lines': [ln], 'expect': 'ok (Bulk %d 0)' % per, 'impl': a}, key='namebulk')
    # parameters vs the algorithm tokens of the IANA name
    for f in frows.values():
        why = name_tokens_agree(f)
        ctx.count('name_tokens', 'agree' if not why else 'DISAGREE')
        if why:
            ctx.violation('suite 0x%04x %s: %s disagrees with the registry columns %s' % (f[0], f[1], why, f[2:]), {'row': list(f), 'rule': why}, key='tokens:%04x' % f[0])
    common.lean_failure_violation(ctx, ok)
    return ctx.finish(LEVEL,
        rule='exhaustive: all 65536 ids through from_id / TryFrom<u16> / TryFrom<TlsCipherSuiteID> / get_ciphersuite and the full row (10 columns + 3 derived sizes) against the registry file of /repo; every registry name and 8+ perturbations per name through both name routes, plus 48M (thorough: 320M) generated near-miss strings; pinned-vs-current file rows; name-token agreement rules on every row; distinct = distinct parameter tuples',
        checker_cmd='cd /verif/lean && lake build TlsModel.Props.C12 TlsModel.Gen.CiphersCheck TlsModel.Gen.CipherNamesCheck',
        assumptions=['phf lookup = association lookup on the generated entries (tied by the exhaustive id sweep)',
                     'name-token agreement: the IANA naming-scheme rule is a Lean predicate (CipherNames.lean) checked by the kernel on every row (Gen/CipherNamesCheck.lean); the same rule in Python names the failing row for the replay'],
        extra={'exhaustive': True})


def replay(ctx, payload):
    if 'lines' in payload:
        exe = core.build_harness()
        out = core.run_lines(exe, payload['lines'])
        print(payload['lines'], out, 'expected', payload.get('expect'))
        bad = out[0] != payload.get('expect')
        print('REPLAY: %s' % ('violation reproduced' if bad else 'not reproduced'))
        return 1 if bad else 0
    print(payload)
    return 1
