"""C17 — registry constants, names and integer conversions are exact."""
import sys
import core, framework, gen_tables
from props import common
sys.path.insert(0, core.VERIF + '/reference')
import iana

LEVEL = 'proof'
MODULES = ['TlsModel.Gen.RegistryCheck', 'TlsModel.Registry']
DERIVED_DEBUG = {'TlsAlertSeverity', 'TlsAlertDescription', 'TlsExtensionType', 'PskKeyExchangeMode', 'SNIType', 'ECCurveType',
                 'HashAlgorithm', 'SignAlgorithm', 'SignatureScheme', 'CtVersion'}     # #[derive(Debug)]: Type(v)
CONV_COUNT = {'TlsRecordType': 1, 'TlsHandshakeType': 1, 'TlsVersion': 3, 'TlsHeartbeatMessageType': 1, 'TlsCompressionID': 3,
              'TlsExtensionType': 2, 'TlsCipherSuiteID': 5}


def x(s):
    return 'ok x:' + s.encode().hex()


def run(ctx):
    exe = core.build_harness()
    g = gen_tables.gen_registry(exe)
    ctx.notes.append('Gen/Registry.lean: %d constants, %d named values, %d key_bits entries (changed=%s)' % (g['constants'], g['names'], g['keybits'], g['changed']))
    ok = common.lean_step(ctx, MODULES, audit=['TlsModel.Gen.RegistryCheck', 'TlsModel.Registry'])
    # named constants against the reference (also a kernel obligation; here with the constant as the replay)
    types = list(iana.WIDTH)
    ref = {(types.index(t), v, gen_tables.sn(n)): (t, n, v) for t in types for n, v in iana.IANA[t].items()}
    got = set(g['consts'])
    for k in sorted(set(ref) - got)[:5]:
        ctx.violation('constant %s::%s must be %d (IANA); the implementation does not define it with that value' % ref[k], {'constant': list(ref[k])}, key='const:%s::%s' % ref[k][:2])
    extra = {}          # values that print a name the reference does not know: (type name, value) -> name
    for k in sorted(got - set(ref))[:5]:
        ctx.violation('implementation defines a constant not in the registry reference: type %d value %d' % (k[0], k[1]), {'row': list(k)}, key='extra:%d:%d' % (k[0], k[1]))
    refn = {(r[0], r[1]): r[2] for r in ref}
    refnames = {(r[0], r[2]) for r in ref}
    for k in g['names_rows']:
        if tuple(k) in ref:
            continue
        tname = types[k[0]] if k[0] < len(types) else '?'
        if (k[0], k[1]) in refn or (k[0], k[2]) in refnames:
            if tname in iana.DISPLAY:
                ctx.violation('type %s value %d prints "%s", contradicting the registry reference' % (tname, k[1], gen_tables.unsn(k[2])), {'row': list(k)}, key='conflict:%d:%d' % (k[0], k[1]))
        else:
            extra[(tname, k[1])] = gen_tables.unsn(k[2])
    if extra:
        ctx.notes.append('values printing a name the reference does not know (constants registered after it was written? not judged): %s' % sorted(extra.items())[:10])
    lines, want = [], []
    for t in types + ['TlsCipherSuiteID']:
        w = iana.WIDTH.get(t, 16)
        byval = {v: n for n, v in iana.IANA.get(t, {}).items()}
        for v in range(2 ** w):
            if t in iana.DISPLAY:
                lines.append('disp %s %d' % (t, v)); want.append(x(byval[v]) if v in byval else x('%s(%d / 0x%x)' % (t, v, v)))
            if t in iana.DEBUG_IS_DISPLAY:
                lines.append('dbg %s %d' % (t, v)); want.append(x(byval[v]) if v in byval else x('%s(%d / 0x%x)' % (t, v, v)))
            if t in CONV_COUNT and (w == 8 or ctx.thorough or v % 7 == 0 or v < 300 or v > 65200):
                lines.append('conv %s %d' % (t, v)); want.append('ok [' + ' '.join([str(v)] * CONV_COUNT[t]) + ']')
            if t == 'TlsCipherSuiteID' and (ctx.thorough or v % 5 == 0):
                lines.append('disp %s %d' % (t, v)); want.append(x(str(v)))
    bits = {v: iana.curve_bits(n) for n, v in iana.IANA['NamedGroup'].items()}
    for v in range(65536):
        lines.append('keybits %d' % v)
        want.append(('class', v))
        lines.append('sigscheme %d' % v)
        want.append('ok (S %d %d %d)' % (1 if 0xfe00 <= v < 0xff00 else 0, v >> 8, v & 255))
    impl = core.run_lines(exe, lines)
    nv = 0
    for ln, a, wv in zip(lines, impl, want):
        op = ln.split(' ')[0]
        ctx.count(op, 'ok' if a.startswith('ok') else a.split(' ')[0])
        bad = None
        if isinstance(wv, tuple):
            v = wv[1]
            if v in bits and bits[v] is not None:
                if a != 'ok (some %d)' % bits[v]:
                    bad = 'ok (some %d)' % bits[v]
            elif v not in bits and a != 'ok none' and ('NamedGroup', v) not in extra:
                bad = 'ok none'
            ctx.distinct.add(('keybits', a))
        else:
            if a != wv:
                bad = wv
                if op in ('disp', 'dbg') and a.startswith('ok x:') and wv.startswith('ok x:'):
                    # a value without a constant: any numeric fallback that contains the value (decimal or hex) is acceptable
                    t, v = ln.split(' ')[1], int(ln.split(' ')[2])
                    txt = bytes.fromhex(a[5:]).decode(errors='replace')
                    named = set(iana.IANA.get(t, {}))
                    if v not in iana.IANA.get(t, {}).values() and txt not in named and (str(v) in txt or ('%x' % v) in txt.lower()):
                        bad = None
                    if (t, v) in extra and (extra[(t, v)] is None or txt == extra[(t, v)]):
                        bad = None
            if op in ('disp', 'dbg') and not a.endswith('29') :
                ctx.distinct.add((op, ln.split(' ')[1], 'name' if len(a) < 60 and b'(' not in bytes.fromhex(a[5:]) else 'fallback'))
        if bad:
            nv += 1
            ctx.cov['impl_vs_oracle_failures'] += 1
            if nv <= 6:
                dec = bytes.fromhex(a[5:]).decode(errors='replace') if a.startswith('ok x:') else a
                ctx.violation('%s: implementation answers %r, the registry demands %r' % (ln, dec, bytes.fromhex(bad[5:]).decode() if bad.startswith('ok x:') else bad),
                              {'lines': [ln], 'expect': bad, 'impl': a}, key=ln)
    ctx.sample({'line': lines[3], 'impl': impl[3], 'expect': want[3]})
    ctx.sample({'line': 'keybits 28', 'impl': impl[lines.index('keybits 28')]})
    common.lean_failure_violation(ctx, ok)
    return ctx.finish(LEVEL,
        rule='exhaustive over every value of every registry type (11 u8 and 5 u16 newtypes + cipher ids): Display and (where implemented by the macro) Debug text against the hand-entered IANA reference (name iff a constant is defined, else the numeric fallback containing the value), integer conversions (From/Into, Deref, AsRef, to_be_bytes, LowerHex, from_u16, Display of cipher ids) = identity, key_bits for all 65536 groups, SignatureScheme helpers for all 65536 values; constants table against the reference; distinct = (op, type, name/fallback)',
        checker_cmd='cd /verif/lean && lake build TlsModel.Gen.RegistryCheck',
        assumptions=['reference/iana.py is hand-entered from the IANA registries and RFCs (trusted)', 'key_bits is constrained only for curves whose name states a field size ((Sect|Secp|BrainpoolP)<n>...) and for unregistered groups (None)'],
        extra={'exhaustive': True})


def replay(ctx, payload):
    if 'lines' in payload:
        exe = core.build_harness()
        out = core.run_lines(exe, payload['lines'])
        print(payload['lines'], out, 'expected', payload.get('expect'))
        bad = out[0] != payload.get('expect')
        print('REPLAY: %s' % ('violation reproduced' if bad else 'not reproduced'))
        return 1 if bad else 0
    print(payload); return 1
