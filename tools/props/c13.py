"""C13 — key-exchange parameters and signatures decode exactly and self-delimit."""
import core, framework, enc
from props import common

LEVEL = 'proof'
MODULES = ['TlsModel.Props.C13']
FAMS = ['dh', 'ec_params', 'ecdh', 'dsig', 'dsig_old', 'content_sig', 'content_sig_dual', 'named_groups']


def cross_flag_cases(ctx):
    """a signature encoded in one form, read with the *other* flag: the caller's flag alone selects the reading, so the
    result is what that reading gives on these bytes - worked out here from the bytes themselves (a value, or no value
    when the length that reading finds is not available); hash/sign pairs drawn from the registered TLS 1.2 pairs too"""
    rng = ctx.rng
    out = []
    for _ in range(4000 if ctx.thorough else 600):
        w = core.Writer()
        kx = rng.choice(('dh', 'ecdh'))
        c = (enc.gen_dh if kx == 'dh' else enc.gen_ecdh)(rng, w, rng.choice((4, 40)))
        start = w.pos()
        enc_new = rng.random() < .6
        L = rng.choice((0, 1, 2, 32, 64, 255, 256, 257, 513, 515, 769, 1025, 1027, 1539, rng.randrange(0, 2000)))
        if enc_new:
            h, sg = (rng.randrange(1, 7), rng.randrange(1, 4)) if rng.random() < .6 else (rng.randrange(256), rng.randrange(256))
            w.u(1, h); w.u(1, sg); w.u(2, L)
        else:
            w.u(2, L)
        body = rng.randbytes(L)
        if not enc_new and L >= 2 and rng.random() < .4:     # let the other reading's length field fit exactly now and then
            body = (L - 2).to_bytes(2, 'big') + body[2:]
        w.raw(body)
        w.raw(rng.randbytes(rng.choice((0, 0, 1, 4, 300))))
        buf = w.bytes()
        sig = buf[start:]
        flag = 0 if enc_new else 1             # the other reading
        want = None
        if flag == 0:
            n = int.from_bytes(sig[:2], 'big') if len(sig) >= 2 else None
            if n is not None and n <= len(sig) - 2:
                want = 'ok %d (P %s (DSig none %s))' % (len(sig) - 2 - n, c, core.span(start + 2, n))
        else:
            if len(sig) >= 4:
                n = int.from_bytes(sig[2:4], 'big')
                if n <= len(sig) - 4:
                    want = 'ok %d (P %s (DSig (some (P %d %d)) %s))' % (len(sig) - 4 - n, c, sig[0], sig[1], core.span(start + 4, n))
        case = enc.Case('cross_flag/%s' % ('new_as_legacy' if enc_new else 'legacy_as_new'), ('content_sig', kx, str(flag)), buf, [], None, expect=want)
        out.append(case)
    return out


def run(ctx):
    core.build_harness()
    ok = common.lean_step(ctx, MODULES)
    rng = ctx.rng
    n = 3000 if ctx.thorough else 300
    exact, mutants = common.gen_cases(ctx, FAMS, n, corrupt_limit=8)
    common.run_exact(ctx, exact)
    common.run_exact(ctx, common.long_tails(ctx, exact))
    common.run_differential(ctx, mutants, common.proj_value)
    # all 256 curve types: only 1 (explicit prime) and 3 (named curve) are accepted, everything else -> Switch
    cases = []
    for ct in range(256):
        for _ in range(4 if ctx.thorough else 2):
            tail = rng.randbytes(rng.choice((0, 1, 2, 3, 20)))
            for op in ('ec_params', 'ecdh'):
                c = enc.Case('curve_type_sweep/%d' % ct, (op,), bytes([ct]) + tail, [], None)
                cases.append(c)
    common.run_differential(ctx, cases, common.proj_value,
                            classify=lambda c, r: 'curve type %s is neither explicit-prime nor named-curve: must be rejected' % c.fam.split('/')[1] if int(c.fam.split('/')[1]) not in (1, 3) and not (r.startswith('error') or r.startswith('failure')) else None, label='curve_type_sweep')
    # all 65536 named groups inside ECParameters (exhaustive): value preserved
    groups = range(65536) if ctx.thorough else list(range(0, 65536, 97)) + [0, 1, 23, 29, 255, 256, 65535]
    gc = [enc.Case('named_group_sweep', ('ec_params',), bytes([3]) + g.to_bytes(2, 'big') + b'\x07', [], None,
                   expect='ok 1 (ECParams 3 (NamedGroup %d))' % g) for g in groups]
    common.run_exact(ctx, gc)
    # all truncations of a sample of accepted inputs: never a value
    trunc = []
    elig = [c for c in exact if c.value is not None and c.rem == 0 and c.op[0] != 'named_groups']
    per_fam = {}
    for c in elig:          # the same number of inputs from every family (the first version took the first 200: all of one family)
        per_fam.setdefault(c.fam, []).append(c)
    for c in [c for cs in per_fam.values() for c in cs[:(300 if ctx.thorough else 40)]]:
        if True:
            for p in range(len(c.buf)) if len(c.buf) <= 64 else sorted({rng.randrange(len(c.buf)) for _ in range(8)}):
                trunc.append(enc.Case(c.fam + '/alltrunc', c.op, c.buf[:p], [], None))
    common.run_differential(ctx, trunc, common.proj_trunc,
                            classify=lambda c, r: 'a strict prefix of the structure must not yield a value' if r.startswith('ok ') else None)
    cf = cross_flag_cases(ctx)
    common.run_exact(ctx, [c for c in cf if c.expect])
    common.run_differential(ctx, [c for c in cf if not c.expect], common.proj_trunc,
                            classify=lambda c, r: 'read in the form the flag selects, the declared signature length is not available: no value may come out' if r.startswith('ok ') else None)
    common.run_cg(ctx, ('dh ', 'ec_params ', 'ecdh ', 'named_groups ', 'dsig', 'content_sig '), common.proj_trunc)
    common.lean_failure_violation(ctx, ok)
    return ctx.finish(LEVEL,
        rule='ServerDHParams / ECParameters (named and explicit-prime) / ServerECDHParams / DigitallySigned (both forms) / parse_content_and_signature (both flag values) / named groups: independent-encoder values with boundary field lengths (exact), suffixes, corruptions (differential), all 256 curve types (class: rejected with an error unless 1 or 3), named groups swept, strict prefixes (class: never a value); signatures that are well-formed under both readings, and signatures encoded in one form read with the other flag (the flag alone decides: exact value, or no value when the length found by that reading is not available); distinct = (family, outcome shape)',
        checker_cmd='cd /verif/lean && lake build TlsModel.Props.C13', assumptions=[])


def replay(ctx, payload):
    return common.generic_replay(ctx, payload)
