"""C06 — parsers are local and zero-copy: only the declared bytes matter."""
import re
import core, framework, enc
from props import common, c07

LEVEL = 'proof'
MODULES = ['TlsModel.Props.C06', 'TlsModel.Props.C06Alias']
SD_OPS = ('tls_plaintext', 'tls_raw', 'tls_encrypted', 'dtls_record', 'msg_handshake', 'dtls_hs', 'ext', 'ext_client', 'ext_server',
          'sct', 'sct_list', 'dh', 'ecdh', 'ec_params', 'dsig', 'dsig_old', 'content_sig', 'tls_header', 'dtls_header', 'ext_unknown')


KNOWN_EXT_TYPES = {0, 1, 5, 10, 11, 13, 15, 16, 18, 21, 22, 23, 28, 35, 40, 41, 42, 43, 44, 45, 48, 49, 51, 13172, 0xff01, 0xffce, 0x1234, 0x0a0a}
TAG_TYPES = {'sni': 0, 'max_fragment_length': 1, 'status_request': 5, 'elliptic_curves': 10, 'ec_point_formats': 11, 'signature_algorithms': 13,
             'heartbeat': 15, 'encrypt_then_mac': 22, 'extended_master_secret': 23, 'session_ticket': 35, 'key_share': 51, 'pre_shared_key': 41,
             'early_data': 42, 'supported_versions': 43, 'cookie': 44, 'psk_key_exchange_modes': 45}


def spans_ok(value, consumed):
    """every @off+len of the value lies inside [0, consumed)"""
    for m in re.finditer(r'(?<![B\w])@(\d+)\+(\d+)', value):
        if int(m.group(1)) + int(m.group(2)) > consumed:
            return False
    return True


def run(ctx):
    core.build_harness()
    ok = common.lean_step(ctx, MODULES)
    rng = ctx.rng
    n = 400 if ctx.thorough else 50
    fams = [f for f in enc.FAMILIES if any(f == o or f.startswith(o + '_') or f.startswith('ext_kind') or f.startswith('msg_handshake') or f.startswith('dtls_hs') for o in SD_OPS)]
    base = []
    for name in fams:
        r = __import__('random').Random('%d/C06/%s' % (ctx.seed, name))
        for c in enc.FAMILIES[name](r, n):
            if c.op[0] in SD_OPS:
                base.append(c)
                for m in enc.corruptions(c, r, limit=2):     # malformed-but-possibly-complete inputs too
                    base.append(m)
    suffixes = []
    for c in base:
        k = rng.random()
        sfx = rng.randbytes(rng.choice((1, 2, 7, 33))) if k < .5 else (c.buf[:max(1, len(c.buf) - c.rem)] if k < .85 else b'\x16\x03\x03\x00\x00')
        suffixes.append(sfx)
    # suffixes whose length makes "bytes after the header" wrap modulo 2^16 (a truncating cast of a length would show here)
    for c in [b for b in base if b.value is not None and len(b.buf) < 200][:(200 if ctx.thorough else 40)]:
        for total in (65535, 65536, 65537, 65536 + 4, 65536 + 5 + 2, 65536 + 13, 65541 + len(c.buf)):
            n = total - len(c.buf) + rng.choice((0, 0, 1, 2, 3, 4, 5))
            if n > 0:
                base.append(c)
                suffixes.append(rng.randbytes(n))
    # single extensions with the declared length present and ARBITRARY (mostly malformed) content of every small length,
    # through the three dispatchers and the 16 single-purpose parsers: a content parser with a fixed-width read (u8 / u16 /
    # u32 / length-prefixed list) must not look past the declared length whatever that length is
    framed0 = len(base)
    nxt = b'\x00\x17\x00\x00'
    for t in sorted(KNOWN_EXT_TYPES):
        ops = ['ext', 'ext_client', 'ext_server'] + ['ext_tag_' + n for n, tt in TAG_TYPES.items() if tt == t]
        for L in list(range(0, 10)) + [16, 40]:
            for rep in range(2 if L else 1):
                data = rng.randbytes(L) if rep else bytes([0] * L)
                buf = t.to_bytes(2, 'big') + L.to_bytes(2, 'big') + data
                for op in ops:
                    for sfx in (nxt, rng.randbytes(rng.choice((1, 2, 3, 4, 8))), b'\x00' * 6, b'\xff' * 5):
                        base.append(enc.Case('framed_ext/' + op, (op,), buf, [], None))
                        suffixes.append(sfx)
    framed1 = len(base)
    # the coverage-guided corpus of the self-delimiting ops (arbitrary, mostly malformed structure), each with two suffixes
    for ln in common.cg_lines(ctx, tuple(o + ' ' for o in SD_OPS)):
        toks = ln.split(' ')
        if toks[0] == 'content_sig':
            op, hx = tuple(toks[:3]), toks[3]
        elif len(toks) == 2:
            op, hx = (toks[0],), toks[1]
        else:
            continue
        buf = b'' if hx == '-' else bytes.fromhex(hx)
        for sfx in (rng.randbytes(rng.choice((1, 2, 5, 19))), buf[:max(1, len(buf))] or b'\x00'):
            base.append(enc.Case('cg/' + op[0], op, buf, [], None))
            suffixes.append(sfx)
    lines = [c.line for c in base] + [' '.join(tuple(c.op) + (core.hexs(c.buf + s),)) for c, s in zip(base, suffixes)]
    impl, model = ctx.run_both(lines)
    N = len(base)
    nv = 0
    for k, (c, s) in enumerate(zip(base, suffixes)):
        a, sa = core.split_side(impl[k]); b, sb = core.split_side(impl[N + k])
        pa, pb = core.parse_result(a), core.parse_result(b)
        fam = 'suffix/' + c.op[0]
        ctx.count(fam, pa[0])
        ctx.distinct.add((c.op[0], framework.shape(a)[:100]))
        bad = None
        if pa[0] == 'ok':
            consumed = len(c.buf) - pa[1]
            if pb[0] != 'ok' or pb[2] != pa[2] or pb[1] != pa[1] + len(s):
                bad = 'appending %d bytes changed the result: "%s" -> "%s"' % (len(s), a[:120], b[:120])
            elif not spans_ok(pa[2], consumed):
                bad = 'a slice of the value reaches beyond the consumed %d bytes: %s' % (consumed, a[:160])
            elif 'X:' in pa[2]:
                bad = 'a slice of the value lies outside the input buffer (copied or static data): %s' % a[:160]
            elif sa.get('remptr') == 'bad' or sb.get('remptr') == 'bad':
                bad = 'remainder is not the input suffix that follows the consumed bytes'
        elif framed0 <= k < framed1 and pa[0] != pb[0]:
            bad = 'the extension holds its declared length, yet appending bytes changed the outcome class: "%s" -> "%s"' % (a, b[:100])
        elif pa[0] in ('error', 'failure'):
            if pb[0] != pa[0]:
                bad = 'input already holds the declared length, yet appending bytes changed the outcome class: "%s" -> "%s"' % (a, b[:100])
        if bad:
            nv += 1
            ctx.cov['impl_vs_oracle_failures'] += 1
            if nv <= 6:
                ctx.violation('%s: %s' % (lines[k][:80], bad), {'lines': [lines[k], lines[N + k]], 'impl': [a, b]}, key='sfx:%s' % c.op[0])
        # pointer-level agreement with the model run on position-tagged bytes
        for idx in (k, N + k):
            ra = core.split_side(impl[idx])[0]
            if common.proj_value(ra) != common.proj_value(model[idx]):
                ctx.cov['model_vs_impl_disagreements'] += 1
                if not bad and ctx.cov['model_vs_impl_disagreements'] <= 3:
                    ctx.violation('correspondence (spans) broken on %s: implementation "%s", model "%s"' % (lines[idx][:80], ra[:160], model[idx][:160]),
                                  {'lines': [lines[idx]], 'impl': ra, 'model': model[idx]}, found_input=False, key='corr:' + c.op[0])
    ctx.sample({'line': lines[0][:200], 'with_suffix': lines[N][:200], 'impl': [core.split_side(impl[0])[0][:200], core.split_side(impl[N])[0][:200]]})
    # defragmenter: slices of the no-copy / first path lie in the caller's record, slices of defragmented results in the buffer
    hists = [c07.gen_history(rng) for _ in range(3000 if ctx.thorough else 400)]
    hl = ['rp ' + ' '.join(h.steps) for h in hists]
    impl, model = ctx.run_both(hl)
    for h, ln, a, b in zip(hists, hl, impl, model):
        ra, side = core.split_side(a)
        ctx.count('defragmenter_slices', 'X' if 'X:' in ra else 'ok')
        if 'X:' in ra or side.get('remptr') == 'bad':
            ctx.violation('defragmenter result references memory outside the record and the buffer: %s' % ra[:200], {'lines': [ln]}, key='rp:X')
        exp = c07.norm_steps(' ; '.join(h.exp))
        if c07.norm_steps(ra) != exp:
            ctx.violation('defragmenter result slices differ from accumulate-then-parse: "%s" vs "%s"' % (ra[:160], exp[:160]), {'lines': [ln], 'expect': exp}, key='rp:span')
    # arbitrary op sequences (records whose header length differs from their data, nocopy calls, resets) and the corpus
    # histories: a record that parses while the parser is idle is answered from the caller's record - no slice of such a
    # result may point into the parser's buffer (fast path of C07, zero-copy clause here); spans as the model predicts
    rl = ['rp ' + ' '.join(c07.random_history(rng)) for _ in range(4000 if ctx.thorough else 800)] + common.cg_lines(ctx, ('rp ',))
    impl, model = ctx.run_both(rl)
    want = c07.reference_run(ctx, [ln.split(' ')[1:] for ln in rl])
    for ln, a, b, w in zip(rl, impl, model, want):
        ra, side = core.split_side(a)
        prev = '0'
        for k, st in enumerate(ra.split(' ; ')):
            parts = st.split(' | ')
            if len(parts) != 3:
                continue
            ctx.count('op_sequences', 'copied' if 'B@' in parts[0] else 'nocopy')
            if prev == '0' and parts[0].startswith('ok ') and 'B@' in parts[0]:
                ctx.violation('step %d of a history: the parser was idle and the record parsed, yet the result points into the parser\'s buffer (copied): %s' % (k, parts[0][:160]),
                              {'lines': [ln]}, key='rp:idlecopy')
                break
            prev = parts[1]
        if 'X:' in ra or side.get('remptr') == 'bad':
            ctx.violation('defragmenter result references memory outside the record and the buffer: %s' % ra[:200], {'lines': [ln]}, key='rp:X')
        elif c07.norm_steps(ra) != w:
            # spans / results differ from "accumulate, refuse, reset" around the code's own one-shot parser (C07's reference)
            ctx.cov['impl_vs_oracle_failures'] += 1
            ctx.violation('slices of a history differ from accumulate-then-parse around parse_tls_record_with_header itself: implementation "%s", reference "%s"' % (ra[:200], w[:200]), {'lines': [ln], 'impl': ra, 'expect_steps': w[:3000]}, key='ref:rp')
        elif [c07.proj_step(x) for x in ra.split(' ; ')] != [c07.proj_step(x) for x in b.split(' ; ')]:
            ctx.cov['drift'] += 1      # only the model's one-shot payload parser answers differently: C03 / C04 matter
    common.lean_failure_violation(ctx, ok)
    return ctx.finish(LEVEL,
        rule='every self-delimiting op on well-formed (independent encoder) and length-corrupted inputs, each re-run with a suffix (random bytes / a copy of the structure itself / a record header): value unchanged and remainder extended on success, outcome class unchanged on non-Incomplete failure, every span of the value inside the consumed prefix, no slice outside the input (X:), remainder pointer = input + consumed; single extensions of every known type with arbitrary content of every small declared length through the three dispatchers and the 16 single-purpose parsers (outcome class and value independent of what follows); spans equal to those of the model run on position-tagged bytes; defragmenter histories: spans in the record (@) or the buffer (B@) exactly as accumulate-then-parse predicts; arbitrary op sequences: an idle parser answers a parsable record from the record itself, spans as the model; distinct = (op, outcome shape)',
        checker_cmd='cd /verif/lean && lake build TlsModel.Props.C06',
        assumptions=['alias is a theorem for the slice-producing primitives and raw records; for composite values it is checked span by span against the model on tagged bytes'])


def replay(ctx, payload):
    return common.generic_replay(ctx, payload)
