"""C08 — handshake state machine accepts exactly the documented flows."""
import core, framework, gen_tables

LEVEL = 'proof'
MODULES = ['TlsModel.Props.C08', 'TlsModel.Gen.StatesCheck']

Z32 = '00' * 32
HS_HEX = {
    'HelloRequest': '00000000',
    'ClientHello:nosid': '01000026' + '0303' + Z32 + '00' + '0000' + '00',
    'ClientHello:sid': '01000027' + '0303' + Z32 + '01aa' + '0000' + '00',
    'ServerHello': '02000026' + '0303' + Z32 + '00' + '002f' + '00',
    'ServerHelloV13Draft18': '02000024' + '7f12' + Z32 + '1301',
    'NewSessionTicket': '04000004' + '00000e10',
    'EndOfEarlyData': '05000000',
    'HelloRetryRequest': '06000004' + '7f13' + '1301',
    'Certificate': '0b000003' + '000000',
    'ServerKeyExchange': '0c000000',
    'CertificateRequest': '0d000005' + '00' + '0000' + '0000',
    'ServerDone': '0e000000',
    'CertificateVerify': '0f000000',
    'ClientKeyExchange': '10000000',
    'Finished': '14000000',
    'CertificateStatus': '16000004' + '01' + '000000',
    'NextProtocol': '43000002' + '0000',
    'KeyUpdate': '18000001' + '00',
}


def st_line(s, d, kind, rng=None, desc=0):
    p = kind.split(':')
    if p[0] == 'hs':
        return 'st %d %d hs %s' % (s, d, HS_HEX[kind[3:]])
    if p[0] == 'alert':
        return 'st %d %d alert %s %d' % (s, d, p[1], desc)
    if p[0] == 'ccs':
        return 'st %d %d ccs' % (s, d)
    if p[0] == 'app':
        return 'st %d %d app %s' % (s, d, core.hexs(bytes(rng.randrange(256) for _ in range(rng.randrange(5)))) if rng else '00')
    return 'st %d %d hb 1 %s' % (s, d, '0102')


def expected_from_dump(tokens):
    return 'ok ' + tokens[1] if tokens[0] == 'ok' else 'err ' + tokens[1]


def run(ctx):
    exe = core.build_harness()
    g = gen_tables.gen_states(exe)
    ctx.notes.append('Gen/States.lean: %d rows from %d implementation cells (changed=%s)' % (g['rows'], g['raw_rows'], g['changed']))
    lean_ok = ctx.lean(MODULES)
    if lean_ok:
        ctx.audit_axioms(['TlsModel.Props.C08'])
        if ctx.thorough:
            ctx.leanchecker(MODULES)

    # exhaustive cell sweep: every dumped cell replayed as an `st` line through the implementation AND the model.
    # The model equals the specification (theorem transition_eq_spec), so a cell where they differ is a concrete
    # (state, direction, message) on which the implementation leaves the documented flows.
    rows = gen_tables.dump(exe, 'states')
    lines, meta = [], []
    for l in rows:
        t = l.split(' ')
        s, d, kind = int(t[0]), int(t[1]), t[2]
        if kind.startswith('alert:') and kind.count(':') > 1:
            desc = int(kind.split(':')[2]); kind = ':'.join(kind.split(':')[:2])
        else:
            desc = ctx.rng.randrange(256) if kind.startswith('alert:') else 0
        lines.append(st_line(s, d, kind, ctx.rng, desc))
        meta.append((s, d, kind, expected_from_dump(t[3:])))
    # payload independence: random payloads inside each kind (see families below), several per cell in thorough
    extra = payload_cases(ctx)
    impl, model = ctx.run_both(lines + [e[0] for e in extra])
    nbad = 0
    for k, (ln, a, b) in enumerate(zip(lines, impl, model)):
        a, _ = core.split_side(a)
        s, d, kind, dumped = meta[k]
        ctx.count('cells_exhaustive', a.split(' ')[0])
        ctx.distinct.add((s, d, kind if not kind.startswith('alert') else 'alert:' + ('1' if kind == 'alert:1' else 'x'), a))
        if a != b:
            nbad += 1
            ctx.cov['impl_vs_oracle_failures'] += 1
            if nbad <= 5:
                ctx.violation('state %d dir %d %s: implementation answers "%s", documented flows (model = spec) say "%s"' % (s, d, kind, a, b),
                              {'lines': [ln], 'impl': a, 'spec': b, 'cell': [s, d, kind]}, key='cell:%d:%d:%s' % (s, d, kind))
        elif a != dumped:
            ctx.machinery_errors.append('dump/op mismatch at %s: %s vs %s' % (ln, a, dumped))
    for (ln, kind, base), a, b in zip(extra, impl[len(lines):], model[len(lines):]):
        a, _ = core.split_side(a)
        ctx.count('payload_independence', a.split(' ')[0])
        if a != b:
            ctx.cov['impl_vs_oracle_failures'] += 1
            ctx.violation('outcome depends on message content: %s -> implementation "%s", specification "%s"' % (ln[:120], a, b),
                          {'lines': [ln], 'impl': a, 'spec': b}, key='payload:' + ln[:60])
    ctx.sample({'line': lines[0], 'impl': impl[0], 'model': model[0]})
    ctx.sample({'line': lines[5000], 'impl': impl[5000], 'model': model[5000]})
    if extra:
        ctx.sample({'line': extra[0][0][:200], 'impl': impl[len(lines)], 'model': model[len(lines)]})
    if not lean_ok and not ctx.violations:
        ctx.violation('Lean obligation(s) no longer check: %s' % ', '.join(ctx.failed_theorems),
                      {'failed_theorems': ctx.failed_theorems, 'lean_output': ctx.lean_output}, found_input=False)
    return ctx.finish(LEVEL,
        rule='every cell of (25 states x 2 directions x {18 handshake kinds incl. ClientHello +-session id, CCS, app data, heartbeat, 256 alert severities}) executed on the implementation (all 256 descriptions checked inside the harness) and on the model; distinct = distinct (state, direction, kind class, outcome); plus random payloads per kind',
        checker_cmd='cd /verif/lean && lake build TlsModel.Props.C08 TlsModel.Gen.StatesCheck',
        assumptions=['representative message contents for the kernel-checked table; content independence is a theorem on the model and sampled on the implementation',
                     'TlsState declaration order (None=0..Invalid=24) as listed in the harness'],
        extra={'exhaustive': True, 'cells': len(lines)})


def payload_cases(ctx):
    """random messages of each kind in random states: outcome must equal the model's (which depends on kind only)"""
    try:
        import enc
    except Exception:
        return []
    out = []
    n = 4000 if ctx.thorough else 600
    for _ in range(n):
        w = core.Writer()
        try:
            enc.gen_handshake_msg(ctx.rng, w)
        except Exception:
            continue
        s, d = ctx.rng.randrange(25), ctx.rng.randrange(2)
        out.append(('st %d %d hs %s' % (s, d, core.hexs(w.bytes())), 'hs', None))
    # constructed ClientHellos (TlsClientHelloContents::new) in every state and direction: values no parser produces - a session
    # id that is present but empty, an extension block present but empty - exhaustive over (state, direction, shapes)
    for s in range(25):
        for d in (0, 1):
            for sid in ('none', '-', '00', core.hexs(ctx.rng.randbytes(32)), core.hexs(ctx.rng.randbytes(33))):
                for ext in ('none', '-', '002b0000'):
                    out.append(('st %d %d chnew %s %s' % (s, d, sid, ext), 'chnew', None))
            # constructed ServerHellos of every interesting version (the 1.2 structure carrying the draft-18 number, DTLS, SSLv3 ...)
            for v in (0x0300, 0x0301, 0x0303, 0x0304, 0x7f12, 0x7f1c, 0xfefd, 0xfeff, 0, 0xffff):
                out.append(('st %d %d shnew %d %s' % (s, d, v, ctx.rng.choice(('none', '-', '002b00020304'))), 'shnew', None))
    # parsed ClientHellos (with and without session id) carrying each kind of extension alone, in every state and direction: the
    # outcome may depend on the session id's presence only, never on what the extension block holds
    import enc as _enc
    kinds = []
    for k in range(40):
        w = core.Writer()
        try:
            _enc.gen_extension(ctx.rng, w, None, 'ext_client', 30)
        except Exception:
            continue
        kinds.append(w.bytes())
    kinds += [bytes.fromhex('00230003aabbcc'), bytes.fromhex('00230000'), bytes.fromhex('002a0000'), bytes.fromhex('0029000400020000'), bytes.fromhex('ff01000100')]
    for eb in kinds:
        for sid in (b'', bytes(32)):
            body = b'\x03\x03' + bytes(32) + bytes([len(sid)]) + sid + b'\x00\x02\x00\x2f\x01\x00' + len(eb).to_bytes(2, 'big') + eb
            msg = b'\x01' + len(body).to_bytes(3, 'big') + body
            for s in range(25):
                for d in (0, 1):
                    out.append(('st %d %d hs %s' % (s, d, core.hexs(msg)), 'hs', None))
    return out


def replay(ctx, payload):
    lines = payload.get('lines', [])
    impl, model = ctx.run_both(lines)
    bad = 0
    for ln, a, b in zip(lines, impl, model):
        a, _ = core.split_side(a)
        print('%s\n  implementation: %s\n  specification : %s' % (ln[:200], a, b))
        bad += a != b
    print('REPLAY: %s' % ('violation reproduced' if bad else 'not reproduced'))
    return 1 if bad else 0
