"""C09 — serializer output parses back to the same value with consistent lengths."""
import re
import core, framework, enc
from props import common

LEVEL = 'proof'
MODULES = ['TlsModel.Props.C09']


def xb(b):
    return 'x:' + b.hex()


def xo(b):
    return 'none' if b is None else '(some %s)' % xb(b)


def despan(value, buf):
    """replace @off+len / +0 spans by the bytes they denote (x:hex)"""
    value = re.sub(r'(?<![B\w])@(\d+)\+(\d+)', lambda m: 'x:' + buf[int(m.group(1)):int(m.group(1)) + int(m.group(2))].hex(), value)
    return re.sub(r'(?<![\w:])\+0(?![\w])', 'x:', value)


class V:
    """a serializable value: description, normal form (what parsing gives back), expected bytes (None = outside wire limits)"""
    def __init__(self, kind, desc, norm, exp, parse_op):
        self.kind, self.desc, self.norm, self.exp, self.parse_op = kind, desc, norm, exp, parse_op


def hs_wrap(t, body):
    return bytes([t]) + len(body).to_bytes(3, 'big') + body


def gen_hs(rng, within=True):
    k = rng.choice(('ch', 'ch', 'sh', 'sh', 'sh13', 'cke', 'fin', 'hr', 'unsupported'))
    # randoms carry protocol magic values / source literals now and then (the HelloRetryRequest digest, downgrade sentinels)
    rnd = enc.rbytes(rng, 32, .2) if within or rng.random() < .5 else rng.randbytes(rng.choice((0, 31, 33)))
    ver = rng.choice((0x0000, 0x0002, 0x0200, 0x0300, 0x0300, 0x0301, 0x0302, 0x0303, 0x0303, 0x0304, 0x7f12, 0xfeff, 0xfefd, rng.randrange(65536)))   # every version with and without extensions
    sid = None if rng.random() < .4 else rng.randbytes(rng.choice((1, 2, 32)) if within else rng.choice((0, 1, 32, 33, 255, 256)))
    ext = None if rng.random() < .4 else rng.randbytes(rng.choice((0, 1, 40, 300)) if within or rng.random() < .7 else 65536)
    sidb = b'\0' if sid is None else bytes([len(sid) % 256]) + sid
    extb = b'\0\0' if ext is None else (len(ext) % 65536).to_bytes(2, 'big') + ext
    nsid, next_ = xo(sid), xo(ext if ext is not None else b'')
    if k == 'ch':
        n = rng.choice((0, 1, 2, 40)) if within or rng.random() < .6 else rng.choice((32767, 32768))
        if within and rng.random() < .02:
            n = 32767
        ids = [rng.randrange(65536) for _ in range(n)]
        comp = [rng.randrange(256) for _ in range(rng.choice((0, 1, 2, 255)) if within else rng.choice((0, 1, 255, 256)))]
        desc = '(ClientHello %d %s %s %s %s %s)' % (ver, xb(rnd), xo(sid), core.lst(map(str, ids)), core.lst(map(str, comp)), xo(ext))
        norm = '(ClientHello %d %s %s %s %s %s)' % (ver, xb(rnd), nsid, core.lst(map(str, ids)), core.lst(map(str, comp)), next_)
        body = ver.to_bytes(2, 'big') + rnd + sidb + (2 * n % 65536).to_bytes(2, 'big') + b''.join(i.to_bytes(2, 'big') for i in ids) + bytes([len(comp) % 256]) + bytes(comp) + extb
        ok = len(rnd) == 32 and (sid is None or 1 <= len(sid) <= 32) and n <= 32767 and len(comp) <= 255 and (ext is None or len(ext) < 65536) and len(body) < 2 ** 24
        return V(k, desc, norm, hs_wrap(1, body) if ok else None, 'msg_handshake')
    if k == 'sh':
        ver = rng.choice((0x0300, 0x0301, 0x0302, 0x0303)) if within else ver
        if ver == 0x0300 and within:
            ext = None; extb = b'\0\0'
        c, co = rng.randrange(65536), rng.randrange(256)
        desc = '(ServerHello %d %s %s %d %d %s)' % (ver, xb(rnd), xo(sid), c, co, xo(ext))
        norm = '(ServerHello %d %s %s %d %d %s)' % (ver, xb(rnd), nsid, c, co, 'none' if ver == 0x0300 else next_)
        body = ver.to_bytes(2, 'big') + rnd + sidb + c.to_bytes(2, 'big') + bytes([co]) + extb
        ok = len(rnd) == 32 and (sid is None or 1 <= len(sid) <= 32) and ver in (0x0300, 0x0301, 0x0302, 0x0303) and (ext is None or len(ext) < 65536) and not (ver == 0x0300 and ext is not None)
        return V(k, desc, norm, hs_wrap(2, body) if ok else None, 'msg_handshake')
    if k == 'sh13':
        ver = 0x7f12 if within else rng.choice((0x7f12, ver))
        c = rng.randrange(65536)
        desc = '(ServerHello13d18 %d %s %d %s)' % (ver, xb(rnd), c, xo(ext))
        norm = '(ServerHello13d18 %d %s %d %s)' % (ver, xb(rnd), c, next_)
        body = ver.to_bytes(2, 'big') + rnd + c.to_bytes(2, 'big') + extb
        ok = len(rnd) == 32 and ver == 0x7f12 and (ext is None or len(ext) < 65536)
        return V(k, desc, norm, hs_wrap(2, body) if ok else None, 'msg_handshake')
    if k == 'cke':
        form = rng.choice(('Unknown', 'Dh', 'Ecdh'))
        d = rng.randbytes(rng.choice((0, 1, 32, 255, 256, 300)) if within or form == 'Unknown' else rng.choice((255, 256, 65535, 65536)))
        if within and form == 'Ecdh':
            d = d[:255]
        inner = d if form == 'Unknown' else ((len(d) % 65536).to_bytes(2, 'big') + d if form == 'Dh' else bytes([len(d) % 256]) + d)
        ok = form == 'Unknown' or (form == 'Dh' and len(d) < 65536) or (form == 'Ecdh' and len(d) < 256)
        return V(k, '(ClientKeyExchange (%s %s))' % (form, xb(d)), '(ClientKeyExchange (Unknown %s))' % xb(inner), hs_wrap(16, inner) if ok else None, 'msg_handshake')
    if k == 'fin':
        d = rng.randbytes(rng.choice((0, 12, 36, 300)))
        return V(k, '(Finished %s)' % xb(d), '(Finished %s)' % xb(d), hs_wrap(20, d), 'msg_handshake')
    if k == 'hr':
        return V(k, 'HelloRequest', 'HelloRequest', hs_wrap(0, b''), 'msg_handshake')
    d = rng.randbytes(rng.choice((0, 3)))
    desc = rng.choice(['(ServerDone %s)' % xb(d), '(KeyUpdate 1)', 'EndOfEarlyData', '(Certificate [%s])' % xb(d), '(NewSessionTicket 5 %s)' % xb(d),
                       '(HelloRetryRequest 771 4865 none)', '(CertificateVerify %s)' % xb(d), '(ServerKeyExchange %s)' % xb(d),
                       '(CertificateStatus 1 %s)' % xb(d), '(NextProtocol %s %s)' % (xb(d), xb(d)), '(CertificateRequest [1] none [])'])
    return V('unsupported', desc, None, 'NYI', None)


def gen_ext(rng):
    k = rng.choice(('sni', 'mfl', 'groups', 'unsupported'))
    if k == 'sni':
        ents = [(rng.randrange(256), rng.randbytes(rng.choice((0, 1, 14, 300)))) for _ in range(rng.choice((0, 1, 2, 3)))]
        inner = b''.join(bytes([t]) + len(n).to_bytes(2, 'big') + n for t, n in ents)
        desc = '(SNI %s)' % core.lst('(P %d %s)' % (t, xb(n)) for t, n in ents)
        content = len(inner).to_bytes(2, 'big') + inner
        return desc, b'\0\0' + len(content).to_bytes(2, 'big') + content
    if k == 'mfl':
        n = rng.randrange(256)
        return '(MaxFragmentLength %d)' % n, b'\0\1\0\1' + bytes([n])
    if k == 'groups':
        gs = [rng.randrange(65536) for _ in range(rng.choice((0, 1, 2, 30)))]
        inner = b''.join(g.to_bytes(2, 'big') for g in gs)
        content = len(inner).to_bytes(2, 'big') + inner
        return '(EllipticCurves %s)' % core.lst(map(str, gs)), b'\0\x0a' + len(content).to_bytes(2, 'big') + content
    d = rng.randbytes(2)
    return rng.choice(['(Heartbeat 1)', 'EncryptThenMac', '(Padding %s)' % xb(d), '(KeyShare %s)' % xb(d), '(Unknown 4660 %s)' % xb(d),
                       '(Grease 2570 %s)' % xb(d), '(SignatureAlgorithms [1027])', '(ALPN [%s])' % xb(d), '(SupportedVersions [772])']), None


def run(ctx):
    core.build_harness('serialize')
    ok = common.lean_step(ctx, MODULES)
    rng = ctx.rng
    n = 12000 if ctx.thorough else 1500
    items = []          # (op, desc, expected result line or None, norm, parse_op, label)
    # size ladder: ClientHello bodies of every length from 41 to ~700 bytes (cipher list 0..329 entries x 1 or 2 compression
    # methods x extension block absent / empty): a fixed-size staging buffer or a size estimate that is off by the two
    # length bytes of an absent block shows at exactly one or two of these sizes
    for nc in range(0, 330):
        for ncomp in (1, 2):
            for ext in (None, b''):
                rnd = rng.randbytes(32)
                ids = [(7 * nc + j) % 65536 for j in range(nc)]
                comp = list(range(ncomp))
                desc = '(ClientHello 771 %s none %s %s %s)' % (xb(rnd), core.lst(map(str, ids)), core.lst(map(str, comp)), xo(ext))
                norm = '(ClientHello 771 %s none %s %s %s)' % (xb(rnd), core.lst(map(str, ids)), core.lst(map(str, comp)), xo(b''))
                body = b'\x03\x03' + rnd + b'\0' + (2 * nc).to_bytes(2, 'big') + b''.join(i.to_bytes(2, 'big') for i in ids) + bytes([ncomp]) + bytes(comp) + b'\0\0'
                items.append(('ser_msg', '(Hs %s)' % desc, 'bytes ' + core.hexs(hs_wrap(1, body)), '(Hs %s)' % norm, 'msg_handshake', 'hs/ch_size_ladder'))
    for _ in range(n):
        r = rng.random()
        within = rng.random() < .8
        if r < .55:
            v = gen_hs(rng, within)
            exp = None if v.exp is None else ('generr NotYetImplemented' if v.exp == 'NYI' else 'bytes ' + core.hexs(v.exp))
            op = rng.choice(('ser_hs', 'ser_msg'))
            desc = v.desc if op == 'ser_hs' else '(Hs %s)' % v.desc
            items.append((op, desc, exp, ('(Hs %s)' % v.norm) if v.norm else None, 'msg_handshake' if v.parse_op else None, 'hs/' + v.kind))
        elif r < .65:
            desc = rng.choice(['CCS', '(Alert 1 0)', '(App x:0102)', '(Hb 1 2 x:0102)'])
            items.append(('ser_msg', desc, 'bytes 01' if desc == 'CCS' else 'generr NotYetImplemented', 'CCS' if desc == 'CCS' else None, 'msg_ccs' if desc == 'CCS' else None, 'msg'))
        elif r < .85:
            # records of handshake messages / CCS
            t = rng.choice((22, 22, 20))
            ver = rng.choice((0x0301, 0x0303, rng.randrange(65536)))
            vs = [gen_hs(rng, True) for _ in range(rng.choice((1, 1, 2, 3)))] if t == 22 else None
            # payload sizes at the limits a serializer or parser might use (2^14, 2^14+256 = the record cap of C02, and around)
            target = rng.choice((16383, 16384, 16385, 16639, 16640)) if rng.random() < .12 else None
            if target and t == 22:
                pre = rng.choice((0, 1, 2))
                d = rng.randbytes(target - 4 - 4 * pre)
                fin = V('fin', '(Finished %s)' % xb(d), '(Finished %s)' % xb(d), hs_wrap(20, d), 'msg_handshake')
                hr = V('hr', 'HelloRequest', 'HelloRequest', hs_wrap(0, b''), 'msg_handshake')
                vs = [hr] * pre + [fin]
            if t == 22:
                if any(v.exp in (None, 'NYI') for v in vs):
                    exp, norm = ('generr NotYetImplemented' if any(v.exp == 'NYI' for v in vs) else None), None
                    payload = b''
                else:
                    payload = b''.join(v.exp for v in vs)
                    norm = core.lst('(Hs %s)' % v.norm for v in vs)
                    exp = 'bytes ' + core.hexs(bytes([t]) + ver.to_bytes(2, 'big') + len(payload).to_bytes(2, 'big') + payload) if len(payload) <= 16640 else None
                msgs = core.lst('(Hs %s)' % v.desc for v in vs)
            else:
                k = target or rng.choice((1, 2, 5))
                payload = b'\1' * k
                msgs = core.lst(['CCS'] * k); norm = msgs
                exp = 'bytes ' + core.hexs(bytes([t]) + ver.to_bytes(2, 'big') + len(payload).to_bytes(2, 'big') + payload)
            l0 = rng.choice((0, min(len(payload), 65535), 65535))
            items.append(('ser_rec', '(Plain (Hdr %d %d %d) %s)' % (t, ver, l0, msgs), exp,
                          '(Plain (Hdr %d %d %d) %s)' % (t, ver, len(payload), norm) if norm and exp and exp.startswith('bytes') else None,
                          'tls_plaintext' if norm and exp and exp.startswith('bytes') else None, 'record/%d' % t))
        else:
            es = [gen_ext(rng) for _ in range(rng.choice((1, 1, 2, 3)))]
            if rng.random() < .5:
                d, b = es[0]
                items.append(('ser_ext', d, 'generr NotYetImplemented' if b is None else 'bytes ' + core.hexs(b), d if b is not None else None, 'ext' if b is not None else None, 'ext'))
            else:
                if any(b is None for d, b in es):
                    exp, norm = 'generr NotYetImplemented', None
                else:
                    inner = b''.join(b for d, b in es)
                    exp = 'bytes ' + core.hexs(len(inner).to_bytes(2, 'big') + inner)
                    norm = core.lst(d for d, b in es)
                items.append(('ser_exts', core.lst(d for d, b in es), exp, norm, 'exts_block' if norm else None, 'exts'))
    lines = ['%s %s' % (it[0], it[1]) for it in items]
    impl, model = ctx.run_both(lines, 'serialize')
    stage2 = []
    nv = 0
    for it, ln, a, b in zip(items, lines, impl, model):
        op, desc, exp, norm, pop, label = it
        a = core.split_side(a)[0]
        ctx.count('serialize/' + label, a.split(' ')[0])
        ctx.distinct.add((label, a.split(' ')[0], len(a) // 64))
        bad = None
        if exp is not None and a != exp:
            bad = 'serializer must answer "%s"' % exp[:160]
        if a.startswith('bytes') and exp == 'generr NotYetImplemented':
            bad = 'unsupported value must yield NotYetImplemented, not bytes'
        if bad:
            nv += 1
            ctx.cov['impl_vs_oracle_failures'] += 1
            if nv <= 6:
                ctx.violation('%s: %s; implementation: "%s"' % (ln[:140], bad, a[:160]), {'lines': [ln], 'expect': exp, 'impl': a, 'model': b}, key='ser:' + label)
        if a != b:
            ctx.cov['model_vs_impl_disagreements'] += 1
            if not bad:
                ctx.violation('correspondence broken on %s: implementation "%s", model "%s"' % (ln[:140], a[:120], b[:120]),
                              {'lines': [ln], 'impl': a, 'model': b}, found_input=False, key='corr:' + label)
        if a.startswith('bytes ') and norm is not None and pop and exp is not None:
            hexs = a[6:]
            buf = bytes.fromhex(hexs) if hexs != '-' else b''
            if pop == 'exts_block':
                stage2.append((it, 'exts ' + core.hexs(buf[2:]), buf[2:], a))
                if int.from_bytes(buf[:2], 'big') != len(buf) - 2:
                    ctx.violation('extension list length field %d does not equal the %d bytes it prefixes' % (int.from_bytes(buf[:2], 'big'), len(buf) - 2), {'lines': [ln]}, key='len:exts')
            else:
                stage2.append((it, '%s %s' % (pop, hexs), buf, a))
    # stage 2: the produced bytes parse back, entirely, to the normal form; stage 3: re-serializing reproduces the bytes
    l2 = [s[1] for s in stage2]
    p2 = core.run_lines(core.build_harness('serialize'), l2)
    l3, m3 = [], []
    for (it, ln2, buf, sera), res in zip(stage2, p2):
        op, desc, exp, norm, pop, label = it
        res = core.split_side(res)[0]
        ctx.count('reparse/' + label, core.res_class(res))
        pr = core.parse_result(res)
        got = despan(pr[2], buf) if pr[0] == 'ok' else res
        if pr[0] != 'ok' or pr[1] != 0 or got != norm:
            ctx.cov['impl_vs_oracle_failures'] += 1
            ctx.violation('serialized %s does not parse back to the original: got "%s", expected "ok 0 %s"' % (desc[:100], (res if pr[0] != 'ok' else 'ok %d %s' % (pr[1], got))[:200], norm[:200]),
                          {'lines': ['%s %s' % (op, desc), ln2], 'expect': norm}, key='reparse:' + label)
        elif op != 'ser_exts' and pop != 'msg_ccs':
            l3.append('%s %s' % (op, got[4:-1] if op == 'ser_hs' and got.startswith('(Hs ') else got))
            m3.append((desc, sera, label))
    r3 = core.run_lines(core.build_harness('serialize'), l3)
    for ln3, (desc, sera, label), res in zip(l3, m3, r3):
        res = core.split_side(res)[0]
        ctx.count('reserialize/' + label, res.split(' ')[0])
        if res != sera:
            ctx.violation('re-serializing the parsed value does not reproduce the bytes: %s' % ln3[:160], {'lines': [ln3], 'expect': sera, 'impl': res}, key='reser:' + label)
    ctx.sample({'line': lines[0][:200], 'impl': core.split_side(impl[0])[0][:200], 'model': model[0][:200]})
    if l2:
        ctx.sample({'reparse': l2[0][:200], 'impl': p2[0][:200]})
    common.lean_failure_violation(ctx, ok)
    return ctx.finish(LEVEL,
        rule='value descriptions of every serializable kind (ClientHello, ServerHello incl. SSLv3 and draft-18, ClientKeyExchange in its three forms, Finished, HelloRequest, ChangeCipherSpec, records of them, SNI / max-fragment-length / supported-groups extensions and extension lists) within and beyond the wire limits, and unsupported kinds: (1) serializer output vs the independent encoder (exact, inside the limits), vs NotYetImplemented (unsupported), vs the Lean serializer model (always); (2) the bytes parsed back by the real parser = the normal form, everything consumed; (3) re-serialization reproduces the bytes; distinct = (kind, outcome, size class)',
        checker_cmd='cd /verif/lean && lake build TlsModel.Props.C09',
        assumptions=['harness built with --features serialize'])


def replay(ctx, payload):
    return common.generic_replay(ctx, payload, 'serialize')
