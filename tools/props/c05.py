"""C05 — extensions decode by IANA type; GREASE and unknown types are preserved."""
import core, framework, enc, gen_tables
from props import common

LEVEL = 'proof'
MODULES = ['TlsModel.Props.C05', 'TlsModel.Gen.ExtDispatchCheck']

COMMON = [0, 1, 5, 11, 13, 15, 16, 18, 22, 23, 28, 35, 41, 42, 43, 44, 51, 13172, 0xff01]
CLIENT = [10, 21, 45, 48, 49, 0xffce]
GENERIC = [40]
GREASE = [0x0a0a + 0x1010 * k for k in range(16)]
NAME = {0: 'SNI', 1: 'MaxFragmentLength', 5: 'StatusRequest', 10: 'EllipticCurves', 11: 'EcPointFormats', 13: 'SignatureAlgorithms',
        15: 'Heartbeat', 16: 'ALPN', 18: 'SCT', 21: 'Padding', 22: 'EncryptThenMac', 23: 'ExtendedMasterSecret', 28: 'RecordSizeLimit',
        35: 'SessionTicket', 40: 'KeyShareOld', 41: 'PreSharedKey', 42: 'EarlyData', 43: 'SupportedVersions', 44: 'Cookie',
        45: 'PskExchangeModes', 48: 'OidFilters', 49: 'PostHandshakeAuth', 51: 'KeyShare', 13172: 'NextProtocolNegotiation',
        0xff01: 'RenegotiationInfo', 0xffce: 'ESNI'}
TAGS = {'sni': 0, 'max_fragment_length': 1, 'status_request': 5, 'elliptic_curves': 10, 'ec_point_formats': 11, 'signature_algorithms': 13,
        'heartbeat': 15, 'encrypt_then_mac': 22, 'extended_master_secret': 23, 'session_ticket': 35, 'key_share': 51, 'pre_shared_key': 41,
        'early_data': 42, 'supported_versions': 43, 'cookie': 44, 'psk_key_exchange_modes': 45}
EMPTY = (22, 23, 49, 13172)


def known(op):
    return set(COMMON) | (set(CLIENT) if op != 'ext_server' else set()) | (set(GENERIC) if op == 'ext' else set())


def spec_variant(op, t):
    if t in GREASE:
        return 'Grease'
    return NAME[t] if t in known(op) else 'Unknown'


def ctor_of(res):
    v = res.split(' ', 2)[2]
    return v[1:].split(' ')[0].rstrip(')') if v.startswith('(') else v


def run(ctx):
    exe = core.build_harness()
    g = gen_tables.gen_extdispatch(exe)
    ctx.notes.append('Gen/ExtDispatch.lean: %d rows, %d typeof rows, anomalies %s' % (g['rows'], g['typeof_rows'], g['anomalies']))
    ok = common.lean_step(ctx, MODULES, audit=['TlsModel.Props.C05'])
    rng = ctx.rng
    # 1. exhaustive over types: all 65536 types x 3 dispatchers x probe contents, each judged by the type->variant specification
    probes = [b'', bytes.fromhex('0002001d'), bytes.fromhex('00')] + ([bytes.fromhex('0100'), rng.randbytes(7)] if ctx.thorough else [])
    lines, meta = [], []
    for op in ('ext', 'ext_client', 'ext_server'):
        for t in range(65536):
            plist = probes if (ctx.thorough or t < 300 or t in GREASE or t % 257 == 0 or (t & 0x0f0f) == 0x0a0a or t in (13172, 0xff01, 0xffce)) else probes[:1]
            if t in NAME or t in GREASE:      # sizes at which a truncating cast of the length would wrap
                plist = plist + [bytes(255), bytes(256), bytes(257), bytes(512), bytes(65535)]
            for pi, pr in enumerate(plist):
                lines.append('%s %s' % (op, core.hexs(t.to_bytes(2, 'big') + len(pr).to_bytes(2, 'big') + pr)))
                meta.append((op, t, pr))
    impl, model = ctx.run_both(lines)
    nv = 0
    for (op, t, pr), ln, a, b in zip(meta, lines, impl, model):
        ra, _ = core.split_side(a)
        want = spec_variant(op, t)
        ctx.count('type_sweep/' + op, core.res_class(ra))
        ctx.distinct.add((op, want, len(pr), core.res_class(ra)))
        bad = None
        if ra.startswith('ok '):
            got = ctor_of(ra)
            if got != want:
                bad = 'type %d must decode to %s through %s, got %s' % (t, want, op, got)
            elif want in ('Unknown', 'Grease') and ra != 'ok 0 (%s %d %s)' % (want, t, core.span(4, len(pr))):
                bad = '%s must carry type and data byte-for-byte' % want
        elif want in ('Unknown', 'Grease'):
            bad = 'type %d (%s) with well-framed data must be accepted' % (t, want)
        if t in EMPTY and t in known(op) and len(pr) > 0 and ra.startswith('ok '):
            bad = 'extension defined as empty accepted with %d bytes of data' % len(pr)
        if bad:
            nv += 1
            ctx.cov['impl_vs_oracle_failures'] += 1
            if nv <= 6:
                ctx.violation('%s: %s; implementation: "%s"' % (ln, bad, ra[:160]), {'lines': [ln], 'impl': ra, 'model': b, 'demand': bad}, key='type:%s:%d' % (op, t))
        if common.proj_value(ra) != common.proj_value(b):
            ctx.cov['model_vs_impl_disagreements'] += 1
            if not bad:
                ctx.violation('correspondence broken on %s: implementation "%s", model "%s"' % (ln, ra[:160], b[:160]),
                              {'lines': [ln], 'impl': ra, 'model': b}, found_input=False, key='corr:%s:%d' % (op, t))
    ctx.sample({'line': lines[5], 'impl': core.split_side(impl[5])[0], 'model': model[5]})
    # 2. tag-specific parsers: accept exactly their own IANA type (all 65536 types each), then agree with the generic parser
    tl, tm = [], []
    for name, own in TAGS.items():
        for t in (range(65536) if ctx.thorough else list(range(0, 300)) + [own] + rng.sample(range(65536), 200)):
            w = core.Writer()
            tl.append('ext_tag_%s %s' % (name, core.hexs(t.to_bytes(2, 'big') + b'\0\0')))
            tm.append((name, own, t))
    BODY = {'sni': bytes.fromhex('0006000003616263'), 'max_fragment_length': b'\x01', 'status_request': bytes.fromhex('0100000000'),
            'elliptic_curves': bytes.fromhex('0004001d0017'), 'ec_point_formats': bytes.fromhex('0100'), 'signature_algorithms': bytes.fromhex('000404030804'),
            'heartbeat': b'\x01', 'encrypt_then_mac': b'', 'extended_master_secret': b'', 'session_ticket': b'\x07\x08', 'key_share': bytes.fromhex('0002001d'),
            'pre_shared_key': b'\x00\x01', 'early_data': bytes.fromhex('00000e10'), 'supported_versions': bytes.fromhex('020304'), 'cookie': b'\x09\x09',
            'psk_key_exchange_modes': bytes.fromhex('0101')}
    for name, own in TAGS.items():
        body = BODY[name]
        for t in (range(65536) if ctx.thorough else sorted(set(range(0, 320)) | set(common.interesting_values(65536)) | {own})):
            tl.append('ext_tag_%s %s' % (name, core.hexs(t.to_bytes(2, 'big') + len(body).to_bytes(2, 'big') + body)))
            tm.append((name, own, t))
    impl, model = ctx.run_both(tl)
    for (name, own, t), ln, a, b in zip(tm, tl, impl, model):
        ra, _ = core.split_side(a)
        ctx.count('tag_type_sweep', core.res_class(ra))
        if t != own and ra.startswith('ok '):
            ctx.violation('%s accepts type %d (own type %d): "%s"' % (ln, t, own, ra[:100]), {'lines': [ln], 'impl': ra}, key='tag:%s:%d' % (name, t))
        if t == own and ra == 'error Tag':
            ctx.violation('%s rejects its own IANA type %d' % (ln, own), {'lines': [ln], 'impl': ra}, key='tagown:%s' % name)
        if common.proj_value(ra) != common.proj_value(b):
            ctx.violation('correspondence broken on %s: "%s" vs model "%s"' % (ln, ra[:100], b[:100]), {'lines': [ln]}, found_input=False, key='corr:tag:' + name)
    # 3. well-formed contents of every variant through the three dispatchers, lists, type tags, tag-specific and content parsers
    n = 400 if ctx.thorough else 40
    fams = [f for f in enc.FAMILIES if f.startswith('ext') ]
    exact, mutants = common.gen_cases(ctx, fams, n, corrupt_limit=5)
    common.run_exact(ctx, exact)
    common.run_exact(ctx, common.long_tails(ctx, exact))
    common.run_differential(ctx, mutants, common.proj_value)
    # 4. a length field exceeding the enclosing block never yields a value; the list parser stops before it
    ov, prefixes = [], {}
    for _ in range(3000 if ctx.thorough else 400):
        w = core.Writer()
        d = rng.choice(('exts', 'exts_client', 'exts_server'))
        vals = [enc.gen_extension(rng, w, None, d.replace('exts', 'ext'), 40) for _ in range(rng.choice((0, 1, 2)))]
        good = w.bytes()
        t = rng.randrange(65536)
        data = rng.randbytes(rng.choice((0, 3, 10)))
        bad = t.to_bytes(2, 'big') + (len(data) + rng.choice((1, 2, 500))).to_bytes(2, 'big') + data
        c = enc.Case('list_with_overrun', (d,), good + bad, [], None)
        prefixes[c.line] = [core.lst(vals[:k]) for k in range(len(vals) + 1)]
        ov.append(c)
        ov.append(enc.Case('overrun', (d.replace('exts', 'ext'),), bad, [], None))

    def overrun_class(c, r):
        if c.fam == 'overrun':
            return 'declared length exceeds the block: must not yield a value' if r.startswith('ok ') else None
        if r.startswith('ok '):
            v = r.split(' ', 2)[2]
            if v not in prefixes[c.line]:
                return 'the list parser returned something that is not a prefix of the well-formed extensions before the overrunning one'
        return None
    common.run_differential(ctx, ov, common.proj_value, classify=overrun_class)
    def cg_class(c, r):
        # "a length field exceeding the enclosing block never yields a value", read off a corpus line: an SNI extension whose
        # ServerNameList length is larger than what is left of the extension data
        t = c.line.split(' ')
        if t[0] in ('ext', 'ext_client', 'ext_server') and len(t) == 2 and t[1] != '-' and r.startswith('ok '):
            b = bytes.fromhex(t[1])
            if len(b) >= 6 and b[0:2] == b'\x00\x00':
                el = int.from_bytes(b[2:4], 'big')
                if 2 <= el <= len(b) - 4 and int.from_bytes(b[4:6], 'big') > el - 2:
                    return 'the ServerNameList length exceeds the extension data: no value may come out'
        return None
    common.run_cg(ctx, ('ext',), common.proj_value, classify=cg_class)
    common.lean_failure_violation(ctx, ok)
    return ctx.finish(LEVEL,
        rule='exhaustive over types: 65536 extension types x 3 dispatchers (x probe contents) judged by the type->variant specification (known types per dispatcher, 16 RFC 8701 values, Unknown otherwise, byte-for-byte data), tag-specific parsers over types (own type only), every variant with well-formed contents from the independent encoder through all dispatchers / list parsers / ext_type_of / tag and content parsers (exact), every length field corrupted (differential), overrun families; distinct = (dispatcher, specified variant, probe size, outcome) resp. (family, outcome shape)',
        checker_cmd='cd /verif/lean && lake build TlsModel.Props.C05 TlsModel.Gen.ExtDispatchCheck',
        assumptions=['probe contents for the type sweep: empty, one u16 group list, one byte (+2 in thorough)'],
        extra={'exhaustive': True})


def replay(ctx, payload):
    return common.generic_replay(ctx, payload)
