"""C10 — DTLS records and handshake fragments decode per RFC 6347."""
import core, framework, enc
from props import common

LEVEL = 'proof'
MODULES = ['TlsModel.Props.C10']


def sweep(ctx):
    rng = ctx.rng
    out = []
    lens = [0, 1, 2, 13, 255, 256, 767, 768, 1023, 1024, 4096, 16383, 16384, 16639, 16640, 16641, 65535]
    for t in range(256):
        for ln in (lens if ctx.thorough or t in (20, 21, 22, 23, 24) else rng.sample(lens, 4)):
            v = rng.choice((0xfeff, 0xfefd, rng.randrange(65536)))
            epoch, seq = rng.choice((0, 1, 65535, rng.randrange(65536))), rng.choice((0, 1, 2 ** 48 - 1, rng.randrange(2 ** 48)))
            body = rng.randbytes(min(ln, 16645))
            buf = bytes([t]) + v.to_bytes(2, 'big') + epoch.to_bytes(2, 'big') + seq.to_bytes(6, 'big') + ln.to_bytes(2, 'big') + body + rng.randbytes(rng.choice((0, 0, 3)))
            avail = len(buf)
            cuts = set(range(0, min(avail, 16) + 1)) | {avail, avail - 1} | {min(avail, 13 + ln + d) for d in (-2, -1, 0, 1) if 13 + ln + d >= 0}
            if ln <= 40:
                cuts |= set(range(avail + 1))
            for p in sorted(c for c in cuts if 0 <= c <= avail):
                out.append((t, v, epoch, seq, ln, p, buf[:p]))
    # long datagrams: a complete record followed by a tail that carries the input length across 2^16 / 2^17
    for ln in (1, 2, 300, 16640):
        for r in (65535, 65536, 65536 + ln - 1, 65536 + ln, 131072 + ln - 1):
            t = rng.choice((20, 21))
            body = b'\x01' * ln if t == 20 else b'\x01\x00' * (ln // 2)
            if len(body) != ln:
                continue
            v, epoch, seq = rng.choice((0xfeff, 0xfefd)), rng.randrange(65536), rng.randrange(2 ** 48)
            buf = bytes([t]) + v.to_bytes(2, 'big') + epoch.to_bytes(2, 'big') + seq.to_bytes(6, 'big') + ln.to_bytes(2, 'big') + body + rng.randbytes(r - ln)
            out.append((t, v, epoch, seq, ln, len(buf), buf))
    return out


def run(ctx):
    core.build_harness()
    ok = common.lean_step(ctx, MODULES)
    cases = sweep(ctx)
    lines = ['dtls_record ' + core.hexs(c[6]) for c in cases] + ['dtls_header ' + core.hexs(c[6]) for c in cases if c[5] >= 13 and c[5] <= 20]
    impl, model = ctx.run_both(lines)
    nv = 0
    for c, ln_, a, b in zip(cases, lines, impl, model):
        t, v, epoch, seq, ln, p, buf = c
        ra, side = core.split_side(a)
        ctx.count('framing_sweep', core.res_class(ra))
        ctx.distinct.add((t if t in (20, 21, 22) else 'other', min(ln, 16641), min(p, 14) if p < 13 + ln else 'full', core.res_class(ra)))
        bad = None
        if p < 13:
            if not ra.startswith('incomplete'):
                bad = 'input shorter than the 13-byte header must answer Incomplete'
        elif ln > 16640:
            if ra != 'error TooLarge':
                bad = 'declared length above 2^14+256 must answer TooLarge'
        elif p < 13 + ln:
            if ra != 'incomplete %d' % (13 + ln - p):
                bad = 'strict prefix must answer Incomplete(%d)' % (13 + ln - p)
        else:
            if ra.startswith('incomplete'):
                bad = 'a complete datagram must not answer Incomplete'
            elif t in (20, 21) and ln > 0 and len(buf) > 60000 and not ra.startswith('ok '):
                bad = 'a well-formed record followed by further bytes must be decoded'
            elif ra.startswith('ok '):
                if int(ra.split(' ')[1]) != p - 13 - ln or not ra.split(' ', 2)[2].startswith('(DPlain (DHdr %d %d %d %d %d) ' % (t, v, epoch, seq, ln)):
                    bad = 'must consume exactly 13+%d bytes and return the header verbatim' % ln
        if bad:
            nv += 1
            ctx.cov['impl_vs_oracle_failures'] += 1
            if nv <= 5:
                ctx.violation('%s: %s; implementation answers "%s"' % (ln_[:80], bad, ra[:200]), {'lines': [ln_], 'impl': ra, 'model': b}, key='frame:%d:%d:%d' % (t, ln, p))
        if common.proj_framing_line(ra, ln_) != common.proj_framing_line(b, ln_):
            ctx.cov['model_vs_impl_disagreements'] += 1
            if not bad:
                ctx.violation('correspondence broken on %s: implementation "%s", model "%s"' % (ln_[:80], ra[:160], b[:160]),
                              {'lines': [ln_], 'impl': ra, 'model': b}, found_input=False, key='corr:' + ln_[:50])
    hdr_cases = [c for c in cases if 13 <= c[5] <= 20]
    for c, a in zip(hdr_cases, impl[len(cases):]):
        t, v, epoch, seq, ln, p, buf = c
        ra, _ = core.split_side(a)
        ctx.count('header_decode', core.res_class(ra))
        exp = 'ok %d (DHdr %d %d %d %d %d)' % (p - 13, t, v, epoch, seq, ln)
        if ra != exp:
            ctx.violation('dtls_header %s: implementation "%s", demanded "%s"' % (core.hexs(buf[:13]), ra, exp), {'lines': ['dtls_header ' + core.hexs(buf)], 'expect': exp}, key='hdr')
    ctx.sample({'line': lines[len(lines) // 3][:200], 'impl': core.split_side(impl[len(lines) // 3])[0][:200]})
    # the fragment rule over every handshake type x boundary triples: offset > 0 or fragment_length < length  =>  an opaque
    # Fragment of exactly fragment_length bytes, whatever the type (also the body-less ones) and whatever the total length
    fr = []
    for t in range(256):
        for ln, off, fl in ((0, 1, 0), (0, 0xffffff, 0), (1, 0, 0), (5, 0, 4), (5, 1, 4), (5, 5, 0), (5, 1, 5), (300, 299, 1), (0xffffff, 0, 2), (0xffffff, 0xfffffe, 1), (70000, 3, 20000)):
            if t % 3 and (ln, off, fl) == (70000, 3, 20000):
                continue
            seq = (t * 251 + ln) % 65536
            buf = bytes([t]) + ln.to_bytes(3, 'big') + seq.to_bytes(2, 'big') + off.to_bytes(3, 'big') + fl.to_bytes(3, 'big') + bytes((7 * k + t) % 256 for k in range(min(fl, 64))) * 1
            buf = buf[:12] + (bytes(fl) if fl > 64 else buf[12:])
            fr.append(enc.Case('fragment_rule', ('dtls_hs',), buf + b'\x55', [], None,
                               expect='ok 1 (M 1 (Hs %d %d %d %d %d (Fragment %s)))' % (t, ln, seq, off, fl, core.span(12, fl))))
    common.run_exact(ctx, fr)
    # as many minimal records as fit a 64 KiB datagram: decoded record by record, all of them
    from props import c16
    common.run_exact(ctx, [enc.Case('many_minimal_records', (op,), buf, [], None, expect=exp) for op, buf, exp, _, _ in (c16.many_minimal(ctx.rng, True, k) for k in (2622, 4681))])
    n = 1500 if ctx.thorough else 150
    fams = ['dtls_record', 'dtls_records', 'dtls_hs', 'dtls_misc'] + ['dtls_hs_' + k for k in enc.DTLS_HS_KINDS]
    fams = [f for f in fams if f in enc.FAMILIES]
    exact, mutants = common.gen_cases(ctx, fams, n)
    common.run_exact(ctx, exact)
    common.run_exact(ctx, common.long_tails(ctx, exact))
    common.run_differential(ctx, mutants, common.proj_framing_line)
    common.run_cg(ctx, ('dtls_',), common.proj_framing_line)
    common.lean_failure_violation(ctx, ok)
    return ctx.finish(LEVEL,
        rule='framing sweep over 256 content types x boundary lengths x prefixes (all epochs/sequence numbers sampled incl. 0, 1, max) judged by the framing oracle; header decode exact; well-formed DTLS records / datagrams / handshake messages of every supported body incl. fragments with (offset, fragment length, length) boundary triples (exact values), suffixes, corruptions (differential); distinct = (type class, length class, prefix class, outcome) resp. (family, outcome shape)',
        checker_cmd='cd /verif/lean && lake build TlsModel.Props.C10',
        assumptions=[])


def replay(ctx, payload):
    return common.generic_replay(ctx, payload)
