"""C02 — TLS record framing: exact header decode, length cap, streaming contract."""
import core, framework, enc
from props import common

LEVEL = 'proof'
MODULES = ['TlsModel.Props.C02']
OPS = ('tls_raw', 'tls_encrypted', 'tls_plaintext')
VERS = (0x0000, 0x0002, 0x0200, 0x0300, 0x0301, 0x0302, 0x0303, 0x0304, 0x7f12, 0x7f1c, 0xfeff, 0xfefd, 0xfefc, 0xffff)


def framing_oracle(op, t, v, ln, payload_ok_value, p, total):
    """what the property demands for the first p bytes of header(t,v,ln)+payload(+trailing) (total bytes)"""
    if p < 5:
        return ('class', 'incomplete')
    if ln > 16640:
        return ('exact', 'error TooLarge')
    if p < 5 + ln:
        return ('exact', 'incomplete %d' % (5 + ln - p))
    return ('ok', p - 5 - ln)


def sweep(ctx):
    """all 256 content types x boundary lengths x prefixes around every boundary, for the three parsers"""
    rng = ctx.rng
    cases = []
    lens = [0, 1, 2, 3, 255, 256, 767, 768, 1023, 1024, 4095, 4096, 16383, 16384, 16639, 16640, 16641, 32768, 65535]
    types = list(range(256))
    for t in types:
        for ln in (lens if ctx.thorough or t in (0, 20, 21, 22, 23, 24, 25, 255) else rng.sample(lens, 5)):
            v = rng.choice(VERS + (rng.randrange(65536), rng.randrange(65536)))
            body = rng.randbytes(min(ln, 16645))
            trail = rng.randbytes(rng.choice((0, 0, 1, 7)))
            buf = bytes([t]) + v.to_bytes(2, 'big') + ln.to_bytes(2, 'big') + body + trail
            avail = len(buf)
            cuts = {0, 1, 2, 3, 4, 5, 6, avail, avail - 1} | {min(avail, 5 + ln + d) for d in (-2, -1, 0, 1) if 5 + ln + d >= 0}
            if ln <= 64 or ctx.thorough and ln <= 300:
                cuts |= set(range(avail + 1))
            else:
                cuts |= {rng.randrange(avail + 1) for _ in range(3)}
            for p in sorted(c for c in cuts if 0 <= c <= avail):
                for op in (('tls_raw', 'tls_encrypted') if rng.random() < .7 else OPS):
                    cases.append((op, t, v, ln, p, buf[:p]))
    # the cap does not depend on version or content type: every registered version x lengths around the cap (and around
    # other plausible limits: 2^14, 2^14+1024, 2^14+2048, 2^15) x a few types, header only / header + 1 byte / complete
    for v in VERS:
        for ln in (16384, 16385, 16639, 16640, 16641, 17408, 17409, 18432, 18433, 32767, 32768, 65535):
            for t in (20, 21, 22, 23, 24, 0, 255):
                hdr = bytes([t]) + v.to_bytes(2, 'big') + ln.to_bytes(2, 'big')
                for op in OPS:
                    cases.append((op, t, v, ln, 5, hdr))
                    cases.append((op, t, v, ln, 6, hdr + b'\x01'))
                if ln <= 16640 and t in (23, 255) and (ctx.thorough or v in (0x0300, 0x0302, 0x0304, 0xfefd)):
                    body = bytes(ln)
                    for op in (('tls_raw', 'tls_encrypted') if t == 255 else OPS):
                        cases.append((op, t, v, ln, 5 + ln, hdr + body))
                        cases.append((op, t, v, ln, 5 + ln + 2, hdr + body + b'\x16\x03'))
    # long inputs: a complete record followed by so many bytes that the input length crosses 2^16 / 2^17 (a length kept in
    # 16 bits would wrap: "bytes available" computed modulo 65536 turns a complete record into an incomplete one)
    for ln in (1, 2, 300, 4096, 16640):
        for r in (65535, 65536, 65536 + ln - 1, 65536 + ln, 65536 + ln + 1, 131072 + ln - 1, 131072 + ln // 2):
            if r < ln:
                continue
            t = rng.choice((20, 21, 22, 23, 24, 0x80, 255))
            v = rng.choice(VERS)
            body = (b'\x01' * ln if t == 20 else b'\x01\x00' * (ln // 2) + b'\x01' * (ln % 2) if t == 21 else bytes(ln))
            buf = bytes([t]) + v.to_bytes(2, 'big') + ln.to_bytes(2, 'big') + body + rng.randbytes(r - ln)
            for op in (('tls_raw', 'tls_encrypted') if t not in (20, 23) or (t == 21 and ln % 2) else OPS):
                cases.append((op, t, v, ln, len(buf), buf))
    # a handshake record whose only message declares 2^16 / 2^17 more bytes than the record holds, with that many bytes
    # following the record: the record parsers consume 5 + length and nothing else, whatever the payload says
    for top in (1, 2):
        for blen in (0, 9):
            for ht in (20, 16):
                msg = bytes([ht]) + (top * 65536 + blen).to_bytes(3, 'big') + rng.randbytes(blen)
                buf = bytes([22, 3, 3]) + len(msg).to_bytes(2, 'big') + msg + rng.randbytes(top * 65536 + 7)
                for op in OPS:
                    cases.append((op, 22, 0x0303, len(msg), len(buf), buf))
    return cases


def judge(ctx, nv, fam, op, buf, ln_, a, b):
    """the property's framing oracle applied to one input of a record parser (any bytes: the oracle reads the header itself)"""
    p = len(buf)
    t = buf[0] if p >= 1 else -1
    v = int.from_bytes(buf[1:3], 'big') if p >= 3 else -1
    ln = int.from_bytes(buf[3:5], 'big') if p >= 5 else 0
    ra, side = core.split_side(a)
    ctx.count(fam + '/' + op, core.res_class(ra))
    ctx.distinct.add((op, t if t in (20, 21, 22, 23, 24) else 'other', min(ln, 16641), min(p, 6) if p < 5 + ln else 'full', core.res_class(ra)))
    kind, want = framing_oracle(op, t, v, ln, None, p, len(buf))
    bad = None
    if kind == 'class':
        if not ra.startswith('incomplete'):
            bad = 'input shorter than the header must answer Incomplete'
    elif kind == 'exact':
        if ra != want:
            bad = 'must answer "%s"' % want
    else:  # complete record present
        if op in ('tls_raw', 'tls_encrypted'):
            name = 'Raw' if op == 'tls_raw' else 'Enc'
            exp = 'ok %d (%s (Hdr %d %d %d) %s)' % (want, name, t, v, ln, core.span(5, ln))
            if ra != exp:
                bad = 'must answer "%s"' % exp
        else:
            if ra.startswith('incomplete'):
                bad = 'a complete record must not answer Incomplete'
            elif ra.startswith('ok '):
                if int(ra.split(' ')[1]) != want or not ra.split(' ', 2)[2].startswith('(Plain (Hdr %d %d %d) ' % (t, v, ln)):
                    bad = 'must consume exactly 5+%d bytes and return the header verbatim' % ln
            if side.get('remptr') == 'bad':
                bad = 'remainder does not start right after the record'
    if bad:
        nv[0] += 1
        ctx.cov['impl_vs_oracle_failures'] += 1
        if nv[0] <= 5:
            ctx.violation('%s on %s: %s; implementation answers "%s"' % (op, ln_[:80], bad, ra[:200]),
                          {'lines': [ln_], 'impl': ra, 'model': b, 'demand': bad}, key='%s:%d:%d:%d' % (op, t, ln, p))
    if common.proj_framing_line(ra, ln_) != common.proj_framing_line(b, ln_):
        ctx.cov['model_vs_impl_disagreements'] += 1
        if not bad:
            ctx.violation('correspondence broken on %s: implementation "%s", model "%s"' % (ln_[:80], ra[:200], b[:200]),
                          {'lines': [ln_], 'impl': ra, 'model': b}, found_input=False, key='corr:' + ln_[:60])


def run(ctx):
    core.build_harness()
    ok = common.lean_step(ctx, MODULES)
    # 1. framing sweep with the property's own oracle
    cases = sweep(ctx)
    lines = ['%s %s' % (c[0], core.hexs(c[5])) for c in cases]
    impl, model = ctx.run_both(lines)
    nv = [0]
    for c, ln_, a, b in zip(cases, lines, impl, model):
        op, t, v, ln, p, buf = c
        judge(ctx, nv, 'framing_sweep', op, buf, ln_, a, b)
    ctx.sample({'line': lines[len(lines) // 2][:200], 'impl': core.split_side(impl[len(lines) // 2])[0][:200], 'model': model[len(lines) // 2][:200]})
    # 1b. the coverage-guided corpus of the record parsers, judged by the same oracle
    cgl = [l for l in common.cg_lines(ctx, ('tls_raw ', 'tls_encrypted ', 'tls_plaintext ', 'tls_parser ')) if l.split(' ')[0] in OPS]
    if cgl:
        ci, cm = ctx.run_both(cgl)
        for ln_, a, b in zip(cgl, ci, cm):
            h = ln_.split(' ')[1]
            judge(ctx, nv, 'cg', ln_.split(' ')[0], b'' if h == '-' else bytes.fromhex(h), ln_, a, b)
    common.run_cg(ctx, ('tls_header ', 'tls_parser '), common.proj_framing_line)
    # 2. well-formed records of every content type with exact value expectations, suffixes, corruptions
    n = 1500 if ctx.thorough else 150
    exact, mutants = common.gen_cases(ctx, ['tls_raw', 'tls_encrypted', 'tls_plaintext', 'tls_parser', 'tls_header', 'too_large',
                                            'tls_plaintext_20', 'tls_plaintext_21', 'tls_plaintext_22', 'tls_plaintext_23', 'tls_plaintext_24'], n)
    common.run_exact(ctx, exact)
    # every strict prefix (>= 5 bytes) of a valid plaintext record: Incomplete with the exact count
    pref = []
    for c in exact:
        if c.op[0] in OPS and c.value is not None and c.rem == 0 and len(c.buf) >= 5 and len(pref) < (20000 if ctx.thorough else 2500):
            ln = int.from_bytes(c.buf[3:5], 'big')
            if len(c.buf) != 5 + ln:
                continue
            for p in sorted({5, 6, len(c.buf) - 1, len(c.buf) // 2, ctx.rng.randrange(5, len(c.buf))} if len(c.buf) > 5 else []):
                if 5 <= p < len(c.buf):
                    pc = enc.Case(c.fam + '/prefix', c.op, c.buf[:p], [], None, expect='incomplete %d' % (len(c.buf) - p))
                    pref.append(pc)
    common.run_exact(ctx, pref)
    common.run_differential(ctx, mutants, common.proj_framing_line)
    common.lean_failure_violation(ctx, ok)
    return ctx.finish(LEVEL,
        rule='sweep: 256 content types x boundary lengths {0,1,2,3,255,256,767,768,1023,1024,4095,4096,16383,16384,16639,16640,16641,32768,65535} x versions x prefixes around every boundary (all prefixes for short records) through the three record parsers, plus every registered version x lengths around the cap and other plausible limits x content types (the cap depends on neither), and complete records followed by tails that carry the input length across 2^16 and 2^17, judged by the framing oracle of the property; plus well-formed records of every content type (exact values), strict prefixes (exact Needed), suffixes, length-field corruptions (differential under the framing projection); the coverage-guided corpus of the record parsers judged by the same framing oracle; distinct = (op, type class, length class, prefix class, outcome) resp. (family, outcome shape)',
        checker_cmd='cd /verif/lean && lake build TlsModel.Props.C02',
        assumptions=['inputs with fewer than 5 bytes: only "Incomplete" is demanded (the property fixes the count once the header is available)'])


def replay(ctx, payload):
    return common.generic_replay(ctx, payload)
