"""C16 — multi-record parsers equal repeated single-record parsing."""
import core, framework, enc
from props import common

LEVEL = 'proof'
MODULES = ['TlsModel.Props.C16', 'TlsModel.Props.C10']


def shift(value, delta):
    """shift every @off+len span of a canonical value by delta"""
    import re
    return re.sub(r'(?<![B\w])@(\d+)\+(\d+)', lambda m: '@%d+%s' % (int(m.group(1)) + delta, m.group(2)), value)


def build(rng, dtls):
    """n valid records followed by a tail; expected = the n records, remainder = tail"""
    n = rng.choice(enc.MANY_COUNTS) if rng.random() < .06 else rng.choice((0, 1, 1, 2, 3, 5))
    w = core.Writer()
    vals = []
    mode = rng.random()
    if mode < .08:
        # many records of the smallest possible size (a bound on the number of records derived from the buffer length would
        # have to assume a minimum record size)
        n = rng.choice((5, 6, 7, 8, 9, 10, 12) + enc.MANY_COUNTS)
    big_at = rng.randrange(n) if n and .08 <= mode < .13 else None      # one record of limit size, at any position
    for k in range(n):
        if mode < .08 or k == big_at:
            ver = rng.choice((0x0303, 0xfefd, rng.randrange(65536)))
            ct = rng.choice((20, 21) if dtls else (23, 23, 20, 21)) if mode < .08 else 20
            L = (0 if ct == 23 else 1 if ct == 20 else 2) if mode < .08 else rng.choice((16383, 16384, 16385, 16639, 16640))
            body = b'\x01' * L if ct == 20 else (bytes([1, rng.randrange(256)]) if ct == 21 else b'')
            off = w.pos()
            ep, sq = rng.choice((0, 1, 1, 2, 3, 65535, rng.randrange(65536))), rng.randrange(2 ** 48)
            w.raw(bytes([ct]) + ver.to_bytes(2, 'big') + ((ep.to_bytes(2, 'big') + sq.to_bytes(6, 'big')) if dtls else b'') + L.to_bytes(2, 'big') + body)
            msgs = ['CCS'] * L if ct == 20 else ['(Alert 1 %d)' % body[1]] if ct == 21 else ['(App +0)']
            if dtls:
                vals.append('(DPlain (DHdr %d %d %d %d %d) %s)' % (ct, ver, ep, sq, L, core.lst('(M 0 %s)' % m for m in msgs)))
            else:
                vals.append('(Plain (Hdr %d %d %d) %s)' % (ct, ver, L, core.lst(msgs)))
            continue
        vals.append(enc.gen_dtls_record(rng, w, big=120 if n < 8 else 4) if dtls else enc.gen_plaintext_record(rng, w, big=120 if n < 8 else 4))
    kind = rng.choice(('none', 'truncated', 'oversized', 'garbage', 'shortheader', 'badcontent', 'cutmessage', 'emptyrecord'))
    hdrlen = 13 if dtls else 5
    tail = b''
    if kind == 'truncated':
        w2 = core.Writer()
        (enc.gen_dtls_record if dtls else enc.gen_plaintext_record)(rng, w2, big=120)
        b = w2.bytes()
        tail = b[:rng.randrange(hdrlen, len(b))] if len(b) > hdrlen else b[:rng.randrange(0, len(b))]
    elif kind == 'oversized':
        tail = bytes([22, 3, 3]) + (b'\0' * 8 if dtls else b'') + (16641 + rng.randrange(100)).to_bytes(2, 'big') + rng.randbytes(rng.choice((0, 50)))
    elif kind == 'garbage':
        tail = bytes([rng.choice((0, 25, 99, 255))]) + rng.randbytes(hdrlen + 3)
        tail = tail[:hdrlen - 2] + (4).to_bytes(2, 'big') + tail[hdrlen:hdrlen + 4]     # complete record of unknown type
    elif kind == 'shortheader':
        tail = rng.randbytes(rng.randrange(1, hdrlen))
    elif kind == 'cutmessage':
        # a complete record whose (first) message is cut short by the record length
        ct, body = rng.choice(((22, b'\x0e\x00\x00\x05ab'), (22, b'\x01\x00'), (21, b'\x01'), (24, b'\x01\x00\x09ab')))
        tail = bytes([ct, 3, 3]) + (b'\0' * 8 if dtls else b'') + len(body).to_bytes(2, 'big') + body + rng.randbytes(rng.choice((0, 3)))
    elif kind == 'emptyrecord':
        tail = bytes([rng.choice((20, 21, 22, 24)), 3, 3]) + (b'\0' * 8 if dtls else b'') + b'\0\0' + rng.randbytes(rng.choice((0, 2)))
    elif kind == 'badcontent':
        tail = bytes([20, 3, 3]) + (b'\0' * 8 if dtls else b'') + (1).to_bytes(2, 'big') + b'\x02'           # CCS record with a wrong byte
    buf = w.bytes() + tail
    op = 'dtls_records' if dtls else 'tls_many'
    if n == 0:
        expect = None            # must fail (class): first record does not parse
    else:
        expect = 'ok %d %s' % (len(tail), core.lst(vals))
    return op, buf, expect, kind, n


def many_minimal(rng, dtls, n, empty_app=False):
    """n records of the smallest sizes in one buffer (as many as fit a 64 KiB datagram and more): all must come back"""
    w = core.Writer()
    vals = []
    for k in range(n):
        ct = 23 if empty_app else (20 if (k * 7 + n) % 3 else 21)
        body = b'' if ct == 23 else b'\x01' if ct == 20 else bytes([1, k % 256])
        ver, ep, sq = 0xfefd if dtls else 0x0303, k % 4, k
        w.raw(bytes([ct]) + ver.to_bytes(2, 'big') + ((ep.to_bytes(2, 'big') + sq.to_bytes(6, 'big')) if dtls else b'') + len(body).to_bytes(2, 'big') + body)
        m = '(App +0)' if ct == 23 else 'CCS' if ct == 20 else '(Alert 1 %d)' % (k % 256)
        vals.append('(DPlain (DHdr %d %d %d %d %d) [(M 0 %s)])' % (ct, ver, ep, sq, len(body), m) if dtls else '(Plain (Hdr %d %d %d) [%s])' % (ct, ver, len(body), m))
    return ('dtls_records' if dtls else 'tls_many'), w.bytes(), 'ok 0 ' + core.lst(vals), 'none', n


def run(ctx):
    core.build_harness()
    ok = common.lean_step(ctx, MODULES, audit=['TlsModel.Props.C16'])
    rng = ctx.rng
    n = 12000 if ctx.thorough else 1500
    cases = [build(rng, dtls) for dtls in (False, True) for _ in range(n)]
    cases += [many_minimal(rng, dtls, k) for dtls in (False, True) for k in ((1000, 2621, 2622, 4681) if not ctx.thorough else (1000, 2048, 2621, 2622, 4096, 4681, 8192))]
    # empty application-data records are the smallest TLS records (5 bytes): any count of them is a valid buffer
    cases += [many_minimal(rng, False, k, empty_app=True) for k in (2, 6, 7, 8, 12, 13, 64, 100, 1000, 2622)]
    lines = ['%s %s' % (c[0], core.hexs(c[1])) for c in cases]
    single = [('dtls_record' if c[0] == 'dtls_records' else 'tls_plaintext') + ' ' + core.hexs(c[1]) for c in cases]
    alias = ['tls_parser ' + core.hexs(c[1]) for c in cases if c[0] == 'tls_many']
    impl, model = ctx.run_both(lines + single + alias)
    N = len(lines)
    nv = 0
    for k, (c, ln) in enumerate(zip(cases, lines)):
        op, buf, expect, kind, nrec = c
        ra, _ = core.split_side(impl[k])
        rs, _ = core.split_side(impl[N + k])
        fam = '%s/%s' % (op, kind)
        ctx.count(fam, core.res_class(ra))
        ctx.distinct.add((op, kind, min(nrec, 3), core.res_class(ra)))
        bad = None
        if expect is not None and ra != expect:
            bad = 'must return exactly the %d leading records and leave %s as remainder: "%s"' % (nrec, kind, expect[:160])
        if expect is None and ra.startswith('ok '):
            bad = 'no leading record parses, so the multi-record parser must fail'
        # fails iff the very first record does not parse (single-record parser run on the same buffer)
        if ra.startswith('ok ') != rs.startswith('ok '):
            bad = 'multi-record parser %s but the single-record parser on the same buffer answers "%s"' % ('succeeds' if ra.startswith('ok ') else 'fails', rs[:100])
        if bad:
            nv += 1
            ctx.cov['impl_vs_oracle_failures'] += 1
            if nv <= 5:
                ctx.violation('%s: %s; implementation: "%s"' % (ln[:80], bad, ra[:200]), {'lines': [ln], 'expect': expect or 'not ok', 'impl': ra}, key='%s:%s' % (fam, nrec))
        if ra != model[k]:
            ctx.cov['model_vs_impl_disagreements'] += 1
            if not bad and common.proj_value(ra) != common.proj_value(model[k]):
                ctx.violation('correspondence broken on %s: implementation "%s", model "%s"' % (ln[:80], ra[:160], model[k][:160]),
                              {'lines': [ln], 'impl': ra, 'model': model[k]}, found_input=False, key='corr:' + fam)
    # deprecated alias identical to parse_tls_plaintext on every input
    tls_idx = [k for k, c in enumerate(cases) if c[0] == 'tls_many']
    for j, k in enumerate(tls_idx):
        ra, _ = core.split_side(impl[2 * N + j])
        rs, _ = core.split_side(impl[N + k])
        ctx.count('tls_parser_alias', core.res_class(ra))
        if ra != rs:
            ctx.violation('tls_parser differs from parse_tls_plaintext on %s: "%s" vs "%s"' % (alias[j][:80], ra[:120], rs[:120]),
                          {'lines': [alias[j], single[k]]}, key='alias')
    ctx.sample({'line': lines[0][:300], 'expect': cases[0][2], 'impl': core.split_side(impl[0])[0][:300], 'model': model[0][:300]})
    ctx.sample({'line': lines[N - 1][:300], 'expect': cases[N - 1][2], 'impl': core.split_side(impl[N - 1])[0][:300]})
    # coverage-guided corpus: the multi-record parsers against the model, and the alias against parse_tls_plaintext on every record input
    common.run_cg(ctx, ('tls_many ', 'dtls_records '), common.proj_value)
    hx = sorted({l.split(' ')[1] for l in common.cg_lines(ctx, ('tls_plaintext ', 'tls_parser ', 'tls_many ', 'tls_raw '))})
    ai, _ = ctx.run_both(['tls_parser ' + h for h in hx] + ['tls_plaintext ' + h for h in hx])
    for j, h in enumerate(hx):
        ra, rs = core.split_side(ai[j])[0], core.split_side(ai[len(hx) + j])[0]
        ctx.count('cg/tls_parser_alias', core.res_class(ra))
        if ra != rs:
            ctx.violation('tls_parser differs from parse_tls_plaintext on %s: "%s" vs "%s"' % (h[:80], ra[:120], rs[:120]), {'lines': ['tls_parser ' + h, 'tls_plaintext ' + h]}, key='alias')
    exact, mutants = common.gen_cases(ctx, ['tls_many', 'dtls_records', 'tls_parser'], 800 if ctx.thorough else 100)
    common.run_exact(ctx, exact)
    common.run_differential(ctx, mutants, common.proj_value)
    common.lean_failure_violation(ctx, ok)
    return ctx.finish(LEVEL,
        rule='buffers = 0..5 (sometimes 15..400) valid TLS (resp. DTLS) records (sometimes all of the smallest possible size, sometimes one of limit size 16383..16640 at any position) followed by nothing / a truncated record / an oversized header / a complete record of unknown type / a short header / a record with bad content / a complete record whose message is cut short / an empty record; oracle: exactly the leading records, remainder = the tail, success iff the single-record parser succeeds on the same buffer; tls_parser vs parse_tls_plaintext on every buffer; distinct = (op, tail kind, record count class, outcome)',
        checker_cmd='cd /verif/lean && lake build TlsModel.Props.C16 TlsModel.Props.C10',
        assumptions=[])


def replay(ctx, payload):
    return common.generic_replay(ctx, payload)
