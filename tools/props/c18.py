"""C18 — feature matrix: no_std, std and serialize builds agree; no unsafe code; Send + Sync."""
import os, re, glob, random
import core, framework, enc
from props import common, c07

LEVEL = 'translation_validation'
CONFIGS = ('default', 'nostd', 'serialize')


def strip_rust(src):
    """remove comments and string/char literals (rough, enough to look for the `unsafe` token)"""
    src = re.sub(r'/\*.*?\*/', ' ', src, flags=re.S)
    src = re.sub(r'//[^\n]*', ' ', src)
    src = re.sub(r'"(?:\\.|[^"\\])*"', '""', src)
    return src


def run(ctx):
    rng = ctx.rng
    # 1. the three configurations build (the harness is built against each)
    exes = {}
    for c in CONFIGS:
        try:
            exes[c] = core.build_harness(c)
            ctx.count('build', 'ok:' + c)
        except core.BuildError as e:
            ctx.count('build', 'FAILED:' + c)
            ctx.violation('configuration "%s" does not build: %s' % (c, str(e)[-400:].replace('\n', ' | ')), {'configuration': c, 'detail': str(e)[-3000:]}, key='build:' + c)
    # 2. serialize without std is refused at compile time
    r = core.sh(['cargo', 'check', '--offline', '--manifest-path', core.REPO + '/Cargo.toml', '--no-default-features', '--features', 'serialize',
                 '--target-dir', core.VERIF + '/.build/cargo-refuse'], check=False)
    refused = r.returncode != 0 and 'cannot be enabled when using `no_std`' in (r.stderr + r.stdout)
    ctx.count('build', 'refused:serialize-without-std' if refused else 'NOT-REFUSED:serialize-without-std')
    if not refused:
        ctx.violation('enabling `serialize` without `std` is not refused with the compile_error! (rc=%d)' % r.returncode,
                      {'configuration': 'serialize,no std', 'stderr': (r.stderr or '')[-1500:]}, key='refuse')
    # 3. forbid(unsafe_code) and no unsafe token
    lib = open(core.REPO + '/src/lib.rs').read()
    if not re.search(r'#!\[forbid\([^)]*unsafe_code', strip_rust(lib)):
        ctx.violation('#![forbid(unsafe_code)] is gone from src/lib.rs', {'file': 'src/lib.rs'}, key='forbid')
    for f in sorted(glob.glob(core.REPO + '/src/*.rs')) + [core.REPO + '/build.rs']:
        toks = re.findall(r'\bunsafe\b', strip_rust(open(f).read()).replace('unsafe_code', ''))
        ctx.count('unsafe_scan', 'clean' if not toks else 'UNSAFE')
        if toks:
            ctx.violation('`unsafe` occurs in %s' % f, {'file': f}, key='unsafe:' + os.path.basename(f))
    # 4. every public value type is Send + Sync (compile-time assertions in a separate crate)
    r = core.sh(['cargo', 'build', '--offline', '--target-dir', core.VERIF + '/.build/cargo-sendsync'], cwd=core.VERIF + '/harness_sendsync', check=False)
    ctx.count('send_sync', 'ok' if r.returncode == 0 else 'FAILED')
    if r.returncode != 0:
        m = re.search(r'error\[E\d+\][^\n]*\n(?:[^\n]*\n){0,12}', r.stderr)
        ctx.violation('a public value type is no longer Send + Sync (or disappeared): %s' % (m.group(0) if m else r.stderr[-600:]).replace('\n', ' | ')[:600],
                      {'crate': 'harness_sendsync', 'stderr': r.stderr[-3000:]}, key='sendsync')
    # 5. behaviour: identical results in every buildable configuration, and identical to the model
    lines = []
    for f in sorted(glob.glob(core.REPO + '/assets/*.bin')):
        h = core.hexs(open(f, 'rb').read())
        lines += ['tls_plaintext ' + h, 'tls_raw ' + h, 'tls_many ' + h, 'ext ' + h, 'dtls_record ' + h]
    n = 150 if ctx.thorough else 15
    for name, fn in enc.FAMILIES.items():
        r_ = random.Random('%d/C18/%s' % (ctx.seed, name))
        for c in fn(r_, n):
            lines.append(c.line)
            for m in enc.corruptions(c, r_, limit=2):
                lines.append(m.line)
    lines += ['rp ' + ' '.join(c07.gen_history(rng).steps) for _ in range(800 if ctx.thorough else 100)]
    # the defragmenter's size limit is behaviour too: a stream reaching the 10 MiB cap, and an over-full first fragment
    lines += ['rp ' + ' '.join(c07.oversize_history(rng, jump=True).steps), 'rp ' + ' '.join(c07.overfull_first_fragment(rng).steps)]
    lines += common.cg_lines(ctx, None)
    lines += ['st %d %d ccs' % (s, d) for s in range(25) for d in (0, 1)]
    lines += ['cs_id %d' % i for i in range(0, 65536, 97)] + ['disp TlsVersion %d' % v for v in range(0x0300, 0x0306)]
    outs = {c: core.run_lines(exes[c], lines) for c in exes}
    model = core.run_lines(core.DRIVER, lines)
    ref = 'default' if 'default' in outs else (list(outs) or [None])[0]
    nd = 0
    for k, ln in enumerate(lines):
        rs = {c: core.split_side(outs[c][k])[0] for c in outs}
        ctx.count('behaviour', core.res_class(rs.get(ref, 'other')))
        ctx.distinct.add((ln.split(' ')[0], framework.shape(rs.get(ref, ''))[:60]))
        if len(set(rs.values())) > 1:
            nd += 1
            if nd <= 5:
                ctx.violation('configurations disagree on %s: %s' % (ln[:120], {c: r[:120] for c, r in rs.items()}), {'lines': [ln], 'results': rs}, key='cfg:' + ln.split(' ')[0])
        elif ref and not ln.startswith(('cs_', 'disp')) and common.proj_value(rs[ref]) != common.proj_value(model[k]) and 'unsupported' not in model[k]:
            ctx.cov['model_vs_impl_disagreements'] += 1
    # pure functions have no memory: the same registry lookups as the *first* call of a fresh process (no earlier call can have
    # warmed or poisoned anything), in every configuration, must answer what they answer in the middle of a long run
    ids = [0, 1, 0x2f, 0x35, 0x9c, 0x1301, 0x1303, 0x5600, 0xc02f, 0xcca8, 0xffff, 0x0a0a] + [rng.randrange(65536) for _ in range(20)]
    names18 = ['TLS_AES_128_GCM_SHA256', 'TLS_RSA_WITH_AES_128_CBC_SHA', 'TLS_ECDHE_RSA_WITH_AES_128_GCM_SHA256', 'TLS_NOT_A_SUITE']
    inter = []
    for i in ids[:16]:
        for nm in names18:
            inter += ['cs_id %d' % i, 'cs_name %s' % core.hexs(nm.encode()), 'cs_id %d' % i]
    reg = inter + ['cs_id %d' % i for i in ids] + ['cs_row %d' % i for i in ids[:8]] + ['keybits %d' % g for g in (0, 23, 28, 29, 65535)] + ['disp TlsVersion 771', 'disp NamedGroup 0']
    fresh = {c: core.run_lines(exes[c], reg, chunk=1) for c in exes}
    warm = {c: core.run_lines(exes[c], reg[::-1] + reg)[len(reg):] for c in exes}
    for k, ln in enumerate(reg):
        rs = {c + '/first-call': fresh[c][k] for c in exes}
        rs.update({c + '/after-other-calls': warm[c][k] for c in exes})
        ctx.count('statelessness', 'same' if len(set(rs.values())) == 1 else 'DIFFER')
        if len(set(rs.values())) > 1:
            ctx.violation('the answer to %s depends on configuration or on what was called before: %s' % (ln, rs), {'lines': [ln], 'results': rs}, key='state:' + ln.split(' ')[0])
    ctx.cov['programs'] = len(exes)
    ctx.cov['disagreements_checked'] = len(lines) * max(1, len(exes) - 1)
    ctx.sample({'line': lines[0][:160], 'results': {c: outs[c][0][:160] for c in outs}})
    ctx.sample({'line': lines[-40][:160], 'results': {c: outs[c][-40][:160] for c in outs}})
    return ctx.finish(LEVEL,
        rule='three compiled configurations of the crate (default = std; --no-default-features = no_std + alloc; std + serialize) driven by the same harness over the assets, every independent-encoder family with corruptions, defragmenter histories (incl. a stream reaching the 10 MiB cap), the coverage-guided corpus, state-machine and registry lookups (also as the first call of a fresh process): outputs must be identical across configurations (and are compared with the Lean model); plus: serialize without std refused by compile_error!, #![forbid(unsafe_code)] present and no unsafe token in src/ or build.rs, compile-time Send + Sync assertions for 90 public types; distinct = (op, outcome shape)',
        checker_cmd='cargo build (x3 configurations + refusal + Send/Sync crate); no Lean obligation is specific to this property',
        assumptions=['the build-status, unsafe-code and Send/Sync clauses are facts established by rustc/cargo and a token scan, not by a theorem; they are preconditions of the tie and are reported as violations of C18 when they fail',
                     'the behavioural clause is a translation validation of each compiled configuration against the one proven model'])


def replay(ctx, payload):
    if 'lines' not in payload:
        print(payload); return 1
    bad = 0
    rs = {}
    for c in CONFIGS:
        rs[c] = core.split_side(core.run_lines(core.build_harness(c), payload['lines'])[0])[0]
        print(c, '->', rs[c][:300])
    bad = len(set(rs.values())) > 1
    print('REPLAY: %s' % ('violation reproduced' if bad else 'not reproduced'))
    return 1 if bad else 0
