"""C14 — Signed Certificate Timestamp lists decode per RFC 6962."""
import core, framework, enc
from props import common

LEVEL = 'proof'
MODULES = ['TlsModel.Props.C14']


PREFIXES = {}


def overrun_cases(ctx):
    """entry whose declared length exceeds the enclosing list / list whose declared length exceeds the input"""
    rng = ctx.rng
    out = []
    for _ in range(4000 if ctx.thorough else 400):
        w = core.Writer()
        h = w.lenfield(2, 'list')
        vals = []
        n = rng.choice((1, 2, 3))
        marks = []
        for _ in range(n):
            marks.append(w.pos())
            vals.append(enc.gen_sct_entry(rng, w, big=60))
        total = w.close(h)
        buf = bytearray(w.bytes())
        if rng.random() < .5:
            # inflate the last entry's length beyond the list: the entries before it are returned, nothing from it
            off = marks[-1]
            cur = int.from_bytes(buf[off:off + 2], 'big')
            buf[off:off + 2] = (cur + rng.choice((1, 2, 100, 65534 - cur, 65535 - cur))).to_bytes(2, 'big')
            new = int.from_bytes(buf[off:off + 2], 'big')
            c = enc.Case('entry_overrun', ('sct_list',), bytes(buf), [], None)
            PREFIXES[c.line] = [core.lst(vals[:k]) for k in range(len(vals))]
            out.append(c)
            # the same with the bytes the lying length asks for actually present *behind* the list: the parser must not read them
            c = enc.Case('entry_overrun_into_following_bytes', ('sct_list',), bytes(buf) + rng.randbytes(new + rng.choice((0, 1, 70))), [], None)
            PREFIXES[c.line] = [core.lst(vals[:k]) for k in range(len(vals))]
            out.append(c)
        else:
            # the list claims more than the input holds: no value at all
            buf[0:2] = (total + rng.choice((1, 2, 1000))).to_bytes(2, 'big')
            out.append(enc.Case('list_overrun', ('sct_list',), bytes(buf), [], None, expect=None))
    return out


def run(ctx):
    core.build_harness()
    ok = common.lean_step(ctx, MODULES)
    n = 3000 if ctx.thorough else 300
    exact, mutants = common.gen_cases(ctx, ['sct', 'sct_list'], n, corrupt_limit=10)
    common.run_exact(ctx, exact)
    common.run_exact(ctx, common.long_tails(ctx, exact))
    common.run_differential(ctx, mutants, common.proj_value)
    # all truncations (named by the property's quantifier): never a value
    trunc, per_fam = [], {}
    for c in exact:
        if c.value is not None and c.rem == 0:
            per_fam.setdefault(c.fam, []).append(c)
    for c in [c for cs in per_fam.values() for c in cs[:(400 if ctx.thorough else 40)]]:
        for p in (range(len(c.buf)) if len(c.buf) <= 160 else sorted({ctx.rng.randrange(len(c.buf)) for _ in range(12)} | {0, 1, 2, 3, len(c.buf) - 1})):
            trunc.append(enc.Case(c.fam + '/alltrunc', c.op, c.buf[:p], [], None))
    common.run_differential(ctx, trunc, common.proj_trunc,
                            classify=lambda c, r: 'a strict prefix of the structure must not yield a value' if r.startswith('ok ') else None)
    # every (hash, signature) algorithm pair inside an SCT, single and in a two-entry list: all 65536 pairs in the thorough tier,
    # every 13th plus every pair of registered algorithms and its neighbours in the quick tier
    pairs = range(65536) if ctx.thorough else sorted(set(range(0, 65536, 13)) | set(common.interesting_values(65536)))
    sw = []
    for v in pairs:
        h, g = v >> 8, v & 255
        sl = v - 2 if 2 <= v <= 2047 + 2 and v % 3 == 0 or 1792 <= v <= 2047 else (v * 7) % 5      # v-2: also a valid legacy-form signature
        tail = bytes(32) + (v * 2654435761 % 2 ** 64).to_bytes(8, 'big') + b'\0\0' + bytes([h, g]) + sl.to_bytes(2, 'big') + b'\x99' * sl
        entry = (1 + len(tail)).to_bytes(2, 'big') + b'\0' + tail
        val = '(SCTE 0 %s %d +0 (DSig (some (P %d %d)) %s))' % (core.span(3, 32), v * 2654435761 % 2 ** 64, h, g, core.span(3 + 32 + 8 + 2 + 2 + 2, sl))
        sw.append(enc.Case('alg_pair_sweep', ('sct',), entry, [], None, expect='ok 0 ' + val))
        if v % 5 == 0:
            val2 = val.replace('@3+32', '@5+32').replace(core.span(49, sl), core.span(51, sl))
            sw.append(enc.Case('alg_pair_sweep_list', ('sct_list',), len(entry).to_bytes(2, 'big') + entry, [], None, expect='ok 0 [%s]' % val2))
    common.run_exact(ctx, sw)
    ov = overrun_cases(ctx)
    def cls(c, r):
        if not r.startswith('ok '):
            return None
        if c.fam == 'list_overrun':
            return 'a list longer than the input must not yield a value'
        return None if r.split(' ', 2)[2] in PREFIXES[c.line] else 'an SCT value was produced from the entry whose declared length exceeds the enclosing list'
    common.run_differential(ctx, ov, common.proj_value, classify=cls)
    # the captured list of the test-suite
    import re
    src = open(core.REPO + '/tests/certificate_transparency.rs').read()
    m = re.search(r'hex!\(\s*"(.*?)"\s*\)', src, flags=re.S)
    if m:
        hx = re.sub(r'[^0-9a-fA-F]', '', m.group(1)).lower()
        common.run_differential(ctx, ['sct_list ' + hx], common.proj_value, label='corpus')
    common.run_cg(ctx, ('sct ', 'sct_list ', 'ext_c_signed_certificate_timestamp '), common.proj_trunc)
    common.lean_failure_violation(ctx, ok)
    return ctx.finish(LEVEL,
        rule='SCT entries and lists of 0..n SCTs from the independent RFC 6962 encoder (all versions, timestamps over the u64 range, extension/signature lengths at boundaries; exact), suffixes, nested length corruptions and truncations (differential), every (hash, signature) pair inside an SCT (exact), every strict prefix of short encodings (class: never a value), entry-overrun (exact: the preceding SCTs only) and list-overrun (class: no value); the captured list of tests/; distinct = (family, outcome shape)',
        checker_cmd='cd /verif/lean && lake build TlsModel.Props.C14', assumptions=[])


def replay(ctx, payload):
    return common.generic_replay(ctx, payload)
