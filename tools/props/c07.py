"""C07 — record defragmenter equals accumulate-then-parse, with its safety limits."""
import re, random
import core, framework, enc
from props import common

LEVEL = 'proof'
MODULES = ['TlsModel.Props.C07']
CAP = 10 * 1024 * 1024


def to_buf(s):
    return re.sub(r'(?<![B\w])@(\d+\+\d+)', r'B@\1', s)


def step(kind, t, v, data, ln=None):
    return '%s:%d:%d:%d:%s' % (kind, t, v, min(len(data), 65535) if ln is None else ln, core.hexs(data))


def split_points(rng, limit, k):
    """k-1 cut points in [0, limit] (sorted, repeats allowed = empty fragments)"""
    return sorted(rng.randint(0, limit) for _ in range(k - 1))


class Hist:
    """builds one history and its expected per-step outputs, tracking the abstract defragmenter state"""

    def __init__(self):
        self.steps, self.exp = [], []
        self.cur, self.buflen = None, 0       # abstract: type being defragmented, buffer length (hook-observable)

    def emit(self, st, res):
        self.steps.append(st)
        self.exp.append('%s | %d | %d' % (res, 1 if self.cur is not None else 0, self.buflen))

    def reset(self):
        self.cur, self.buflen = None, 0
        self.steps.append('r')
        self.exp.append('reset | 0 | 0')

    def whole(self, t, v, payload, msgs, rem=0):
        """a record that parses on its own while idle: returned without buffering"""
        assert self.cur is None
        self.emit(step('p', t, v, payload), 'ok %d %s' % (rem, core.lst(msgs)))

    def fragmented(self, rng, t, v, payload, msgs, first_end, rem=0, k=None, intruders=True):
        """payload cut so that its first message (ending at first_end) is completed only by the last record"""
        assert self.cur is None
        k = k or rng.choice((2, 2, 3, 3, 4, 5, 8))
        cuts = split_points(rng, first_end - 1, k)
        if rng.random() < .15:
            cuts[0] = 0                        # empty first fragment
        cuts = sorted(cuts)
        parts = [payload[a:b] for a, b in zip([0] + cuts, cuts + [len(payload)])]
        for j, part in enumerate(parts):
            last = j == len(parts) - 1
            if j == 0:
                self.cur, self.buflen = t, len(part)
                self.emit(step('p', t, rng.choice((v, 0x0301)), part), 'incomplete ?')
                continue
            if intruders and rng.random() < .25:
                self.intrude(rng, t)
            self.buflen += len(part)
            if last:
                self.cur = None
                self.emit(step('p', t, v, part), 'ok %d %s' % (rem, to_buf(core.lst(msgs))))
            else:
                self.emit(step('p', t, v, part), 'incomplete ?')

    def intrude(self, rng, t):
        """while defragmenting: another content type -> Tag; nocopy -> NonEmpty; state unchanged"""
        r = rng.random()
        junk = rng.randbytes(rng.choice((0, 1, 5)))
        if r < .5:
            other = rng.choice([x for x in (20, 21, 22, 23, 24, 0, 255) if x != t])
            self.emit(step('p', other, 0x0303, junk), 'error Tag')
        else:
            self.emit(step('n', rng.choice((t, 22, 23)), 0x0303, junk), 'failure NonEmpty')


def hs_payload(rng, big=300):
    w = core.Writer()
    msgs = [enc.gen_hs_message(rng, w, None, big) for _ in range(rng.choice((1, 1, 2, 3)))]
    buf = w.bytes()
    first_end = 4 + int.from_bytes(buf[1:4], 'big')
    return buf, msgs, first_end


def hb_payload(rng):
    w = core.Writer()
    msgs, pad = enc.gen_record_payload(rng, w, 24, 200)
    buf = w.bytes()
    return buf, msgs, len(buf) - pad, pad


def gen_history(rng):
    h = Hist()
    for _ in range(rng.choice((1, 1, 2, 3, 4))):
        r = rng.random()
        v = rng.choice((0x0301, 0x0303, rng.randrange(65536)))
        if r < .5:
            buf, msgs, fe = hs_payload(rng)
            if rng.random() < .25:
                h.whole(22, v, buf, msgs)
            else:
                h.fragmented(rng, 22, v, buf, msgs, fe)
        elif r < .65:
            buf, msgs, fe, pad = hb_payload(rng)
            if rng.random() < .3 or fe < 2:
                h.whole(24, v, buf, msgs, rem=pad)
            else:
                h.fragmented(rng, 24, v, buf, msgs, fe, rem=pad)
        elif r < .75:
            w = core.Writer()
            msgs, _ = enc.gen_record_payload(rng, w, 23, 200)
            h.whole(23, v, w.bytes(), msgs)
        elif r < .85:
            w = core.Writer()
            t = rng.choice((20, 21))
            msgs, _ = enc.gen_record_payload(rng, w, t, 20)
            h.whole(t, v, w.bytes(), msgs)
        else:
            # start a defragmentation, then reset: the parser must be fresh again
            buf, msgs, fe = hs_payload(rng)
            cut = rng.randint(0, fe - 1)
            h.cur, h.buflen = 22, cut
            h.emit(step('p', 22, v, buf[:cut]), 'incomplete ?')
            h.reset()
    return h


def oversize_history(rng, jump=False):
    """one handshake message of 2^24-1 bytes streamed in cap-sized records: refused exactly when the buffer
    would reach 10 MiB. jump=True (quick tier): the first fragment already brings the buffer close to the cap
    (TlsRawRecord.data is not limited by the parser), so only the last few steps are cap-sized records."""
    h = Hist()
    frag = 16640
    first = bytes([rng.choice((11, 12, 20))]) + (0xffffff).to_bytes(3, 'big') + rng.randbytes((CAP - 3 * frag - rng.randrange(frag) if jump else frag) - 4)
    h.cur, h.buflen = 22, len(first)
    h.emit(step('p', 22, 0x0303, first), 'incomplete ?')
    body = rng.randbytes(frag)
    refused = 0
    while refused < 3:
        if h.buflen + frag >= CAP:
            h.emit(step('p', 22, 0x0303, body), 'error TooLarge')
            refused += 1
            if refused == 1:      # a foreign content type is refused with Tag even when it would not fit either
                other = rng.choice((20, 21, 23, 24, 0))
                h.emit(step('p', other, 0x0303, body), 'error Tag')
                h.emit(step('p', other, 0x0303, b'\x01\x02'), 'error Tag')
            if refused == 1:      # exactly reaching 10 MiB is refused as well ...
                exact = body[:CAP - h.buflen]
                h.emit(step('p', 22, 0x0303, exact), 'error TooLarge')
            if refused == 2:      # ... one byte less is accepted
                small = body[:max(0, CAP - 1 - h.buflen)]
                h.buflen += len(small)
                h.emit(step('p', 22, 0x0303, small), 'incomplete ?')
        else:
            h.buflen += frag
            h.emit(step('p', 22, 0x0303, body), 'incomplete ?')
    return h


def big_message_history(rng):
    """one handshake message whose accumulated size crosses 2^16 (and 2^17) while still incomplete, in record-sized fragments:
    sizes an accumulated-length counter of 16 bits would wrap at; then the parser is used again"""
    h = Hist()
    n = rng.choice((65531, 65532, 65533, 65535, 65536, 65537, 70000, 131071, 131072, 140000, 200000))
    t, name = rng.choice(((20, 'Finished'), (12, 'ServerKeyExchange'), (15, 'CertificateVerify'), (14, 'ServerDone')))
    msg = bytes([t]) + n.to_bytes(3, 'big') + rng.randbytes(n)
    tail = rng.choice((b'', bytes.fromhex('00000000')))
    frag = rng.choice((16384, 16384, 16640, 9973, 16383))
    parts = [msg[a:a + frag] for a in range(0, len(msg), frag)]
    if len(parts) > 1 and len(parts[-1]) == 0:
        parts.pop()
    parts[-1] += tail
    msgs = ['(Hs (%s %s))' % (name, core.span(4, n))] + (['(Hs HelloRequest)'] if tail else [])
    for j, part in enumerate(parts):
        last = j == len(parts) - 1
        if j == 0:
            h.cur, h.buflen = 22, len(part)
        else:
            h.buflen += len(part)
        if last:
            h.cur = None
            h.emit(step('p', 22, 0x0303, part), 'ok 0 %s' % to_buf(core.lst(msgs)))
        else:
            h.emit(step('p', 22, 0x0303, part), 'incomplete ?')
    h.whole(22, 0x0303, bytes.fromhex('0e000000'), ['(Hs (ServerDone +0))'])
    return h


def overfull_first_fragment(rng, excess=None):
    """a hand-built first fragment already above 10 MiB (TlsRawRecord.data is not bounded by the parser):
    it is buffered; every later fragment, even an empty one, is refused with TooLarge, state unchanged"""
    h = Hist()
    first = bytes([rng.choice((1, 11, 20))]) + (0xffffff).to_bytes(3, 'big') + bytes(CAP + (rng.choice((0, 1, 5)) if excess is None else excess) - 4)
    h.cur, h.buflen = 22, len(first)
    h.emit(step('p', 22, 0x0303, first), 'incomplete ?')
    h.emit(step('p', 22, 0x0303, b''), 'error TooLarge')
    h.emit(step('p', 22, 0x0303, b'\x00'), 'error TooLarge')
    h.emit(step('n', 22, 0x0303, b''), 'failure NonEmpty')
    h.reset()
    h.whole(22, 0x0303, bytes.fromhex('0e000000'), ['(Hs (ServerDone +0))'])
    return h


def random_history(rng):
    """arbitrary op sequence (no expectation): records of all types, nocopy, reset, arbitrary bytes"""
    steps = []
    pool = []
    for _ in range(rng.randint(1, 3)):
        buf, msgs, fe = hs_payload(rng, 80)
        cuts = sorted(rng.randint(0, len(buf)) for _ in range(rng.randint(0, 4)))
        pool += [(22, buf[a:b]) for a, b in zip([0] + cuts, cuts + [len(buf)])]
    for _ in range(rng.randint(1, 10)):
        r = rng.random()
        if r < .1:
            steps.append('r')
            continue
        if r < .6 and pool:
            t, d = pool.pop(0)
        else:
            t = rng.choice((20, 21, 22, 23, 24, 25, 0))
            d = rng.choice((b'', b'\x01', b'\x01\x02', b'\x16\x00\x00\x01\xff', rng.randbytes(rng.randint(0, 12)), b'\x01\x00\x05abc'))
        kind = 'n' if rng.random() < .2 else 'p'
        ln = rng.choice((len(d), len(d), 0, 2, 65535))
        steps.append(step(kind, t, rng.choice((0x0303, 0x0301)), d, ln))
    return steps


def reference_run(ctx, histories):
    """The property's own definition as an executable reference: a defragmenter written here (accumulate same-type fragments
    until the one-shot parser succeeds; the three refusals; reset), *parametric in the one-shot record-payload parser* - whose
    answers are taken from the implementation itself (`rec_with_hdr`). The theorems of C07 are generic in that parser, so this
    is the model of C07 instantiated with the code's own payload parser. histories: lists of step strings. Returns, per
    history, the list of expected step texts (normalised like `norm_steps`)."""
    exe = core.build_harness()
    st = [{'cur': None, 'buf': b'', 'out': [], 'pending': None} for _ in histories]
    maxlen = max((len(h) for h in histories), default=0)
    for k in range(maxlen):
        q, who = [], []
        for hi, h in enumerate(histories):
            if k >= len(h):
                continue
            S, step = st[hi], h[k]
            S['pending'] = None
            if step == 'r':
                S['cur'], S['buf'] = None, b''
                S['out'].append('reset | 0 | -')
                continue
            kind, t, v, ln, hx = step.split(':')
            t, v, ln = int(t), int(v), int(ln)
            data = b'' if hx == '-' else bytes.fromhex(hx)
            if S['cur'] is not None:
                if kind == 'n':
                    S['out'].append('failure NonEmpty | 1 | %d' % len(S['buf'])); continue
                if t != S['cur']:
                    S['out'].append('error Tag | 1 | %d' % len(S['buf'])); continue
                if len(S['buf']) + len(data) >= CAP:
                    S['out'].append('error TooLarge | 1 | %d' % len(S['buf'])); continue
                nb = S['buf'] + data
                S['pending'] = ('cont', t, nb)
                q.append('rec_with_hdr %d %d %d %s' % (t, v, len(nb) % 65536, core.hexs(nb))); who.append(hi)
            else:
                S['pending'] = ('nocopy' if (kind == 'n' or t in (20, 21)) else 'first', t, data)
                q.append('rec_with_hdr %d %d %d %s' % (t, v, ln, core.hexs(data))); who.append(hi)
        if q:
            ans = [core.split_side(a)[0] for a in core.run_lines(exe, q)]
            for hi, a in zip(who, ans):
                S = st[hi]
                mode, t, data = S['pending']
                complete_err = a in ('error Complete', 'failure Complete')
                if mode == 'nocopy':
                    r = 'incomplete' if complete_err or a.startswith('incomplete') else a
                    S['out'].append('%s | 0 | -' % r)
                elif mode == 'first':
                    if a.startswith('ok '):
                        S['out'].append('%s | 0 | -' % a)
                    elif complete_err or a.startswith('incomplete'):
                        S['cur'], S['buf'] = t, data
                        S['out'].append('incomplete | 1 | %d' % len(data))
                    else:
                        S['out'].append('%s | 0 | -' % a)
                else:
                    S['buf'] = data
                    if a.startswith('ok '):
                        S['cur'] = None
                        S['out'].append('%s | 0 | -' % to_buf(a))
                    elif complete_err or a.startswith('incomplete'):
                        S['out'].append('incomplete | 1 | %d' % len(data))
                    else:
                        S['out'].append('%s | 1 | %d' % (a, len(data)))
    return [' ; '.join(S['out']) for S in st]


def norm_steps(line):
    """what the property fixes per step: the result (Incomplete without its Needed), the in-progress flag, and the buffer
    length only while defragmenting (what an idle parser keeps in its buffer is an implementation detail)"""
    out = []
    for st in line.split(' ; '):
        p = st.split(' | ')
        if len(p) != 3:
            out.append(st); continue
        r = 'incomplete' if p[0].startswith('incomplete') else p[0]
        out.append('%s | %s | %s' % (r, p[1], p[2] if p[1] == '1' else '-'))
    return ' ; '.join(out)


def run(ctx):
    core.build_harness()
    ok = common.lean_step(ctx, MODULES)
    rng = ctx.rng
    n = 8000 if ctx.thorough else 1200
    hists = [gen_history(rng) for _ in range(n)]
    big = [oversize_history(rng, jump=not ctx.thorough or k > 0) for k in range(3 if ctx.thorough else 1)]
    big += [overfull_first_fragment(rng, x) for x in ((0, 1, 5) if ctx.thorough else (0, 1))]     # exactly at the cap, and above it
    big += [big_message_history(rng) for _ in range(12 if ctx.thorough else 4)]
    hists += big
    lines = ['rp ' + ' '.join(h.steps) for h in hists]
    impl, model = ctx.run_both(lines)
    nv = 0
    for h, ln, a, b in zip(hists, lines, impl, model):
        ra, side = core.split_side(a)
        ra_full = ra
        ra = norm_steps(ra)
        b = norm_steps(b)
        exp = norm_steps(' ; '.join(h.exp))
        fam = 'oversize_stream' if h in big else 'split_histories'
        ctx.count(fam, 'match' if ra == exp else 'MISMATCH')
        for e in h.exp:
            ctx.distinct.add((fam, framework.shape(e)[:80]))
        if ra != exp:
            nv += 1
            ctx.cov['impl_vs_oracle_failures'] += 1
            # first differing step
            ia, ie = ra.split(' ; '), exp.split(' ; ')
            k = next((j for j in range(min(len(ia), len(ie))) if ia[j] != ie[j]), min(len(ia), len(ie)))
            if nv <= 5:
                sub = 'rp ' + ' '.join(h.steps[:k + 1])
                ctx.violation('history step %d: implementation "%s", accumulate-then-parse demands "%s"' % (
                    k, (ia[k] if k < len(ia) else '<missing>')[:200], (ie[k] if k < len(ie) else '<missing>')[:200]),
                    {'lines': [sub if len(sub) < 200000 else ln], 'expect_steps': ' ; '.join(h.exp[:k + 1])[:4000], 'impl_step': ia[k] if k < len(ia) else None},
                    key='hist:' + framework.shape(ie[k] if k < len(ie) else '')[:60])
        if b != exp:
            ctx.cov['model_vs_oracle_failures'] += 1
            if len(ctx.machinery_errors) < 3:
                ctx.machinery_errors.append('model != oracle on a history: %s vs %s' % (b[:300], exp[:300]))
        if side.get('remptr') == 'bad':
            ctx.violation('remainder of a result does not end at the end of its source buffer', {'lines': [ln[:100000]]}, key='remptr')
    ctx.sample({'history': lines[0][:400], 'expect': ' ; '.join(hists[0].exp)[:400], 'impl': core.split_side(impl[0])[0][:400]})
    ctx.sample({'history': lines[1][:400], 'expect': ' ; '.join(hists[1].exp)[:400], 'impl': core.split_side(impl[1])[0][:400]})
    ctx.notes.append('oversize stream: %d steps, buffer stays below %d' % (len(big[0].steps), CAP))
    # arbitrary op sequences: implementation vs model, per step, under the C07 projection
    m = 20000 if ctx.thorough else 3000
    rlines = ['rp ' + ' '.join(random_history(rng)) for _ in range(m)] + common.cg_lines(ctx, ('rp ',))
    impl, model = ctx.run_both(rlines)
    want = reference_run(ctx, [ln.split(' ')[1:] for ln in rlines])
    nd = 0
    for ln, a, b, w in zip(rlines, impl, model, want):
        ra, _ = core.split_side(a)
        ctx.count('random_op_sequences', 'agree' if norm_steps(ra) == w else 'differ')
        for st in ra.split(' ; '):
            ctx.distinct.add(('rand', framework.shape(st)[:60]))
        if 'panic' in ra:
            ctx.violation('panic inside a history: %s' % ra[:200], {'lines': [ln]}, key='panic')
        elif norm_steps(ra) != w:
            # the defragmenter does not behave as "accumulate, refuse, reset" around the code's own one-shot parser
            nd += 1
            ctx.cov['impl_vs_oracle_failures'] += 1
            ia, iw = norm_steps(ra).split(' ; '), w.split(' ; ')
            k = next((j for j in range(min(len(ia), len(iw))) if ia[j] != iw[j]), min(len(ia), len(iw)))
            if nd <= 4:
                ctx.violation('op sequence, step %d: implementation "%s"; accumulate-then-parse around parse_tls_record_with_header itself gives "%s"' % (
                    k, (ia[k] if k < len(ia) else '<missing>')[:200], (iw[k] if k < len(iw) else '<missing>')[:200]),
                    {'lines': [ln], 'expect_steps': w[:3000]}, key='ref:' + framework.shape(iw[k] if k < len(iw) else '')[:60])
        elif [proj_step(x) for x in ra.split(' ; ')] != [proj_step(x) for x in b.split(' ; ')]:
            # the defragmenter follows the definition; only the one-shot payload parser of the model answers differently on some
            # fragment of this history - that is a matter for C03 / C04, logged here as drift
            ctx.cov['drift'] += 1
            if len(ctx.cov['drift_samples']) < 5:
                ctx.cov['drift_samples'].append({'line': ln[:200], 'impl': ra[:200], 'model': b[:200]})
        elif ra != b:
            ctx.cov['drift'] += 1
    ctx.sample({'history': rlines[0][:300], 'impl': core.split_side(impl[0])[0][:300], 'model': model[0][:300]})
    common.lean_failure_violation(ctx, ok)
    return ctx.finish(LEVEL,
        rule='histories over one TlsRecordsParser: handshake / heartbeat payloads split k-ways (k=2..8, cuts anywhere before the end of the first message incl. inside the 4-byte header, empty fragments), whole records of all types, foreign-type records and nocopy calls interleaved (Tag / NonEmpty refusals), resets, chained messages, a 2^24-1 byte message streamed to the 10 MiB cap, messages whose accumulated size crosses 2^16 / 2^17 while incomplete; each step compared with the accumulate-then-parse oracle (result with buffer-relative spans, defrag_in_progress, buffer length via the hook); plus random op sequences and the coverage-guided histories compared, step by step, with a reference defragmenter written from the words of the property and driven by the one-shot payload parser of the implementation (the C07 theorems are generic in that parser), and with the model; distinct = distinct step outcome shapes',
        checker_cmd='cd /verif/lean && lake build TlsModel.Props.C07',
        assumptions=['buffer length and contents observed through the cfg(tls_parser_verif) accessors', 'records within the record-length cap for the buffer bound'])


def proj_step(st):
    """per step: ok value | incomplete | error Tag | error TooLarge | failure NonEmpty | rejected ; in-progress flag ; buffer length"""
    parts = st.split(' | ')
    if len(parts) == 3 and parts[1] != '1':
        parts = [parts[0], parts[1], '-']
    r = parts[0]
    if r.startswith('ok ') or r in ('error Tag', 'error TooLarge', 'failure NonEmpty', 'reset', 'panic'):
        p = r
    elif r.startswith('incomplete'):
        p = 'incomplete'
    else:
        p = 'rejected'
    return (p,) + tuple(parts[1:])


def replay(ctx, payload):
    return common.generic_replay(ctx, payload)
