"""dictionary.py — byte strings worth planting into generated inputs: the protocol's well-known magic values plus every
byte-string-like literal found in /repo's sources at the time of the run (what fuzzers call a dictionary). A comparison
against a constant (`random == HRR_MAGIC`, a sentinel suffix, a magic cookie) cannot be reached by random bytes; it is
reached at once when the constant itself is one of the candidate field values. Harvesting is purely lexical and only
feeds the input generators: no verdict depends on it."""
import re, glob, os

# RFC 8446 4.1.3: HelloRetryRequest random, downgrade sentinels (last 8 bytes of ServerHello.random)
STATIC = [
    bytes.fromhex('cf21ad74e59a6111be1d8c021e65b891c2a211167abb8c5e079e09e2c8a8339c'),
    bytes(24) + b'DOWNGRD\x01', bytes(24) + b'DOWNGRD\x00', b'DOWNGRD\x01', b'DOWNGRD\x00',
    bytes(32), b'\xff' * 32,
]

_cache = {}
LEAD_P = 0.2
LEAD = (0x00, 0x01, 0x02, 0x03, 0x04, 0x04, 0x05, 0x06, 0x07, 0x30, 0x40, 0x41, 0x80, 0xff)


def _unescape(s):
    out = bytearray()
    i = 0
    while i < len(s):
        c = s[i]
        if c == '\\' and i + 1 < len(s):
            n = s[i + 1]
            if n == 'x' and i + 3 < len(s):
                try:
                    out.append(int(s[i + 2:i + 4], 16)); i += 4; continue
                except ValueError:
                    pass
            out += {'n': b'\n', 'r': b'\r', 't': b'\t', '0': b'\0', '\\': b'\\', '"': b'"', "'": b"'"}.get(n, n.encode())
            i += 2
            continue
        out += c.encode()
        i += 1
    return bytes(out)


def harvest(repo):
    if repo in _cache:
        return _cache[repo]
    found = set(STATIC)
    files = sorted(glob.glob(repo + '/src/*.rs')) + [repo + '/build.rs']
    for f in files:
        if not os.path.exists(f):
            continue
        src = open(f, errors='replace').read()
        src = re.sub(r'//[^\n]*', '', src)
        src = re.sub(r'#\[cfg\(test\)\].*', '', src, flags=re.S)          # unit-test vectors are not program constants
        for m in re.finditer(r'hex!\(\s*((?:"[^"]*"\s*)+)\)', src):
            hx = re.sub(r'[^0-9a-fA-F]', '', m.group(1))
            if len(hx) % 2 == 0:
                found.add(bytes.fromhex(hx))
        for m in re.finditer(r'\bb"((?:[^"\\]|\\.)*)"', src):
            found.add(_unescape(m.group(1)))
        for m in re.finditer(r'(?<![A-Za-z0-9_])"((?:[^"\\]|\\.)*)"', src):
            found.add(_unescape(m.group(1)))
        for m in re.finditer(r'\[((?:\s*(?:0x[0-9a-fA-F_]+|\d+)(?:u8)?\s*,){3,}\s*(?:0x[0-9a-fA-F_]+|\d+)?(?:u8)?\s*)\]', src):
            vals = [int(x.replace('_', '').replace('u8', ''), 0) for x in re.findall(r'0x[0-9a-fA-F_]+|\d+', m.group(1))]
            if vals and all(v < 256 for v in vals):
                found.add(bytes(vals))
    out = sorted(b for b in found if 4 <= len(b) <= 64)
    _cache[repo] = out
    return out


def plant(rng, n, dic, p=0.12):
    """n bytes: random, or (with probability p) carrying a dictionary entry — exactly, when one has that length"""
    if n <= 0 or not dic or rng.random() >= p:
        b = rng.randbytes(n)
        if n > 0 and rng.random() < LEAD_P:
            # opaque values often start with a format / type octet (EC point formats 0x00 0x02 0x03 0x04, ASN.1 0x30, ...):
            # a check keyed on that first octet is never reached by uniformly random bytes
            b = bytes([rng.choice(LEAD)]) + b[1:]
        return b
    exact = [d for d in dic if len(d) == n]
    if exact and rng.random() < .8:
        return rng.choice(exact)
    fit = [d for d in dic if len(d) <= n]
    if not fit:
        return rng.randbytes(n)
    d = rng.choice(fit)
    off = rng.choice((0, n - len(d), rng.randrange(n - len(d) + 1)))
    b = bytearray(rng.randbytes(n))
    b[off:off + len(d)] = d
    return bytes(b)
