import re
def sn(s):
    n = 0
    for b in s.encode(): n = n * 256 + b
    return n
def T(s): return '%d /- %s -/' % (sn(s), s)
def L(xs): return '[' + ', '.join(T(x) for x in xs) + ']'
enctok = {'AES': ['AES'], '3DES': ['3DES'], 'ARIA': ['ARIA'], 'CAMELLIA': ['CAMELLIA'], 'CHACHA20_POLY1305': ['CHACHA20', 'POLY1305'],
          'IDEA': ['IDEA'], 'RC2': ['RC2'], 'RC4': ['RC4'], 'SEED': ['SEED'], 'SM4': ['SM4'], 'AEGIS': ['AEGIS']}
tmpl = '''/-
  CipherNames.lean — "the parameters agree with the algorithm tokens of the IANA name" (C12), as a decidable predicate on a
  line of the registry file. The name (one base-256 Nat) is split into its `_`-separated tokens *inside Lean*, so the rule
  is checked by the kernel on the very name the registry carries. Rules: the IANA naming scheme
  TLS_<kx>[_<auth>][_EXPORT..]_WITH_<cipher>[_<bits>][_<mode>][_8]_<mac|prf>; the two TLS_PSK_DHE_* names, which IANA
  spells in the opposite order, are the only listed exceptions (ids 0xC0AA, 0xC0AB). Token numerals are generated
  (one-off script), the ASCII spelling is in the comment next to each.
-/
import TlsModel.Ciphers
namespace Tls

/-- the bytes of a base-256 name, most significant first -/
def bytesOfNatGo (fuel n : Nat) (acc : List Nat) : List Nat :=
  match fuel with
  | 0 => acc
  | fuel + 1 => if n = 0 then acc else bytesOfNatGo fuel (n / 256) (n % 256 :: acc)

def bytesOfNat (n : Nat) : List Nat := bytesOfNatGo 128 n []

/-- split at `_` (95); each token again as a base-256 Nat -/
def splitTokensGo (bs : List Nat) (cur : Nat) (acc : List Nat) : List Nat :=
  match bs with
  | [] => (cur :: acc).reverse
  | b :: r => if b = 95 then splitTokensGo r 0 (cur :: acc) else splitTokensGo r (cur * 256 + b) acc

def nameTokens (name : Nat) : List Nat := splitTokensGo (bytesOfNat name) 0 []

/-- re-join tokens with `_`: inverse of `nameTokens` on the registry names (checked in the kernel for every row) -/
def joinTokens (ts : List Nat) : Nat :=
  match ts with
  | [] => 0
  | t :: r => r.foldl (fun acc x => (acc * 256 + 95) * 256 ^ (bytesOfNat x).length + x) t

def tWITH : Nat := «WITH»

/-- cipher column -> the tokens the name must contain after WITH -/
def encTokens : List (Nat × List Nat) := [
ENCTOKENS]

def allCipherTokens : List Nat := ALLCIPHER

/-- decimal value of an all-digit token (none otherwise) -/
def tokDecimal (t : Nat) : Option Nat :=
  let bs := bytesOfNat t
  if bs.isEmpty || bs.any (fun b => b < 48 || b > 57) then none else some (bs.foldl (fun a b => a * 10 + (b - 48)) 0)

def macOfLast : List (Nat × Nat) := [
  («SHA», «HMAC-SHA1»), («MD5», «HMAC-MD5»), («SHA256», «HMAC-SHA256»), («SHA384», «HMAC-SHA384»),
  («SHA512», «HMAC-SHA512»), («NULL», «NULL»), («SCSV», «NULL»)]

/-- **the rule**: `none` = the row agrees with its name, `some k` = which clause fails (1 cipher, 2 key size, 3 mode,
    4 PRF, 5 MAC, 6 key exchange, 7 authentication) -/
def nameDisagreement (f : FileRow) : Option Nat :=
  let T := (nameTokens f.name).drop 1
  let pp : List Nat × List Nat := match T.idxOf? tWITH with
    | some k => (T.take k, T.drop (k + 1))
    | none => ([], T)
  let pre := pp.1
  let post := pp.2
  let has (t : Nat) : Bool := post.contains t
  -- cipher
  let encBad : Bool :=
    (match encTokens.lookup f.enc with
     | some ts => !(ts.all has)
     | none => false)
    || (f.enc == «DES» && !(has («DES») || has («DES40»)))
    || (f.enc == «NULL» && (allCipherTokens.any has || has («DES»)))
  if encBad then some 1 else
  -- key size
  let nums0 := (post.filterMap tokDecimal).filter (fun n => n == 40 || n == 56 || n == 128 || n == 256)
  let nums1 := if has («DES40») then [40] else nums0
  let nums := if has («128L») then [128] else nums1
  if (match nums.head? with | some n => n != f.size | none => false) then some 2 else
  -- mode
  let m : Nat := if has («GCM») then «GCM» else if has («CCM») then «CCM» else if has («CBC») then «CBC» else 0
  if m != f.mode && !(f.mode == «NULL» && m == 0) then some 3 else
  -- MAC / PRF
  let last0 : Nat := post.getLast?.getD 0
  let last : Nat := if last0 == «8» then (match post.dropLast.getLast? with | some p => if p == «CCM» then 0 else p | none => 0) else last0
  let macBad : Option Nat :=
    if f.mac == «AEAD» then
      (if (last == «SHA256» || last == «SHA384» || last == «SM3») && f.prf != last then some 4
       else if last == «SHA» || last == «MD5» then some 5 else none)
    else (if macOfLast.lookup last != some f.mac then some 5 else none)
  if macBad.isSome then macBad else
  -- key exchange / authentication
  if !pre.isEmpty && f.id != 0xc0aa && f.id != 0xc0ab then
    if pre.head? != some f.kx then some 6 else
    let p := pre.filter (fun t => t != «EXPORT» && t != «EXPORT1024»)
    let lastp := p.getLast?.getD 0
    let a0 : Nat := if lastp == «anon» then «NULL» else lastp
    let a : Nat := if p.take 2 == [«SRP», «SHA»] then (if p.length == 2 then «SRP» else («SRP+») * 256 ^ (bytesOfNat lastp).length + lastp) else a0
    if a != f.au then some 7 else none
  else if pre.isEmpty && f.kx != «TLS13» && f.kx != «NULL» then some 6
  else none

end Tls
'''
tmpl = tmpl.replace('ENCTOKENS', ',\n'.join('  (%s, %s)' % (T(k), L(v)) for k, v in enctok.items()))
tmpl = tmpl.replace('ALLCIPHER', L(sorted({t for v in enctok.values() for t in v})))
tmpl = re.sub(r'«([^»]+)»', lambda m: T(m.group(1)), tmpl)
open('/verif/lean/TlsModel/CipherNames.lean', 'w').write(tmpl)
chk = '''/-
  Gen/CipherNamesCheck.lean — kernel-checked: every line of the registry file (hence, by `runtime_eq_file`, every suite of the
  built-in registry) agrees with the algorithm tokens of its IANA name; and `nameTokens` really splits the name
  (re-joining the tokens gives the name back), so the rule is about the name itself.
-/
import TlsModel.Gen.Ciphers
import TlsModel.CipherNames
namespace Tls
open Tls.Gen

/-- splitting is faithful on every registry name -/
theorem file_names_split_faithful : fileCiphers.all (fun f => joinTokens (nameTokens f.name) == f.name) = true := by decide +kernel

/-- **the parameters agree with the algorithm tokens of the IANA name**, for every line of the registry file -/
theorem file_name_tokens_agree : fileCiphers.all (fun f => (nameDisagreement f).isNone) = true := by decide +kernel

end Tls
'''
open('/verif/lean/TlsModel/Gen/CipherNamesCheck.lean', 'w').write(chk)
