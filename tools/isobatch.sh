#!/bin/sh
# usage: tools/isobatch.sh <parallelism> <file with lines: slot patch check...>   — run isotest jobs from a list, N at a time
N=$1; LIST=$2
mkdir -p /verif/.build/iso
cat $LIST | xargs -P $N -L 1 sh -c 'slot=$0; /verif/tools/isotest.sh "$0" "$@" > /verif/.build/iso/$slot.log 2>&1' 
