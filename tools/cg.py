"""cg.py — coverage-guided corpus for the correspondence check (DESIGN.md section 15).

libFuzzer (cargo-fuzz, nightly toolchain, no sanitizer) drives the harness's own `dispatch` in-process *and* the Lean
model driver linked into the same process (DriverFFI.lean, shim.c); every input that reaches new coverage of tls-parser,
panics, or on which implementation and model answer differently is kept. Nothing is decided by the fuzzer: the kept
inputs are decoded into op lines and replayed through harness and model driver by the property checks, under each
property's projection and oracles.
Fuzzing here only chooses inputs for the model-vs-code validation (and searches for failing inputs after a change).

* corpus/cg/ops.hex   committed corpus grown on the unchanged tree (one libFuzzer input per line, hex)
* corpus/cg/TREE      hash of the /repo sources the committed corpus was grown on
* `lines(ctx)`        committed corpus + (only when /repo's sources differ from TREE, or in the thorough tier) a fresh
                      deterministic libFuzzer stage on the *current* tree seeded with the committed corpus: the inputs
                      that reach coverage the committed corpus does not reach are exactly those exercising changed code.
                      The fresh stage is cached per source hash under .build/cg/<hash>/ so the 18 checks share it.
CLI:  python3 tools/cg.py grow [runs-per-worker]   (re)grow and minimise the committed corpus on the current tree
"""
import os, sys, re, glob, hashlib, shutil, subprocess, time
sys.path.insert(0, os.path.dirname(__file__))
import core

CG = core.VERIF + '/cgfuzz'
TARGET = core.VERIF + '/.build/cgfuzz'
BIN = TARGET + '/x86_64-unknown-linux-gnu/release/ops'
CORPUS = core.VERIF + '/corpus/cg/ops.hex'
TREEFILE = core.VERIF + '/corpus/cg/TREE'
WORK = core.VERIF + '/.build/cg'
MAXLEN = 1536


def tree_hash():
    """hash of everything that determines the crate's behaviour"""
    h = hashlib.sha256()
    files = sorted(glob.glob(core.REPO + '/src/**/*.rs', recursive=True)) + [core.REPO + '/build.rs', core.REPO + '/Cargo.toml',
                                                                                core.REPO + '/scripts/tls-ciphersuites.txt']
    for f in files:
        h.update(os.path.relpath(f, core.REPO).encode() + b'\0')
        try:
            h.update(open(f, 'rb').read())
        except OSError:
            h.update(b'<missing>')
    return h.hexdigest()[:16]


_ops = None


def ops_table():
    """the op table of the fuzz target, read from its source so that the two cannot drift apart"""
    global _ops
    if _ops is None:
        src = open(CG + '/fuzz/fuzz_targets/ops.rs').read()
        body = src[src.index('pub const OPS'):]
        body = body[:body.index('];')]
        _ops = [(m.group(1), [int(x) for x in re.findall(r'\d+', m.group(2))]) for m in re.finditer(r'\("([^"]+)",\s*&\[([^\]]*)\]\)', body)]
        assert len(_ops) > 80 and _ops[-1][0] == 'rp'
    return _ops


def decode(data):
    """libFuzzer input -> op line (mirror of `line_of` in cgfuzz/fuzz/fuzz_targets/ops.rs); None if too short"""
    ops = ops_table()
    if not data:
        return None
    op, widths = ops[data[0] % len(ops)]
    rest = data[1:]
    if op == 'rp':
        steps, out = 0, ['rp']
        while rest:
            k, rest = rest[0], rest[1:]
            if steps >= 12:
                break
            steps += 1
            if k % 8 == 7:
                out.append('r')
                continue
            if len(rest) < 7:
                break
            ty, ver, ln = rest[0], int.from_bytes(rest[1:3], 'big'), int.from_bytes(rest[3:5], 'big')
            dlen = min(int.from_bytes(rest[5:7], 'big'), len(rest) - 7)
            out.append('%s:%d:%d:%d:%s' % ('n' if k % 8 == 6 else 'p', ty, ver, ln, core.hexs(rest[7:7 + dlen])))
            rest = rest[7 + dlen:]
        return ' '.join(out) if steps else None
    args = []
    for w in widths:
        if len(rest) < w:
            return None
        args.append(str(int.from_bytes(rest[:w], 'big')))
        rest = rest[w:]
    return ' '.join([op] + args + [core.hexs(rest)])


def encode(line):
    """op line -> libFuzzer input (used to seed the corpus from the generator families); None if not expressible"""
    ops = ops_table()
    toks = line.split(' ')
    for idx, (op, widths) in enumerate(ops):
        optoks = op.split(' ')
        if toks[:len(optoks)] != optoks or op == 'rp':
            continue
        rest = toks[len(optoks):]
        if len(rest) != len(widths) + 1:
            continue
        try:
            b = bytes([idx]) + b''.join(int(a).to_bytes(w, 'big') for a, w in zip(rest, widths))
            return b + (b'' if rest[-1] == '-' else bytes.fromhex(rest[-1]))
        except (ValueError, OverflowError):
            return None
    return None


def build():
    """build the fuzz target against /repo's working tree, with the Lean model linked in (raises core.BuildError)"""
    ok, out = core.build_lean(['DriverLib:static', 'TlsModel:static'])
    if not ok:
        raise core.BuildError('lake build of the model libraries failed:\n' + out[-3000:])
    env = dict(core.ENV, RUSTFLAGS='--cfg tls_parser_verif')
    r = subprocess.run(['cargo', '+nightly', 'fuzz', 'build', '-s', 'none', '--target-dir', TARGET], cwd=CG, env=env,
                       capture_output=True, text=True)
    if r.returncode != 0:
        raise core.BuildError('cargo fuzz build failed:\n' + r.stderr[-3000:])
    return BIN


def load_committed():
    if not os.path.exists(CORPUS):
        return []
    return [bytes.fromhex(l) for l in open(CORPUS).read().split('\n') if l]


def _write_dir(d, items):
    shutil.rmtree(d, ignore_errors=True)
    os.makedirs(d)
    for b in items:
        open('%s/%s' % (d, hashlib.sha1(b).hexdigest()), 'wb').write(b)


def _read_dir(d):
    out = []
    for f in sorted(os.listdir(d)) if os.path.isdir(d) else []:
        p = d + '/' + f
        if os.path.isfile(p):
            out.append(open(p, 'rb').read())
    return out


def fuzz(seed_items, runs, workers, workdir, base_seed=1, timeout=900):
    """deterministic stage: `workers` independent libFuzzer processes (seeds base_seed..), each `runs` executions, no
    cross-talk. Returns the new inputs (new coverage, panics, crashes)."""
    seed_dir = workdir + '/seed'
    _write_dir(seed_dir, seed_items)
    pan = workdir + '/panics'
    shutil.rmtree(pan, ignore_errors=True)
    os.makedirs(pan)
    procs = []
    for k in range(workers):
        out = '%s/out%d' % (workdir, k)
        shutil.rmtree(out, ignore_errors=True)
        os.makedirs(out)
        art = '%s/art%d/' % (workdir, k)
        shutil.rmtree(art, ignore_errors=True)
        os.makedirs(art)
        cmd = [BIN, out, seed_dir, '-seed=%d' % (base_seed + k), '-runs=%d' % runs, '-max_len=%d' % MAXLEN, '-use_value_profile=1',
               '-reload=0', '-verbosity=0', '-print_final_stats=0', '-artifact_prefix=' + art, '-timeout=20', '-rss_limit_mb=4096']
        procs.append(subprocess.Popen(cmd, env=dict(os.environ, CG_PANIC_DIR=pan), stdout=subprocess.DEVNULL, stderr=subprocess.DEVNULL))
    t0 = time.time()
    for p in procs:
        try:
            p.wait(timeout=max(1, timeout - (time.time() - t0)))
        except subprocess.TimeoutExpired:
            p.kill()
    new = []
    for k in range(workers):
        new += _read_dir('%s/out%d' % (workdir, k)) + _read_dir('%s/art%d' % (workdir, k))
    new += _read_dir(pan)
    seen, out = set(seed_items), []
    for b in new:
        if b not in seen:
            seen.add(b)
            out.append(b)
    return out


def merge(items, workdir):
    """libFuzzer -merge=1: a subset of `items` with the same coverage"""
    src, dst = workdir + '/merge_src', workdir + '/merge_dst'
    _write_dir(src, items)
    shutil.rmtree(dst, ignore_errors=True)
    os.makedirs(dst)
    subprocess.run([BIN, '-merge=1', '-use_value_profile=1', '-max_len=%d' % MAXLEN, dst, src], stdout=subprocess.DEVNULL, stderr=subprocess.DEVNULL)
    return _read_dir(dst)


_cache = {}


def corpus_inputs(thorough=False, notes=None):
    """(committed inputs, fresh inputs) for the current tree; the fresh stage runs only when the sources differ from the
    tree the committed corpus was grown on (or in the thorough tier) and is cached per source hash"""
    key = (tree_hash(), thorough)
    if key in _cache:
        return _cache[key]
    committed = load_committed()
    base = open(TREEFILE).read().strip() if os.path.exists(TREEFILE) else ''
    fresh = []
    th = key[0]
    if committed and (th != base or thorough):
        wd = '%s/%s%s' % (WORK, th, '-thorough' if thorough else '')
        done = wd + '/fresh.hex'
        if os.path.exists(done):
            fresh = [bytes.fromhex(l) for l in open(done).read().split('\n') if l]
        else:
            os.makedirs(wd, exist_ok=True)
            build()
            fresh = fuzz(committed, 1500000 if thorough else 200000, core.NPROC, wd, timeout=1500 if thorough else 240)
            open(done, 'w').write('\n'.join(b.hex() for b in fresh) + ('\n' if fresh else ''))
        if notes is not None:
            notes.append('coverage-guided stage on the current tree (sources %s, committed corpus grown on %s): %d new inputs' % (th, base, len(fresh)))
    elif notes is not None:
        notes.append('coverage-guided corpus: %d committed inputs (grown on this very tree, %s); no fresh stage needed' % (len(committed), th))
    _cache[key] = (committed, fresh)
    return _cache[key]


def lines(thorough=False, ops=None, notes=None):
    """decoded op lines of committed + fresh corpus, optionally filtered by op-name prefixes; fresh lines first"""
    committed, fresh = corpus_inputs(thorough, notes)
    out, seen = [], set()
    for b in fresh + committed:
        ln = decode(b)
        if ln is None or ln in seen:
            continue
        seen.add(ln)
        if ops is None or any(ln.startswith(p) for p in ops):
            out.append(ln)
    return out


def grow(runs=3000000, rounds=2, extra_lines=()):
    """(re)grow the committed corpus on the current tree; minimise; record the tree hash"""
    build()
    os.makedirs(WORK + '/grow', exist_ok=True)
    items = load_committed()
    for ln in extra_lines:
        b = encode(ln)
        if b is not None and len(b) <= MAXLEN:
            items.append(b)
    items = list(dict.fromkeys(items))
    for r in range(rounds):
        new = fuzz(items or [b'\0'], runs, core.NPROC, WORK + '/grow', base_seed=1 + 100 * r, timeout=3600)
        items = merge(items + new, WORK + '/grow')
        print('round %d: %d new, %d after merge' % (r, len(new), len(items)), flush=True)
    os.makedirs(os.path.dirname(CORPUS), exist_ok=True)
    items = sorted(set(items), key=lambda b: (decode(b) or '', b))
    open(CORPUS, 'w').write('\n'.join(b.hex() for b in items) + '\n')
    open(TREEFILE, 'w').write(tree_hash() + '\n')
    print('committed corpus: %d inputs, tree %s' % (len(items), tree_hash()))


if __name__ == '__main__':
    if len(sys.argv) >= 2 and sys.argv[1] == 'grow':
        grow(int(sys.argv[2]) if len(sys.argv) > 2 else 3000000, int(sys.argv[3]) if len(sys.argv) > 3 else 2)
    elif len(sys.argv) >= 2 and sys.argv[1] == 'lines':
        for ln in lines():
            print(ln)
    else:
        print(__doc__)
