#!/bin/sh
# usage: tools/seedtest.sh <seed-name> <PID> [tier]   — apply a seeded change to /repo, run the check, undo.
cd /verif
git -C /repo apply /verif/seeded/$1/patch.diff || exit 9
./check $2 --tier ${3:-quick} > /verif/.build/seedtest.out 2>&1
rc=$?
git -C /repo checkout -- .
grep -E "^VIOLATION|^KNOWN|^MACHINERY|^C[0-9]+ " /verif/.build/seedtest.out | cut -c1-300 | head -8
echo "seed=$1 check=$2 rc=$rc"
exit $rc
