#!/bin/sh
# usage: tools/seedtest.sh <seed-name> <PID> [tier]   — apply a seeded change to /repo, run the check, undo.
# Evidence and regenerated Gen tables of the unchanged tree are saved and restored, so a seed test never leaves
# the mutated tree's tables or evidence behind.
cd /verif
rm -rf .build/seed_backup; mkdir -p .build/seed_backup
cp -r evidence .build/seed_backup/evidence 2>/dev/null
cp -r lean/TlsModel/Gen .build/seed_backup/Gen
git -C /repo apply /verif/seeded/$1/patch.diff || exit 9
./check $2 --tier ${3:-quick} > /verif/.build/seedtest.out 2>&1
rc=$?
git -C /repo checkout -- .
rm -rf evidence; cp -r .build/seed_backup/evidence evidence 2>/dev/null
for f in .build/seed_backup/Gen/*.lean; do cmp -s $f lean/TlsModel/Gen/$(basename $f) || cp $f lean/TlsModel/Gen/$(basename $f); done
grep -E "^VIOLATION|^KNOWN|^MACHINERY|^C[0-9]+ " /verif/.build/seedtest.out | cut -c1-300 | head -8
echo "seed=$1 check=$2 rc=$rc"
exit $rc
