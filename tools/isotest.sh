#!/bin/sh
# usage: tools/isotest.sh <slot> <patch.diff|-> <check-id>... [-- tier]
# Run checks against a *copy* of /repo with a patch applied, from a *copy* of /verif (build output included), so that
# seed tests can run in parallel with each other and with work in /verif. Nothing in /repo or /verif is touched.
# The copies live under /tmp/iso_<slot> and are removed afterwards (keep with KEEP=1).
SLOT=$1; PATCH=$2; shift 2
TIER=quick; CHECKS=""
while [ $# -gt 0 ]; do
  if [ "$1" = "--" ]; then TIER=$2; break; fi
  CHECKS="$CHECKS $1"; shift
done
D=/tmp/iso_$SLOT
git -C /repo worktree remove --force $D/repo >/dev/null 2>&1
rm -rf $D; mkdir -p $D
git -C /repo worktree add --detach $D/repo HEAD >/dev/null 2>&1 || { echo "worktree failed"; exit 9; }
if [ "$PATCH" != "-" ]; then git -C $D/repo apply $PATCH || { echo "patch does not apply"; exit 8; }; fi
rsync -a --exclude .git --exclude 'evidence/replay' --exclude '.build/cg' --exclude '.build/seed_backup' /verif/ $D/verif/
cd $D/verif
for f in harness/Cargo.toml harness_sendsync/Cargo.toml cgfuzz/fuzz/Cargo.toml; do [ -f $f ] && sed -i "s#path = \"/repo\"#path = \"$D/repo\"#" $f; done
for f in harness/.cargo/config.toml harness_sendsync/.cargo/config.toml; do [ -f $f ] && sed -i "s#/verif/.build#$D/verif/.build#" $f; done
rc=0
for c in $CHECKS; do
  VERIF_REPO=$D/repo VERIF_ROOT=$D/verif ./check $c --tier $TIER > $D/out_$c.log 2>&1
  r=$?
  [ $r -ne 0 ] && rc=$r
  echo "slot=$SLOT check=$c rc=$r $(grep -E '^VIOLATION' $D/out_$c.log | head -2 | cut -c1-160 | tr '\n' ' ')"
  grep -E "^  |^MACHINERY" $D/out_$c.log | head -3 | cut -c1-260
done
cd /
if [ -z "$KEEP" ]; then git -C /repo worktree remove --force $D/repo >/dev/null 2>&1; rm -rf $D; fi
exit $rc
