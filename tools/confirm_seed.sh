#!/bin/sh
# usage: tools/confirm_seed.sh <PID> <A|B> [check-ids...] — confirm a sub-agent's seeded change in its scratch worktree,
# store it under /verif/seeded/<PID>-<X>/, then run the named checks (default: <PID>) against it in /repo.
PID=$1; X=$2; shift 2; CHECKS=${@:-$PID}; WT=/tmp/wt_$PID; S=$WT/_seed/$X
export CARGO_TARGET_DIR=/tmp/seedtarget_$PID CARGO_NET_OFFLINE=true
cd $WT || exit 9
git checkout -q -- . ; rm -f tests/demo_seed.rs
FEAT=""; grep -q 'feature = "serialize"' $S/demo.rs && FEAT="--features serialize"
git apply $S/patch.diff || { echo "$PID-$X: patch does not apply"; exit 8; }
cargo test --workspace --no-fail-fast --offline >/tmp/seed_suite_$PID.log 2>&1; SUITE=$?
NT=$(grep -E "^test result" /tmp/seed_suite_$PID.log | awk '{s+=$4} END {print s}')
cp $S/demo.rs tests/demo_seed.rs
cargo test --offline $FEAT --test demo_seed >/tmp/seed_mut_$PID.log 2>&1; MUT=$?
git checkout -q -- .
cargo test --offline $FEAT --test demo_seed >/tmp/seed_clean_$PID.log 2>&1; CLEAN=$?
rm -f tests/demo_seed.rs
echo "$PID-$X: suite with change rc=$SUITE passed=$NT (want 0 / 49); demo with change rc=$MUT (want !=0); demo on clean tree rc=$CLEAN (want 0)"
D=/verif/seeded/$PID-$X$SUFFIX
if [ $CLEAN -eq 0 ] && [ $MUT -ne 0 ] && [ $SUITE -eq 0 ]; then
  mkdir -p $D; cp $S/patch.diff $S/demo.rs $D/; cp $S/meta.txt $D/meta.txt
  python3 - "$PID" "$X" "$NT" <<'PY'
import json,sys
pid,x,nt=sys.argv[1:4]
d="/verif/seeded/%s-%s%s"%(pid,x,__import__("os").environ.get("SUFFIX",""))
json.dump({'breaks':[pid],'origin':'written by an independent sub-agent that saw only the property text and a scratch worktree',
 'needs_to_manifest':open(d+'/meta.txt').read()[:1500],
 'confirmed':'builder re-ran in the scratch worktree: existing suite with the change passes (%s tests incl. doctests), demo.rs fails with the change and passes without'%nt},open(d+'/meta.json','w'),indent=1)
PY
  cd /verif
  [ -z "$NOTEST" ] && tools/isotest.sh $PID-$X$SUFFIX /verif/seeded/$PID-$X$SUFFIX/patch.diff $CHECKS
else
  echo "NOT CONFIRMED"
fi
