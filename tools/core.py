"""core.py — shared machinery of the checks: building, running harness and driver over the
line protocol (PROTOCOL.md), canonical value parsing, byte writer with span tracking,
evidence and replay files, known findings."""
import os, sys, json, subprocess, time, hashlib, random, re, concurrent.futures

VERIF = os.environ.get('VERIF_ROOT') or os.path.dirname(os.path.dirname(os.path.abspath(__file__)))   # normally /verif
REPO = os.environ.get('VERIF_REPO', '/repo')   # the checks read /repo; isolated background runs point this at a snapshot
CARGO_TARGET = VERIF + '/.build/cargo'
LEAN_DIR = VERIF + '/lean'
DRIVER = LEAN_DIR + '/.lake/build/bin/driver'
NPROC = min(16, os.cpu_count() or 4)

ENV = dict(os.environ, CARGO_NET_OFFLINE='true')


class BuildError(Exception):
    pass


def sh(cmd, cwd=None, timeout=3600, check=True):
    r = subprocess.run(cmd, cwd=cwd, env=ENV, capture_output=True, text=True, timeout=timeout)
    if check and r.returncode != 0:
        raise BuildError('command failed: %s\n%s\n%s' % (' '.join(cmd), r.stdout[-4000:], r.stderr[-4000:]))
    return r


_built = {}


def build_harness(config='default'):
    """Rebuild the harness (and tls-parser from /repo's working tree). config: default | nostd | serialize.
    Each configuration has its own target dir so switching does not thrash."""
    if config in _built:
        return _built[config]
    tdir = CARGO_TARGET if config == 'default' else CARGO_TARGET + '-' + config
    cmd = ['cargo', 'build', '--offline', '--target-dir', tdir]
    if config == 'nostd':
        cmd.append('--no-default-features')
    elif config == 'serialize':
        cmd += ['--features', 'serialize']
    sh(cmd, cwd=VERIF + '/harness')
    exe = tdir + '/debug/tlsverif'
    _built[config] = exe
    return exe


def build_lean(targets):
    """lake build of the given targets (module names or 'driver'); returns (ok, output)."""
    r = sh(['lake', 'build'] + list(targets), cwd=LEAN_DIR, check=False, timeout=7200)
    return r.returncode == 0, r.stdout + r.stderr


def _run_chunk(args):
    exe, lines = args
    p = subprocess.run([exe], input=('\n'.join(lines) + '\n'), capture_output=True, text=True, env=ENV)
    out = p.stdout.split('\n')
    if out and out[-1] == '':
        out.pop()
    return p.returncode, out, p.stderr[-2000:]


def run_lines(exe, lines, jobs=NPROC, chunk=2000):
    """Feed lines to exe (sharded over processes); returns list of output lines (same order).
    A crashed shard is bisected so that the crashing line is reported as 'crash'."""
    if not lines:
        return []
    chunks = [lines[i:i + chunk] for i in range(0, len(lines), chunk)]
    res = [None] * len(chunks)
    with concurrent.futures.ThreadPoolExecutor(max_workers=jobs) as ex:
        futs = {ex.submit(_run_chunk, (exe, c)): k for k, c in enumerate(chunks)}
        for f in concurrent.futures.as_completed(futs):
            res[futs[f]] = f.result()
    out = []
    for k, (rc, o, err) in enumerate(res):
        if len(o) == len(chunks[k]):
            out += o
        else:
            out += _bisect(exe, chunks[k])
    return out


def _bisect(exe, lines):
    if len(lines) == 1:
        rc, o, err = _run_chunk((exe, lines))
        return o if len(o) == 1 else ['crash']
    mid = len(lines) // 2
    outs = []
    for part in (lines[:mid], lines[mid:]):
        rc, o, err = _run_chunk((exe, part))
        outs += o if len(o) == len(part) else _bisect(exe, part)
    return outs


def split_side(line):
    """-> (result, {side observations})"""
    parts = line.split('\t')
    side = {}
    for p in parts[1:]:
        if '=' in p:
            k, v = p.split('=', 1)
            side[k] = v
    return parts[0], side


# ---------------------------------------------------------------- canonical values

TOK = re.compile(r'\(|\)|\[|\]|[^\s()\[\]]+')


def parse_value(s):
    """Parse a canonical value into nested python: ('ctor', name, [fields]) | ('list', [..]) | atom str"""
    toks = TOK.findall(s)
    pos = 0

    def rd():
        nonlocal pos
        t = toks[pos]
        pos += 1
        if t == '(':
            name = toks[pos]
            pos += 1
            fields = []
            while toks[pos] != ')':
                fields.append(rd())
            pos += 1
            return ('ctor', name, fields)
        if t == '[':
            items = []
            while toks[pos] != ']':
                items.append(rd())
            pos += 1
            return ('list', items)
        return t
    v = rd()
    return v


def parse_result(res):
    """'ok 3 (V ..)' -> ('ok', 3, valuestr) ; 'error Tag' -> ('error','Tag') ; etc."""
    if res.startswith('ok '):
        rest = res[3:]
        sp = rest.find(' ')
        if sp < 0:
            return ('ok', int(rest), '')
        return ('ok', int(rest[:sp]), rest[sp + 1:])
    parts = res.split(' ', 1)
    return tuple(parts)


def res_class(res):
    """ok | incomplete | error | failure | panic | other"""
    k = res.split(' ', 1)[0]
    return k if k in ('ok', 'incomplete', 'error', 'failure', 'panic') else 'other'


def hexs(b):
    return b.hex() if len(b) else '-'


def span(off, n):
    return '+0' if n == 0 else '@%d+%d' % (off, n)


class Writer:
    """Byte buffer with absolute offsets; raw() returns the canonical span of what it wrote."""

    def __init__(self, base=b''):
        self.b = bytearray(base)
        self.fields = []   # (offset, width, kind) of every length field, for corruption families

    def pos(self):
        return len(self.b)

    def u(self, w, n):
        self.b += int(n).to_bytes(w, 'big')

    def raw(self, bs):
        off = len(self.b)
        self.b += bs
        return span(off, len(bs))

    def lenfield(self, w, kind='len'):
        """reserve a length field; returns a handle to patch with close()"""
        off = len(self.b)
        self.b += b'\0' * w
        self.fields.append([off, w, kind, None])
        return len(self.fields) - 1

    def close(self, h, value=None):
        off, w, kind, _ = self.fields[h]
        if value is None:
            value = len(self.b) - (off + w)
        self.fields[h][3] = value
        self.b[off:off + w] = int(value).to_bytes(w, 'big')
        return value

    def span_since(self, h):
        off, w, _, _ = self.fields[h]
        return span(off + w, len(self.b) - (off + w))

    def bytes(self):
        return bytes(self.b)


def opt(s):
    return 'none' if s is None else '(some %s)' % s


def lst(items):
    return '[' + ' '.join(items) + ']'


# ---------------------------------------------------------------- evidence / replay / findings

def load_known_findings():
    p = VERIF + '/known_findings.json'
    if not os.path.exists(p):
        return {'known': [], 'fixed': []}
    return json.load(open(p))


def write_replay(pid, payload):
    os.makedirs(VERIF + '/evidence/replay', exist_ok=True)
    h = hashlib.sha1(json.dumps(payload, sort_keys=True).encode()).hexdigest()[:12]
    path = '%s/evidence/replay/%s-%s.json' % (VERIF, pid, h)
    json.dump(payload, open(path, 'w'), indent=1)
    return path


def write_evidence(pid, tier, seed, level, coverage, wall_s, violations, assumptions):
    os.makedirs(VERIF + '/evidence', exist_ok=True)
    ev = {'property_id': pid, 'tier': tier, 'seed': seed, 'level': level, 'coverage': coverage,
          'assumptions': assumptions, 'wall_s': round(wall_s, 2), 'violations': violations}
    json.dump(ev, open('%s/evidence/%s.json' % (VERIF, pid), 'w'), indent=1)
    return ev
