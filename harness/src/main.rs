//! Line-protocol harness binary; everything lives in the library so that the coverage-guided
//! corpus generator (/verif/cgfuzz) can call the same dispatch in-process.
fn main() {
    tlsverif::main_entry()
}
