//! Canonical rendering of parser results (value grammar of /verif/PROTOCOL.md).
//!
//! Slices are rendered through a `Ctx` that knows the address range of the op's input
//! buffer. In `Defer` mode (defragmenter histories) a non-empty slice lying outside the input
//! is recorded as a pending (ptr, len, bytes) triple and a placeholder token is written; the
//! caller resolves placeholders once it can read the defragmenter buffer's address range.

use std::fmt::{self, Write as _};
use tls_parser::*;

const HEX: &[u8; 16] = b"0123456789abcdef";

pub fn push_hex(o: &mut String, b: &[u8]) {
    o.reserve(b.len() * 2);
    for &x in b {
        o.push(HEX[(x >> 4) as usize] as char);
        o.push(HEX[(x & 15) as usize] as char);
    }
}

/// `H` convention: lowercase hex, `-` for the empty string
#[cfg_attr(not(feature = "serialize"), allow(dead_code))]
pub fn push_hex_h(o: &mut String, b: &[u8]) {
    if b.is_empty() {
        o.push('-');
    } else {
        push_hex(o, b);
    }
}

pub fn push_int(o: &mut String, v: u64) {
    let _ = write!(o, "{}", v);
}

/// Owned bytes: `x:<hex>`
pub fn push_owned(o: &mut String, b: &[u8]) {
    o.push_str("x:");
    push_hex(o, b);
}

pub struct Pending {
    pub ptr: usize,
    pub len: usize,
    pub bytes: Vec<u8>,
}

#[derive(Clone, Copy, PartialEq, Eq)]
pub enum Mode {
    /// `@off+len` inside the input, `X:hex` otherwise
    Input,
    /// every slice is printed as `x:hex` (values built from owned data)
    Owned,
    /// like `Input`, but slices outside the input become placeholders
    Defer,
}

pub struct Ctx {
    pub base: usize,
    pub len: usize,
    pub mode: Mode,
    /// also exercise `Display` of every registry newtype met while rendering
    pub touch: bool,
    pub pend: Vec<Pending>,
}

pub const PLACEHOLDER: char = '\u{1}';

impl Ctx {
    pub fn new(buf: &[u8], mode: Mode) -> Ctx {
        Ctx {
            base: buf.as_ptr() as usize,
            len: buf.len(),
            mode,
            touch: false,
            pend: Vec::new(),
        }
    }

    pub fn owned() -> Ctx {
        Ctx {
            base: 0,
            len: 0,
            mode: Mode::Owned,
            touch: false,
            pend: Vec::new(),
        }
    }

    pub fn slice(&mut self, o: &mut String, s: &[u8]) {
        if self.mode == Mode::Owned {
            push_owned(o, s);
            return;
        }
        if s.is_empty() {
            o.push_str("+0");
            return;
        }
        let p = s.as_ptr() as usize;
        if p >= self.base && p - self.base <= self.len && s.len() <= self.len - (p - self.base) {
            let _ = write!(o, "@{}+{}", p - self.base, s.len());
            return;
        }
        if self.mode == Mode::Defer {
            let idx = self.pend.len();
            self.pend.push(Pending {
                ptr: p,
                len: s.len(),
                bytes: s.to_vec(),
            });
            let _ = write!(o, "{}{}{}", PLACEHOLDER, idx, PLACEHOLDER);
            return;
        }
        o.push_str("X:");
        push_hex(o, s);
    }
}

/// Replace the placeholders written in `Defer` mode, now that the range of the
/// defragmenter buffer is known.
pub fn resolve(s: &str, pend: &[Pending], buf_base: usize, buf_len: usize) -> String {
    if pend.is_empty() {
        return s.to_string();
    }
    let mut o = String::with_capacity(s.len());
    let mut it = s.split(PLACEHOLDER);
    // pieces alternate: text, index, text, index, ..., text
    if let Some(first) = it.next() {
        o.push_str(first);
    }
    loop {
        let idx = match it.next() {
            Some(i) => i,
            None => break,
        };
        let p = &pend[idx.parse::<usize>().expect("placeholder index")];
        if p.ptr >= buf_base
            && p.ptr - buf_base <= buf_len
            && p.len <= buf_len - (p.ptr - buf_base)
        {
            let _ = write!(o, "B@{}+{}", p.ptr - buf_base, p.len);
        } else {
            o.push_str("X:");
            push_hex(&mut o, &p.bytes);
        }
        if let Some(text) = it.next() {
            o.push_str(text);
        }
    }
    o
}

struct Sink;
impl fmt::Write for Sink {
    fn write_str(&mut self, _s: &str) -> fmt::Result {
        Ok(())
    }
}

fn touch<T: fmt::Display>(x: &T) {
    let _ = write!(Sink, "{}", x);
}

pub trait R {
    fn r(&self, c: &mut Ctx, o: &mut String);
}

macro_rules! r_int {
    ($($T:ty),*) => { $(
        impl R for $T {
            fn r(&self, _c: &mut Ctx, o: &mut String) { push_int(o, *self as u64); }
        }
    )* };
}
r_int!(u8, u16, u32, u64, usize);

/// registry newtypes implementing Display: printed as their integer
macro_rules! r_newtype {
    ($($T:ty),*) => { $(
        impl R for $T {
            fn r(&self, c: &mut Ctx, o: &mut String) {
                if c.touch { touch(self); }
                push_int(o, self.0 as u64);
            }
        }
    )* };
}
r_newtype!(
    TlsRecordType,
    TlsHandshakeType,
    TlsVersion,
    TlsHeartbeatMessageType,
    TlsCompressionID,
    TlsCipherSuiteID,
    TlsAlertSeverity,
    TlsAlertDescription,
    TlsExtensionType,
    SNIType,
    CertificateStatusType,
    NamedGroup,
    ECCurveType,
    HashAlgorithm,
    SignAlgorithm,
    CtVersion
);

impl<'a> R for &'a [u8] {
    fn r(&self, c: &mut Ctx, o: &mut String) {
        c.slice(o, self);
    }
}

impl<T: R> R for Vec<T> {
    fn r(&self, c: &mut Ctx, o: &mut String) {
        o.push('[');
        for (n, x) in self.iter().enumerate() {
            if n > 0 {
                o.push(' ');
            }
            x.r(c, o);
        }
        o.push(']');
    }
}

impl<T: R> R for Option<T> {
    fn r(&self, c: &mut Ctx, o: &mut String) {
        match self {
            None => o.push_str("none"),
            Some(x) => {
                o.push_str("(some ");
                x.r(c, o);
                o.push(')');
            }
        }
    }
}

impl<A: R, B: R> R for (A, B) {
    fn r(&self, c: &mut Ctx, o: &mut String) {
        o.push_str("(P ");
        self.0.r(c, o);
        o.push(' ');
        self.1.r(c, o);
        o.push(')');
    }
}

macro_rules! ctor {
    ($c:expr, $o:expr, $name:expr $(, $f:expr)* $(,)?) => {{
        $o.push('(');
        $o.push_str($name);
        $( $o.push(' '); R::r(&$f, $c, $o); )*
        $o.push(')');
    }};
}

// ---------------------------------------------------------------- records

impl R for TlsRecordHeader {
    fn r(&self, c: &mut Ctx, o: &mut String) {
        ctor!(c, o, "Hdr", self.record_type, self.version, self.len);
    }
}

impl<'a> R for TlsRawRecord<'a> {
    fn r(&self, c: &mut Ctx, o: &mut String) {
        ctor!(c, o, "Raw", self.hdr, self.data);
    }
}

impl<'a> R for TlsEncrypted<'a> {
    fn r(&self, c: &mut Ctx, o: &mut String) {
        ctor!(c, o, "Enc", self.hdr, self.msg.blob);
    }
}

impl<'a> R for TlsPlaintext<'a> {
    fn r(&self, c: &mut Ctx, o: &mut String) {
        ctor!(c, o, "Plain", self.hdr, self.msg);
    }
}

// ---------------------------------------------------------------- messages

fn r_alert(a: &TlsMessageAlert, c: &mut Ctx, o: &mut String) {
    ctor!(c, o, "Alert", a.severity, a.code);
}

fn r_app(a: &TlsMessageApplicationData, c: &mut Ctx, o: &mut String) {
    ctor!(c, o, "App", a.blob);
}

fn r_hb(h: &TlsMessageHeartbeat, c: &mut Ctx, o: &mut String) {
    ctor!(c, o, "Hb", h.heartbeat_type, h.payload_len, h.payload);
}

impl<'a> R for TlsMessage<'a> {
    fn r(&self, c: &mut Ctx, o: &mut String) {
        match self {
            TlsMessage::Handshake(h) => ctor!(c, o, "Hs", h),
            TlsMessage::ChangeCipherSpec => o.push_str("CCS"),
            TlsMessage::Alert(a) => r_alert(a, c, o),
            TlsMessage::ApplicationData(a) => r_app(a, c, o),
            TlsMessage::Heartbeat(h) => r_hb(h, c, o),
        }
    }
}

impl<'a, T: R> R for &'a T {
    fn r(&self, c: &mut Ctx, o: &mut String) {
        (**self).r(c, o);
    }
}

impl<'a> R for TlsClientHelloContents<'a> {
    fn r(&self, c: &mut Ctx, o: &mut String) {
        ctor!(
            c,
            o,
            "ClientHello",
            self.version,
            self.random,
            self.session_id,
            self.ciphers,
            self.comp,
            self.ext
        );
    }
}

impl<'a> R for TlsServerHelloContents<'a> {
    fn r(&self, c: &mut Ctx, o: &mut String) {
        ctor!(
            c,
            o,
            "ServerHello",
            self.version,
            self.random,
            self.session_id,
            self.cipher,
            self.compression,
            self.ext
        );
    }
}

impl<'a> R for TlsServerHelloV13Draft18Contents<'a> {
    fn r(&self, c: &mut Ctx, o: &mut String) {
        ctor!(
            c,
            o,
            "ServerHello13d18",
            self.version,
            self.random,
            self.cipher,
            self.ext
        );
    }
}

impl<'a> R for TlsNewSessionTicketContent<'a> {
    fn r(&self, c: &mut Ctx, o: &mut String) {
        ctor!(c, o, "NewSessionTicket", self.ticket_lifetime_hint, self.ticket);
    }
}

impl<'a> R for TlsHelloRetryRequestContents<'a> {
    fn r(&self, c: &mut Ctx, o: &mut String) {
        ctor!(c, o, "HelloRetryRequest", self.version, self.cipher, self.ext);
    }
}

impl<'a> R for RawCertificate<'a> {
    fn r(&self, c: &mut Ctx, o: &mut String) {
        c.slice(o, self.data);
    }
}

impl<'a> R for TlsCertificateContents<'a> {
    fn r(&self, c: &mut Ctx, o: &mut String) {
        ctor!(c, o, "Certificate", self.cert_chain);
    }
}

impl<'a> R for TlsServerKeyExchangeContents<'a> {
    fn r(&self, c: &mut Ctx, o: &mut String) {
        ctor!(c, o, "ServerKeyExchange", self.parameters);
    }
}

impl<'a> R for TlsCertificateRequestContents<'a> {
    fn r(&self, c: &mut Ctx, o: &mut String) {
        ctor!(
            c,
            o,
            "CertificateRequest",
            self.cert_types,
            self.sig_hash_algs,
            self.unparsed_ca
        );
    }
}

impl<'a> R for TlsClientKeyExchangeContents<'a> {
    fn r(&self, c: &mut Ctx, o: &mut String) {
        match self {
            TlsClientKeyExchangeContents::Dh(s) => ctor!(c, o, "Dh", *s),
            TlsClientKeyExchangeContents::Ecdh(p) => ctor!(c, o, "Ecdh", p.point),
            TlsClientKeyExchangeContents::Unknown(s) => ctor!(c, o, "Unknown", *s),
        }
    }
}

impl<'a> R for TlsCertificateStatusContents<'a> {
    fn r(&self, c: &mut Ctx, o: &mut String) {
        ctor!(c, o, "CertificateStatus", self.status_type, self.blob);
    }
}

impl<'a> R for TlsNextProtocolContent<'a> {
    fn r(&self, c: &mut Ctx, o: &mut String) {
        ctor!(c, o, "NextProtocol", self.selected_protocol, self.padding);
    }
}

impl<'a> R for TlsMessageHandshake<'a> {
    fn r(&self, c: &mut Ctx, o: &mut String) {
        match self {
            TlsMessageHandshake::HelloRequest => o.push_str("HelloRequest"),
            TlsMessageHandshake::ClientHello(x) => x.r(c, o),
            TlsMessageHandshake::ServerHello(x) => x.r(c, o),
            TlsMessageHandshake::ServerHelloV13Draft18(x) => x.r(c, o),
            TlsMessageHandshake::NewSessionTicket(x) => x.r(c, o),
            TlsMessageHandshake::EndOfEarlyData => o.push_str("EndOfEarlyData"),
            TlsMessageHandshake::HelloRetryRequest(x) => x.r(c, o),
            TlsMessageHandshake::Certificate(x) => x.r(c, o),
            TlsMessageHandshake::ServerKeyExchange(x) => x.r(c, o),
            TlsMessageHandshake::CertificateRequest(x) => x.r(c, o),
            TlsMessageHandshake::ServerDone(s) => ctor!(c, o, "ServerDone", *s),
            TlsMessageHandshake::CertificateVerify(s) => ctor!(c, o, "CertificateVerify", *s),
            TlsMessageHandshake::ClientKeyExchange(x) => ctor!(c, o, "ClientKeyExchange", x),
            TlsMessageHandshake::Finished(s) => ctor!(c, o, "Finished", *s),
            TlsMessageHandshake::CertificateStatus(x) => x.r(c, o),
            TlsMessageHandshake::NextProtocol(x) => x.r(c, o),
            TlsMessageHandshake::KeyUpdate(n) => ctor!(c, o, "KeyUpdate", *n),
        }
    }
}

// ---------------------------------------------------------------- extensions

impl<'a> R for OidFilter<'a> {
    fn r(&self, c: &mut Ctx, o: &mut String) {
        ctor!(c, o, "P", self.cert_ext_oid, self.cert_ext_val);
    }
}

impl<'a> R for TlsExtension<'a> {
    fn r(&self, c: &mut Ctx, o: &mut String) {
        match self {
            TlsExtension::SNI(v) => ctor!(c, o, "SNI", v),
            TlsExtension::MaxFragmentLength(n) => ctor!(c, o, "MaxFragmentLength", *n),
            TlsExtension::StatusRequest(x) => ctor!(c, o, "StatusRequest", x),
            TlsExtension::EllipticCurves(v) => ctor!(c, o, "EllipticCurves", v),
            TlsExtension::EcPointFormats(s) => ctor!(c, o, "EcPointFormats", *s),
            TlsExtension::SignatureAlgorithms(v) => ctor!(c, o, "SignatureAlgorithms", v),
            TlsExtension::RecordSizeLimit(n) => ctor!(c, o, "RecordSizeLimit", *n),
            TlsExtension::SessionTicket(s) => ctor!(c, o, "SessionTicket", *s),
            TlsExtension::KeyShareOld(s) => ctor!(c, o, "KeyShareOld", *s),
            TlsExtension::KeyShare(s) => ctor!(c, o, "KeyShare", *s),
            TlsExtension::PreSharedKey(s) => ctor!(c, o, "PreSharedKey", *s),
            TlsExtension::EarlyData(x) => ctor!(c, o, "EarlyData", x),
            TlsExtension::SupportedVersions(v) => ctor!(c, o, "SupportedVersions", v),
            TlsExtension::Cookie(s) => ctor!(c, o, "Cookie", *s),
            TlsExtension::PskExchangeModes(v) => {
                o.push_str("(PskExchangeModes ");
                push_owned(o, v);
                o.push(')');
            }
            TlsExtension::Heartbeat(n) => ctor!(c, o, "Heartbeat", *n),
            TlsExtension::ALPN(v) => ctor!(c, o, "ALPN", v),
            TlsExtension::SignedCertificateTimestamp(x) => ctor!(c, o, "SCT", x),
            TlsExtension::Padding(s) => ctor!(c, o, "Padding", *s),
            TlsExtension::EncryptThenMac => o.push_str("EncryptThenMac"),
            TlsExtension::ExtendedMasterSecret => o.push_str("ExtendedMasterSecret"),
            TlsExtension::OidFilters(v) => ctor!(c, o, "OidFilters", v),
            TlsExtension::PostHandshakeAuth => o.push_str("PostHandshakeAuth"),
            TlsExtension::NextProtocolNegotiation => o.push_str("NextProtocolNegotiation"),
            TlsExtension::RenegotiationInfo(s) => ctor!(c, o, "RenegotiationInfo", *s),
            TlsExtension::EncryptedServerName {
                ciphersuite,
                group,
                key_share,
                record_digest,
                encrypted_sni,
            } => ctor!(
                c,
                o,
                "ESNI",
                ciphersuite,
                group,
                *key_share,
                *record_digest,
                *encrypted_sni
            ),
            TlsExtension::Grease(t, s) => ctor!(c, o, "Grease", *t, *s),
            TlsExtension::Unknown(t, s) => ctor!(c, o, "Unknown", t, *s),
        }
    }
}

/// Name of the Rust variant (used by the dumps)
pub fn ext_variant_name(e: &TlsExtension) -> &'static str {
    match e {
        TlsExtension::SNI(_) => "SNI",
        TlsExtension::MaxFragmentLength(_) => "MaxFragmentLength",
        TlsExtension::StatusRequest(_) => "StatusRequest",
        TlsExtension::EllipticCurves(_) => "EllipticCurves",
        TlsExtension::EcPointFormats(_) => "EcPointFormats",
        TlsExtension::SignatureAlgorithms(_) => "SignatureAlgorithms",
        TlsExtension::RecordSizeLimit(_) => "RecordSizeLimit",
        TlsExtension::SessionTicket(_) => "SessionTicket",
        TlsExtension::KeyShareOld(_) => "KeyShareOld",
        TlsExtension::KeyShare(_) => "KeyShare",
        TlsExtension::PreSharedKey(_) => "PreSharedKey",
        TlsExtension::EarlyData(_) => "EarlyData",
        TlsExtension::SupportedVersions(_) => "SupportedVersions",
        TlsExtension::Cookie(_) => "Cookie",
        TlsExtension::PskExchangeModes(_) => "PskExchangeModes",
        TlsExtension::Heartbeat(_) => "Heartbeat",
        TlsExtension::ALPN(_) => "ALPN",
        TlsExtension::SignedCertificateTimestamp(_) => "SignedCertificateTimestamp",
        TlsExtension::Padding(_) => "Padding",
        TlsExtension::EncryptThenMac => "EncryptThenMac",
        TlsExtension::ExtendedMasterSecret => "ExtendedMasterSecret",
        TlsExtension::OidFilters(_) => "OidFilters",
        TlsExtension::PostHandshakeAuth => "PostHandshakeAuth",
        TlsExtension::NextProtocolNegotiation => "NextProtocolNegotiation",
        TlsExtension::RenegotiationInfo(_) => "RenegotiationInfo",
        TlsExtension::EncryptedServerName { .. } => "EncryptedServerName",
        TlsExtension::Grease(_, _) => "Grease",
        TlsExtension::Unknown(_, _) => "Unknown",
    }
}

// ---------------------------------------------------------------- DH / EC / signatures

impl<'a> R for ServerDHParams<'a> {
    fn r(&self, c: &mut Ctx, o: &mut String) {
        ctor!(c, o, "DH", self.dh_p, self.dh_g, self.dh_ys);
    }
}

impl<'a> R for ECParametersContent<'a> {
    fn r(&self, c: &mut Ctx, o: &mut String) {
        match self {
            ECParametersContent::ExplicitPrime(p) => ctor!(
                c,
                o,
                "ExplicitPrime",
                p.prime_p,
                p.curve.a,
                p.curve.b,
                p.base.point,
                p.order,
                p.cofactor
            ),
            ECParametersContent::NamedGroup(g) => ctor!(c, o, "NamedGroup", g),
        }
    }
}

impl<'a> R for ECParameters<'a> {
    fn r(&self, c: &mut Ctx, o: &mut String) {
        ctor!(c, o, "ECParams", self.curve_type, self.params_content);
    }
}

impl<'a> R for ServerECDHParams<'a> {
    fn r(&self, c: &mut Ctx, o: &mut String) {
        ctor!(c, o, "ECDH", self.curve_params, self.public.point);
    }
}

impl R for SignatureAndHashAlgorithm {
    fn r(&self, c: &mut Ctx, o: &mut String) {
        if c.touch {
            touch(self);
        }
        ctor!(c, o, "P", self.hash, self.sign);
    }
}

impl<'a> R for DigitallySigned<'a> {
    fn r(&self, c: &mut Ctx, o: &mut String) {
        ctor!(c, o, "DSig", self.alg, self.data);
    }
}

impl<'a> R for SignedCertificateTimestamp<'a> {
    fn r(&self, c: &mut Ctx, o: &mut String) {
        let key_id: &[u8] = &self.id.key_id[..];
        ctor!(
            c,
            o,
            "SCTE",
            self.version,
            key_id,
            self.timestamp,
            self.extensions.0,
            self.signature
        );
    }
}

// ---------------------------------------------------------------- DTLS

impl R for DTLSRecordHeader {
    fn r(&self, c: &mut Ctx, o: &mut String) {
        ctor!(
            c,
            o,
            "DHdr",
            self.content_type,
            self.version,
            self.epoch,
            self.sequence_number,
            self.length
        );
    }
}

impl<'a> R for DTLSClientHello<'a> {
    fn r(&self, c: &mut Ctx, o: &mut String) {
        ctor!(
            c,
            o,
            "ClientHello",
            self.version,
            self.random,
            self.session_id,
            self.cookie,
            self.ciphers,
            self.comp,
            self.ext
        );
    }
}

impl<'a> R for DTLSMessageHandshakeBody<'a> {
    fn r(&self, c: &mut Ctx, o: &mut String) {
        match self {
            DTLSMessageHandshakeBody::HelloRequest => o.push_str("HelloRequest"),
            DTLSMessageHandshakeBody::ClientHello(x) => x.r(c, o),
            DTLSMessageHandshakeBody::HelloVerifyRequest(x) => {
                ctor!(c, o, "HelloVerifyRequest", x.server_version, x.cookie)
            }
            DTLSMessageHandshakeBody::ServerHello(x) => x.r(c, o),
            DTLSMessageHandshakeBody::NewSessionTicket(x) => x.r(c, o),
            DTLSMessageHandshakeBody::HelloRetryRequest(x) => x.r(c, o),
            DTLSMessageHandshakeBody::Certificate(x) => x.r(c, o),
            DTLSMessageHandshakeBody::ServerKeyExchange(x) => x.r(c, o),
            DTLSMessageHandshakeBody::CertificateRequest(x) => x.r(c, o),
            DTLSMessageHandshakeBody::ServerDone(s) => ctor!(c, o, "ServerDone", *s),
            DTLSMessageHandshakeBody::CertificateVerify(s) => {
                ctor!(c, o, "CertificateVerify", *s)
            }
            DTLSMessageHandshakeBody::ClientKeyExchange(x) => ctor!(c, o, "ClientKeyExchange", x),
            DTLSMessageHandshakeBody::Finished(s) => ctor!(c, o, "Finished", *s),
            DTLSMessageHandshakeBody::CertificateStatus(x) => x.r(c, o),
            DTLSMessageHandshakeBody::NextProtocol(x) => x.r(c, o),
            DTLSMessageHandshakeBody::Fragment(s) => ctor!(c, o, "Fragment", *s),
        }
    }
}

fn r_dtls_inner(m: &DTLSMessage, c: &mut Ctx, o: &mut String) {
    match m {
        DTLSMessage::Handshake(h) => ctor!(
            c,
            o,
            "Hs",
            h.msg_type,
            h.length,
            h.message_seq,
            h.fragment_offset,
            h.fragment_length,
            h.body
        ),
        DTLSMessage::ChangeCipherSpec => o.push_str("CCS"),
        DTLSMessage::Alert(a) => r_alert(a, c, o),
        DTLSMessage::ApplicationData(a) => r_app(a, c, o),
        DTLSMessage::Heartbeat(h) => r_hb(h, c, o),
    }
}

/// A DTLS message is always printed wrapped: `(M <is_fragment 0|1> msg)`
impl<'a> R for DTLSMessage<'a> {
    fn r(&self, c: &mut Ctx, o: &mut String) {
        o.push_str("(M ");
        o.push(if self.is_fragment() { '1' } else { '0' });
        o.push(' ');
        r_dtls_inner(self, c, o);
        o.push(')');
    }
}

impl<'a> R for DTLSPlaintext<'a> {
    fn r(&self, c: &mut Ctx, o: &mut String) {
        ctor!(c, o, "DPlain", self.header, self.messages);
    }
}
