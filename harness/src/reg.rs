//! `disp`, `dbg`, `conv`: Display / Debug / integer conversions of the registry newtypes.
//!
//! `<Type>` is one of the 18 registry types or `TlsCipherSuiteID`. A type that does not
//! implement the trait answers `unsupported`; an unknown type name or a value outside the
//! type's domain answers `badrequest`.

use crate::render::push_owned;
use crate::{Fail, Resp};
use tls_parser::*;

fn parse_tv(args: &[&str]) -> Result<(String, u32), Fail> {
    if args.len() != 2 {
        return Err(Fail::Bad);
    }
    let s = args[1];
    if s.is_empty() || s.len() > 6 || !s.bytes().all(|c| c.is_ascii_digit()) {
        return Err(Fail::Bad);
    }
    let v: u32 = s.parse().map_err(|_| Fail::Bad)?;
    Ok((args[0].to_string(), v))
}

fn ok_str(s: String) -> Resp {
    let mut o = String::from("ok ");
    push_owned(&mut o, s.as_bytes());
    Ok(o)
}

macro_rules! w8 {
    ($v:expr, $T:ident) => {{
        if $v > 0xff {
            return Err(Fail::Bad);
        }
        $T($v as u8)
    }};
}

macro_rules! w16 {
    ($v:expr, $T:ident) => {{
        if $v > 0xffff {
            return Err(Fail::Bad);
        }
        $T($v as u16)
    }};
}

/// Display string of `<Type>(v)`; `Ok(None)` = the type has no Display
pub fn display_of(ty: &str, v: u32) -> Result<Option<String>, Fail> {
    Ok(Some(match ty {
        "TlsRecordType" => format!("{}", w8!(v, TlsRecordType)),
        "TlsHandshakeType" => format!("{}", w8!(v, TlsHandshakeType)),
        "TlsVersion" => format!("{}", w16!(v, TlsVersion)),
        "TlsHeartbeatMessageType" => format!("{}", w8!(v, TlsHeartbeatMessageType)),
        "TlsCompressionID" => format!("{}", w8!(v, TlsCompressionID)),
        "TlsAlertSeverity" => format!("{}", w8!(v, TlsAlertSeverity)),
        "TlsAlertDescription" => format!("{}", w8!(v, TlsAlertDescription)),
        "TlsExtensionType" => format!("{}", w16!(v, TlsExtensionType)),
        "SNIType" => format!("{}", w8!(v, SNIType)),
        "CertificateStatusType" => format!("{}", w8!(v, CertificateStatusType)),
        "NamedGroup" => format!("{}", w16!(v, NamedGroup)),
        "ECCurveType" => format!("{}", w8!(v, ECCurveType)),
        "HashAlgorithm" => format!("{}", w8!(v, HashAlgorithm)),
        "SignAlgorithm" => format!("{}", w8!(v, SignAlgorithm)),
        "SignatureScheme" => format!("{}", w16!(v, SignatureScheme)),
        "CtVersion" => format!("{}", w8!(v, CtVersion)),
        "TlsCipherSuiteID" => format!("{}", w16!(v, TlsCipherSuiteID)),
        "KeyUpdateRequest" => {
            let _ = w8!(v, KeyUpdateRequest);
            return Ok(None);
        }
        "PskKeyExchangeMode" => {
            let _ = w8!(v, PskKeyExchangeMode);
            return Ok(None);
        }
        _ => return Err(Fail::Bad),
    }))
}

/// Debug string of `<Type>(v)`; `Ok(None)` = the type has no Debug
pub fn debug_of(ty: &str, v: u32) -> Result<Option<String>, Fail> {
    Ok(Some(match ty {
        "TlsRecordType" => format!("{:?}", w8!(v, TlsRecordType)),
        "TlsHandshakeType" => format!("{:?}", w8!(v, TlsHandshakeType)),
        "TlsVersion" => format!("{:?}", w16!(v, TlsVersion)),
        "TlsHeartbeatMessageType" => format!("{:?}", w8!(v, TlsHeartbeatMessageType)),
        "TlsCompressionID" => format!("{:?}", w8!(v, TlsCompressionID)),
        "TlsAlertSeverity" => format!("{:?}", w8!(v, TlsAlertSeverity)),
        "TlsAlertDescription" => format!("{:?}", w8!(v, TlsAlertDescription)),
        "TlsExtensionType" => format!("{:?}", w16!(v, TlsExtensionType)),
        "PskKeyExchangeMode" => format!("{:?}", w8!(v, PskKeyExchangeMode)),
        "SNIType" => format!("{:?}", w8!(v, SNIType)),
        "CertificateStatusType" => format!("{:?}", w8!(v, CertificateStatusType)),
        "NamedGroup" => format!("{:?}", w16!(v, NamedGroup)),
        "HashAlgorithm" => format!("{:?}", w8!(v, HashAlgorithm)),
        "SignAlgorithm" => format!("{:?}", w8!(v, SignAlgorithm)),
        "SignatureScheme" => format!("{:?}", w16!(v, SignatureScheme)),
        "CtVersion" => format!("{:?}", w8!(v, CtVersion)),
        "TlsCipherSuiteID" => format!("{:?}", w16!(v, TlsCipherSuiteID)),
        "KeyUpdateRequest" => {
            let _ = w8!(v, KeyUpdateRequest);
            return Ok(None);
        }
        "ECCurveType" => {
            let _ = w8!(v, ECCurveType);
            return Ok(None);
        }
        _ => return Err(Fail::Bad),
    }))
}

pub fn disp_op(args: &[&str]) -> Resp {
    let (ty, v) = parse_tv(args)?;
    match display_of(&ty, v)? {
        Some(s) => ok_str(s),
        None => Err(Fail::Unsupported),
    }
}

pub fn dbg_op(args: &[&str]) -> Resp {
    let (ty, v) = parse_tv(args)?;
    match debug_of(&ty, v)? {
        Some(s) => ok_str(s),
        None => Err(Fail::Unsupported),
    }
}

/// A string produced by the crate, parsed back as an integer; -1 when it is not one
fn back(s: &str, radix: u32) -> i64 {
    i64::from_str_radix(s, radix).unwrap_or(-1)
}

/// All integer conversions the type offers, in the order:
/// From/Into, Deref, AsRef, to_be_bytes, LowerHex, from_u16, Display-as-decimal
pub fn conv_op(args: &[&str]) -> Resp {
    let (ty, v) = parse_tv(args)?;
    let r: Vec<i64> = match ty.as_str() {
        "TlsRecordType" => vec![u8::from(w8!(v, TlsRecordType)) as i64],
        "TlsHandshakeType" => vec![u8::from(w8!(v, TlsHandshakeType)) as i64],
        "TlsVersion" => {
            let x = w16!(v, TlsVersion);
            let b = x.to_be_bytes();
            vec![
                u16::from(x) as i64,
                ((b[0] as i64) << 8) | b[1] as i64,
                back(&format!("{:x}", x), 16),
            ]
        }
        "TlsHeartbeatMessageType" => vec![u8::from(w8!(v, TlsHeartbeatMessageType)) as i64],
        "TlsCompressionID" => {
            let x = w8!(v, TlsCompressionID);
            let r: &u8 = x.as_ref();
            vec![u8::from(x) as i64, *x as i64, *r as i64]
        }
        "TlsExtensionType" => {
            let x = w16!(v, TlsExtensionType);
            vec![
                u16::from(x) as i64,
                TlsExtensionType::from_u16(v as u16).0 as i64,
            ]
        }
        "TlsCipherSuiteID" => {
            let x = w16!(v, TlsCipherSuiteID);
            let r: &u16 = x.as_ref();
            vec![
                u16::from(x) as i64,
                *x as i64,
                *r as i64,
                back(&format!("{:x}", x), 16),
                back(&format!("{}", x), 10),
            ]
        }
        "KeyUpdateRequest" | "TlsAlertSeverity" | "TlsAlertDescription" | "PskKeyExchangeMode"
        | "SNIType" | "CertificateStatusType" | "ECCurveType" | "HashAlgorithm"
        | "SignAlgorithm" | "CtVersion" => {
            if v > 0xff {
                return Err(Fail::Bad);
            }
            Vec::new()
        }
        "NamedGroup" | "SignatureScheme" => {
            if v > 0xffff {
                return Err(Fail::Bad);
            }
            Vec::new()
        }
        _ => return Err(Fail::Bad),
    };
    let mut o = String::from("ok [");
    for (n, x) in r.iter().enumerate() {
        if n > 0 {
            o.push(' ');
        }
        o.push_str(&x.to_string());
    }
    o.push(']');
    Ok(o)
}
