//! `tlsverif`: drives the real `tls-parser` crate through the text line protocol of
//! /verif/PROTOCOL.md.
//!
//! * no arguments: one request per stdin line, one response per stdout line
//! * `--dump <what>`: print a table and exit (see dumps.rs)

mod dumps;
mod reg;
mod render;
#[cfg(feature = "serialize")]
mod ser;

use std::alloc::{GlobalAlloc, Layout, System};
use std::fmt::{self, Write as _};
use std::io::{self, BufRead, Write as _};
use std::panic::{catch_unwind, AssertUnwindSafe};
use std::sync::atomic::{AtomicUsize, Ordering};

use tls_parser::nom::error::Error as NomError;
use tls_parser::nom::{Err, IResult, Needed};
use tls_parser::*;

use render::{push_int, push_owned, resolve, Ctx, Mode, R};

// ------------------------------------------------------------------ heap accounting

struct Counting;

static CUR: AtomicUsize = AtomicUsize::new(0);
static PEAK: AtomicUsize = AtomicUsize::new(0);

#[inline]
fn heap_add(n: usize) {
    let c = CUR.fetch_add(n, Ordering::Relaxed).wrapping_add(n);
    PEAK.fetch_max(c, Ordering::Relaxed);
}

#[inline]
fn heap_sub(n: usize) {
    CUR.fetch_sub(n, Ordering::Relaxed);
}

unsafe impl GlobalAlloc for Counting {
    unsafe fn alloc(&self, l: Layout) -> *mut u8 {
        let p = System.alloc(l);
        if !p.is_null() {
            heap_add(l.size());
        }
        p
    }
    unsafe fn alloc_zeroed(&self, l: Layout) -> *mut u8 {
        let p = System.alloc_zeroed(l);
        if !p.is_null() {
            heap_add(l.size());
        }
        p
    }
    unsafe fn dealloc(&self, p: *mut u8, l: Layout) {
        System.dealloc(p, l);
        heap_sub(l.size());
    }
    unsafe fn realloc(&self, p: *mut u8, l: Layout, new_size: usize) -> *mut u8 {
        let q = System.realloc(p, l, new_size);
        if !q.is_null() {
            if new_size >= l.size() {
                heap_add(new_size - l.size());
            } else {
                heap_sub(l.size() - new_size);
            }
        }
        q
    }
}

#[global_allocator]
static ALLOC: Counting = Counting;

/// Start a measurement: peak := current. Returns the level at the start.
fn heap_begin() -> usize {
    let c = CUR.load(Ordering::Relaxed);
    PEAK.store(c, Ordering::Relaxed);
    c
}

/// Peak above the start level since `heap_begin`
fn heap_end(start: usize) -> usize {
    PEAK.load(Ordering::Relaxed).saturating_sub(start)
}

// ------------------------------------------------------------------ request plumbing

pub enum Fail {
    Bad,
    Unsupported,
}

pub type Resp = Result<String, Fail>;

fn hexval(c: u8) -> Option<u8> {
    match c {
        b'0'..=b'9' => Some(c - b'0'),
        b'a'..=b'f' => Some(c - b'a' + 10),
        _ => None,
    }
}

/// `H`: lowercase hex, `-` for the empty string
pub fn parse_h(s: &str) -> Result<Vec<u8>, Fail> {
    if s == "-" {
        return Ok(Vec::new());
    }
    parse_hex(s)
}

pub fn parse_hex(s: &str) -> Result<Vec<u8>, Fail> {
    let b = s.as_bytes();
    if b.len() % 2 != 0 {
        return Err(Fail::Bad);
    }
    let mut v = Vec::with_capacity(b.len() / 2);
    for ch in b.chunks_exact(2) {
        let hi = hexval(ch[0]).ok_or(Fail::Bad)?;
        let lo = hexval(ch[1]).ok_or(Fail::Bad)?;
        v.push(hi << 4 | lo);
    }
    Ok(v)
}

fn parse_num(s: &str, max: u64) -> Result<u64, Fail> {
    if s.is_empty() || !s.bytes().all(|c| c.is_ascii_digit()) {
        return Err(Fail::Bad);
    }
    let v: u64 = s.parse().map_err(|_| Fail::Bad)?;
    if v > max {
        return Err(Fail::Bad);
    }
    Ok(v)
}

fn num_u8(s: &str) -> Result<u8, Fail> {
    parse_num(s, 0xff).map(|v| v as u8)
}
fn num_u16(s: &str) -> Result<u16, Fail> {
    parse_num(s, 0xffff).map(|v| v as u16)
}
fn num_usize(s: &str) -> Result<usize, Fail> {
    parse_num(s, usize::MAX as u64).map(|v| v as usize)
}

fn nargs(args: &[&str], n: usize) -> Result<(), Fail> {
    if args.len() == n {
        Ok(())
    } else {
        Err(Fail::Bad)
    }
}

// ------------------------------------------------------------------ results

fn push_err(o: &mut String, e: &Err<NomError<&[u8]>>) {
    match e {
        Err::Incomplete(Needed::Size(n)) => {
            let _ = write!(o, "incomplete {}", n.get());
        }
        Err::Incomplete(Needed::Unknown) => o.push_str("incomplete ?"),
        Err::Error(e) => {
            let _ = write!(o, "error {:?}", e.code);
        }
        Err::Failure(e) => {
            let _ = write!(o, "failure {:?}", e.code);
        }
    }
}

struct Cnt(usize);
impl fmt::Write for Cnt {
    fn write_str(&mut self, s: &str) -> fmt::Result {
        self.0 += s.len();
        Ok(())
    }
}

/// Length of `format!("{:?}", v)`, `None` if formatting panicked or failed
fn debug_len<T: fmt::Debug>(v: &T) -> Option<usize> {
    match catch_unwind(AssertUnwindSafe(|| {
        let mut c = Cnt(0);
        write!(c, "{:?}", v).map(|_| c.0)
    })) {
        Ok(Ok(n)) => Some(n),
        _ => None,
    }
}

/// Render `v` with Display exercising on; if that panics, retry without and flag it.
/// Returns (rendered or None if even the plain rendering panicked, display_ok, pending).
fn render_guarded<T, G>(
    v: &T,
    buf: &[u8],
    mode: Mode,
    g: &G,
) -> (Option<String>, bool, Vec<render::Pending>)
where
    G: Fn(&T, &mut Ctx, &mut String),
{
    let mut ctx = Ctx::new(buf, mode);
    ctx.touch = true;
    let first = catch_unwind(AssertUnwindSafe(|| {
        let mut s = String::new();
        g(v, &mut ctx, &mut s);
        s
    }));
    if let Ok(s) = first {
        return (Some(s), true, ctx.pend);
    }
    let mut ctx = Ctx::new(buf, mode);
    let second = catch_unwind(AssertUnwindSafe(|| {
        let mut s = String::new();
        g(v, &mut ctx, &mut s);
        s
    }));
    match second {
        Ok(s) => (Some(s), false, ctx.pend),
        Err(_) => (None, false, Vec::new()),
    }
}

/// Run one pure parser on `input` and produce the full response line
/// (result + side observations).
fn run<'a, T, F, G>(input: &'a [u8], f: F, g: G) -> String
where
    F: FnOnce(&'a [u8]) -> IResult<&'a [u8], T>,
    T: fmt::Debug,
    G: Fn(&T, &mut Ctx, &mut String),
{
    let start = heap_begin();
    let res = catch_unwind(AssertUnwindSafe(|| f(input)));
    let heap = heap_end(start);
    let mut o = String::new();
    match res {
        Err(_) => {
            o.push_str("panic");
            let _ = write!(o, "\theap={}", heap);
        }
        Ok(Err(e)) => {
            push_err(&mut o, &e);
            let _ = write!(o, "\theap={}", heap);
        }
        Ok(Ok((rem, v))) => {
            let fmt_len = debug_len(&v);
            let (s, disp_ok, _) = render_guarded(&v, input, Mode::Input, &g);
            match s {
                None => {
                    o.push_str("panic");
                    let _ = write!(o, "\theap={}", heap);
                }
                Some(s) => {
                    let _ = write!(o, "ok {} {}\theap={}", rem.len(), s, heap);
                    match fmt_len {
                        Some(n) if disp_ok => {
                            let _ = write!(o, "\tfmt={}", n);
                        }
                        _ => o.push_str("\tfmt=panic"),
                    }
                    o.push_str("\tremptr=");
                    o.push_str(remptr(input, rem));
                }
            }
        }
    }
    o
}

fn remptr(input: &[u8], rem: &[u8]) -> &'static str {
    if rem.is_empty() {
        return "na";
    }
    if rem.len() <= input.len()
        && rem.as_ptr() as usize == input.as_ptr() as usize + (input.len() - rem.len())
    {
        "ok"
    } else {
        "bad"
    }
}

// ------------------------------------------------------------------ pure ops

fn ext_type_of_render(e: &TlsExtension, _c: &mut Ctx, o: &mut String) {
    let t = TlsExtensionType::from(e);
    push_int(o, u16::from(t) as u64);
}

#[allow(deprecated)]
fn pure_op(op: &str, args: &[&str]) -> Resp {
    // <op> H
    macro_rules! p1 {
        ($f:path) => {{
            nargs(args, 1)?;
            let b = parse_h(args[0])?;
            Ok(run(&b, |i| $f(i), R::r))
        }};
    }
    // <op> L H  with  f(H, L as usize)
    macro_rules! p_len {
        ($f:path) => {{
            nargs(args, 2)?;
            let l = num_usize(args[0])?;
            let b = parse_h(args[1])?;
            Ok(run(&b, |i| $f(i, l), R::r))
        }};
    }
    match op {
        "tls_header" => p1!(parse_tls_record_header),
        "tls_raw" => p1!(parse_tls_raw_record),
        "tls_encrypted" => p1!(parse_tls_encrypted),
        "tls_plaintext" => p1!(parse_tls_plaintext),
        "tls_parser" => p1!(tls_parser),
        "tls_many" => p1!(tls_parser_many),
        "rec_with_hdr" => {
            nargs(args, 4)?;
            let hdr = TlsRecordHeader {
                record_type: TlsRecordType(num_u8(args[0])?),
                version: TlsVersion(num_u16(args[1])?),
                len: num_u16(args[2])?,
            };
            let b = parse_h(args[3])?;
            Ok(run(&b, |i| parse_tls_record_with_header(i, &hdr), R::r))
        }
        "msg_ccs" => p1!(parse_tls_message_changecipherspec),
        "msg_alert" => p1!(parse_tls_message_alert),
        "msg_appdata" => p1!(parse_tls_message_applicationdata),
        "msg_handshake" => p1!(parse_tls_message_handshake),
        "msg_heartbeat" => {
            nargs(args, 2)?;
            let l = num_u16(args[0])?;
            let b = parse_h(args[1])?;
            Ok(run(&b, |i| parse_tls_message_heartbeat(i, l), R::r))
        }
        "hs_hello_request" => p1!(parse_tls_handshake_msg_hello_request),
        "hs_client_hello" => p1!(parse_tls_handshake_client_hello),
        "hs_msg_client_hello" => p1!(parse_tls_handshake_msg_client_hello),
        "hs_server_hello" => p1!(parse_tls_handshake_server_hello),
        "hs_msg_server_hello" => p1!(parse_tls_handshake_msg_server_hello),
        "hs_newsessionticket" => p_len!(parse_tls_handshake_msg_newsessionticket),
        "hs_hello_retry_request" => p1!(parse_tls_handshake_msg_hello_retry_request),
        "hs_certificate" => p1!(parse_tls_handshake_msg_certificate),
        "hs_serverkeyexchange" => p_len!(parse_tls_handshake_msg_serverkeyexchange),
        "hs_serverdone" => p_len!(parse_tls_handshake_msg_serverdone),
        "hs_certificateverify" => p_len!(parse_tls_handshake_msg_certificateverify),
        "hs_clientkeyexchange" => p_len!(parse_tls_handshake_msg_clientkeyexchange),
        "hs_finished" => p_len!(parse_tls_handshake_msg_finished),
        "hs_certificaterequest" => p1!(parse_tls_handshake_certificaterequest),
        "hs_msg_certificaterequest" => p1!(parse_tls_handshake_msg_certificaterequest),
        "hs_certificatestatus" => p1!(parse_tls_handshake_certificatestatus),
        "hs_msg_certificatestatus" => p1!(parse_tls_handshake_msg_certificatestatus),
        "hs_next_protocol" => p1!(parse_tls_handshake_next_protocol),
        "hs_msg_next_protocol" => p1!(parse_tls_handshake_msg_next_protocol),
        "hs_key_update" => p1!(parse_tls_handshake_msg_key_update),
        "ext" => p1!(parse_tls_extension),
        "ext_client" => p1!(parse_tls_client_hello_extension),
        "ext_server" => p1!(parse_tls_server_hello_extension),
        "exts" => p1!(parse_tls_extensions),
        "exts_client" => p1!(parse_tls_client_hello_extensions),
        "exts_server" => p1!(parse_tls_server_hello_extensions),
        "ext_sni_hostname" => p1!(parse_tls_extension_sni_hostname),
        "ext_unknown" => p1!(parse_tls_extension_unknown),
        "ext_type_of" => {
            nargs(args, 2)?;
            let b = parse_h(args[1])?;
            match args[0] {
                "ext" => Ok(run(&b, |i| parse_tls_extension(i), ext_type_of_render)),
                "ext_client" => Ok(run(
                    &b,
                    |i| parse_tls_client_hello_extension(i),
                    ext_type_of_render,
                )),
                "ext_server" => Ok(run(
                    &b,
                    |i| parse_tls_server_hello_extension(i),
                    ext_type_of_render,
                )),
                _ => Err(Fail::Bad),
            }
        }
        "dh" => p1!(parse_dh_params),
        "ec_params" => p1!(parse_ec_parameters),
        "ecdh" => p1!(parse_ecdh_params),
        "named_groups" => p1!(parse_named_groups),
        "dsig" => p1!(parse_digitally_signed),
        "dsig_old" => p1!(parse_digitally_signed_old),
        "content_sig" => {
            nargs(args, 3)?;
            let flag = match args[1] {
                "0" => false,
                "1" => true,
                _ => return Err(Fail::Bad),
            };
            let b = parse_h(args[2])?;
            match args[0] {
                "dh" => Ok(run(
                    &b,
                    |i| parse_content_and_signature(i, parse_dh_params, flag),
                    R::r,
                )),
                "ecdh" => Ok(run(
                    &b,
                    |i| parse_content_and_signature(i, parse_ecdh_params, flag),
                    R::r,
                )),
                _ => Err(Fail::Bad),
            }
        }
        "sct" => p1!(parse_ct_signed_certificate_timestamp),
        "sct_list" => p1!(parse_ct_signed_certificate_timestamp_list),
        "dtls_header" => p1!(parse_dtls_record_header),
        "dtls_record" => p1!(parse_dtls_plaintext_record),
        "dtls_records" => p1!(parse_dtls_plaintext_records),
        "dtls_hs" => p1!(parse_dtls_message_handshake),
        "dtls_ccs" => p1!(parse_dtls_message_changecipherspec),
        "dtls_alert" => p1!(parse_dtls_message_alert),
        "dtls_rec_with_hdr" => {
            nargs(args, 4)?;
            let hdr = DTLSRecordHeader {
                content_type: TlsRecordType(num_u8(args[0])?),
                version: TlsVersion(num_u16(args[1])?),
                epoch: 0,
                sequence_number: 0,
                length: num_u16(args[2])?,
            };
            let b = parse_h(args[3])?;
            Ok(run(&b, |i| parse_dtls_record_with_header(i, &hdr), R::r))
        }
        _ => {
            if let Some(name) = op.strip_prefix("ext_tag_") {
                return match name {
                    "sni" => p1!(parse_tls_extension_sni),
                    "max_fragment_length" => p1!(parse_tls_extension_max_fragment_length),
                    "status_request" => p1!(parse_tls_extension_status_request),
                    "elliptic_curves" => p1!(parse_tls_extension_elliptic_curves),
                    "ec_point_formats" => p1!(parse_tls_extension_ec_point_formats),
                    "signature_algorithms" => p1!(parse_tls_extension_signature_algorithms),
                    "heartbeat" => p1!(parse_tls_extension_heartbeat),
                    "encrypt_then_mac" => p1!(parse_tls_extension_encrypt_then_mac),
                    "extended_master_secret" => p1!(parse_tls_extension_extended_master_secret),
                    "session_ticket" => p1!(parse_tls_extension_session_ticket),
                    "key_share" => p1!(parse_tls_extension_key_share),
                    "pre_shared_key" => p1!(parse_tls_extension_pre_shared_key),
                    "early_data" => p1!(parse_tls_extension_early_data),
                    "supported_versions" => p1!(parse_tls_extension_supported_versions),
                    "cookie" => p1!(parse_tls_extension_cookie),
                    "psk_key_exchange_modes" => p1!(parse_tls_extension_psk_key_exchange_modes),
                    _ => Err(Fail::Unsupported),
                };
            }
            if let Some(name) = op.strip_prefix("ext_c_") {
                return match name {
                    "sni" => p1!(parse_tls_extension_sni_content),
                    "max_fragment_length" => p1!(parse_tls_extension_max_fragment_length_content),
                    "elliptic_curves" => p1!(parse_tls_extension_elliptic_curves_content),
                    "ec_point_formats" => p1!(parse_tls_extension_ec_point_formats_content),
                    "signature_algorithms" => {
                        p1!(parse_tls_extension_signature_algorithms_content)
                    }
                    "heartbeat" => p1!(parse_tls_extension_heartbeat_content),
                    "alpn" => p1!(parse_tls_extension_alpn_content),
                    "signed_certificate_timestamp" => {
                        p1!(parse_tls_extension_signed_certificate_timestamp_content)
                    }
                    "psk_key_exchange_modes" => {
                        p1!(parse_tls_extension_psk_key_exchange_modes_content)
                    }
                    "renegotiation_info" => p1!(parse_tls_extension_renegotiation_info_content),
                    "encrypted_server_name" => p1!(parse_tls_extension_encrypted_server_name),
                    _ => Err(Fail::Unsupported),
                };
            }
            Err(Fail::Unsupported)
        }
    }
}

// ------------------------------------------------------------------ state machine

pub const ALL_STATES: [TlsState; 25] = [
    TlsState::None,
    TlsState::ClientHello,
    TlsState::AskResumeSession,
    TlsState::ResumeSession,
    TlsState::ServerHello,
    TlsState::Certificate,
    TlsState::CertificateSt,
    TlsState::ServerKeyExchange,
    TlsState::ServerHelloDone,
    TlsState::ClientKeyExchange,
    TlsState::ClientChangeCipherSpec,
    TlsState::CRCertRequest,
    TlsState::CRHelloDone,
    TlsState::CRCert,
    TlsState::CRClientKeyExchange,
    TlsState::CRCertVerify,
    TlsState::NoCertSKE,
    TlsState::NoCertHelloDone,
    TlsState::NoCertCKE,
    TlsState::PskHelloDone,
    TlsState::PskCKE,
    TlsState::SessionEncrypted,
    TlsState::Alert,
    TlsState::Finished,
    TlsState::Invalid,
];

/// Index of a state = position in `ALL_STATES` (declaration order)
pub fn state_index(s: TlsState) -> usize {
    ALL_STATES
        .iter()
        .position(|&x| x == s)
        .expect("state listed in ALL_STATES")
}

/// `ok N | err Name | panic`
pub fn transition(state: TlsState, msg: &TlsMessage, to_server: bool) -> String {
    match catch_unwind(AssertUnwindSafe(|| {
        tls_state_transition(state, msg, to_server)
    })) {
        Ok(Ok(s)) => format!("ok {}", state_index(s)),
        Ok(Err(e)) => format!("err {:?}", e),
        Err(_) => "panic".to_string(),
    }
}

fn st_op(args: &[&str]) -> Resp {
    if args.len() < 3 {
        return Err(Fail::Bad);
    }
    let si = parse_num(args[0], 24)? as usize;
    let state = ALL_STATES[si];
    let to_server = match args[1] {
        "0" => false,
        "1" => true,
        _ => return Err(Fail::Bad),
    };
    let rest = &args[3..];
    match args[2] {
        "hs" => {
            nargs(rest, 1)?;
            let b = parse_h(rest[0])?;
            let parsed = catch_unwind(AssertUnwindSafe(|| parse_tls_message_handshake(&b)));
            match parsed {
                Err(_) => Ok("panic".to_string()),
                Ok(Err(_)) => Ok("badmsg".to_string()),
                Ok(Ok((_, msg))) => Ok(transition(state, &msg, to_server)),
            }
        }
        // a *constructed* ClientHello (TlsClientHelloContents::new): values no parser produces, e.g. Some(&[])
        "chnew" => {
            nargs(rest, 2)?;
            let sid = opt_h(rest[0])?;
            let ext = opt_h(rest[1])?;
            let random = [7u8; 32];
            let ch = TlsClientHelloContents::new(
                0x0303,
                &random,
                sid.as_deref(),
                vec![TlsCipherSuiteID(0x2f)],
                vec![TlsCompressionID(0)],
                ext.as_deref(),
            );
            let msg = TlsMessage::Handshake(TlsMessageHandshake::ClientHello(ch));
            Ok(transition(state, &msg, to_server))
        }
        // a *constructed* ServerHello (TlsServerHelloContents::new) of any version, e.g. the draft-18 number in the 1.2 structure
        "shnew" => {
            nargs(rest, 2)?;
            let v = num_u16(rest[0])?;
            let ext = opt_h(rest[1])?;
            let random = [9u8; 32];
            let sh = TlsServerHelloContents::new(v, &random, None, 0x2f, 0, ext.as_deref());
            let msg = TlsMessage::Handshake(TlsMessageHandshake::ServerHello(sh));
            Ok(transition(state, &msg, to_server))
        }
        "ccs" => {
            nargs(rest, 0)?;
            Ok(transition(state, &TlsMessage::ChangeCipherSpec, to_server))
        }
        "alert" => {
            nargs(rest, 2)?;
            let msg = TlsMessage::Alert(TlsMessageAlert {
                severity: TlsAlertSeverity(num_u8(rest[0])?),
                code: TlsAlertDescription(num_u8(rest[1])?),
            });
            Ok(transition(state, &msg, to_server))
        }
        "app" => {
            nargs(rest, 1)?;
            let b = parse_h(rest[0])?;
            let msg = TlsMessage::ApplicationData(TlsMessageApplicationData { blob: &b });
            Ok(transition(state, &msg, to_server))
        }
        "hb" => {
            nargs(rest, 2)?;
            let t = num_u8(rest[0])?;
            let b = parse_h(rest[1])?;
            let msg = TlsMessage::Heartbeat(TlsMessageHeartbeat {
                heartbeat_type: TlsHeartbeatMessageType(t),
                payload_len: b.len() as u16,
                payload: &b,
            });
            Ok(transition(state, &msg, to_server))
        }
        _ => Err(Fail::Bad),
    }
}

// ------------------------------------------------------------------ defragmenter histories

enum Step {
    Parse(TlsRecordHeader, Vec<u8>),
    NoCopy(TlsRecordHeader, Vec<u8>),
    Reset,
}

fn parse_step(s: &str) -> Result<Step, Fail> {
    if s == "r" {
        return Ok(Step::Reset);
    }
    let parts: Vec<&str> = s.split(':').collect();
    if parts.len() != 5 {
        return Err(Fail::Bad);
    }
    let hdr = TlsRecordHeader {
        record_type: TlsRecordType(num_u8(parts[1])?),
        version: TlsVersion(num_u16(parts[2])?),
        len: num_u16(parts[3])?,
    };
    let data = parse_h(parts[4])?;
    match parts[0] {
        "p" => Ok(Step::Parse(hdr, data)),
        "n" => Ok(Step::NoCopy(hdr, data)),
        _ => Err(Fail::Bad),
    }
}

/// What was observed about one step's result while it was still alive
struct StepObs {
    /// result text, possibly with placeholders
    text: String,
    pend: Vec<render::Pending>,
    /// (ptr, len) of a non-empty remainder
    rem: Option<(usize, usize)>,
    fmt: Option<usize>,
    fmt_panic: bool,
}

fn observe_step(
    res: std::thread::Result<IResult<&[u8], Vec<TlsMessage>>>,
    data: &[u8],
) -> StepObs {
    let mut obs = StepObs {
        text: String::new(),
        pend: Vec::new(),
        rem: None,
        fmt: None,
        fmt_panic: false,
    };
    match res {
        Err(_) => obs.text.push_str("panic"),
        Ok(Err(e)) => push_err(&mut obs.text, &e),
        Ok(Ok((rem, v))) => {
            let fmt_len = debug_len(&v);
            let (s, disp_ok, pend) = render_guarded(&v, data, Mode::Defer, &R::r);
            match s {
                None => obs.text.push_str("panic"),
                Some(s) => {
                    let _ = write!(obs.text, "ok {} {}", rem.len(), s);
                    obs.pend = pend;
                    if !rem.is_empty() {
                        obs.rem = Some((rem.as_ptr() as usize, rem.len()));
                    }
                    match fmt_len {
                        Some(n) if disp_ok => obs.fmt = Some(n),
                        _ => obs.fmt_panic = true,
                    }
                }
            }
        }
    }
    obs
}

fn rp_op(args: &[&str]) -> Resp {
    // no step at all: empty result (nothing was observed)
    let mut steps = Vec::with_capacity(args.len());
    for a in args {
        steps.push(parse_step(a)?);
    }
    let mut parser = TlsRecordsParser::default();
    let mut out = String::new();
    let mut heap_max = 0usize;
    let mut fmt_sum = 0usize;
    let mut fmt_panic = false;
    // remptr over the history: every non-empty remainder must end exactly at the end of
    // the buffer it points into (this step's H, or the defragmenter buffer)
    let mut rem_seen = false;
    let mut rem_bad = false;
    for (n, step) in steps.iter().enumerate() {
        if n > 0 {
            out.push_str(" ; ");
        }
        match step {
            Step::Reset => {
                let r = catch_unwind(AssertUnwindSafe(|| parser.reset()));
                out.push_str(if r.is_ok() { "reset" } else { "panic" });
            }
            Step::Parse(hdr, data) | Step::NoCopy(hdr, data) => {
                let record = TlsRawRecord {
                    hdr: *hdr,
                    data: &data[..],
                };
                let nocopy = matches!(step, Step::NoCopy(..));
                let obs = {
                    let p = &mut parser;
                    let start = heap_begin();
                    let res = catch_unwind(AssertUnwindSafe(move || {
                        if nocopy {
                            p.parse_record_nocopy(record)
                        } else {
                            p.parse_record(record)
                        }
                    }));
                    let heap = heap_end(start);
                    heap_max = heap_max.max(heap);
                    observe_step(res, data)
                    // the result (which may borrow the parser) is dropped here
                };
                let buf = parser.verif_defrag_buffer();
                let (bb, bl) = (buf.as_ptr() as usize, buf.len());
                out.push_str(&resolve(&obs.text, &obs.pend, bb, bl));
                if let Some(n) = obs.fmt {
                    fmt_sum += n;
                }
                fmt_panic |= obs.fmt_panic;
                if let Some((rp, rl)) = obs.rem {
                    rem_seen = true;
                    let (db, dl) = (data.as_ptr() as usize, data.len());
                    let in_data = rp >= db && rp < db + dl;
                    let in_buf = rp >= bb && rp < bb + bl;
                    let ok = if in_data {
                        rp + rl == db + dl
                    } else if in_buf {
                        rp + rl == bb + bl
                    } else {
                        false
                    };
                    rem_bad |= !ok;
                }
            }
        }
        let inprog = catch_unwind(AssertUnwindSafe(|| parser.defrag_in_progress()));
        let _ = write!(
            out,
            " | {} | {}",
            match inprog {
                Ok(true) => "1",
                Ok(false) => "0",
                Err(_) => "panic",
            },
            parser.verif_defrag_buffer().len()
        );
    }
    let _ = write!(out, "\theap={}", heap_max);
    if fmt_panic {
        out.push_str("\tfmt=panic");
    } else {
        let _ = write!(out, "\tfmt={}", fmt_sum);
    }
    out.push_str("\tremptr=");
    out.push_str(if !rem_seen {
        "na"
    } else if rem_bad {
        "bad"
    } else {
        "ok"
    });
    Ok(out)
}

// ------------------------------------------------------------------ accessors / constructors

/// `<id>` or `none`
fn push_suite(o: &mut String, s: &Option<&'static TlsCipherSuite>) {
    match s {
        Some(cs) => push_int(o, cs.id.0 as u64),
        None => o.push_str("none"),
    }
}

fn push_suites(o: &mut String, v: &[Option<&'static TlsCipherSuite>]) {
    o.push('[');
    for (n, s) in v.iter().enumerate() {
        if n > 0 {
            o.push(' ');
        }
        push_suite(o, s);
    }
    o.push(']');
}

/// `(Acc version random sid ciphers comp ext rand_time rand_bytes [cipher_suites] [get_ciphers] get_version)`
/// through the `ClientHello` trait accessors
fn push_acc<'a, C: ClientHello<'a>>(
    ch: &C,
    c: &mut Ctx,
    o: &mut String,
    get_ciphers: &[Option<&'static TlsCipherSuite>],
    get_version: u16,
) {
    o.push_str("(Acc ");
    ch.version().r(c, o);
    o.push(' ');
    ch.random().r(c, o);
    o.push(' ');
    ch.session_id().r(c, o);
    o.push(' ');
    ch.ciphers().r(c, o);
    o.push(' ');
    ch.comp().r(c, o);
    o.push(' ');
    ch.ext().r(c, o);
    o.push(' ');
    push_int(o, ch.rand_time() as u64);
    o.push(' ');
    ch.rand_bytes().r(c, o);
    o.push(' ');
    push_suites(o, &ch.cipher_suites());
    o.push(' ');
    push_suites(o, get_ciphers);
    o.push(' ');
    push_int(o, get_version as u64);
    o.push(')');
}

fn opt_h(s: &str) -> Result<Option<Vec<u8>>, Fail> {
    if s == "none" {
        Ok(None)
    } else {
        parse_h(s).map(Some)
    }
}

fn num_list(s: &str, max: u64) -> Result<Vec<u64>, Fail> {
    if s == "-" {
        return Ok(Vec::new());
    }
    s.split(',').map(|x| parse_num(x, max)).collect()
}

fn hello_acc_op(args: &[&str]) -> Resp {
    nargs(args, 2)?;
    let b = parse_h(args[1])?;
    match args[0] {
        "tls" => {
            let mut o = String::new();
            match parse_tls_handshake_client_hello(&b) {
                Err(e) => push_err(&mut o, &e),
                Ok((_, ch)) => {
                    let mut c = Ctx::new(&b, Mode::Input);
                    o.push_str("ok ");
                    let gc = ch.get_ciphers();
                    let gv = ch.get_version().0;
                    push_acc(&ch, &mut c, &mut o, &gc, gv);
                }
            }
            Ok(o)
        }
        "dtls" => {
            let mut o = String::new();
            match parse_dtls_message_handshake(&b) {
                Err(e) => push_err(&mut o, &e),
                Ok((_, DTLSMessage::Handshake(h))) => match &h.body {
                    DTLSMessageHandshakeBody::ClientHello(ch) => {
                        let mut c = Ctx::new(&b, Mode::Input);
                        o.push_str("ok ");
                        push_acc(ch, &mut c, &mut o, &[], 0);
                    }
                    _ => o.push_str("badmsg"),
                },
                Ok(_) => o.push_str("badmsg"),
            }
            Ok(o)
        }
        _ => Err(Fail::Bad),
    }
}

fn hello_new_op(args: &[&str]) -> Resp {
    if args.is_empty() {
        return Err(Fail::Bad);
    }
    match args[0] {
        "ch" => {
            nargs(args, 7)?;
            let v = num_u16(args[1])?;
            let random = parse_h(args[2])?;
            let sid = opt_h(args[3])?;
            let ciphers: Vec<TlsCipherSuiteID> = num_list(args[4], 0xffff)?
                .into_iter()
                .map(|x| TlsCipherSuiteID(x as u16))
                .collect();
            let comp: Vec<TlsCompressionID> = num_list(args[5], 0xff)?
                .into_iter()
                .map(|x| TlsCompressionID(x as u8))
                .collect();
            let ext = opt_h(args[6])?;
            let ch = TlsClientHelloContents::new(
                v,
                &random,
                sid.as_deref(),
                ciphers,
                comp,
                ext.as_deref(),
            );
            let mut c = Ctx::owned();
            let mut o = String::from("ok ");
            let gc = ch.get_ciphers();
            let gv = ch.get_version().0;
            push_acc(&ch, &mut c, &mut o, &gc, gv);
            Ok(o)
        }
        "sh" => {
            nargs(args, 7)?;
            let v = num_u16(args[1])?;
            let random = parse_h(args[2])?;
            let sid = opt_h(args[3])?;
            let cipher = num_u16(args[4])?;
            let comp = num_u8(args[5])?;
            let ext = opt_h(args[6])?;
            let sh = TlsServerHelloContents::new(
                v,
                &random,
                sid.as_deref(),
                cipher,
                comp,
                ext.as_deref(),
            );
            let mut c = Ctx::owned();
            let c = &mut c;
            let mut o = String::from("ok (ShAcc ");
            sh.version.r(c, &mut o);
            o.push(' ');
            sh.random.r(c, &mut o);
            o.push(' ');
            sh.session_id.r(c, &mut o);
            o.push(' ');
            sh.cipher.r(c, &mut o);
            o.push(' ');
            sh.compression.r(c, &mut o);
            o.push(' ');
            sh.ext.r(c, &mut o);
            o.push(' ');
            push_int(&mut o, sh.get_version().0 as u64);
            o.push(' ');
            push_suite(&mut o, &sh.get_cipher());
            o.push(')');
            Ok(o)
        }
        _ => Err(Fail::Bad),
    }
}

// ------------------------------------------------------------------ cipher suite registry

fn push_opt_id(o: &mut String, s: Option<&'static TlsCipherSuite>) {
    match s {
        Some(cs) => {
            let _ = write!(o, "(some {})", cs.id.0);
        }
        None => o.push_str("none"),
    }
}

fn cs_id_op(args: &[&str]) -> Resp {
    use std::convert::TryFrom;
    nargs(args, 1)?;
    let n = num_u16(args[0])?;
    let mut o = String::from("ok (R ");
    push_opt_id(&mut o, TlsCipherSuite::from_id(n));
    o.push(' ');
    push_opt_id(&mut o, <&TlsCipherSuite>::try_from(n).ok());
    o.push(' ');
    push_opt_id(&mut o, <&TlsCipherSuite>::try_from(TlsCipherSuiteID(n)).ok());
    o.push(' ');
    push_opt_id(&mut o, TlsCipherSuiteID(n).get_ciphersuite());
    o.push(')');
    Ok(o)
}

fn cs_row_op(args: &[&str]) -> Resp {
    nargs(args, 1)?;
    let n = num_u16(args[0])?;
    match TlsCipherSuite::from_id(n) {
        None => Ok("ok none".to_string()),
        Some(cs) => {
            let mut o = String::from("ok (Row ");
            push_int(&mut o, cs.id.0 as u64);
            o.push(' ');
            push_owned(&mut o, cs.name.as_bytes());
            let _ = write!(
                o,
                " {} {} {} {} {} {} {} {} {} {} {})",
                cs.kx as u8,
                cs.au as u8,
                cs.enc as u8,
                cs.enc_mode as u8,
                cs.enc_size,
                cs.mac as u8,
                cs.mac_size,
                cs.prf as u8,
                cs.enc_key_size(),
                cs.enc_block_size(),
                cs.mac_length()
            );
            Ok(o)
        }
    }
}

fn cs_name_op(args: &[&str]) -> Resp {
    use std::convert::TryFrom;
    nargs(args, 1)?;
    let b = parse_h(args[0])?;
    let name = std::str::from_utf8(&b).map_err(|_| Fail::Bad)?;
    let mut o = String::from("ok (N ");
    push_opt_id(&mut o, TlsCipherSuite::from_name(name));
    o.push(' ');
    push_opt_id(&mut o, <&TlsCipherSuite>::try_from(name).ok());
    o.push(')');
    Ok(o)
}

/// `cs_name_bulk <seed> <count>`: `count` strings that are *not* registry names - registry names with a decimal or
/// alphabetic tail, a changed character, or a changed prefix, drawn from a xorshift stream - through both name routes:
/// how many resolved to a suite, and the first few that did (hex of the string, id found).
fn cs_name_bulk_op(args: &[&str]) -> Resp {
    use std::convert::TryFrom;
    nargs(args, 2)?;
    let mut x = parse_num(args[0], u64::MAX >> 1)? | 1;
    let count = parse_num(args[1], 1 << 32)?;
    let mut names: Vec<&'static str> = CIPHERS.values().map(|c| c.name).collect();
    names.sort_unstable();
    let set: std::collections::HashSet<&str> = names.iter().copied().collect();
    let mut hits = 0u64;
    let mut first = String::new();
    let mut s = String::with_capacity(96);
    for _ in 0..count {
        x ^= x << 13;
        x ^= x >> 7;
        x ^= x << 17;
        let base = names[(x >> 20) as usize % names.len()];
        s.clear();
        match (x >> 8) & 3 {
            0 => {
                s.push_str(base);
                let _ = write!(s, "_{}", x >> 33);
            }
            1 => {
                s.push_str(base);
                for k in 0..(1 + (x >> 12) % 5) {
                    s.push((b'A' + ((x >> (16 + 5 * k)) % 26) as u8) as char);
                }
            }
            2 => {
                let b = base.as_bytes();
                let p = (x >> 12) as usize % b.len();
                let c = b'0' + ((x >> 30) % 75) as u8;
                s.push_str(&base[..p]);
                s.push(c as char);
                s.push_str(&base[p + 1..]);
            }
            _ => {
                let _ = write!(s, "T{}", x >> 40);
                s.push_str(&base[3.min(base.len())..]);
            }
        }
        if set.contains(s.as_str()) {
            continue;
        }
        let a = TlsCipherSuite::from_name(&s);
        let b = <&TlsCipherSuite>::try_from(s.as_str()).ok();
        if a.is_some() || b.is_some() {
            hits += 1;
            if hits <= 3 {
                let id = a.or(b).map(|c| c.id.0).unwrap_or(0);
                let _ = write!(first, " ({} ", id);
                push_owned(&mut first, s.as_bytes());
                first.push(')');
            }
        }
    }
    Ok(format!("ok (Bulk {} {}{})", count, hits, first))
}

fn keybits_op(args: &[&str]) -> Resp {
    nargs(args, 1)?;
    let v = num_u16(args[0])?;
    Ok(match NamedGroup(v).key_bits() {
        None => "ok none".to_string(),
        Some(b) => format!("ok (some {})", b),
    })
}

fn sigscheme_op(args: &[&str]) -> Resp {
    nargs(args, 1)?;
    let s = SignatureScheme(num_u16(args[0])?);
    Ok(format!(
        "ok (S {} {} {})",
        s.is_reserved() as u8,
        s.hash_alg(),
        s.sign_alg()
    ))
}

// ------------------------------------------------------------------ dispatch

fn dispatch(line: &str) -> Resp {
    let (op, rest) = match line.find(' ') {
        Some(p) => (&line[..p], &line[p + 1..]),
        None => (line, ""),
    };
    if op.is_empty() {
        return Err(Fail::Bad);
    }
    if op.starts_with("ser_") {
        #[cfg(feature = "serialize")]
        {
            return ser::ser_op(op, rest);
        }
        #[cfg(not(feature = "serialize"))]
        {
            return Err(Fail::Unsupported);
        }
    }
    let args: Vec<&str> = if rest.is_empty() {
        Vec::new()
    } else {
        rest.split(' ').collect()
    };
    if args.iter().any(|a| a.is_empty()) {
        return Err(Fail::Bad);
    }
    match op {
        "st" => st_op(&args),
        "rp" => rp_op(&args),
        "hello_acc" => hello_acc_op(&args),
        "hello_new" => hello_new_op(&args),
        "cs_id" => cs_id_op(&args),
        "cs_row" => cs_row_op(&args),
        "cs_name" => cs_name_op(&args),
        "cs_name_bulk" => cs_name_bulk_op(&args),
        "disp" => reg::disp_op(&args),
        "dbg" => reg::dbg_op(&args),
        "conv" => reg::conv_op(&args),
        "keybits" => keybits_op(&args),
        "sigscheme" => sigscheme_op(&args),
        _ => pure_op(op, &args),
    }
}

pub fn handle(line: &str) -> String {
    match catch_unwind(AssertUnwindSafe(|| dispatch(line))) {
        Ok(Ok(s)) => s,
        Ok(Err(Fail::Bad)) => "badrequest".to_string(),
        Ok(Err(Fail::Unsupported)) => "unsupported".to_string(),
        Err(_) => "panic".to_string(),
    }
}

pub fn main_entry() {
    std::panic::set_hook(Box::new(|_| {}));
    let argv: Vec<String> = std::env::args().collect();
    let stdout = io::stdout();
    let mut out = io::BufWriter::with_capacity(1 << 20, stdout.lock());
    if argv.len() > 1 {
        if argv.len() == 3 && argv[1] == "--dump" {
            if !dumps::dump(&argv[2], &mut out) {
                let _ = out.flush();
                eprintln!("unknown dump: {}", argv[2]);
                std::process::exit(2);
            }
            let _ = out.flush();
            return;
        }
        eprintln!("usage: tlsverif [--dump states|ciphers|constants|names|extdispatch|exttypeof|keybits]");
        std::process::exit(2);
    }
    let stdin = io::stdin();
    let mut inp = io::BufReader::with_capacity(1 << 20, stdin.lock());
    let mut line: Vec<u8> = Vec::new();
    loop {
        line.clear();
        match inp.read_until(b'\n', &mut line) {
            Ok(0) => break,
            Ok(_) => {}
            Err(_) => break,
        }
        while matches!(line.last(), Some(b'\n') | Some(b'\r')) {
            line.pop();
        }
        let resp = match std::str::from_utf8(&line) {
            Ok(l) if l.is_ascii() => handle(l),
            _ => "badrequest".to_string(),
        };
        if out.write_all(resp.as_bytes()).is_err() || out.write_all(b"\n").is_err() {
            break;
        }
    }
    let _ = out.flush();
}
