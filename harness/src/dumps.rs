//! `--dump <what>` tables: complete enumerations of the finite parts of the crate.

use std::io::Write;
use std::panic::{catch_unwind, AssertUnwindSafe};

use crate::reg::{debug_of, display_of};
use crate::render::ext_variant_name;
use crate::{transition, ALL_STATES};
use tls_parser::nom::IResult;
use tls_parser::*;

pub fn dump<W: Write>(what: &str, out: &mut W) -> bool {
    match what {
        "states" => dump_states(out),
        "ciphers" => dump_ciphers(out),
        "constants" => dump_constants(out),
        "names" => dump_names(out),
        "extdispatch" => dump_extdispatch(out),
        "exttypeof" => dump_exttypeof(out),
        "keybits" => dump_keybits(out),
        _ => return false,
    }
    true
}

// ------------------------------------------------------------------ states

fn handshake_kinds<'a>() -> Vec<(&'static str, TlsMessageHandshake<'a>)> {
    const R32: &[u8] = &[7u8; 32];
    const ONE: &[u8] = &[1u8];
    let ch = |sid: Option<&'a [u8]>| TlsClientHelloContents {
        version: TlsVersion::Tls12,
        random: R32,
        session_id: sid,
        ciphers: vec![TlsCipherSuiteID(0x002f)],
        comp: vec![TlsCompressionID(0)],
        ext: None,
    };
    vec![
        ("hs:HelloRequest", TlsMessageHandshake::HelloRequest),
        (
            "hs:ClientHello:nosid",
            TlsMessageHandshake::ClientHello(ch(None)),
        ),
        (
            "hs:ClientHello:sid",
            TlsMessageHandshake::ClientHello(ch(Some(ONE))),
        ),
        (
            "hs:ServerHello",
            TlsMessageHandshake::ServerHello(TlsServerHelloContents {
                version: TlsVersion::Tls12,
                random: R32,
                session_id: None,
                cipher: TlsCipherSuiteID(0x002f),
                compression: TlsCompressionID(0),
                ext: None,
            }),
        ),
        (
            "hs:ServerHelloV13Draft18",
            TlsMessageHandshake::ServerHelloV13Draft18(TlsServerHelloV13Draft18Contents {
                version: TlsVersion::Tls13Draft18,
                random: R32,
                cipher: TlsCipherSuiteID(0x1301),
                ext: None,
            }),
        ),
        (
            "hs:NewSessionTicket",
            TlsMessageHandshake::NewSessionTicket(TlsNewSessionTicketContent {
                ticket_lifetime_hint: 1,
                ticket: ONE,
            }),
        ),
        ("hs:EndOfEarlyData", TlsMessageHandshake::EndOfEarlyData),
        (
            "hs:HelloRetryRequest",
            TlsMessageHandshake::HelloRetryRequest(TlsHelloRetryRequestContents {
                version: TlsVersion::Tls13,
                cipher: TlsCipherSuiteID(0x1301),
                ext: None,
            }),
        ),
        (
            "hs:Certificate",
            TlsMessageHandshake::Certificate(TlsCertificateContents {
                cert_chain: vec![RawCertificate { data: ONE }],
            }),
        ),
        (
            "hs:ServerKeyExchange",
            TlsMessageHandshake::ServerKeyExchange(TlsServerKeyExchangeContents {
                parameters: ONE,
            }),
        ),
        (
            "hs:CertificateRequest",
            TlsMessageHandshake::CertificateRequest(TlsCertificateRequestContents {
                cert_types: vec![1],
                sig_hash_algs: None,
                unparsed_ca: Vec::new(),
            }),
        ),
        ("hs:ServerDone", TlsMessageHandshake::ServerDone(&[])),
        (
            "hs:CertificateVerify",
            TlsMessageHandshake::CertificateVerify(ONE),
        ),
        (
            "hs:ClientKeyExchange",
            TlsMessageHandshake::ClientKeyExchange(TlsClientKeyExchangeContents::Unknown(ONE)),
        ),
        ("hs:Finished", TlsMessageHandshake::Finished(ONE)),
        (
            "hs:CertificateStatus",
            TlsMessageHandshake::CertificateStatus(TlsCertificateStatusContents {
                status_type: 1,
                blob: ONE,
            }),
        ),
        (
            "hs:NextProtocol",
            TlsMessageHandshake::NextProtocol(TlsNextProtocolContent {
                selected_protocol: ONE,
                padding: &[],
            }),
        ),
        ("hs:KeyUpdate", TlsMessageHandshake::KeyUpdate(0)),
    ]
}

fn dump_states<W: Write>(out: &mut W) {
    const ONE: &[u8] = &[1u8];
    let mut kinds: Vec<(String, TlsMessage)> = handshake_kinds()
        .into_iter()
        .map(|(n, h)| (n.to_string(), TlsMessage::Handshake(h)))
        .collect();
    kinds.push(("ccs".to_string(), TlsMessage::ChangeCipherSpec));
    kinds.push((
        "app".to_string(),
        TlsMessage::ApplicationData(TlsMessageApplicationData { blob: ONE }),
    ));
    kinds.push((
        "hb".to_string(),
        TlsMessage::Heartbeat(TlsMessageHeartbeat {
            heartbeat_type: TlsHeartbeatMessageType::HeartBeatRequest,
            payload_len: 1,
            payload: ONE,
        }),
    ));
    for (si, &state) in ALL_STATES.iter().enumerate() {
        for dir in 0..2u8 {
            let to_server = dir == 1;
            for (name, msg) in &kinds {
                let r = transition(state, msg, to_server);
                let _ = writeln!(out, "{} {} {} {}", si, dir, name, r);
            }
            for sev in 0..=255u8 {
                let results: Vec<String> = (0..=255u8)
                    .map(|desc| {
                        let msg = TlsMessage::Alert(TlsMessageAlert {
                            severity: TlsAlertSeverity(sev),
                            code: TlsAlertDescription(desc),
                        });
                        transition(state, &msg, to_server)
                    })
                    .collect();
                if results.iter().all(|r| *r == results[0]) {
                    let _ = writeln!(out, "{} {} alert:{} {}", si, dir, sev, results[0]);
                } else {
                    for (desc, r) in results.iter().enumerate() {
                        let _ = writeln!(out, "{} {} alert:{}:{} {}", si, dir, sev, desc, r);
                    }
                }
            }
        }
    }
}

// ------------------------------------------------------------------ ciphers

fn dump_ciphers<W: Write>(out: &mut W) {
    let mut rows: Vec<(u16, &TlsCipherSuite)> = CIPHERS.entries().map(|(k, v)| (*k, v)).collect();
    rows.sort_by_key(|r| r.0);
    for (k, c) in rows {
        let _ = writeln!(
            out,
            "{} {} {} {:?} {:?} {:?} {:?} {} {:?} {} {:?} {} {} {}",
            k,
            c.id.0,
            c.name,
            c.kx,
            c.au,
            c.enc,
            c.enc_mode,
            c.enc_size,
            c.mac,
            c.mac_size,
            c.prf,
            c.enc_key_size(),
            c.enc_block_size(),
            c.mac_length()
        );
    }
}

// ------------------------------------------------------------------ constants

macro_rules! consts {
    ($out:expr, $T:ident, [$($K:ident),* $(,)?]) => {
        $( let _ = writeln!($out, "{} {} {}", stringify!($T), stringify!($K), $T::$K.0 as u32); )*
    };
}

#[rustfmt::skip]
fn dump_constants<W: Write>(out: &mut W) {
    consts!(out, TlsRecordType, [ChangeCipherSpec, Alert, Handshake, ApplicationData, Heartbeat]);
    consts!(out, TlsHandshakeType, [
        HelloRequest, ClientHello, ServerHello, HelloVerifyRequest, NewSessionTicket,
        EndOfEarlyData, HelloRetryRequest, EncryptedExtensions, Certificate, ServerKeyExchange,
        CertificateRequest, ServerDone, CertificateVerify, ClientKeyExchange, Finished,
        CertificateURL, CertificateStatus, KeyUpdate, NextProtocol,
    ]);
    consts!(out, TlsVersion, [
        Ssl30, Tls10, Tls11, Tls12, Tls13,
        Tls13Draft18, Tls13Draft19, Tls13Draft20, Tls13Draft21, Tls13Draft22, Tls13Draft23,
        DTls10, DTls11, DTls12,
    ]);
    consts!(out, TlsHeartbeatMessageType, [HeartBeatRequest, HeartBeatResponse]);
    consts!(out, TlsCompressionID, [Null, Deflate]);
    consts!(out, KeyUpdateRequest, [NotRequested, Requested]);
    consts!(out, TlsAlertSeverity, [Warning, Fatal]);
    consts!(out, TlsAlertDescription, [
        CloseNotify, UnexpectedMessage, BadRecordMac, DecryptionFailed, RecordOverflow,
        DecompressionFailure, HandshakeFailure, NoCertificate, BadCertificate,
        UnsupportedCertificate, CertificateRevoked, CertificateExpired, CertificateUnknown,
        IllegalParameter, UnknownCa, AccessDenied, DecodeError, DecryptError,
        ExportRestriction, ProtocolVersion, InsufficientSecurity, InternalError,
        InappropriateFallback, UserCancelled, NoRenegotiation, MissingExtension,
        UnsupportedExtension, CertUnobtainable, UnrecognizedName, BadCertStatusResponse,
        BadCertHashValue, UnknownPskIdentity, CertificateRequired, NoApplicationProtocol,
    ]);
    consts!(out, TlsExtensionType, [
        ServerName, MaxFragmentLength, ClientCertificate, TrustedCaKeys, TruncatedHMac,
        StatusRequest, UserMapping, ClientAuthz, ServerAuthz, CertType, SupportedGroups,
        EcPointFormats, Srp, SignatureAlgorithms, UseSrtp, Heartbeat,
        ApplicationLayerProtocolNegotiation, StatusRequestv2, SignedCertificateTimestamp,
        ClientCertificateType, ServerCertificateType, Padding, EncryptThenMac,
        ExtendedMasterSecret, TokenBinding, CachedInfo, RecordSizeLimit, SessionTicketTLS,
        KeyShareOld, PreSharedKey, EarlyData, SupportedVersions, Cookie, PskExchangeModes,
        TicketEarlyDataInfo, CertificateAuthorities, OidFilters, PostHandshakeAuth,
        SigAlgorithmsCert, KeyShare, NextProtocolNegotiation, Grease, RenegotiationInfo,
        EncryptedServerName,
    ]);
    consts!(out, PskKeyExchangeMode, [Psk, PskDhe]);
    consts!(out, SNIType, [HostName]);
    consts!(out, CertificateStatusType, [OCSP]);
    consts!(out, NamedGroup, [
        Sect163k1, Sect163r1, Sect163r2, Sect193r1, Sect193r2, Sect233k1, Sect233r1, Sect239k1,
        Sect283k1, Sect283r1, Sect409k1, Sect409r1, Sect571k1, Sect571r1, Secp160k1, Secp160r1,
        Secp160r2, Secp192k1, Secp192r1, Secp224k1, Secp224r1, Secp256k1, Secp256r1, Secp384r1,
        Secp521r1, BrainpoolP256r1, BrainpoolP384r1, BrainpoolP512r1, EcdhX25519, EcdhX448,
        BrainpoolP256r1tls13, BrainpoolP384r1tls13, BrainpoolP512r1tls13, Sm2,
        Ffdhe2048, Ffdhe3072, Ffdhe4096, Ffdhe6144, Ffdhe8192,
        ArbitraryExplicitPrimeCurves, ArbitraryExplicitChar2Curves,
    ]);
    consts!(out, ECCurveType, [ExplicitPrime, ExplicitChar2, NamedGroup]);
    consts!(out, HashAlgorithm, [None, Md5, Sha1, Sha224, Sha256, Sha384, Sha512, Intrinsic]);
    consts!(out, SignAlgorithm, [Anonymous, Rsa, Dsa, Ecdsa, Ed25519, Ed448]);
    consts!(out, SignatureScheme, [
        rsa_pkcs1_sha256, rsa_pkcs1_sha384, rsa_pkcs1_sha512,
        ecdsa_secp256r1_sha256, ecdsa_secp384r1_sha384, ecdsa_secp521r1_sha512,
        sm2sig_sm3,
        rsa_pss_rsae_sha256, rsa_pss_rsae_sha384, rsa_pss_rsae_sha512,
        ed25519, ed448,
        rsa_pss_pss_sha256, rsa_pss_pss_sha384, rsa_pss_pss_sha512,
        ecdsa_brainpoolP256r1tls13_sha256, ecdsa_brainpoolP384r1tls13_sha384,
        ecdsa_brainpoolP512r1tls13_sha512,
        rsa_pkcs1_sha1, ecdsa_sha1,
    ]);
    consts!(out, CtVersion, [V1]);
    let _ = writeln!(out, "const MAX_RECORD_LEN {}", MAX_RECORD_LEN);
    let _ = writeln!(out, "const MAX_RECORD_DATA {}", MAX_RECORD_DATA);
}

// ------------------------------------------------------------------ names

/// (type name, largest value, Debug comes from the `impl debug` macro form)
pub const REGISTRY_TYPES: [(&str, u32, bool); 18] = [
    ("TlsRecordType", 0xff, true),
    ("TlsHandshakeType", 0xff, true),
    ("TlsVersion", 0xffff, true),
    ("TlsHeartbeatMessageType", 0xff, true),
    ("TlsCompressionID", 0xff, true),
    ("KeyUpdateRequest", 0xff, false),
    ("TlsAlertSeverity", 0xff, false),
    ("TlsAlertDescription", 0xff, false),
    ("TlsExtensionType", 0xffff, false),
    ("PskKeyExchangeMode", 0xff, false),
    ("SNIType", 0xff, false),
    ("CertificateStatusType", 0xff, true),
    ("NamedGroup", 0xffff, true),
    ("ECCurveType", 0xff, false),
    ("HashAlgorithm", 0xff, false),
    ("SignAlgorithm", 0xff, false),
    ("SignatureScheme", 0xffff, false),
    ("CtVersion", 0xff, false),
];

fn dump_names<W: Write>(out: &mut W) {
    for &(ty, max, macro_debug) in REGISTRY_TYPES.iter() {
        let prefix = format!("{}(", ty);
        for v in 0..=max {
            let d = match display_of(ty, v) {
                Ok(Some(d)) => d,
                _ => break, // no Display for this type
            };
            if !d.starts_with(&prefix) {
                let _ = writeln!(out, "{} {} {}", ty, v, d);
            }
            if macro_debug {
                match debug_of(ty, v) {
                    Ok(Some(g)) if g == d => {}
                    _ => {
                        let _ = writeln!(out, "debugdiff {} {}", ty, v);
                    }
                }
            }
        }
    }
}

// ------------------------------------------------------------------ extension dispatch

const PROBES: [&[u8]; 9] = [
    &[],
    &[0x00],
    &[0x00, 0x00],
    &[0x01, 0x00],
    &[0x00, 0x02, 0x00, 0x17],
    &[0x02, 0x00, 0x17],
    &[0x00, 0x03, 0x02, 0x68, 0x32],
    &[0x00, 0x00, 0x00, 0x00],
    &[0x00, 0x13, 0x00, 0x1d, 0x00, 0x00, 0x00, 0x00, 0x00, 0x00],
];

type ExtParser = for<'a> fn(&'a [u8]) -> IResult<&'a [u8], TlsExtension<'a>>;

fn dump_extdispatch<W: Write>(out: &mut W) {
    let dispatchers: [(&str, ExtParser); 3] = [
        ("ext", parse_tls_extension),
        ("ext_client", parse_tls_client_hello_extension),
        ("ext_server", parse_tls_server_hello_extension),
    ];
    let mut buf: Vec<u8> = Vec::with_capacity(16);
    for (name, f) in dispatchers.iter() {
        for t in 0..=0xffffu32 {
            let mut outcomes: Vec<&'static str> = Vec::with_capacity(PROBES.len());
            for p in PROBES.iter() {
                buf.clear();
                buf.extend_from_slice(&(t as u16).to_be_bytes());
                buf.extend_from_slice(&(p.len() as u16).to_be_bytes());
                buf.extend_from_slice(p);
                let b: &[u8] = &buf;
                let o = match catch_unwind(AssertUnwindSafe(|| match f(b) {
                    Ok((_, e)) => ext_variant_name(&e),
                    Err(_) => "rej",
                })) {
                    Ok(s) => s,
                    Err(_) => "panic",
                };
                outcomes.push(o);
            }
            if outcomes.iter().any(|o| *o != "Unknown") {
                let _ = writeln!(out, "{} {} {}", name, t, outcomes.join(","));
            }
        }
    }
    for (name, _) in dispatchers.iter() {
        let _ = writeln!(out, "default {} Unknown", name);
    }
}

// ------------------------------------------------------------------ TlsExtensionType::from(&ext)

fn dump_exttypeof<W: Write>(out: &mut W) {
    const ONE: &[u8] = &[1u8];
    for t in 0..=0xffffu32 {
        let t = t as u16;
        let e = TlsExtension::Unknown(TlsExtensionType(t), &[]);
        let r = u16::from(TlsExtensionType::from(&e));
        if r != t {
            let _ = writeln!(out, "unknown {} {}", t, r);
        }
        let e = TlsExtension::Grease(t, &[]);
        let r = u16::from(TlsExtensionType::from(&e));
        if r != 0xfafa {
            let _ = writeln!(out, "grease {} {}", t, r);
        }
    }
    let others: Vec<TlsExtension> = vec![
        TlsExtension::SNI(vec![(SNIType::HostName, ONE)]),
        TlsExtension::MaxFragmentLength(1),
        TlsExtension::StatusRequest(None),
        TlsExtension::EllipticCurves(vec![NamedGroup::Secp256r1]),
        TlsExtension::EcPointFormats(ONE),
        TlsExtension::SignatureAlgorithms(vec![0x0401]),
        TlsExtension::RecordSizeLimit(1),
        TlsExtension::SessionTicket(ONE),
        TlsExtension::KeyShareOld(ONE),
        TlsExtension::KeyShare(ONE),
        TlsExtension::PreSharedKey(ONE),
        TlsExtension::EarlyData(None),
        TlsExtension::SupportedVersions(vec![TlsVersion::Tls13]),
        TlsExtension::Cookie(ONE),
        TlsExtension::PskExchangeModes(vec![1]),
        TlsExtension::Heartbeat(1),
        TlsExtension::ALPN(vec![ONE]),
        TlsExtension::SignedCertificateTimestamp(None),
        TlsExtension::Padding(ONE),
        TlsExtension::EncryptThenMac,
        TlsExtension::ExtendedMasterSecret,
        TlsExtension::OidFilters(vec![OidFilter {
            cert_ext_oid: ONE,
            cert_ext_val: ONE,
        }]),
        TlsExtension::PostHandshakeAuth,
        TlsExtension::NextProtocolNegotiation,
        TlsExtension::RenegotiationInfo(ONE),
        TlsExtension::EncryptedServerName {
            ciphersuite: TlsCipherSuiteID(0x1301),
            group: NamedGroup::EcdhX25519,
            key_share: ONE,
            record_digest: ONE,
            encrypted_sni: ONE,
        },
    ];
    for e in others.iter() {
        let r = u16::from(TlsExtensionType::from(e));
        let _ = writeln!(out, "variant {} {}", ext_variant_name(e), r);
    }
}

// ------------------------------------------------------------------ key bits

fn dump_keybits<W: Write>(out: &mut W) {
    for v in 0..=0xffffu32 {
        if let Some(bits) = NamedGroup(v as u16).key_bits() {
            let _ = writeln!(out, "{} {}", v, bits);
        }
    }
}
