//! `ser_*` ops (feature `serialize`): build a value from its description in the value
//! grammar (slices written `x:<hex>`) and run the crate's serializer on it.

use std::panic::{catch_unwind, AssertUnwindSafe};

use crate::render::push_hex_h;
use crate::{parse_hex, Fail, Resp};
use tls_parser::*;

/// Parsed value description; owns all bytes so that the tls-parser values can borrow them
#[derive(Debug)]
pub enum V {
    Int(u64),
    Bytes(Vec<u8>),
    Name(String),
    List(Vec<V>),
    App(String, Vec<V>),
}

struct P<'s> {
    s: &'s [u8],
    pos: usize,
}

impl<'s> P<'s> {
    fn skip_ws(&mut self) {
        while self.pos < self.s.len() && self.s[self.pos] == b' ' {
            self.pos += 1;
        }
    }

    fn peek(&self) -> Option<u8> {
        self.s.get(self.pos).copied()
    }

    fn atom(&mut self) -> Option<&'s str> {
        let start = self.pos;
        while let Some(c) = self.peek() {
            if c == b' ' || c == b'(' || c == b')' || c == b'[' || c == b']' {
                break;
            }
            self.pos += 1;
        }
        if self.pos == start {
            return None;
        }
        std::str::from_utf8(&self.s[start..self.pos]).ok()
    }

    fn value(&mut self, depth: usize) -> Option<V> {
        if depth > 64 {
            return None;
        }
        self.skip_ws();
        match self.peek()? {
            b'(' => {
                self.pos += 1;
                self.skip_ws();
                let head = self.atom()?.to_string();
                if !is_name(&head) {
                    return None;
                }
                let mut args = Vec::new();
                loop {
                    self.skip_ws();
                    match self.peek()? {
                        b')' => {
                            self.pos += 1;
                            break;
                        }
                        _ => args.push(self.value(depth + 1)?),
                    }
                }
                Some(V::App(head, args))
            }
            b'[' => {
                self.pos += 1;
                let mut items = Vec::new();
                loop {
                    self.skip_ws();
                    match self.peek()? {
                        b']' => {
                            self.pos += 1;
                            break;
                        }
                        _ => items.push(self.value(depth + 1)?),
                    }
                }
                Some(V::List(items))
            }
            b')' | b']' => None,
            _ => {
                let a = self.atom()?;
                if a.bytes().all(|c| c.is_ascii_digit()) {
                    return a.parse::<u64>().ok().map(V::Int);
                }
                if a == "+0" {
                    return Some(V::Bytes(Vec::new()));
                }
                if let Some(h) = a.strip_prefix("x:").or_else(|| a.strip_prefix("X:")) {
                    return parse_hex(h).ok().map(V::Bytes);
                }
                if is_name(a) {
                    return Some(V::Name(a.to_string()));
                }
                None
            }
        }
    }
}

fn is_name(s: &str) -> bool {
    !s.is_empty()
        && s.as_bytes()[0].is_ascii_alphabetic()
        && s.bytes().all(|c| c.is_ascii_alphanumeric() || c == b'_')
}

pub fn parse_value(s: &str) -> Result<V, Fail> {
    let mut p = P {
        s: s.as_bytes(),
        pos: 0,
    };
    let v = p.value(0).ok_or(Fail::Bad)?;
    p.skip_ws();
    if p.pos != p.s.len() {
        return Err(Fail::Bad);
    }
    Ok(v)
}

// ------------------------------------------------------------------ V -> tls-parser values

type O<T> = Option<T>;

fn int(v: &V, max: u64) -> O<u64> {
    match v {
        V::Int(n) if *n <= max => Some(*n),
        _ => None,
    }
}
fn u8_(v: &V) -> O<u8> {
    int(v, 0xff).map(|n| n as u8)
}
fn u16_(v: &V) -> O<u16> {
    int(v, 0xffff).map(|n| n as u16)
}
fn u32_(v: &V) -> O<u32> {
    int(v, 0xffff_ffff).map(|n| n as u32)
}

fn bytes(v: &V) -> O<&[u8]> {
    match v {
        V::Bytes(b) => Some(&b[..]),
        _ => None,
    }
}

fn list<'a, T>(v: &'a V, f: impl Fn(&'a V) -> O<T>) -> O<Vec<T>> {
    match v {
        V::List(items) => items.iter().map(f).collect(),
        _ => None,
    }
}

/// `none | (some x)`
fn opt<'a, T>(v: &'a V, f: impl Fn(&'a V) -> O<T>) -> O<Option<T>> {
    match v {
        V::Name(n) if n == "none" => Some(None),
        V::App(h, a) if h == "some" && a.len() == 1 => f(&a[0]).map(Some),
        _ => None,
    }
}

/// `(P a b)`
fn pair<'a, A, B>(
    v: &'a V,
    fa: impl Fn(&'a V) -> O<A>,
    fb: impl Fn(&'a V) -> O<B>,
) -> O<(A, B)> {
    match v {
        V::App(h, a) if h == "P" && a.len() == 2 => Some((fa(&a[0])?, fb(&a[1])?)),
        _ => None,
    }
}

/// constructor name and arguments (a bare name has no arguments)
fn node(v: &V) -> O<(&str, &[V])> {
    match v {
        V::Name(n) => Some((n.as_str(), &[])),
        V::App(h, a) => Some((h.as_str(), &a[..])),
        _ => None,
    }
}

fn to_hdr(v: &V) -> O<TlsRecordHeader> {
    match node(v)? {
        ("Hdr", [t, ver, l]) => Some(TlsRecordHeader {
            record_type: TlsRecordType(u8_(t)?),
            version: TlsVersion(u16_(ver)?),
            len: u16_(l)?,
        }),
        _ => None,
    }
}

fn to_client_hello(a: &[V]) -> O<TlsClientHelloContents<'_>> {
    match a {
        [version, random, sid, ciphers, comp, ext] => Some(TlsClientHelloContents {
            version: TlsVersion(u16_(version)?),
            random: bytes(random)?,
            session_id: opt(sid, bytes)?,
            ciphers: list(ciphers, |x| u16_(x).map(TlsCipherSuiteID))?,
            comp: list(comp, |x| u8_(x).map(TlsCompressionID))?,
            ext: opt(ext, bytes)?,
        }),
        _ => None,
    }
}

fn to_cke(v: &V) -> O<TlsClientKeyExchangeContents<'_>> {
    match node(v)? {
        ("Unknown", [s]) => Some(TlsClientKeyExchangeContents::Unknown(bytes(s)?)),
        ("Dh", [s]) => Some(TlsClientKeyExchangeContents::Dh(bytes(s)?)),
        ("Ecdh", [s]) => Some(TlsClientKeyExchangeContents::Ecdh(ECPoint {
            point: bytes(s)?,
        })),
        _ => None,
    }
}

pub fn to_hs(v: &V) -> O<TlsMessageHandshake<'_>> {
    use TlsMessageHandshake as H;
    Some(match node(v)? {
        ("HelloRequest", []) => H::HelloRequest,
        ("ClientHello", a) => H::ClientHello(to_client_hello(a)?),
        ("ServerHello", [version, random, sid, cipher, comp, ext]) => {
            H::ServerHello(TlsServerHelloContents {
                version: TlsVersion(u16_(version)?),
                random: bytes(random)?,
                session_id: opt(sid, bytes)?,
                cipher: TlsCipherSuiteID(u16_(cipher)?),
                compression: TlsCompressionID(u8_(comp)?),
                ext: opt(ext, bytes)?,
            })
        }
        ("ServerHello13d18", [version, random, cipher, ext]) => {
            H::ServerHelloV13Draft18(TlsServerHelloV13Draft18Contents {
                version: TlsVersion(u16_(version)?),
                random: bytes(random)?,
                cipher: TlsCipherSuiteID(u16_(cipher)?),
                ext: opt(ext, bytes)?,
            })
        }
        ("NewSessionTicket", [hint, ticket]) => H::NewSessionTicket(TlsNewSessionTicketContent {
            ticket_lifetime_hint: u32_(hint)?,
            ticket: bytes(ticket)?,
        }),
        ("EndOfEarlyData", []) => H::EndOfEarlyData,
        ("HelloRetryRequest", [version, cipher, ext]) => {
            H::HelloRetryRequest(TlsHelloRetryRequestContents {
                version: TlsVersion(u16_(version)?),
                cipher: TlsCipherSuiteID(u16_(cipher)?),
                ext: opt(ext, bytes)?,
            })
        }
        ("Certificate", [chain]) => H::Certificate(TlsCertificateContents {
            cert_chain: list(chain, |x| bytes(x).map(|data| RawCertificate { data }))?,
        }),
        ("ServerKeyExchange", [p]) => H::ServerKeyExchange(TlsServerKeyExchangeContents {
            parameters: bytes(p)?,
        }),
        ("CertificateRequest", [types, algs, ca]) => {
            H::CertificateRequest(TlsCertificateRequestContents {
                cert_types: list(types, u8_)?,
                sig_hash_algs: opt(algs, |x| list(x, u16_))?,
                unparsed_ca: list(ca, bytes)?,
            })
        }
        ("ServerDone", [s]) => H::ServerDone(bytes(s)?),
        ("CertificateVerify", [s]) => H::CertificateVerify(bytes(s)?),
        ("Finished", [s]) => H::Finished(bytes(s)?),
        ("ClientKeyExchange", [c]) => H::ClientKeyExchange(to_cke(c)?),
        ("CertificateStatus", [t, blob]) => H::CertificateStatus(TlsCertificateStatusContents {
            status_type: u8_(t)?,
            blob: bytes(blob)?,
        }),
        ("NextProtocol", [sel, pad]) => H::NextProtocol(TlsNextProtocolContent {
            selected_protocol: bytes(sel)?,
            padding: bytes(pad)?,
        }),
        ("KeyUpdate", [n]) => H::KeyUpdate(u8_(n)?),
        _ => return None,
    })
}

pub fn to_msg(v: &V) -> O<TlsMessage<'_>> {
    Some(match node(v)? {
        ("Hs", [h]) => TlsMessage::Handshake(to_hs(h)?),
        ("CCS", []) => TlsMessage::ChangeCipherSpec,
        ("Alert", [sev, code]) => TlsMessage::Alert(TlsMessageAlert {
            severity: TlsAlertSeverity(u8_(sev)?),
            code: TlsAlertDescription(u8_(code)?),
        }),
        ("App", [blob]) => TlsMessage::ApplicationData(TlsMessageApplicationData {
            blob: bytes(blob)?,
        }),
        ("Hb", [t, l, payload]) => TlsMessage::Heartbeat(TlsMessageHeartbeat {
            heartbeat_type: TlsHeartbeatMessageType(u8_(t)?),
            payload_len: u16_(l)?,
            payload: bytes(payload)?,
        }),
        _ => return None,
    })
}

pub fn to_plain(v: &V) -> O<TlsPlaintext<'_>> {
    match node(v)? {
        ("Plain", [hdr, msgs]) => Some(TlsPlaintext {
            hdr: to_hdr(hdr)?,
            msg: list(msgs, to_msg)?,
        }),
        _ => None,
    }
}

pub fn to_ext(v: &V) -> O<TlsExtension<'_>> {
    use TlsExtension as E;
    Some(match node(v)? {
        ("SNI", [l]) => E::SNI(list(l, |x| pair(x, |t| u8_(t).map(SNIType), bytes))?),
        ("MaxFragmentLength", [n]) => E::MaxFragmentLength(u8_(n)?),
        ("StatusRequest", [o]) => E::StatusRequest(opt(o, |x| {
            pair(x, |t| u8_(t).map(CertificateStatusType), bytes)
        })?),
        ("EllipticCurves", [l]) => E::EllipticCurves(list(l, |x| u16_(x).map(NamedGroup))?),
        ("EcPointFormats", [s]) => E::EcPointFormats(bytes(s)?),
        ("SignatureAlgorithms", [l]) => E::SignatureAlgorithms(list(l, u16_)?),
        ("RecordSizeLimit", [n]) => E::RecordSizeLimit(u16_(n)?),
        ("SessionTicket", [s]) => E::SessionTicket(bytes(s)?),
        ("KeyShareOld", [s]) => E::KeyShareOld(bytes(s)?),
        ("KeyShare", [s]) => E::KeyShare(bytes(s)?),
        ("PreSharedKey", [s]) => E::PreSharedKey(bytes(s)?),
        ("EarlyData", [o]) => E::EarlyData(opt(o, u32_)?),
        ("SupportedVersions", [l]) => E::SupportedVersions(list(l, |x| u16_(x).map(TlsVersion))?),
        ("Cookie", [s]) => E::Cookie(bytes(s)?),
        ("PskExchangeModes", [s]) => E::PskExchangeModes(bytes(s)?.to_vec()),
        ("Heartbeat", [n]) => E::Heartbeat(u8_(n)?),
        ("ALPN", [l]) => E::ALPN(list(l, bytes)?),
        ("SCT", [o]) => E::SignedCertificateTimestamp(opt(o, bytes)?),
        ("Padding", [s]) => E::Padding(bytes(s)?),
        ("EncryptThenMac", []) => E::EncryptThenMac,
        ("ExtendedMasterSecret", []) => E::ExtendedMasterSecret,
        ("OidFilters", [l]) => E::OidFilters(list(l, |x| {
            pair(x, bytes, bytes).map(|(cert_ext_oid, cert_ext_val)| OidFilter {
                cert_ext_oid,
                cert_ext_val,
            })
        })?),
        ("PostHandshakeAuth", []) => E::PostHandshakeAuth,
        ("NextProtocolNegotiation", []) => E::NextProtocolNegotiation,
        ("RenegotiationInfo", [s]) => E::RenegotiationInfo(bytes(s)?),
        ("ESNI", [cs, g, ks, rd, es]) => E::EncryptedServerName {
            ciphersuite: TlsCipherSuiteID(u16_(cs)?),
            group: NamedGroup(u16_(g)?),
            key_share: bytes(ks)?,
            record_digest: bytes(rd)?,
            encrypted_sni: bytes(es)?,
        },
        ("Grease", [t, s]) => E::Grease(u16_(t)?, bytes(s)?),
        ("Unknown", [t, s]) => E::Unknown(TlsExtensionType(u16_(t)?), bytes(s)?),
        _ => return None,
    })
}

// ------------------------------------------------------------------ ops

fn finish(r: std::thread::Result<Result<Vec<u8>, GenError>>) -> String {
    match r {
        Err(_) => "panic".to_string(),
        Ok(Ok(b)) => {
            let mut o = String::from("bytes ");
            push_hex_h(&mut o, &b);
            o
        }
        Ok(Err(e)) => format!("generr {:?}", e),
    }
}

pub fn ser_op(op: &str, rest: &str) -> Resp {
    match op {
        "ser_msg" | "ser_hs" | "ser_rec" | "ser_ext" | "ser_exts" => {}
        _ => return Err(Fail::Unsupported),
    }
    let v = parse_value(rest)?;
    match op {
        "ser_msg" => {
            let m = to_msg(&v).ok_or(Fail::Bad)?;
            Ok(finish(catch_unwind(AssertUnwindSafe(|| m.serialize()))))
        }
        "ser_hs" => {
            let m = to_hs(&v).ok_or(Fail::Bad)?;
            Ok(finish(catch_unwind(AssertUnwindSafe(|| m.serialize()))))
        }
        "ser_rec" => {
            let m = to_plain(&v).ok_or(Fail::Bad)?;
            Ok(finish(catch_unwind(AssertUnwindSafe(|| m.serialize()))))
        }
        "ser_ext" => {
            let e = to_ext(&v).ok_or(Fail::Bad)?;
            Ok(finish(catch_unwind(AssertUnwindSafe(|| {
                cookie_factory::gen_simple(gen_tls_extension(&e), Vec::new())
            }))))
        }
        "ser_exts" => {
            let l = list(&v, to_ext).ok_or(Fail::Bad)?;
            Ok(finish(catch_unwind(AssertUnwindSafe(|| {
                cookie_factory::gen_simple(gen_tls_extensions(&l), Vec::new())
            }))))
        }
        _ => Err(Fail::Unsupported),
    }
}
