//! Builds iff every public value type of tls-parser is Send + Sync (and 'static data can be shared).
#![allow(dead_code)]
use tls_parser::*;

fn ok<T: Send + Sync>() {}

pub fn assert_all() {
    // records, messages
    ok::<TlsRecordType>(); ok::<TlsRecordHeader>(); ok::<TlsPlaintext<'static>>(); ok::<TlsEncrypted<'static>>();
    ok::<TlsEncryptedContent<'static>>(); ok::<TlsRawRecord<'static>>(); ok::<TlsMessage<'static>>();
    ok::<TlsMessageApplicationData<'static>>(); ok::<TlsMessageHeartbeat<'static>>(); ok::<TlsMessageAlert>();
    ok::<TlsAlertSeverity>(); ok::<TlsAlertDescription>();
    // handshake
    ok::<TlsHandshakeType>(); ok::<TlsVersion>(); ok::<TlsHeartbeatMessageType>(); ok::<TlsCompressionID>(); ok::<TlsCipherSuiteID>();
    ok::<TlsClientHelloContents<'static>>(); ok::<TlsServerHelloContents<'static>>(); ok::<TlsServerHelloV13Draft18Contents<'static>>();
    ok::<TlsHelloRetryRequestContents<'static>>(); ok::<TlsNewSessionTicketContent<'static>>(); ok::<RawCertificate<'static>>();
    ok::<TlsCertificateContents<'static>>(); ok::<TlsCertificateRequestContents<'static>>(); ok::<TlsServerKeyExchangeContents<'static>>();
    ok::<TlsClientKeyExchangeContents<'static>>(); ok::<TlsCertificateStatusContents<'static>>(); ok::<TlsNextProtocolContent<'static>>();
    ok::<KeyUpdateRequest>(); ok::<TlsMessageHandshake<'static>>();
    // extensions
    ok::<TlsExtensionType>(); ok::<TlsExtension<'static>>(); ok::<KeyShareEntry<'static>>(); ok::<PskKeyExchangeMode>(); ok::<SNIType>();
    ok::<CertificateStatusType>(); ok::<OidFilter<'static>>();
    // key exchange, signatures, CT
    ok::<NamedGroup>(); ok::<ECCurve<'static>>(); ok::<ECCurveType>(); ok::<ECPoint<'static>>(); ok::<ExplicitPrimeContent<'static>>();
    ok::<ECParametersContent<'static>>(); ok::<ECParameters<'static>>(); ok::<ServerECDHParams<'static>>(); ok::<ServerDHParams<'static>>();
    ok::<HashAlgorithm>(); ok::<SignAlgorithm>(); ok::<SignatureAndHashAlgorithm>(); ok::<SignatureScheme>(); ok::<DigitallySigned<'static>>();
    ok::<CtVersion>(); ok::<CtLogID<'static>>(); ok::<CtExtensions<'static>>(); ok::<SignedCertificateTimestamp<'static>>();
    // DTLS
    ok::<DTLSRecordHeader>(); ok::<DTLSPlaintext<'static>>(); ok::<DTLSRawRecord<'static>>(); ok::<DTLSClientHello<'static>>();
    ok::<DTLSHelloVerifyRequest<'static>>(); ok::<DTLSMessageHandshake<'static>>(); ok::<DTLSMessageHandshakeBody<'static>>(); ok::<DTLSMessage<'static>>();
    // state machine, defragmenter, registry
    ok::<TlsState>(); ok::<StateChangeError>(); ok::<TlsRecordsParser>();
    ok::<TlsCipherSuite>(); ok::<&'static TlsCipherSuite>(); ok::<TlsCipherKx>(); ok::<TlsCipherAu>(); ok::<TlsCipherEnc>();
    ok::<TlsCipherEncMode>(); ok::<TlsCipherMac>(); ok::<TlsPRF>(); ok::<CipherSuiteNotFound>();
}
