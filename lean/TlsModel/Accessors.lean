/-
  Accessors.lean — model of the `ClientHello` trait accessors (`src/tls_handshake.rs`, `src/dtls.rs`): the plain accessors
  are the structure's fields; `rand_time` / `rand_bytes` split the random; `cipher_suites` / `get_ciphers` / `get_cipher`
  map advertised ids through the registry lookup. Import-free apart from the model (the driver answers `hello_acc` with it).
-/
import TlsModel.Types
import TlsModel.Ciphers
namespace Tls
variable {β : Type} [ByteLike β]

/-- `rand_time()`: `random.get(..4)` as big-endian u32, 0 when fewer than four bytes -/
def randTime (random : List β) : Nat := if 4 ≤ random.length then beVal (random.take 4) else 0
/-- `rand_bytes()`: `random.get(4..)` or empty -/
def randBytes (random : List β) : List β := if 4 ≤ random.length then random.drop 4 else []
/-- `cipher_suites()` / `get_ciphers()`: each advertised id, in order, to its registry entry or None -/
def cipherSuites (table : List CipherRow) (ciphers : List Nat) : List (Option CipherRow) := ciphers.map (fromId table)

/-- everything the `ClientHello` trait exposes, for the TLS and the DTLS hello alike -/
structure HelloView (β : Type) where
  version : Nat
  random : List β
  sessionId : Option (List β)
  ciphers : List Nat
  comp : List Nat
  ext : Option (List β)

def ClientHello.view (c : ClientHello β) : HelloView β := ⟨c.version, c.random, c.sessionId, c.ciphers, c.comp, c.ext⟩
def DtlsClientHello.view (c : DtlsClientHello β) : HelloView β := ⟨c.version, c.random, c.sessionId, c.ciphers, c.comp, c.ext⟩

end Tls
