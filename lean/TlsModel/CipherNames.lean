/-
  CipherNames.lean — "the parameters agree with the algorithm tokens of the IANA name" (C12), as a decidable predicate on a
  line of the registry file. The name (one base-256 Nat) is split into its `_`-separated tokens *inside Lean*, so the rule
  is checked by the kernel on the very name the registry carries. Rules: the IANA naming scheme
  TLS_<kx>[_<auth>][_EXPORT..]_WITH_<cipher>[_<bits>][_<mode>][_8]_<mac|prf>; the two TLS_PSK_DHE_* names, which IANA
  spells in the opposite order, are the only listed exceptions (ids 0xC0AA, 0xC0AB). Token numerals are generated
  (one-off script), the ASCII spelling is in the comment next to each.
-/
import TlsModel.Ciphers
namespace Tls

/-- the bytes of a base-256 name, most significant first -/
def bytesOfNatGo (fuel n : Nat) (acc : List Nat) : List Nat :=
  match fuel with
  | 0 => acc
  | fuel + 1 => if n = 0 then acc else bytesOfNatGo fuel (n / 256) (n % 256 :: acc)

def bytesOfNat (n : Nat) : List Nat := bytesOfNatGo 128 n []

/-- split at `_` (95); each token again as a base-256 Nat -/
def splitTokensGo (bs : List Nat) (cur : Nat) (acc : List Nat) : List Nat :=
  match bs with
  | [] => (cur :: acc).reverse
  | b :: r => if b = 95 then splitTokensGo r 0 (cur :: acc) else splitTokensGo r (cur * 256 + b) acc

def nameTokens (name : Nat) : List Nat := splitTokensGo (bytesOfNat name) 0 []

/-- re-join tokens with `_`: inverse of `nameTokens` on the registry names (checked in the kernel for every row) -/
def joinTokens (ts : List Nat) : Nat :=
  match ts with
  | [] => 0
  | t :: r => r.foldl (fun acc x => (acc * 256 + 95) * 256 ^ (bytesOfNat x).length + x) t

def tWITH : Nat := 1464423496 /- WITH -/

/-- cipher column -> the tokens the name must contain after WITH -/
def encTokens : List (Nat × List Nat) := [
  (4277587 /- AES -/, [4277587 /- AES -/]),
  (860112211 /- 3DES -/, [860112211 /- 3DES -/]),
  (1095911745 /- ARIA -/, [1095911745 /- ARIA -/]),
  (4846239634055514433 /- CAMELLIA -/, [4846239634055514433 /- CAMELLIA -/]),
  (22894961863341244104741164953394434224181 /- CHACHA20_POLY1305 -/, [4848196756095185456 /- CHACHA20 -/, 5786927992155615285 /- POLY1305 -/]),
  (1229210945 /- IDEA -/, [1229210945 /- IDEA -/]),
  (5391154 /- RC2 -/, [5391154 /- RC2 -/]),
  (5391156 /- RC4 -/, [5391156 /- RC4 -/]),
  (1397048644 /- SEED -/, [1397048644 /- SEED -/]),
  (5459252 /- SM4 -/, [5459252 /- SM4 -/]),
  (280335173971 /- AEGIS -/, [280335173971 /- AEGIS -/])]

def allCipherTokens : List Nat := [860112211 /- 3DES -/, 280335173971 /- AEGIS -/, 4277587 /- AES -/, 1095911745 /- ARIA -/, 4846239634055514433 /- CAMELLIA -/, 4848196756095185456 /- CHACHA20 -/, 1229210945 /- IDEA -/, 5786927992155615285 /- POLY1305 -/, 5391154 /- RC2 -/, 5391156 /- RC4 -/, 1397048644 /- SEED -/, 5459252 /- SM4 -/]

/-- decimal value of an all-digit token (none otherwise) -/
def tokDecimal (t : Nat) : Option Nat :=
  let bs := bytesOfNat t
  if bs.isEmpty || bs.any (fun b => b < 48 || b > 57) then none else some (bs.foldl (fun a b => a * 10 + (b - 48)) 0)

def macOfLast : List (Nat × Nat) := [
  (5457985 /- SHA -/, 1333732377783444193585 /- HMAC-SHA1 -/), (5063733 /- MD5 -/, 5209892100716184629 /- HMAC-MD5 -/), (91569796560182 /- SHA256 -/, 87407485110415798670865718 /- HMAC-SHA256 -/), (91569796626484 /- SHA384 -/, 87407485110415798670932020 /- HMAC-SHA384 -/),
  (91569796755762 /- SHA512 -/, 87407485110415798671061298 /- HMAC-SHA512 -/), (1314212940 /- NULL -/, 1314212940 /- NULL -/), (1396921174 /- SCSV -/, 1314212940 /- NULL -/)]

/-- **the rule**: `none` = the row agrees with its name, `some k` = which clause fails (1 cipher, 2 key size, 3 mode,
    4 PRF, 5 MAC, 6 key exchange, 7 authentication) -/
def nameDisagreement (f : FileRow) : Option Nat :=
  let T := (nameTokens f.name).drop 1
  let pp : List Nat × List Nat := match T.idxOf? tWITH with
    | some k => (T.take k, T.drop (k + 1))
    | none => ([], T)
  let pre := pp.1
  let post := pp.2
  let has (t : Nat) : Bool := post.contains t
  -- cipher
  let encBad : Bool :=
    (match encTokens.lookup f.enc with
     | some ts => !(ts.all has)
     | none => false)
    || (f.enc == 4474195 /- DES -/ && !(has (4474195 /- DES -/) || has (293220856880 /- DES40 -/)))
    || (f.enc == 1314212940 /- NULL -/ && (allCipherTokens.any has || has (4474195 /- DES -/)))
  if encBad then some 1 else
  -- key size
  let nums0 := (post.filterMap tokDecimal).filter (fun n => n == 40 || n == 56 || n == 128 || n == 256)
  let nums1 := if has (293220856880 /- DES40 -/) then [40] else nums0
  let nums := if has (825374796 /- 128L -/) then [128] else nums1
  if (match nums.head? with | some n => n != f.size | none => false) then some 2 else
  -- mode
  let m : Nat := if has (4670285 /- GCM -/) then 4670285 /- GCM -/ else if has (4408141 /- CCM -/) then 4408141 /- CCM -/ else if has (4407875 /- CBC -/) then 4407875 /- CBC -/ else 0
  if m != f.mode && !(f.mode == 1314212940 /- NULL -/ && m == 0) then some 3 else
  -- MAC / PRF
  let last0 : Nat := post.getLast?.getD 0
  let last : Nat := if last0 == 56 /- 8 -/ then (match post.dropLast.getLast? with | some p => if p == 4408141 /- CCM -/ then 0 else p | none => 0) else last0
  let macBad : Option Nat :=
    if f.mac == 1095057732 /- AEAD -/ then
      (if (last == 91569796560182 /- SHA256 -/ || last == 91569796626484 /- SHA384 -/ || last == 5459251 /- SM3 -/) && f.prf != last then some 4
       else if last == 5457985 /- SHA -/ || last == 5063733 /- MD5 -/ then some 5 else none)
    else (if macOfLast.lookup last != some f.mac then some 5 else none)
  if macBad.isSome then macBad else
  -- key exchange / authentication
  if !pre.isEmpty && f.id != 0xc0aa && f.id != 0xc0ab then
    if pre.head? != some f.kx then some 6 else
    let p := pre.filter (fun t => t != 76245606814292 /- EXPORT -/ && t != 327472387731059710636596 /- EXPORT1024 -/)
    let lastp := p.getLast?.getD 0
    let a0 : Nat := if lastp == 1634627438 /- anon -/ then 1314212940 /- NULL -/ else lastp
    let a : Nat := if p.take 2 == [5460560 /- SRP -/, 5457985 /- SHA -/] then (if p.length == 2 then 5460560 /- SRP -/ else (1397903403 /- SRP+ -/) * 256 ^ (bytesOfNat lastp).length + lastp) else a0
    if a != f.au then some 7 else none
  else if pre.isEmpty && f.kx != 362057773363 /- TLS13 -/ && f.kx != 1314212940 /- NULL -/ then some 6
  else none

end Tls
