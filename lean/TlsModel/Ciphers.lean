/-
  Ciphers.lean — model of src/tls_ciphers.rs (lookups and derived sizes over a table) and the documented
  mapping from the tokens of scripts/tls-ciphersuites.txt to the enum variants (the job of build.rs).
  Strings are base-256 `Nat`s (ASCII, big-endian): one GMP comparison each in the kernel; every table
  below shows the strings in comments.  Generated once by tools (static, not from the implementation).
-/
namespace Tls

/-- a row of the runtime registry `CIPHERS` as dumped from the implementation: enum columns are the variant names -/
structure CipherRow where
  key : Nat
  id : Nat
  name : Nat
  kx : Nat
  au : Nat
  enc : Nat
  mode : Nat
  size : Nat
  mac : Nat
  macSize : Nat
  prf : Nat
  keyBytes : Nat      -- enc_key_size()
  blockSize : Nat     -- enc_block_size()
  macLength : Nat     -- mac_length()
  deriving DecidableEq, Repr

/-- a line of scripts/tls-ciphersuites.txt: id (hex), name, then the raw tokens -/
structure FileRow where
  id : Nat
  name : Nat
  kx : Nat
  au : Nat
  enc : Nat
  mode : Nat
  size : Nat
  mac : Nat
  macSize : Nat
  prf : Nat
  deriving DecidableEq, Repr

/-- key exchange token -> TlsCipherKx variant -/
def kxMap : List (Nat × Nat) := [
  (1314212940, 1316318316),  -- "NULL" -> Null
  (5264203, 5272427),  -- "PSK" -> Psk
  (1263682101, 1265787445),  -- "KRB5" -> Krb5
  (5460560, 5468784),  -- "SRP" -> Srp
  (5395265, 5403489),  -- "RSA" -> Rsa
  (17480, 17512),  -- "DH" -> Dh
  (4474949, 4483173),  -- "DHE" -> Dhe
  (1162036296, 1164141672),  -- "ECDH" -> Ecdh
  (297481291845, 298020268133),  -- "ECDHE" -> Ecdhe
  (280334910536, 280873886824),  -- "AECDH" -> Aecdh
  (76155194464068, 76293172393828),  -- "ECCPWD" -> Eccpwd
  (362057773363, 362596741427)  -- "TLS13" -> Tls13
  ]

/-- authentication token -> TlsCipherAu variant -/
def auMap : List (Nat × Nat) := [
  (1314212940, 1316318316),  -- "NULL" -> Null
  (5264203, 5272427),  -- "PSK" -> Psk
  (1263682101, 1265787445),  -- "KRB5" -> Krb5
  (5460560, 5468784),  -- "SRP" -> Srp
  (23452927343743827, 23488250027209587),  -- "SRP+DSS" -> Srp_Dss
  (23452927344661313, 23488250028127073),  -- "SRP+RSA" -> Srp_Rsa
  (4477779, 4486003),  -- "DSS" -> Dss
  (5395265, 5403489),  -- "RSA" -> Rsa
  (4474949, 4483173),  -- "DHE" -> Dhe
  (297481294657, 298020270945),  -- "ECDSA" -> Ecdsa
  (76155194464068, 76293172393828),  -- "ECCPWD" -> Eccpwd
  (362057773363, 362596741427)  -- "TLS13" -> Tls13
  ]

/-- cipher token -> TlsCipherEnc variant -/
def encMap : List (Nat × Nat) := [
  (1314212940, 1316318316),  -- "NULL" -> Null
  (4474195, 4482419),  -- "DES" -> Des
  (860112211, 1557770746395338499443),  -- "3DES" -> TripleDes
  (5391154, 5399346),  -- "RC2" -> Rc2
  (5391156, 5399348),  -- "RC4" -> Rc4
  (1095911745, 1098017121),  -- "ARIA" -> Aria
  (1229210945, 1231316321),  -- "IDEA" -> Idea
  (1397048644, 1399154020),  -- "SEED" -> Seed
  (4277587, 4285811),  -- "AES" -> Aes
  (4846239634055514433, 4855282155660274017),  -- "CAMELLIA" -> Camellia
  (22894961863341244104741164953394434224181, 22937663964288146564782404209231646634037),  -- "CHACHA20_POLY1305" -> Chacha20_Poly1305
  (5459252, 5467444),  -- "SM4" -> Sm4
  (280335173971, 280874150259)  -- "AEGIS" -> Aegis
  ]

/-- mode token (empty = none) -> TlsCipherEncMode variant -/
def modeMap : List (Nat × Nat) := [
  (0, 1316318316),  -- "" -> Null
  (1314212940, 1316318316),  -- "NULL" -> Null
  (4407875, 4416099),  -- "CBC" -> Cbc
  (4408141, 4416365),  -- "CCM" -> Ccm
  (4670285, 4678509)  -- "GCM" -> Gcm
  ]

/-- MAC token -> TlsCipherMac variant -/
def macMap : List (Nat × Nat) := [
  (1314212940, 1316318316),  -- "NULL" -> Null
  (5209892100716184629, 20386463368438837),  -- "HMAC-MD5" -> HmacMd5
  (1333732377783444193585, 5218934622421279025),  -- "HMAC-SHA1" -> HmacSha1
  (87407485110415798670865718, 342028099415000942261558),  -- "HMAC-SHA256" -> HmacSha256
  (87407485110415798670932020, 342028099415000942327860),  -- "HMAC-SHA384" -> HmacSha384
  (87407485110415798671061298, 342028099415000942457138),  -- "HMAC-SHA512" -> HmacSha512
  (1095057732, 1097163108)  -- "AEAD" -> Aead
  ]

/-- PRF token -> TlsPRF variant -/
def prfMap : List (Nat × Nat) := [
  (19216466462461012, 19251788812479604),  -- "DEFAULT" -> Default
  (1314212940, 1316318316),  -- "NULL" -> Null
  (364880435212387789324593, 365470731058068308123953),  -- "MD5ANDSHA1" -> Md5AndSha1
  (1397244209, 1399349553),  -- "SHA1" -> Sha1
  (91569796560182, 91707772384566),  -- "SHA256" -> Sha256
  (91569796626484, 91707772450868),  -- "SHA384" -> Sha384
  (91569796755762, 91707772580146),  -- "SHA512" -> Sha512
  (5459251, 5467443)  -- "SM3" -> Sm3
  ]

def lookupTok (m : List (Nat × Nat)) (t : Nat) : Option Nat := (m.find? (fun p => p.1 == t)).map (·.2)

/-- MAC length in bytes, by variant -/
def specMacLength (mac : Nat) : Option Nat :=
  if mac = 1316318316 /- Null -/ then some 0 else if mac = 1097163108 /- Aead -/ then some 0
  else if mac = 20386463368438837 /- HmacMd5 -/ then some 16 else if mac = 5218934622421279025 /- HmacSha1 -/ then some 20 else if mac = 342028099415000942261558 /- HmacSha256 -/ then some 32
  else if mac = 342028099415000942327860 /- HmacSha384 -/ then some 48 else if mac = 342028099415000942457138 /- HmacSha512 -/ then some 64 else none

/-- block size in bytes, by cipher: 8 for DES / 3DES / IDEA / RC2, 16 for AES / ARIA / Camellia / SEED / SM4, 0 otherwise -/
def specBlockSize (enc : Nat) : Nat :=
  if enc = 4482419 /- Des -/ ∨ enc = 1231316321 /- Idea -/ ∨ enc = 5399346 /- Rc2 -/ ∨ enc = 1557770746395338499443 /- TripleDes -/ then 8
  else if enc = 4285811 /- Aes -/ ∨ enc = 1098017121 /- Aria -/ ∨ enc = 4855282155660274017 /- Camellia -/ ∨ enc = 1399154020 /- Seed -/ ∨ enc = 5467444 /- Sm4 -/ then 16
  else 0

/-- the registry row the build script must produce for a line of the file -/
def expectedRow (f : FileRow) : Option CipherRow :=
  match lookupTok kxMap f.kx, lookupTok auMap f.au, lookupTok encMap f.enc, lookupTok modeMap f.mode,
        lookupTok macMap f.mac, lookupTok prfMap f.prf with
  | some kx, some au, some enc, some mode, some mac, some prf =>
    (specMacLength mac).map fun ml =>
      { key := f.id, id := f.id, name := f.name, kx := kx, au := au, enc := enc, mode := mode, size := f.size,
        mac := mac, macSize := f.macSize, prf := prf, keyBytes := f.size / 8, blockSize := specBlockSize enc, macLength := ml }
  | _, _, _, _, _, _ => none

/-! ### lookups (model of `from_id`, the two `TryFrom<u16 / TlsCipherSuiteID>`, `get_ciphersuite`, `from_name`, `TryFrom<&str>`) -/

def fromId (table : List CipherRow) (id : Nat) : Option CipherRow := table.find? (fun r => r.key == id)
def fromName (table : List CipherRow) (name : Nat) : Option CipherRow := table.find? (fun r => r.name == name)

end Tls
