/-
  Record.lean — model of src/tls_record.rs, src/tls_message.rs and the alert parser.
-/
import TlsModel.Handshake
namespace Tls
variable {β : Type} [ByteLike β]

/-- `MAX_RECORD_LEN = (1 << 14) + 256` -/
def maxRecordLen : Nat := 16640

/-- `parse_tls_record_header` (derived big-endian parser: u8, u16, u16) -/
def parseRecordHeader : Parser β RecordHeader := fun i =>
  (beU 1 i).bind fun i t =>
  (beU 2 i).bind fun i v =>
  (beU 2 i).bind fun i l =>
  .ok i ⟨t, v, l⟩

/-- `parse_tls_message_changecipherspec` -/
def parseMessageCCS : Parser β (Message β) := fun i =>
  (verify (beU 1) (fun t => t = 0x01) i).bind fun i _ => .ok i .changeCipherSpec

/-- `parse_tls_message_alert` (derived: severity u8, code u8) -/
def parseMessageAlert : Parser β (Message β) := fun i =>
  (beU 1 i).bind fun i sev =>
  (beU 1 i).bind fun i code =>
  .ok i (.alert sev code)

/-- `parse_tls_message_applicationdata`: the whole input, remainder `&[]` -/
def parseMessageAppData : Parser β (Message β) := fun i => .ok [] (.applicationData i)

/-- `parse_tls_message_heartbeat(i, tls_plaintext_len)` -/
def parseMessageHeartbeat (plaintextLen : Nat) : Parser β (List (Message β)) := fun i =>
  (beU 1 i).bind fun i ty =>
  (beU 2 i).bind fun i payloadLen =>
  if plaintextLen < 3 then .error .Verify
  else
    (take payloadLen i).bind fun i payload =>
    .ok i [.heartbeat ty payloadLen payload]

/-- `parse_tls_record_with_header(i, hdr)` -/
def parseRecordWithHeader (hdr : RecordHeader) : Parser β (List (Message β)) := fun i =>
  if hdr.recordType = 0x14 then many1 (complete parseMessageCCS) i
  else if hdr.recordType = 0x15 then many1 (complete parseMessageAlert) i
  else if hdr.recordType = 0x16 then many1 (complete parseMessageHandshake) i
  else if hdr.recordType = 0x17 then mapP parseMessageAppData (fun m => [m]) i
  else if hdr.recordType = 0x18 then complete (parseMessageHeartbeat hdr.len) i
  else .error .Switch

/-- `parse_tls_plaintext` -/
def parsePlaintext : Parser β (Plaintext β) := fun i =>
  (parseRecordHeader i).bind fun i hdr =>
  if hdr.len > maxRecordLen then .error .TooLarge
  else
    (mapParser (take hdr.len) (parseRecordWithHeader hdr) i).bind fun i msg =>
    .ok i ⟨hdr, msg⟩

/-- `parse_tls_encrypted` -/
def parseEncrypted : Parser β (Encrypted β) := fun i =>
  (parseRecordHeader i).bind fun i hdr =>
  if hdr.len > maxRecordLen then .error .TooLarge
  else
    (take hdr.len i).bind fun i blob =>
    .ok i ⟨hdr, blob⟩

/-- `parse_tls_raw_record` -/
def parseRawRecord : Parser β (RawRecord β) := fun i =>
  (parseRecordHeader i).bind fun i hdr =>
  if hdr.len > maxRecordLen then .error .TooLarge
  else
    (take hdr.len i).bind fun i data =>
    .ok i ⟨hdr, data⟩

/-- `tls_parser` (deprecated alias) -/
def tlsParser : Parser β (Plaintext β) := parsePlaintext

/-- `tls_parser_many` -/
def tlsParserMany : Parser β (List (Plaintext β)) := many1 (complete parsePlaintext)

end Tls
