/-
  States.lean — model of src/tls_states.rs: `tls_state_transition`, written as the two Rust
  `match`es in order, over model messages.
-/
import TlsModel.Types
namespace Tls

/-- `TlsState`, in declaration order -/
inductive TlsState where
  | none | clientHello | askResumeSession | resumeSession | serverHello | certificate
  | certificateSt | serverKeyExchange | serverHelloDone | clientKeyExchange | clientChangeCipherSpec
  | crCertRequest | crHelloDone | crCert | crClientKeyExchange | crCertVerify
  | noCertSKE | noCertHelloDone | noCertCKE
  | pskHelloDone | pskCKE
  | sessionEncrypted
  | alert
  | finished
  | invalid
  deriving DecidableEq, Repr, Inhabited

def TlsState.all : List TlsState :=
  [.none, .clientHello, .askResumeSession, .resumeSession, .serverHello, .certificate,
   .certificateSt, .serverKeyExchange, .serverHelloDone, .clientKeyExchange, .clientChangeCipherSpec,
   .crCertRequest, .crHelloDone, .crCert, .crClientKeyExchange, .crCertVerify,
   .noCertSKE, .noCertHelloDone, .noCertCKE, .pskHelloDone, .pskCKE, .sessionEncrypted,
   .alert, .finished, .invalid]

def TlsState.toIdx (s : TlsState) : Nat := s.ctorIdx

def TlsState.ofIdx (n : Nat) : Option TlsState := TlsState.all[n]?

variable {β : Type}

/-- `tls_state_transition_handshake`; `none` = `Err(InvalidTransition)` -/
def tlsStateTransitionHandshake (state : TlsState) (msg : Handshake β) (toServer : Bool) : Option TlsState :=
  match state, msg, toServer with
  | .none, .clientHello c, true =>
      match c.sessionId with
      | some _ => some .askResumeSession
      | _ => some .clientHello
  | .clientHello, .serverHello _, false => some .serverHello
  | .serverHello, .certificate _, false => some .certificate
  | .certificate, .serverKeyExchange _, false => some .serverKeyExchange
  | .certificate, .certificateStatus _, false => some .certificateSt
  | .certificateSt, .serverKeyExchange _, false => some .serverKeyExchange
  | .serverKeyExchange, .serverDone _, false => some .serverHelloDone
  | .serverHelloDone, .clientKeyExchange _, true => some .clientKeyExchange
  | .certificate, .certificateRequest _, false => some .crCertRequest
  | .serverKeyExchange, .certificateRequest _, false => some .crCertRequest
  | .crCertRequest, .serverDone _, false => some .crHelloDone
  | .crHelloDone, .certificate _, true => some .crCert
  | .crCert, .clientKeyExchange _, true => some .crClientKeyExchange
  | .crClientKeyExchange, .certificateVerify _, true => some .crCertVerify
  | .serverHello, .serverKeyExchange _, false => some .noCertSKE
  | .noCertSKE, .serverDone _, false => some .noCertHelloDone
  | .noCertHelloDone, .clientKeyExchange _, true => some .noCertCKE
  | .certificate, .serverDone _, false => some .pskHelloDone
  | .pskHelloDone, .clientKeyExchange _, true => some .pskCKE
  | .askResumeSession, .serverHello _, false => some .resumeSession
  | .resumeSession, .certificate _, false => some .certificate
  | .clientHello, .serverHello13d18 _, false => some .clientChangeCipherSpec
  | .none, .helloRequest, _ => Option.none
  | s, .helloRequest, _ => some s
  | .clientChangeCipherSpec, .newSessionTicket _, false => some .clientChangeCipherSpec
  | _, _, _ => Option.none

/-- `tls_state_transition` -/
def tlsStateTransition (state : TlsState) (msg : Message β) (toServer : Bool) : Option TlsState :=
  match state, msg, toServer with
  | .invalid, _, _ => some .invalid
  | .sessionEncrypted, _, _ => some .sessionEncrypted
  | .finished, _, _ => some .invalid
  | _, .handshake m, _ => tlsStateTransitionHandshake state m toServer
  | .clientKeyExchange, .changeCipherSpec, _ => some .clientChangeCipherSpec
  | .clientChangeCipherSpec, .changeCipherSpec, false => some .sessionEncrypted
  | .crClientKeyExchange, .changeCipherSpec, _ => some .clientChangeCipherSpec
  | .crCertVerify, .changeCipherSpec, _ => some .clientChangeCipherSpec
  | .noCertCKE, .changeCipherSpec, _ => some .clientChangeCipherSpec
  | .pskCKE, .changeCipherSpec, _ => some .clientChangeCipherSpec
  | .resumeSession, .changeCipherSpec, _ => some .clientChangeCipherSpec
  | .askResumeSession, .changeCipherSpec, true => some .askResumeSession
  | s, .alert sev _, _ => if sev = 1 then some s else some .finished
  | _, _, _ => Option.none

end Tls
