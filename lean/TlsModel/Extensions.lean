/-
  Extensions.lean — model of src/tls_extensions.rs.
-/
import TlsModel.Handshake
namespace Tls
variable {β : Type} [ByteLike β]

/-- `parse_tls_extension_sni_hostname` -/
def parseSniHostname : Parser β (Nat × List β) := fun i =>
  (beU 1 i).bind fun i t =>
  (lengthData (beU 2) i).bind fun i v =>
  .ok i (t, v)

/-- `parse_tls_extension_sni_content` -/
def parseSniContent : Parser β (Extension β) := fun i =>
  if i.isEmpty then .ok i (.sni [])
  else
    (beU 2 i).bind fun i listLen =>
    (mapParser (take listLen) (many0 (complete parseSniHostname)) i).bind fun i v =>
    .ok i (.sni v)

/-- `parse_tls_extension_max_fragment_length_content` -/
def parseMaxFragmentLengthContent : Parser β (Extension β) := mapP (beU 1) .maxFragmentLength

/-- `parse_tls_extension_status_request_content(i, ext_len)`; `ext_len - 1` is u16 arithmetic -/
def parseStatusRequestContent (extLen : Nat) : Parser β (Extension β) := fun i =>
  if extLen = 0 then .ok i (.statusRequest none)
  else
    (beU 1 i).bind fun i st =>
    (if 1 ≤ extLen then take (extLen - 1) i else .panic).bind fun i req =>
    .ok i (.statusRequest (some (st, req)))

/-- `parse_tls_extension_elliptic_curves_content` -/
def parseEllipticCurvesContent : Parser β (Extension β) :=
  mapParser (lengthData (beU 2)) (mapP parseU16All .ellipticCurves)

/-- `parse_tls_extension_ec_point_formats_content` -/
def parseEcPointFormatsContent : Parser β (Extension β) := mapP (lengthData (beU 1)) .ecPointFormats

/-- `parse_tls_extension_signature_algorithms_content` -/
def parseSignatureAlgorithmsContent : Parser β (Extension β) := fun i =>
  (mapParser (lengthData (beU 2)) (many0 (complete (beU 2))) i).bind fun i l =>
  .ok i (.signatureAlgorithms l)

/-- `parse_tls_extension_heartbeat_content` -/
def parseHeartbeatContent : Parser β (Extension β) := mapP (beU 1) .heartbeat

/-- `parse_tls_extension_alpn_content` -/
def parseAlpnContent : Parser β (Extension β) := fun i =>
  (mapParser (lengthData (beU 2)) (many0 (complete (lengthData (beU 1)))) i).bind fun i v =>
  .ok i (.alpn v)

/-- `parse_tls_extension_signed_certificate_timestamp_content` -/
def parseSctContent : Parser β (Extension β) :=
  mapP (opt (complete (lengthData (beU 2)))) .signedCertificateTimestamp

/-- the four "must be empty" content parsers -/
def parseEmptyContent (extLen : Nat) (v : Extension β) : Parser β (Extension β) := fun i =>
  if extLen ≠ 0 then .error .Verify else .ok i v

/-- `parse_tls_extension_early_data_content` -/
def parseEarlyDataContent (extLen : Nat) : Parser β (Extension β) :=
  mapP (cond (extLen > 0) (beU 4)) .earlyData

/-- `parse_tls_extension_supported_versions_content` -/
def parseSupportedVersionsContent (extLen : Nat) : Parser β (Extension β) := fun i =>
  if extLen = 2 then mapP (beU 2) (fun x => .supportedVersions [x]) i
  else
    (beU 1 i).bind fun i _ =>
    if extLen = 0 then .error .Verify
    else
      (if 1 ≤ extLen then mapParser (take (extLen - 1)) parseU16All i else .panic).bind fun i l =>
      .ok i (.supportedVersions l)

/-- `parse_tls_extension_psk_key_exchange_modes_content` (`to_vec`: owned copy of the values) -/
def parsePskModesContent : Parser β (Extension β) := fun i =>
  (lengthData (beU 1) i).bind fun i v =>
  .ok i (.pskExchangeModes (v.map toNat))

/-- `parse_tls_extension_renegotiation_info_content` -/
def parseRenegotiationInfoContent : Parser β (Extension β) := mapP (lengthData (beU 1)) .renegotiationInfo

/-- `parse_tls_extension_encrypted_server_name` -/
def parseEncryptedServerName : Parser β (Extension β) := fun i =>
  (beU 2 i).bind fun i cs =>
  (beU 2 i).bind fun i group =>
  (lengthData (beU 2) i).bind fun i ks =>
  (lengthData (beU 2) i).bind fun i rd =>
  (lengthData (beU 2) i).bind fun i esni =>
  .ok i (.encryptedServerName cs group ks rd esni)

/-- `parse_tls_oid_filter` -/
def parseOidFilter : Parser β (List β × List β) := fun i =>
  (lengthData (beU 1) i).bind fun i oid =>
  (lengthData (beU 2) i).bind fun i val =>
  .ok i (oid, val)

/-- `parse_tls_extension_oid_filters` -/
def parseOidFilters : Parser β (Extension β) := fun i =>
  (mapParser (lengthData (beU 2)) (many0 (complete parseOidFilter)) i).bind fun i v =>
  .ok i (.oidFilters v)

/-- `parse_tls_extension_unknown` -/
def parseExtensionUnknown : Parser β (Extension β) := fun i =>
  (beU 2 i).bind fun i t =>
  (lengthData (beU 2) i).bind fun i d =>
  .ok i (.unknown t d)

/-- the GREASE test applied by the three dispatchers (RFC 8701: 0x0a0a, 0x1a1a, …, 0xfafa) -/
def isGrease (t : Nat) : Bool := t % 16 = 10 && (t / 256) % 16 = 10 && t / 256 = t % 256

inductive Dispatcher where
  | generic | client | server
  deriving DecidableEq, Repr

/-- which dispatchers have an arm -/
inductive Arms where
  | all        -- generic, client and server
  | cg         -- generic and client only
  | g          -- generic only
  deriving DecidableEq, Repr

def Arms.has : Arms → Dispatcher → Bool
  | .all, _ => true
  | .cg, d => d != .server
  | .g, d => d == .generic

/-- the `match ext_type { … }` arms of the three dispatchers as one table
    (type, dispatchers having the arm, content parser); types are distinct, so the first
    matching row is the arm the Rust `match` selects. -/
def extTable (extLen : Nat) : List (Nat × Arms × Parser β (Extension β)) := [
  (0, .all, parseSniContent),
  (1, .all, parseMaxFragmentLengthContent),
  (5, .all, parseStatusRequestContent extLen),
  (10, .cg, parseEllipticCurvesContent),
  (11, .all, parseEcPointFormatsContent),
  (13, .all, parseSignatureAlgorithmsContent),
  (15, .all, parseHeartbeatContent),
  (16, .all, parseAlpnContent),
  (18, .all, parseSctContent),
  (21, .cg, mapP (take extLen) .padding),
  (22, .all, parseEmptyContent extLen .encryptThenMac),
  (23, .all, parseEmptyContent extLen .extendedMasterSecret),
  (28, .all, mapP (beU 2) .recordSizeLimit),
  (35, .all, mapP (take extLen) .sessionTicket),
  (40, .g, mapP (take extLen) .keyShareOld),
  (41, .all, mapP (take extLen) .preSharedKey),
  (42, .all, parseEarlyDataContent extLen),
  (43, .all, parseSupportedVersionsContent extLen),
  (44, .all, mapP (take extLen) .cookie),
  (45, .cg, parsePskModesContent),
  (48, .cg, parseOidFilters),
  (49, .cg, parseEmptyContent extLen .postHandshakeAuth),
  (51, .all, mapP (take extLen) .keyShare),
  (13172, .all, parseEmptyContent extLen .nextProtocolNegotiation),
  (0xff01, .all, parseRenegotiationInfoContent),
  (0xffce, .cg, parseEncryptedServerName)]

/-- content dispatch; `none` is the `_ =>` (Unknown) arm -/
def extContentParser (d : Dispatcher) (t extLen : Nat) : Option (Parser β (Extension β)) :=
  ((extTable extLen).find? (fun e => e.1 == t && e.2.1.has d)).map (fun e => e.2.2)

/-- `parse_tls_extension` / `parse_tls_client_hello_extension` / `parse_tls_server_hello_extension` -/
def parseExtensionD (d : Dispatcher) : Parser β (Extension β) := fun i =>
  (beU 2 i).bind fun i t =>
  (lengthData (beU 2) i).bind fun i data =>
  if isGrease t then .ok i (.grease t data)
  else
    let extLen := data.length % 65536       -- `ext_data.len() as u16`
    match extContentParser d t extLen with
    | some p => (p data).bind fun _ e => .ok i e
    | none => .ok i (.unknown t data)

def parseExtension : Parser β (Extension β) := parseExtensionD .generic
def parseClientHelloExtension : Parser β (Extension β) := parseExtensionD .client
def parseServerHelloExtension : Parser β (Extension β) := parseExtensionD .server

/-- the three list parsers -/
def parseExtensionsD (d : Dispatcher) : Parser β (List (Extension β)) := many0 (complete (parseExtensionD d))
def parseExtensions : Parser β (List (Extension β)) := parseExtensionsD .generic
def parseClientHelloExtensions : Parser β (List (Extension β)) := parseExtensionsD .client
def parseServerHelloExtensions : Parser β (List (Extension β)) := parseExtensionsD .server

/-- tag-specific parsers of the form `tag; map_parser(length_data(be_u16), content)` -/
def tagLD (t : List Nat) (content : Parser β (Extension β)) : Parser β (Extension β) := fun i =>
  (tag t i).bind fun i _ => mapParser (lengthData (beU 2)) content i

/-- tag-specific parsers of the form `tag; ext_len = be_u16; map_parser(take(ext_len), content(ext_len))` -/
def tagLen (t : List Nat) (content : Nat → Parser β (Extension β)) : Parser β (Extension β) := fun i =>
  (tag t i).bind fun i _ =>
  (beU 2 i).bind fun i extLen =>
  mapParser (take extLen) (content extLen) i

def parseTagSni : Parser β (Extension β) := tagLD [0x00, 0x00] parseSniContent
def parseTagMaxFragmentLength : Parser β (Extension β) := tagLD [0x00, 0x01] parseMaxFragmentLengthContent
def parseTagStatusRequest : Parser β (Extension β) := tagLen [0x00, 0x05] parseStatusRequestContent
def parseTagEllipticCurves : Parser β (Extension β) := tagLD [0x00, 0x0a] parseEllipticCurvesContent
def parseTagEcPointFormats : Parser β (Extension β) := tagLD [0x00, 0x0b] parseEcPointFormatsContent
def parseTagSignatureAlgorithms : Parser β (Extension β) := tagLD [0x00, 13] parseSignatureAlgorithmsContent
/-- `parse_tls_extension_heartbeat`: `verify(be_u16, n == 1)` -/
def parseTagHeartbeat : Parser β (Extension β) := fun i =>
  (tag [0x00, 0x0f] i).bind fun i _ =>
  (verify (beU 2) (fun n => n = 1) i).bind fun i extLen =>
  mapParser (take extLen) parseHeartbeatContent i
def parseTagEncryptThenMac : Parser β (Extension β) :=
  tagLen [0x00, 0x16] (fun l => parseEmptyContent l .encryptThenMac)
def parseTagExtendedMasterSecret : Parser β (Extension β) :=
  tagLen [0x00, 0x17] (fun l => parseEmptyContent l .extendedMasterSecret)
def parseTagSessionTicket : Parser β (Extension β) := tagLen [0x00, 0x23] (fun l => mapP (take l) .sessionTicket)
def parseTagKeyShare : Parser β (Extension β) := tagLen [0x00, 0x33] (fun l => mapP (take l) .keyShare)
def parseTagPreSharedKey : Parser β (Extension β) := tagLen [0x00, 0x29] (fun l => mapP (take l) .preSharedKey)
def parseTagEarlyData : Parser β (Extension β) := tagLen [0x00, 0x2a] parseEarlyDataContent
def parseTagSupportedVersions : Parser β (Extension β) := tagLen [0x00, 0x2b] parseSupportedVersionsContent
def parseTagCookie : Parser β (Extension β) := tagLen [0x00, 0x2c] (fun l => mapP (take l) .cookie)
def parseTagPskModes : Parser β (Extension β) := tagLen [0x00, 0x2d] (fun _ => parsePskModesContent)

/-- `TlsExtensionType::from(&ext)` -/
def Extension.typeOf : Extension β → Nat
  | .sni _ => 0
  | .maxFragmentLength _ => 1
  | .statusRequest _ => 5
  | .ellipticCurves _ => 10
  | .ecPointFormats _ => 11
  | .signatureAlgorithms _ => 13
  | .sessionTicket _ => 35
  | .recordSizeLimit _ => 28
  | .keyShareOld _ => 40
  | .keyShare _ => 51
  | .preSharedKey _ => 41
  | .earlyData _ => 42
  | .supportedVersions _ => 43
  | .cookie _ => 44
  | .pskExchangeModes _ => 45
  | .heartbeat _ => 15
  | .alpn _ => 16
  | .signedCertificateTimestamp _ => 18
  | .padding _ => 21
  | .encryptThenMac => 22
  | .extendedMasterSecret => 23
  | .oidFilters _ => 48
  | .postHandshakeAuth => 49
  | .nextProtocolNegotiation => 13172
  | .renegotiationInfo _ => 0xff01
  | .encryptedServerName .. => 0xffce
  | .grease _ _ => 0xfafa
  | .unknown t _ => t

end Tls
