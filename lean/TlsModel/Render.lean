/-
  Render.lean — canonical text rendering of model values (PROTOCOL.md), used by the driver.
  Not part of any theorem; trusted as part of the correspondence check.
-/
import TlsModel.Dtls
import TlsModel.Extensions
import TlsModel.Crypto
import TlsModel.RecordsParser
namespace Tls

def hexDigit (n : Nat) : Char :=
  if n < 10 then Char.ofNat (48 + n) else Char.ofNat (87 + n)

def hexOfNats (l : List Nat) : String :=
  String.ofList (l.flatMap fun n => [hexDigit (n / 16 % 16), hexDigit (n % 16)])

/-- how a slice prints: needs positions, so only defined for tagged bytes (and a fallback for plain) -/
class SliceRender (β : Type) where
  slice : List β → String

def contiguousFrom : Nat → List (UInt8 × Nat) → Bool
  | _, [] => true
  | p, b :: r => b.2 == p && contiguousFrom (p + 1) r

instance : SliceRender (UInt8 × Nat) where
  slice l := match l with
    | [] => "+0"
    | b :: _ =>
      let p0 := b.2
      let n := l.length
      if contiguousFrom p0 l then
        if p0 ≥ bufBase then s!"B@{p0 - bufBase}+{n}" else s!"@{p0}+{n}"
      else "X:" ++ hexOfNats (l.map fun x => x.1.toNat)

instance : SliceRender UInt8 where
  slice l := "x:" ++ hexOfNats (l.map UInt8.toNat)

variable {β : Type} [SliceRender β]

def rS (l : List β) : String := SliceRender.slice l
def rList {α : Type} (f : α → String) (l : List α) : String := "[" ++ " ".intercalate (l.map f) ++ "]"
def rOpt {α : Type} (f : α → String) : Option α → String
  | none => "none"
  | some v => "(some " ++ f v ++ ")"
def rN (n : Nat) : String := toString n
def rOwned (l : List Nat) : String := "x:" ++ hexOfNats l

def rHdr (h : RecordHeader) : String := s!"(Hdr {h.recordType} {h.version} {h.len})"

def rClientHello (c : ClientHello β) : String :=
  s!"(ClientHello {c.version} {rS c.random} {rOpt rS c.sessionId} {rList rN c.ciphers} {rList rN c.comp} {rOpt rS c.ext})"

def rServerHello (s : ServerHello β) : String :=
  s!"(ServerHello {s.version} {rS s.random} {rOpt rS s.sessionId} {s.cipher} {s.compression} {rOpt rS s.ext})"

def rCertRequest (r : CertRequest β) : String :=
  s!"(CertificateRequest {rList rN r.certTypes} {rOpt (rList rN) r.sigHashAlgs} {rList rS r.unparsedCa})"

def rCertStatus (s : CertStatus β) : String := s!"(CertificateStatus {s.statusType} {rS s.blob})"
def rNextProtocol (n : NextProtocol β) : String := s!"(NextProtocol {rS n.selected} {rS n.padding})"

def rCKE : CKE β → String
  | .dh d => s!"(ClientKeyExchange (Dh {rS d}))"
  | .ecdh d => s!"(ClientKeyExchange (Ecdh {rS d}))"
  | .unknown d => s!"(ClientKeyExchange (Unknown {rS d}))"

def rHandshake : Handshake β → String
  | .helloRequest => "HelloRequest"
  | .clientHello c => rClientHello c
  | .serverHello s => rServerHello s
  | .serverHello13d18 s => s!"(ServerHello13d18 {s.version} {rS s.random} {s.cipher} {rOpt rS s.ext})"
  | .newSessionTicket t => s!"(NewSessionTicket {t.hint} {rS t.ticket})"
  | .endOfEarlyData => "EndOfEarlyData"
  | .helloRetryRequest h => s!"(HelloRetryRequest {h.version} {h.cipher} {rOpt rS h.ext})"
  | .certificate c => s!"(Certificate {rList rS c})"
  | .serverKeyExchange p => s!"(ServerKeyExchange {rS p})"
  | .certificateRequest r => rCertRequest r
  | .serverDone d => s!"(ServerDone {rS d})"
  | .certificateVerify d => s!"(CertificateVerify {rS d})"
  | .clientKeyExchange c => rCKE c
  | .finished d => s!"(Finished {rS d})"
  | .certificateStatus s => rCertStatus s
  | .nextProtocol n => rNextProtocol n
  | .keyUpdate n => s!"(KeyUpdate {n})"

def rMessage : Message β → String
  | .handshake h => s!"(Hs {rHandshake h})"
  | .changeCipherSpec => "CCS"
  | .alert s c => s!"(Alert {s} {c})"
  | .applicationData b => s!"(App {rS b})"
  | .heartbeat t l p => s!"(Hb {t} {l} {rS p})"

def rPlaintext (p : Plaintext β) : String := s!"(Plain {rHdr p.hdr} {rList rMessage p.msg})"
def rRaw (r : RawRecord β) : String := s!"(Raw {rHdr r.hdr} {rS r.data})"
def rEnc (r : Encrypted β) : String := s!"(Enc {rHdr r.hdr} {rS r.blob})"

def rPairNS (p : Nat × List β) : String := s!"(P {p.1} {rS p.2})"
def rPairSS (p : List β × List β) : String := s!"(P {rS p.1} {rS p.2})"

def rExtension : Extension β → String
  | .sni l => s!"(SNI {rList rPairNS l})"
  | .maxFragmentLength n => s!"(MaxFragmentLength {n})"
  | .statusRequest r => s!"(StatusRequest {rOpt rPairNS r})"
  | .ellipticCurves l => s!"(EllipticCurves {rList rN l})"
  | .ecPointFormats d => s!"(EcPointFormats {rS d})"
  | .signatureAlgorithms l => s!"(SignatureAlgorithms {rList rN l})"
  | .recordSizeLimit n => s!"(RecordSizeLimit {n})"
  | .sessionTicket d => s!"(SessionTicket {rS d})"
  | .keyShareOld d => s!"(KeyShareOld {rS d})"
  | .keyShare d => s!"(KeyShare {rS d})"
  | .preSharedKey d => s!"(PreSharedKey {rS d})"
  | .earlyData o => s!"(EarlyData {rOpt rN o})"
  | .supportedVersions l => s!"(SupportedVersions {rList rN l})"
  | .cookie d => s!"(Cookie {rS d})"
  | .pskExchangeModes v => s!"(PskExchangeModes {rOwned v})"
  | .heartbeat n => s!"(Heartbeat {n})"
  | .alpn l => s!"(ALPN {rList rS l})"
  | .signedCertificateTimestamp o => s!"(SCT {rOpt rS o})"
  | .padding d => s!"(Padding {rS d})"
  | .encryptThenMac => "EncryptThenMac"
  | .extendedMasterSecret => "ExtendedMasterSecret"
  | .oidFilters l => s!"(OidFilters {rList rPairSS l})"
  | .postHandshakeAuth => "PostHandshakeAuth"
  | .nextProtocolNegotiation => "NextProtocolNegotiation"
  | .renegotiationInfo d => s!"(RenegotiationInfo {rS d})"
  | .encryptedServerName cs g ks rd es => s!"(ESNI {cs} {g} {rS ks} {rS rd} {rS es})"
  | .grease t d => s!"(Grease {t} {rS d})"
  | .unknown t d => s!"(Unknown {t} {rS d})"

def rDH (d : DHParams β) : String := s!"(DH {rS d.p} {rS d.g} {rS d.ys})"

def rECParams (e : ECParameters β) : String :=
  match e.content with
  | .explicitPrime x =>
    s!"(ECParams {e.curveType} (ExplicitPrime {rS x.primeP} {rS x.a} {rS x.b} {rS x.base} {rS x.order} {rS x.cofactor}))"
  | .namedGroup g => s!"(ECParams {e.curveType} (NamedGroup {g}))"

def rECDH (e : ECDHParams β) : String := s!"(ECDH {rECParams e.curve} {rS e.pub})"

def rPairNN (p : Nat × Nat) : String := s!"(P {p.1} {p.2})"
def rDSig (d : DigitallySigned β) : String := s!"(DSig {rOpt rPairNN d.alg} {rS d.data})"
def rSCT (s : SCT β) : String :=
  s!"(SCTE {s.version} {rS s.keyId} {s.timestamp} {rS s.extensions} {rDSig s.signature})"

def rDtlsHdr (h : DtlsHeader) : String := s!"(DHdr {h.contentType} {h.version} {h.epoch} {h.seq} {h.length})"

def rDtlsBody : DtlsBody β → String
  | .clientHello c =>
    s!"(ClientHello {c.version} {rS c.random} {rOpt rS c.sessionId} {rS c.cookie} {rList rN c.ciphers} {rList rN c.comp} {rOpt rS c.ext})"
  | .helloVerifyRequest v c => s!"(HelloVerifyRequest {v} {rS c})"
  | .serverHello s => rServerHello s
  | .certificate c => s!"(Certificate {rList rS c})"
  | .serverDone d => s!"(ServerDone {rS d})"
  | .clientKeyExchange c => rCKE c
  | .fragment d => s!"(Fragment {rS d})"

def rDtlsMessage (m : DtlsMessage β) : String :=
  let f := if m.isFragment then "1" else "0"
  match m with
  | .handshake h =>
    s!"(M {f} (Hs {h.msgType} {h.length} {h.messageSeq} {h.fragmentOffset} {h.fragmentLength} {rDtlsBody h.body}))"
  | .changeCipherSpec => s!"(M {f} CCS)"
  | .alert s c => s!"(M {f} (Alert {s} {c}))"

def rDtlsPlaintext (p : DtlsPlaintext β) : String :=
  s!"(DPlain {rDtlsHdr p.header} {rList rDtlsMessage p.messages})"

def rNeeded : Needed → String
  | .unknown => "?"
  | .size n => toString n

def rKind : ErrKind → String
  | .Tag => "Tag" | .Verify => "Verify" | .Switch => "Switch" | .TooLarge => "TooLarge"
  | .LengthValue => "LengthValue" | .Complete => "Complete" | .Many0 => "Many0" | .Many1 => "Many1"
  | .Count => "Count" | .Alt => "Alt" | .NonEmpty => "NonEmpty" | .Eof => "Eof"

def rRes {α : Type} (f : α → String) : Res β α → String
  | .ok rem v => s!"ok {rem.length} {f v}"
  | .incomplete n => s!"incomplete {rNeeded n}"
  | .error k => s!"error {rKind k}"
  | .failure k => s!"failure {rKind k}"
  | .panic => "panic"

end Tls
