/-
  Dtls.lean — model of src/dtls.rs.
-/
import TlsModel.Record
namespace Tls
variable {β : Type} [ByteLike β]

/-- `parse_dtls_record_header`: `int0 >> 48`, `int0 & 0xffff_ffff_ffff` -/
def parseDtlsRecordHeader : Parser β DtlsHeader := fun i =>
  (beU 1 i).bind fun i ct =>
  (beU 2 i).bind fun i version =>
  (beU 8 i).bind fun i int0 =>
  (beU 2 i).bind fun i length =>
  .ok i ⟨ct, version, (int0 / 2 ^ 48) % 65536, int0 % 2 ^ 48, length⟩

/-- `parse_dtls_client_hello` -/
def parseDtlsClientHello : Parser β (DtlsBody β) := fun i =>
  (beU 2 i).bind fun i version =>
  (take 32 i).bind fun i random =>
  (verify (beU 1) (fun n => n ≤ 32) i).bind fun i sidlen =>
  (cond (sidlen > 0) (take sidlen) i).bind fun i sid =>
  (lengthData (beU 1) i).bind fun i cookie =>
  (beU 2 i).bind fun i ciphersLen =>
  (parseCipherSuites ciphersLen i).bind fun i ciphers =>
  (beU 1 i).bind fun i compLen =>
  (parseCompressionsAlgs compLen i).bind fun i comp =>
  (optExtBlock i).bind fun i ext =>
  .ok i (.clientHello ⟨version, random, sid, cookie, ciphers, comp, ext⟩)

/-- `parse_dtls_hello_verify_request` -/
def parseDtlsHelloVerifyRequest : Parser β (DtlsBody β) := fun i =>
  (beU 2 i).bind fun i version =>
  (lengthData (beU 1) i).bind fun i cookie =>
  .ok i (.helloVerifyRequest version cookie)

/-- body dispatch of `parse_dtls_message_handshake` -/
def parseDtlsBody (msgType length : Nat) (isFragment : Bool) : Parser β (DtlsBody β) := fun raw =>
  if isFragment then .ok [] (.fragment raw)
  else if msgType = 0x01 then parseDtlsClientHello raw
  else if msgType = 0x03 then parseDtlsHelloVerifyRequest raw
  else if msgType = 0x02 then mapP (parseServerHelloV12 true) .serverHello raw
  else if msgType = 0x0e then mapP (take length) .serverDone raw
  else if msgType = 0x10 then mapP (take length) (fun d => .clientKeyExchange (.unknown d)) raw
  else if msgType = 0x0b then mapP parseCertificate .certificate raw
  else .error .Switch

/-- `parse_dtls_message_handshake` -/
def parseDtlsMessageHandshake : Parser β (DtlsMessage β) := fun i =>
  (beU 1 i).bind fun i msgType =>
  (beU 3 i).bind fun i length =>
  (beU 2 i).bind fun i messageSeq =>
  (beU 3 i).bind fun i fragOff =>
  (beU 3 i).bind fun i fragLen =>
  (take fragLen i).bind fun i raw =>
  let isFragment := decide (fragOff > 0) || decide (fragLen < length)
  (parseDtlsBody msgType length isFragment raw).bind fun _ body =>
  .ok i (.handshake ⟨msgType, length, messageSeq, fragOff, fragLen, body⟩)

/-- `parse_dtls_message_changecipherspec` -/
def parseDtlsMessageCCS : Parser β (DtlsMessage β) := fun i =>
  (verify (beU 1) (fun t => t = 0x01) i).bind fun i _ => .ok i .changeCipherSpec

/-- `parse_dtls_message_alert` -/
def parseDtlsMessageAlert : Parser β (DtlsMessage β) := fun i =>
  (beU 1 i).bind fun i sev =>
  (beU 1 i).bind fun i code =>
  .ok i (.alert sev code)

/-- `parse_dtls_record_with_header` -/
def parseDtlsRecordWithHeader (hdr : DtlsHeader) : Parser β (List (DtlsMessage β)) := fun i =>
  if hdr.contentType = 0x14 then many1 (complete parseDtlsMessageCCS) i
  else if hdr.contentType = 0x15 then many1 (complete parseDtlsMessageAlert) i
  else if hdr.contentType = 0x16 then many1 (complete parseDtlsMessageHandshake) i
  else .error .Switch

/-- `parse_dtls_plaintext_record` -/
def parseDtlsPlaintextRecord : Parser β (DtlsPlaintext β) := fun i =>
  (parseDtlsRecordHeader i).bind fun i header =>
  if header.length > maxRecordLen then .error .TooLarge
  else
    (mapParser (take header.length) (parseDtlsRecordWithHeader header) i).bind fun i messages =>
    .ok i ⟨header, messages⟩

/-- `parse_dtls_plaintext_records` -/
def parseDtlsPlaintextRecords : Parser β (List (DtlsPlaintext β)) := many1 (complete parseDtlsPlaintextRecord)

end Tls
