/-
  Nom.lean — the part of nom 7.1.3 (streaming flavour) that tls-parser uses, as total functions.

  * `Res` has nom's three failure modes (`Incomplete(Needed)`, `Err::Error(kind)`, `Err::Failure(kind)`)
    plus `panic`, which is produced only where the Rust can panic (slice indexing, checked
    arithmetic, `expect`, `debug_assert!`).
  * Bytes are generic (`ByteLike β`): the same definitions run on plain bytes and on
    position-tagged bytes; slices in parsed values are `List β`.
  * The error *position* carried by `nom::error::Error` is not modelled.
  No imports: the driver must link as a native executable.
-/
namespace Tls

/-- A byte-like element: a value below 256, constructible from a number, and copyable to a
    buffer offset (`copy` keeps the value; on tagged bytes it gives the byte a new identity,
    as `Vec::extend_from_slice` does). -/
class ByteLike (β : Type) where
  toNat : β → Nat
  ofNat : Nat → β
  toNat_lt : ∀ b, toNat b < 256
  toNat_ofNat : ∀ n, toNat (ofNat n) = n % 256
  copy : Nat → β → β
  toNat_copy : ∀ o b, toNat (copy o b) = toNat b

export ByteLike (toNat)

instance : ByteLike UInt8 where
  toNat := UInt8.toNat
  ofNat := UInt8.ofNat
  toNat_lt b := UInt8.toNat_lt b
  toNat_ofNat n := by simp [UInt8.toNat_ofNat']
  copy _ b := b
  toNat_copy _ _ := rfl

/-- Offset marking positions inside the defragmenter's own buffer (tagged bytes only). -/
def bufBase : Nat := 1099511627776  -- 2^40

/-- Position-tagged byte: (value, address). -/
instance : ByteLike (UInt8 × Nat) where
  toNat b := b.1.toNat
  ofNat n := (UInt8.ofNat n, 0)
  toNat_lt b := UInt8.toNat_lt b.1
  toNat_ofNat n := by simp [UInt8.toNat_ofNat']
  copy o b := (b.1, bufBase + o)
  toNat_copy _ _ := rfl

instance : ByteLike (Fin 256) where
  toNat b := b.val
  ofNat n := ⟨n % 256, Nat.mod_lt _ (by decide)⟩
  toNat_lt b := b.isLt
  toNat_ofNat _ := rfl
  copy _ b := b
  toNat_copy _ _ := rfl

inductive Needed where
  | unknown
  | size (n : Nat)
  deriving DecidableEq, Repr, Inhabited

inductive ErrKind where
  | Tag | Verify | Switch | TooLarge | LengthValue | Complete
  | Many0 | Many1 | Count | Alt | NonEmpty | Eof
  deriving DecidableEq, Repr, Inhabited

inductive Res (β α : Type) where
  | ok (rem : List β) (v : α)
  | incomplete (n : Needed)
  | error (k : ErrKind)
  | failure (k : ErrKind)
  | panic
  deriving DecidableEq, Repr, Inhabited

namespace Res
variable {β α γ : Type}

/-- Sequencing: `?` in the Rust. -/
@[inline] def bind (r : Res β α) (f : List β → α → Res β γ) : Res β γ :=
  match r with
  | .ok rem v => f rem v
  | .incomplete n => .incomplete n
  | .error k => .error k
  | .failure k => .failure k
  | .panic => .panic

@[inline] def map (f : α → γ) (r : Res β α) : Res β γ :=
  match r with
  | .ok rem v => .ok rem (f v)
  | .incomplete n => .incomplete n
  | .error k => .error k
  | .failure k => .failure k
  | .panic => .panic

/-- Replace the remainder of a successful result. -/
@[inline] def mapRem (f : List β → List β) (r : Res β α) : Res β α :=
  match r with
  | .ok rem v => .ok (f rem) v
  | .incomplete n => .incomplete n
  | .error k => .error k
  | .failure k => .failure k
  | .panic => .panic

def isOk : Res β α → Bool
  | .ok _ _ => true
  | _ => false

def isIncomplete : Res β α → Bool
  | .incomplete _ => true
  | _ => false

def isPanic : Res β α → Bool
  | .panic => true
  | _ => false

@[simp] theorem bind_ok (rem : List β) (v : α) (f : List β → α → Res β γ) :
    (Res.ok rem v).bind f = f rem v := rfl
@[simp] theorem bind_incomplete (n : Needed) (f : List β → α → Res β γ) :
    (Res.incomplete n : Res β α).bind f = .incomplete n := rfl
@[simp] theorem bind_error (k : ErrKind) (f : List β → α → Res β γ) :
    (Res.error k : Res β α).bind f = .error k := rfl
@[simp] theorem bind_failure (k : ErrKind) (f : List β → α → Res β γ) :
    (Res.failure k : Res β α).bind f = .failure k := rfl
@[simp] theorem bind_panic (f : List β → α → Res β γ) :
    (Res.panic : Res β α).bind f = .panic := rfl

@[simp] theorem map_ok (f : α → γ) (rem : List β) (v : α) : (Res.ok rem v).map f = .ok rem (f v) := rfl
@[simp] theorem map_incomplete (f : α → γ) (n : Needed) : (Res.incomplete n : Res β α).map f = .incomplete n := rfl
@[simp] theorem map_error (f : α → γ) (k : ErrKind) : (Res.error k : Res β α).map f = .error k := rfl
@[simp] theorem map_failure (f : α → γ) (k : ErrKind) : (Res.failure k : Res β α).map f = .failure k := rfl
@[simp] theorem map_panic (f : α → γ) : (Res.panic : Res β α).map f = .panic := rfl

@[simp] theorem mapRem_ok (f : List β → List β) (rem : List β) (v : α) :
    (Res.ok rem v).mapRem f = .ok (f rem) v := rfl
@[simp] theorem mapRem_incomplete (f : List β → List β) (n : Needed) :
    (Res.incomplete n : Res β α).mapRem f = .incomplete n := rfl
@[simp] theorem mapRem_error (f : List β → List β) (k : ErrKind) :
    (Res.error k : Res β α).mapRem f = .error k := rfl
@[simp] theorem mapRem_failure (f : List β → List β) (k : ErrKind) :
    (Res.failure k : Res β α).mapRem f = .failure k := rfl
@[simp] theorem mapRem_panic (f : List β → List β) : (Res.panic : Res β α).mapRem f = .panic := rfl

end Res

/-- A nom parser over byte-like elements. -/
abbrev Parser (β α : Type) := List β → Res β α

section Combinators
variable {β α γ : Type}

/-- `Ok((i, v))` without consuming. -/
@[inline] def pureP (v : α) : Parser β α := fun i => .ok i v

/-- `Err(Err::Error(make_error(i, k)))` -/
@[inline] def failP (k : ErrKind) : Parser β α := fun _ => .error k

/-- Big-endian value of a byte list. -/
def beVal [ByteLike β] (l : List β) : Nat := l.foldl (fun a b => a * 256 + toNat b) 0

/-- `nom::bytes::streaming::take(n)` (also `length_data` once the length is known). -/
def take (n : Nat) : Parser β (List β) := fun i =>
  if n ≤ i.length then .ok (i.drop n) (i.take n) else .incomplete (.size (n - i.length))

/-- `nom::number::streaming::be_u8/16/24/32/64` for `w` = 1, 2, 3, 4, 8. -/
def beU [ByteLike β] (w : Nat) : Parser β Nat := fun i =>
  if w ≤ i.length then .ok (i.drop w) (beVal (i.take w)) else .incomplete (.size (w - i.length))

/-- `length_data(f)`: run `f`, then take that many bytes. -/
def lengthData (f : Parser β Nat) : Parser β (List β) := fun i =>
  (f i).bind fun i1 n => take n i1

/-- `map(f, g)` -/
def mapP (f : Parser β α) (g : α → γ) : Parser β γ := fun i => (f i).map g

/-- `map_parser(f, g)`: `g` runs on `f`'s output; `g`'s remainder is discarded. -/
def mapParser (f : Parser β (List β)) (g : Parser β α) : Parser β α := fun i =>
  (f i).bind fun i1 o1 => (g o1).bind fun _ o2 => .ok i1 o2

/-- `verify(f, p)` -/
def verify (f : Parser β α) (p : α → Bool) : Parser β α := fun i =>
  (f i).bind fun i1 o => if p o then .ok i1 o else .error .Verify

/-- `cond(b, f)` -/
def cond (b : Bool) (f : Parser β α) : Parser β (Option α) := fun i =>
  if b then (f i).map some else .ok i none

/-- `opt(f)`: only `Err::Error` is turned into `None`. -/
def opt (f : Parser β α) : Parser β (Option α) := fun i =>
  match f i with
  | .ok r v => .ok r (some v)
  | .error _ => .ok i none
  | .incomplete n => .incomplete n
  | .failure k => .failure k
  | .panic => .panic

/-- `complete(f)`: `Incomplete` becomes `Error(Complete)`. -/
def complete (f : Parser β α) : Parser β α := fun i =>
  match f i with
  | .incomplete _ => .error .Complete
  | r => r

/-- `alt((a, b))`: with `nom::error::Error`, `or` and `append` both keep the second error. -/
def alt (a b : Parser β α) : Parser β α := fun i =>
  match a i with
  | .error _ => b i
  | r => r

/-- `pair(a, b)` -/
def pair (a : Parser β α) (b : Parser β γ) : Parser β (α × γ) := fun i =>
  (a i).bind fun i1 x => (b i1).bind fun i2 y => .ok i2 (x, y)

/-- streaming `tag(t)`: mismatch on the common prefix → `Error(Tag)`; too short → `Incomplete`. -/
def tag [ByteLike β] (t : List Nat) : Parser β Unit := fun i =>
  if ((i.map toNat).zip t).any (fun p => p.1 != p.2) then .error .Tag
  else if t.length ≤ i.length then .ok (i.drop t.length) ()
  else .incomplete (.size (t.length - i.length))

/-- `many0(f)`. nom stops with `Error(Many0)` when `f` succeeds without consuming; every parser
    of this crate returns a suffix of its input, so "did not get shorter" is that check. -/
def many0 (f : Parser β α) (i : List β) : Res β (List α) :=
  match f i with
  | .error _ => .ok i []
  | .incomplete n => .incomplete n
  | .failure k => .failure k
  | .panic => .panic
  | .ok i1 o =>
    if _hlt : i1.length < i.length then (many0 f i1).map (o :: ·) else .error .Many0
termination_by i.length

/-- the loop of `many1(f)` after the first element -/
def many1Loop (f : Parser β α) (i : List β) : Res β (List α) :=
  match f i with
  | .error _ => .ok i []
  | .incomplete n => .incomplete n
  | .failure k => .failure k
  | .panic => .panic
  | .ok i1 o =>
    if _hlt : i1.length < i.length then (many1Loop f i1).map (o :: ·) else .error .Many1
termination_by i.length

/-- `many1(f)`: the first `Error(k)` is returned as is (`Error::append` keeps the inner error);
    no progress check on the first element. -/
def many1 (f : Parser β α) : Parser β (List α) := fun i =>
  match f i with
  | .error k => .error k
  | .incomplete n => .incomplete n
  | .failure k => .failure k
  | .panic => .panic
  | .ok i1 o => (many1Loop f i1).map (o :: ·)

/-- `count` applications of `g` (the loop of `length_count`). -/
def countP (g : Parser β α) : Nat → Parser β (List α)
  | 0 => fun i => .ok i []
  | n + 1 => fun i => (g i).bind fun i1 o => (countP g n i1).map (o :: ·)

/-- `length_count(f, g)` -/
def lengthCount (f : Parser β Nat) (g : Parser β α) : Parser β (List α) := fun i =>
  (f i).bind fun i1 n => countP g n i1

/-- Pairs of consecutive bytes as big-endian u16 (`chunks(2)` over an even-length slice);
    an odd trailing byte would index out of bounds in the Rust (`chunk[1]`): `none`. -/
def chunks2 [ByteLike β] : List β → Option (List Nat)
  | [] => some []
  | [_] => none
  | a :: b :: r => (chunks2 r).map (fun l => (toNat a * 256 + toNat b) :: l)

end Combinators

end Tls
