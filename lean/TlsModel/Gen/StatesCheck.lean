/-
  Gen/StatesCheck.lean — kernel-checked obligation: the transition table extracted from the
  running implementation (Gen/States.lean) equals the model of `tls_state_transition`
  on every cell, and covers every cell.
-/
import TlsModel.Gen.States
import TlsModel.States
namespace Tls

/-- representative message for a kind code (contents are irrelevant: `transition_eq_spec`) -/
def kindMsg (k : Nat) : Option (Message Unit) :=
  let ch (sid : Option (List Unit)) : ClientHello Unit := ⟨0, [], sid, [], [], none⟩
  if k = 0 then some (.handshake .helloRequest)
  else if k = 2 then some (.handshake (.clientHello (ch none)))
  else if k = 3 then some (.handshake (.clientHello (ch (some []))))
  else if k = 4 then some (.handshake (.serverHello ⟨0, [], none, 0, 0, none⟩))
  else if k = 6 then some (.handshake (.serverHello13d18 ⟨0, [], 0, none⟩))
  else if k = 8 then some (.handshake (.newSessionTicket ⟨0, []⟩))
  else if k = 10 then some (.handshake .endOfEarlyData)
  else if k = 12 then some (.handshake (.helloRetryRequest ⟨0, 0, none⟩))
  else if k = 14 then some (.handshake (.certificate []))
  else if k = 16 then some (.handshake (.serverKeyExchange []))
  else if k = 18 then some (.handshake (.certificateRequest ⟨[], none, []⟩))
  else if k = 20 then some (.handshake (.serverDone []))
  else if k = 22 then some (.handshake (.certificateVerify []))
  else if k = 24 then some (.handshake (.clientKeyExchange (.unknown [])))
  else if k = 26 then some (.handshake (.finished []))
  else if k = 28 then some (.handshake (.certificateStatus ⟨0, []⟩))
  else if k = 30 then some (.handshake (.nextProtocol ⟨[], []⟩))
  else if k = 32 then some (.handshake (.keyUpdate 0))
  else if k = 100 then some .changeCipherSpec
  else if k = 101 then some (.applicationData [])
  else if k = 102 then some (.heartbeat 1 0 [])
  else if 1000 ≤ k ∧ k < 1256 then some (.alert (k - 1000) 0)
  else none

def encRes : Option TlsState → Nat
  | none => 0
  | some s => s.toIdx + 1

def statesRowOk (row : Nat × Nat × Nat × Nat) : Bool :=
  match TlsState.ofIdx row.1, kindMsg row.2.2.1 with
  | some st, some m => encRes (tlsStateTransition st m (row.2.1 == 1)) == row.2.2.2
  | _, _ => false

/-- the non-alert kinds every (state, direction) must have a row for -/
def requiredKinds : List Nat := [0, 2, 3, 4, 6, 8, 10, 12, 14, 16, 18, 20, 22, 24, 26, 28, 30, 32, 100, 101, 102, 1000, 1001, 1002, 1255]

/-- rows of one (state, direction) start with exactly the required kinds?  (rows are sorted by kind) -/
def cellKinds (s d : Nat) : List Nat :=
  (Gen.statesTable.filter fun r => r.1 == s && r.2.1 == d).map fun r => r.2.2.1

theorem impl_states_table_matches_model : Gen.statesTable.all statesRowOk = true := by decide +kernel

theorem impl_states_table_covers_all_cells :
    (List.range 25).all (fun s => (List.range 2).all fun d =>
      requiredKinds.all fun k => (cellKinds s d).contains k) = true := by decide +kernel

theorem impl_states_alert_description_independent : Gen.statesDescDependent = 0 := by decide

end Tls
