/-
  Gen/CiphersCheck.lean — kernel-checked obligations on the regenerated cipher-suite tables.
-/
import TlsModel.Gen.Ciphers
namespace Tls
open Tls.Gen

/-- strictly increasing -/
def strictSorted : List Nat → Bool
  | [] => true
  | [_] => true
  | a :: b :: l => decide (a < b) && strictSorted (b :: l)

/-- every row of `sub` occurs identically in `sup` (both sorted by id): linear merge -/
def subRows : List FileRow → List FileRow → Bool
  | [], _ => true
  | _ :: _, [] => false
  | a :: as, b :: bs => if a.id = b.id then decide (a = b) && subRows as bs else if b.id < a.id then subRows (a :: as) bs else false
termination_by as bs => as.length + bs.length

/-- **the registry contains exactly the suites of the file**, with the same id, name, key exchange, authentication,
    cipher, mode, key bits, MAC, MAC bits and PRF (under the documented token mapping), and the derived sizes
    (`enc_key_size`, `enc_block_size`, `mac_length`) the specification gives -/
theorem runtime_eq_file : runtimeCiphers.map some = fileCiphers.map expectedRow := by decide +kernel

/-- **IANA assignments present today are never altered**: every pinned row is in the file unchanged -/
theorem pinned_sub_file : subRows pinnedCiphers fileCiphers = true := by decide +kernel

/-- keys are the ids, strictly sorted: no id is listed twice -/
theorem runtime_ids_sorted : strictSorted (runtimeCiphers.map (·.key)) = true ∧
    runtimeCiphers.all (fun r => r.key == r.id) = true := by decide +kernel

/-- names are pairwise different -/
theorem runtime_names_distinct : (runtimeCiphers.map (·.name)).Nodup := by decide +kernel

/-- derived sizes: key bytes = key bits / 8 with bits a multiple of 8; MAC length 0 for null/AEAD and = MAC bits / 8 for the
    HMACs (16/20/32/48/64) -/
theorem runtime_derived_sizes :
    runtimeCiphers.all (fun r => r.keyBytes * 8 == r.size && some r.macLength == specMacLength r.mac &&
      (r.macLength == 0 || r.macLength * 8 == r.macSize) && r.blockSize == specBlockSize r.enc) = true := by decide +kernel

end Tls
