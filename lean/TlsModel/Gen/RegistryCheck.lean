/-
  Gen/RegistryCheck.lean — kernel-checked obligations: the constants, Display names and key_bits observed on the
  running implementation equal the hand-entered reference registry.
-/
import TlsModel.Gen.Registry
import TlsModel.Registry
namespace Tls

/-- **every named constant has its IANA-assigned value** (and no constant is missing or extra) -/
theorem impl_constants_eq_iana : Gen.constants = ianaTable := by decide +kernel

theorem impl_record_limits : Gen.maxRecordLen = ianaMaxRecordLen ∧ Gen.maxRecordData = ianaMaxRecordData := by decide

/-- **a value prints its constant's name iff one is defined**: over the whole domain of every registry type that
    implements Display, the values whose string is not the numeric fallback are exactly the named constants,
    with exactly their names -/
theorem impl_names_eq_constants :
    Gen.names = ianaTable.filter (fun r => displayTypes.contains r.1) := by decide +kernel

/-- Debug = Display for the `impl debug` types, on every value -/
theorem impl_debug_eq_display : Gen.debugDiffers = 0 := by decide

/-- **key_bits is the field size for every curve whose name states one** -/
theorem impl_keybits_named_sizes : curveBits.all (fun p => Gen.keyBits.contains p) = true := by decide +kernel

/-- **and None for unregistered groups**: every group with Some(bits) is a registered NamedGroup constant (index 12) -/
theorem impl_keybits_only_registered :
    Gen.keyBits.all (fun p => ianaTable.any (fun r => r.1 == 12 && r.2.1 == p.1)) = true := by decide +kernel

/-- the model of Display over the reference table: the name for named values … -/
theorem displayName_of_constant : ianaTable.all (fun r => displayName ianaTable r.1 r.2.1 == some r.2.2) = true := by
  decide +kernel

/-- … and for every other value the numeric fallback (general statement over all values) -/
theorem displayName_none (ty v : Nat) (h : ∀ r ∈ ianaTable, ¬ (r.1 = ty ∧ r.2.1 = v)) : displayName ianaTable ty v = none := by
  unfold displayName
  rw [List.find?_eq_none.mpr]
  · rfl
  · intro r hr hh
    simp at hh
    exact h r hr hh

end Tls
