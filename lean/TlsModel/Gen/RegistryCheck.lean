/-
  Gen/RegistryCheck.lean — kernel-checked obligations: the constants, Display names and key_bits observed on the
  running implementation equal the hand-entered reference registry.
-/
import TlsModel.Gen.Registry
import TlsModel.Registry
namespace Tls

/-- **every named constant has its IANA-assigned value**: every row of the reference registry is a constant of the
    implementation with exactly that value and name … -/
theorem impl_constants_cover_iana : ianaTable.all (fun r => Gen.constants.contains r) = true := by decide +kernel

/-- … and no constant of the implementation contradicts the reference: one that shares its type and value, or its type and
    name, with a reference row *is* that row. (A constant the reference does not know at all - a code point registered after
    the reference was written - is not judged here; the check lists such constants in its notes.) -/
theorem impl_constants_no_conflict :
    Gen.constants.all (fun r => ianaTable.all (fun q =>
      !(q.1 == r.1 && (q.2.1 == r.2.1 || q.2.2 == r.2.2)) || q == r)) = true := by decide +kernel

/-- constants are listed once: strictly increasing in (type, value) -/
theorem impl_constants_sorted :
    (Gen.constants.zip (Gen.constants.drop 1)).all (fun p => p.1.1 < p.2.1 || (p.1.1 == p.2.1 && p.1.2.1 < p.2.2.1)) = true := by
  decide +kernel

theorem impl_record_limits : Gen.maxRecordLen = ianaMaxRecordLen ∧ Gen.maxRecordData = ianaMaxRecordData := by decide

/-- **a value prints its constant's name iff one is defined**: `Gen.names` lists, over the whole domain of every registry
    type that implements Display, the values whose string is not the numeric fallback. Every constant of the reference
    prints exactly its name … -/
theorem impl_names_cover_constants :
    (ianaTable.filter (fun r => displayTypes.contains r.1)).all (fun r => Gen.names.contains r) = true := by decide +kernel

/-- … and every value that prints a name is either such a constant or a value / name the reference does not know at all
    (a constant added after the reference was written: listed in the check's notes, not judged): no value prints the name
    of another constant, no referenced value prints another name -/
theorem impl_names_no_conflict :
    Gen.names.all (fun r => ianaTable.all (fun q =>
      !(q.1 == r.1 && (q.2.1 == r.2.1 || q.2.2 == r.2.2)) || q == r)) = true := by decide +kernel

/-- Debug = Display for the `impl debug` types, on every value -/
theorem impl_debug_eq_display : Gen.debugDiffers = 0 := by decide

/-- **key_bits is the field size for every curve whose name states one** -/
theorem impl_keybits_named_sizes : curveBits.all (fun p => Gen.keyBits.contains p) = true := by decide +kernel

/-- **and None for unregistered groups**: every group with Some(bits) is a named NamedGroup constant of the implementation (index 12) -/
theorem impl_keybits_only_registered :
    Gen.keyBits.all (fun p => Gen.constants.any (fun r => r.1 == 12 && r.2.1 == p.1)) = true := by decide +kernel

/-- the model of Display over the reference table: the name for named values … -/
theorem displayName_of_constant : ianaTable.all (fun r => displayName ianaTable r.1 r.2.1 == some r.2.2) = true := by
  decide +kernel

/-- … and for every other value the numeric fallback (general statement over all values) -/
theorem displayName_none (ty v : Nat) (h : ∀ r ∈ ianaTable, ¬ (r.1 = ty ∧ r.2.1 = v)) : displayName ianaTable ty v = none := by
  unfold displayName
  rw [List.find?_eq_none.mpr]
  · rfl
  · intro r hr hh
    simp at hh
    exact h r hr hh

end Tls
