/-
  Gen/CipherNamesCheck.lean — kernel-checked: every line of the registry file (hence, by `runtime_eq_file`, every suite of the
  built-in registry) agrees with the algorithm tokens of its IANA name; and `nameTokens` really splits the name
  (re-joining the tokens gives the name back), so the rule is about the name itself.
-/
import TlsModel.Gen.Ciphers
import TlsModel.CipherNames
namespace Tls
open Tls.Gen

/-- splitting is faithful on every registry name -/
theorem file_names_split_faithful : fileCiphers.all (fun f => joinTokens (nameTokens f.name) == f.name) = true := by decide +kernel

/-- **the parameters agree with the algorithm tokens of the IANA name**, for every line of the registry file -/
theorem file_name_tokens_agree : fileCiphers.all (fun f => (nameDisagreement f).isNone) = true := by decide +kernel

/-- the rule is not vacuous: altering one column of a real row is noticed, clause by clause
    (TLS_RSA_WITH_AES_128_CBC_SHA, id 0x002f) -/
example : (fileCiphers.find? (·.id == 47)).map (fun f => nameDisagreement { f with size := 256 }) = some (some 2) := by decide +kernel
example : (fileCiphers.find? (·.id == 47)).map (fun f => nameDisagreement { f with mode := 4678509 /- Gcm token would be GCM -/ }) = some (some 3) := by decide +kernel
example : (fileCiphers.find? (·.id == 47)).map (fun f => nameDisagreement { f with enc := 4474195 /- DES -/ }) = some (some 1) := by decide +kernel
example : (fileCiphers.find? (·.id == 47)).map (fun f => nameDisagreement { f with kx := 4474949 /- DHE -/ }) = some (some 6) := by decide +kernel
example : (fileCiphers.find? (·.id == 47)).map (fun f => nameDisagreement { f with au := 4477779 /- DSS -/ }) = some (some 7) := by decide +kernel
example : (fileCiphers.find? (·.id == 47)).map (fun f => nameDisagreement { f with mac := 5209892100716184629 /- HMAC-MD5 -/ }) = some (some 5) := by decide +kernel

end Tls
