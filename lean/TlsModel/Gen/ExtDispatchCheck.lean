/-
  Gen/ExtDispatchCheck.lean — kernel-checked obligations: the type -> variant map observed on the
  running implementation over all 65536 extension types and the three dispatchers equals the
  specification (26 known types -> their variants per dispatcher, the 16 RFC 8701 values -> Grease,
  everything else -> Unknown), and the observed `TlsExtensionType::from` map is the identity on types.
-/
import TlsModel.Gen.ExtDispatch
import TlsModel.Extensions
namespace Tls

/-- IANA types decoded by all three dispatchers -/
def commonExtTypes : List Nat := [0, 1, 5, 11, 13, 15, 16, 18, 22, 23, 28, 35, 41, 42, 43, 44, 51, 13172, 0xff01]
/-- additionally by the generic and ClientHello dispatchers -/
def clientExtTypes : List Nat := [10, 21, 45, 48, 49, 0xffce]
/-- additionally by the generic dispatcher only -/
def genericOnlyExtTypes : List Nat := [40]
/-- RFC 8701 -/
def greaseExtTypes : List Nat := (List.range 16).map fun k => 0x0a0a + 0x1010 * k

def insertSorted (x : Nat × Nat × Nat) : List (Nat × Nat × Nat) → List (Nat × Nat × Nat)
  | [] => [x]
  | y :: l => if x.1 < y.1 ∨ (x.1 = y.1 ∧ x.2.1 ≤ y.2.1) then x :: y :: l else y :: insertSorted x l

def sortRows (l : List (Nat × Nat × Nat)) : List (Nat × Nat × Nat) := l.foldr insertSorted []

/-- the specification of the dispatch map, as rows (dispatcher, wire type, variant's IANA type) -/
def specExtDispatch : List (Nat × Nat × Nat) :=
  let known (d : Nat) (ts : List Nat) := ts.map fun t => (d, t, t)
  let grease (d : Nat) := greaseExtTypes.map fun t => (d, t, 0xfafa)
  sortRows (known 0 (commonExtTypes ++ clientExtTypes ++ genericOnlyExtTypes) ++ grease 0 ++
            known 1 (commonExtTypes ++ clientExtTypes) ++ grease 1 ++
            known 2 commonExtTypes ++ grease 2)

theorem impl_ext_dispatch_matches_spec : Gen.extDispatch = specExtDispatch := by decide +kernel

theorem impl_ext_dispatch_no_anomaly : Gen.extAnomalies = 0 := by decide

/-- `TlsExtensionType::from(&variant)` is the variant's IANA type, for each of the 26 typed variants
    (Unknown(t) ↦ t and Grease(t) ↦ 0xfafa were checked for all 65536 t by the harness: no anomaly rows) -/
theorem impl_ext_typeof_identity : Gen.extTypeOf.all (fun r => r.1 == r.2) = true ∧ Gen.extTypeOf.length = 26 := by
  decide +kernel

/-- and the model's dispatch table is that same specification -/
theorem model_ext_table_types :
    ((extTable (β := Fin 256) 0).map fun e => (e.1, e.2.1)) =
      [(0, .all), (1, .all), (5, .all), (10, .cg), (11, .all), (13, .all), (15, .all), (16, .all), (18, .all),
       (21, .cg), (22, .all), (23, .all), (28, .all), (35, .all), (40, .g), (41, .all), (42, .all), (43, .all),
       (44, .all), (45, .cg), (48, .cg), (49, .cg), (51, .all), (13172, .all), (0xff01, .all), (0xffce, .cg)] := by
  decide

end Tls
