/-
  Encode.lean — RFC 5246 / 8446 / 5077 / 6066 wire encoders for handshake messages, record-level
  messages and extensions: the specification side of the round-trip theorems.
  (Validated against the independent Python encoders through the correspondence check.)
-/
import TlsModel.Lemmas.Enc
import TlsModel.Types
namespace Tls
variable {β : Type} [ByteLike β]

/-- `opaque<0..2^8-1>` holding single-byte values -/
def encBytes (l : List Nat) : List β := l.map ByteLike.ofNat
/-- list of big-endian u16 -/
def encU16s : List Nat → List β
  | [] => []
  | n :: l => ByteLike.ofNat (n / 256) :: ByteLike.ofNat n :: encU16s l

theorem encU16s_eq_flatMap (l : List Nat) : (encU16s l : List β) = l.flatMap (fun n => (encBE 2 n : List β)) := by
  induction l with
  | nil => rfl
  | cons n l ih => simp [encU16s, ih, encBE]

/-- session id: u8 length + bytes (absent = length 0) -/
def encSid : Option (List β) → List β
  | none => encBE 1 0
  | some s => encLD 1 s

/-- optional extension block: absent = nothing at all, present = u16 length + bytes -/
def encOptExt : Option (List β) → List β
  | none => []
  | some e => encLD 2 e

def encClientHelloBody (c : ClientHello β) : List β :=
  encBE 2 c.version ++ (c.random ++ (encSid c.sessionId ++ (encLD 2 (encU16s c.ciphers) ++
    (encLD 1 (encBytes c.comp) ++ encOptExt c.ext))))

def encServerHelloBody (s : ServerHello β) : List β :=
  encBE 2 s.version ++ (s.random ++ (encSid s.sessionId ++ (encBE 2 s.cipher ++ (encBE 1 s.compression ++ encOptExt s.ext))))

def encServerHello13d18Body (s : ServerHello13d18 β) : List β :=
  encBE 2 s.version ++ (s.random ++ (encBE 2 s.cipher ++ encOptExt s.ext))

def encHelloRetryRequestBody (h : HelloRetryRequest β) : List β :=
  encBE 2 h.version ++ (encBE 2 h.cipher ++ encOptExt h.ext)

def encCertificateBody (chain : List (List β)) : List β := encLD 3 (chain.flatMap (encLD 3))

def encCaList (cas : List (List β)) : List β := encLD 2 (cas.flatMap (encLD 2))

/-- TLS 1.2 form when `sigHashAlgs` is present, legacy form otherwise -/
def encCertRequestBody (r : CertRequest β) : List β :=
  encLD 1 (encBytes r.certTypes) ++ ((match r.sigHashAlgs with
    | some algs => encLD 2 (encU16s algs)
    | none => []) ++ encCaList r.unparsedCa)

def encCertStatusBody (s : CertStatus β) : List β := encBE 1 s.statusType ++ encLD 3 s.blob
def encNextProtocolBody (n : NextProtocol β) : List β := encLD 1 n.selected ++ encLD 1 n.padding

/-- handshake type code and body of each of the 17 variants -/
def hsTypeAndBody : Handshake β → Nat × List β
  | .helloRequest => (0x00, [])
  | .clientHello c => (0x01, encClientHelloBody c)
  | .serverHello s => (0x02, encServerHelloBody s)
  | .serverHello13d18 s => (0x02, encServerHello13d18Body s)
  | .newSessionTicket t => (0x04, encBE 4 t.hint ++ t.ticket)
  | .endOfEarlyData => (0x05, [])
  | .helloRetryRequest h => (0x06, encHelloRetryRequestBody h)
  | .certificate c => (0x0b, encCertificateBody c)
  | .serverKeyExchange p => (0x0c, p)
  | .certificateRequest r => (0x0d, encCertRequestBody r)
  | .serverDone d => (0x0e, d)
  | .certificateVerify d => (0x0f, d)
  | .clientKeyExchange (.unknown d) => (0x10, d)
  | .clientKeyExchange (.dh d) => (0x10, encLD 2 d)
  | .clientKeyExchange (.ecdh p) => (0x10, encLD 1 p)
  | .finished d => (0x14, d)
  | .certificateStatus s => (0x16, encCertStatusBody s)
  | .nextProtocol n => (0x43, encNextProtocolBody n)
  | .keyUpdate n => (0x18, encBE 1 n)

/-- a handshake message: type byte, 24-bit length, body -/
def encHandshake (h : Handshake β) : List β :=
  encBE 1 (hsTypeAndBody h).1 ++ encLD 3 (hsTypeAndBody h).2

/-- a record-level message of content types 20, 21, 22 -/
def encMessage : Message β → List β
  | .handshake h => encHandshake h
  | .changeCipherSpec => encBE 1 1
  | .alert s c => encBE 1 s ++ encBE 1 c
  | .applicationData b => b
  | .heartbeat t l p => encBE 1 t ++ (encBE 2 l ++ p)

end Tls
