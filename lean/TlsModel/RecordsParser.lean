/-
  RecordsParser.lean — model of src/tls_records_parser.rs (`TlsRecordsParser`).
  The state machine is parametric in the one-shot record-payload parser `R`
  (instantiated with `parseRecordWithHeader`) so that its theorems hold for any payload parser.
-/
import TlsModel.Record
namespace Tls
variable {β α : Type} [ByteLike β]

/-- `MAX_RECORD_DATA = 10 * 1024 * 1024` -/
def maxRecordData : Nat := 10485760

/-- `TlsRecordsParser { record_defrag_buffer, current_record_type }` -/
structure RPState (β : Type) where
  buf : List β
  cur : Option Nat

/-- `TlsRecordsParser::default()` -/
def RPState.init : RPState β := ⟨[], none⟩

/-- `defrag_in_progress()` -/
def RPState.inProgress (s : RPState β) : Bool := s.cur.isSome

/-- bytes as stored by `extend_from_slice` at buffer offset `off` -/
def copyInto (off : Nat) : List β → List β
  | [] => []
  | b :: r => ByteLike.copy off b :: copyInto (off + 1) r

inductive RPOp (β : Type) where
  | reset
  | nocopy (r : RawRecord β)
  | parse (r : RawRecord β)

/-- outcome classification shared by both entry points: `e.code == ErrorKind::Complete` -/
def isCompleteErr : Res β α → Bool
  | .error .Complete => true
  | .failure .Complete => true
  | _ => false

/-- `parse_record_nocopy` -/
def rpNocopy (R : RecordHeader → Parser β α) (s : RPState β) (r : RawRecord β) : RPState β × Res β α :=
  if s.inProgress then (s, .failure .NonEmpty)
  else if isCompleteErr (R r.hdr r.data) then (s, .incomplete .unknown) else (s, R r.hdr r.data)

/-- `parse_record` -/
def rpParse (R : RecordHeader → Parser β α) (s : RPState β) (r : RawRecord β) : RPState β × Res β α :=
  if !s.inProgress then
    if r.hdr.recordType = 0x15 ∨ r.hdr.recordType = 0x14 then rpNocopy R s r
    else
      match R r.hdr r.data with
      | .ok rem v => (s, .ok rem v)
      | res =>
        if res.isIncomplete || isCompleteErr res then
          (⟨copyInto 0 r.data, some r.hdr.recordType⟩, .incomplete .unknown)
        else (s, res)
  else
    if some r.hdr.recordType ≠ s.cur then (s, .error .Tag)
    else if s.buf.length + r.data.length ≥ maxRecordData then (s, .error .TooLarge)
    else
      let buf := s.buf ++ copyInto s.buf.length r.data
      let header : RecordHeader := { r.hdr with len := buf.length % 65536 }
      match R header buf with
      | .ok rem v => (⟨buf, none⟩, .ok rem v)
      | res =>
        if isCompleteErr res then (⟨buf, s.cur⟩, .incomplete .unknown) else (⟨buf, s.cur⟩, res)

/-- one operation -/
def rpStep (R : RecordHeader → Parser β α) (s : RPState β) : RPOp β → RPState β × Option (Res β α)
  | .reset => (RPState.init, none)
  | .nocopy r => let (s', o) := rpNocopy R s r; (s', some o)
  | .parse r => let (s', o) := rpParse R s r; (s', some o)

/-- run a history from a state, collecting outputs -/
def rpRun (R : RecordHeader → Parser β α) : RPState β → List (RPOp β) → RPState β × List (Option (Res β α))
  | s, [] => (s, [])
  | s, op :: ops =>
    let (s1, o) := rpStep R s op
    let (s2, os) := rpRun R s1 ops
    (s2, o :: os)

end Tls
