/-
  Crypto.lean — model of src/tls_dh.rs, src/tls_ec.rs, src/tls_sign_hash.rs and
  src/certificate_transparency.rs (parsers).
-/
import TlsModel.Handshake
namespace Tls
variable {β : Type} [ByteLike β]

/-- `parse_dh_params` -/
def parseDhParams : Parser β (DHParams β) := fun i =>
  (lengthData (beU 2) i).bind fun i p =>
  (lengthData (beU 2) i).bind fun i g =>
  (lengthData (beU 2) i).bind fun i ys =>
  .ok i ⟨p, g, ys⟩

/-- `ExplicitPrimeContent::parse` -/
def parseExplicitPrime : Parser β (ExplicitPrime β) := fun i =>
  (lengthData (beU 1) i).bind fun i p =>
  (lengthData (beU 1) i).bind fun i a =>
  (lengthData (beU 1) i).bind fun i b =>
  (lengthData (beU 1) i).bind fun i base =>
  (lengthData (beU 1) i).bind fun i order =>
  (lengthData (beU 1) i).bind fun i cofactor =>
  .ok i ⟨p, a, b, base, order, cofactor⟩

/-- `ECParametersContent::parse(i, curve_type)`: selector 1 / 3, otherwise `Error(Switch)` -/
def parseEcContent (curveType : Nat) : Parser β (ECContent β) := fun i =>
  if curveType = 1 then mapP parseExplicitPrime .explicitPrime i
  else if curveType = 3 then mapP (beU 2) .namedGroup i
  else .error .Switch

/-- `parse_ec_parameters` -/
def parseEcParameters : Parser β (ECParameters β) := fun i =>
  (beU 1 i).bind fun i ct =>
  (parseEcContent ct i).bind fun i c =>
  .ok i ⟨ct, c⟩

/-- `parse_ecdh_params` -/
def parseEcdhParams : Parser β (ECDHParams β) := fun i =>
  (parseEcParameters i).bind fun i c =>
  (lengthData (beU 1) i).bind fun i pt =>
  .ok i ⟨c, pt⟩

/-- `parse_named_groups` -/
def parseNamedGroups : Parser β (List Nat) := parseU16All

/-- `parse_digitally_signed_old` -/
def parseDigitallySignedOld : Parser β (DigitallySigned β) :=
  mapP (lengthData (beU 2)) (fun d => ⟨none, d⟩)

/-- `parse_digitally_signed` -/
def parseDigitallySigned : Parser β (DigitallySigned β) := fun i =>
  (beU 1 i).bind fun i hash =>
  (beU 1 i).bind fun i sign =>
  (lengthData (beU 2) i).bind fun i d =>
  .ok i ⟨some (hash, sign), d⟩

/-- `parse_content_and_signature(i, fun, ext)` -/
def parseContentAndSignature {α : Type} (f : Parser β α) (ext : Bool) : Parser β (α × DigitallySigned β) :=
  if ext then pair f parseDigitallySigned else pair f parseDigitallySignedOld

/-- `parse_log_id`: `take(32)` then `try_into().expect(..)`, which panics unless 32 bytes came back -/
def parseLogId : Parser β (List β) := fun i =>
  (take 32 i).bind fun i k => if k.length = 32 then .ok i k else .panic

/-- `parse_ct_signed_certificate_timestamp_content` -/
def parseSctContentEntry : Parser β (SCT β) := fun i =>
  (beU 1 i).bind fun i version =>
  (parseLogId i).bind fun i id =>
  (beU 8 i).bind fun i ts =>
  (beU 2 i).bind fun i extLen =>
  (take extLen i).bind fun i ext =>
  (parseDigitallySigned i).bind fun i sig =>
  .ok i ⟨version, id, ts, ext, sig⟩

/-- `parse_ct_signed_certificate_timestamp` -/
def parseSct : Parser β (SCT β) := mapParser (lengthData (beU 2)) parseSctContentEntry

/-- `parse_ct_signed_certificate_timestamp_list` -/
def parseSctList : Parser β (List (SCT β)) := fun i =>
  (beU 2 i).bind fun i sctLen =>
  mapParser (take sctLen) (many0 (complete parseSct)) i

end Tls
