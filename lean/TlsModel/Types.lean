/-
  Types.lean — the value types of tls-parser. Integers are `Nat` (ranges are stated as
  explicit predicates where needed); every `&'a [u8]` is a `List β`.
-/
import TlsModel.Nom
namespace Tls

/-- `TlsRecordHeader` -/
structure RecordHeader where
  recordType : Nat
  version : Nat
  len : Nat
  deriving DecidableEq, Repr, Inhabited

structure RawRecord (β : Type) where
  hdr : RecordHeader
  data : List β
  deriving DecidableEq, Repr

structure Encrypted (β : Type) where
  hdr : RecordHeader
  blob : List β
  deriving DecidableEq, Repr

structure ClientHello (β : Type) where
  version : Nat
  random : List β
  sessionId : Option (List β)
  ciphers : List Nat
  comp : List Nat
  ext : Option (List β)
  deriving DecidableEq, Repr

structure ServerHello (β : Type) where
  version : Nat
  random : List β
  sessionId : Option (List β)
  cipher : Nat
  compression : Nat
  ext : Option (List β)
  deriving DecidableEq, Repr

structure ServerHello13d18 (β : Type) where
  version : Nat
  random : List β
  cipher : Nat
  ext : Option (List β)
  deriving DecidableEq, Repr

structure HelloRetryRequest (β : Type) where
  version : Nat
  cipher : Nat
  ext : Option (List β)
  deriving DecidableEq, Repr

structure NewSessionTicket (β : Type) where
  hint : Nat
  ticket : List β
  deriving DecidableEq, Repr

structure CertRequest (β : Type) where
  certTypes : List Nat
  sigHashAlgs : Option (List Nat)
  unparsedCa : List (List β)
  deriving DecidableEq, Repr

structure CertStatus (β : Type) where
  statusType : Nat
  blob : List β
  deriving DecidableEq, Repr

structure NextProtocol (β : Type) where
  selected : List β
  padding : List β
  deriving DecidableEq, Repr

/-- `TlsClientKeyExchangeContents` (the parser only ever produces `unknown`) -/
inductive CKE (β : Type) where
  | dh (d : List β)
  | ecdh (point : List β)
  | unknown (d : List β)
  deriving DecidableEq, Repr

/-- `TlsMessageHandshake` -/
inductive Handshake (β : Type) where
  | helloRequest
  | clientHello (c : ClientHello β)
  | serverHello (s : ServerHello β)
  | serverHello13d18 (s : ServerHello13d18 β)
  | newSessionTicket (t : NewSessionTicket β)
  | endOfEarlyData
  | helloRetryRequest (h : HelloRetryRequest β)
  | certificate (chain : List (List β))
  | serverKeyExchange (params : List β)
  | certificateRequest (r : CertRequest β)
  | serverDone (d : List β)
  | certificateVerify (d : List β)
  | clientKeyExchange (c : CKE β)
  | finished (d : List β)
  | certificateStatus (s : CertStatus β)
  | nextProtocol (n : NextProtocol β)
  | keyUpdate (n : Nat)
  deriving DecidableEq, Repr

/-- `TlsMessage` -/
inductive Message (β : Type) where
  | handshake (h : Handshake β)
  | changeCipherSpec
  | alert (severity code : Nat)
  | applicationData (blob : List β)
  | heartbeat (ty payloadLen : Nat) (payload : List β)
  deriving DecidableEq, Repr

structure Plaintext (β : Type) where
  hdr : RecordHeader
  msg : List (Message β)
  deriving DecidableEq, Repr

/-- `TlsExtension` -/
inductive Extension (β : Type) where
  | sni (l : List (Nat × List β))
  | maxFragmentLength (n : Nat)
  | statusRequest (r : Option (Nat × List β))
  | ellipticCurves (l : List Nat)
  | ecPointFormats (d : List β)
  | signatureAlgorithms (l : List Nat)
  | recordSizeLimit (n : Nat)
  | sessionTicket (d : List β)
  | keyShareOld (d : List β)
  | keyShare (d : List β)
  | preSharedKey (d : List β)
  | earlyData (o : Option Nat)
  | supportedVersions (l : List Nat)
  | cookie (d : List β)
  | pskExchangeModes (v : List Nat)          -- `Vec<u8>`: owned copy
  | heartbeat (n : Nat)
  | alpn (l : List (List β))
  | signedCertificateTimestamp (o : Option (List β))
  | padding (d : List β)
  | encryptThenMac
  | extendedMasterSecret
  | oidFilters (l : List (List β × List β))
  | postHandshakeAuth
  | nextProtocolNegotiation
  | renegotiationInfo (d : List β)
  | encryptedServerName (ciphersuite group : Nat) (keyShare recordDigest encryptedSni : List β)
  | grease (t : Nat) (d : List β)
  | unknown (t : Nat) (d : List β)
  deriving DecidableEq, Repr

structure DHParams (β : Type) where
  p : List β
  g : List β
  ys : List β
  deriving DecidableEq, Repr

structure ExplicitPrime (β : Type) where
  primeP : List β
  a : List β
  b : List β
  base : List β
  order : List β
  cofactor : List β
  deriving DecidableEq, Repr

inductive ECContent (β : Type) where
  | explicitPrime (e : ExplicitPrime β)
  | namedGroup (g : Nat)
  deriving DecidableEq, Repr

structure ECParameters (β : Type) where
  curveType : Nat
  content : ECContent β
  deriving DecidableEq, Repr

structure ECDHParams (β : Type) where
  curve : ECParameters β
  pub : List β
  deriving DecidableEq, Repr

structure DigitallySigned (β : Type) where
  alg : Option (Nat × Nat)
  data : List β
  deriving DecidableEq, Repr

/-- `SignedCertificateTimestamp` -/
structure SCT (β : Type) where
  version : Nat
  keyId : List β
  timestamp : Nat
  extensions : List β
  signature : DigitallySigned β
  deriving DecidableEq, Repr

structure DtlsHeader where
  contentType : Nat
  version : Nat
  epoch : Nat
  seq : Nat
  length : Nat
  deriving DecidableEq, Repr, Inhabited

structure DtlsClientHello (β : Type) where
  version : Nat
  random : List β
  sessionId : Option (List β)
  cookie : List β
  ciphers : List Nat
  comp : List Nat
  ext : Option (List β)
  deriving DecidableEq, Repr

inductive DtlsBody (β : Type) where
  | clientHello (c : DtlsClientHello β)
  | helloVerifyRequest (version : Nat) (cookie : List β)
  | serverHello (s : ServerHello β)
  | certificate (chain : List (List β))
  | serverDone (d : List β)
  | clientKeyExchange (c : CKE β)
  | fragment (d : List β)
  deriving DecidableEq, Repr

structure DtlsHandshake (β : Type) where
  msgType : Nat
  length : Nat
  messageSeq : Nat
  fragmentOffset : Nat
  fragmentLength : Nat
  body : DtlsBody β
  deriving DecidableEq, Repr

inductive DtlsMessage (β : Type) where
  | handshake (h : DtlsHandshake β)
  | changeCipherSpec
  | alert (severity code : Nat)
  deriving DecidableEq, Repr

structure DtlsPlaintext (β : Type) where
  header : DtlsHeader
  messages : List (DtlsMessage β)
  deriving DecidableEq, Repr

/-- `DTLSMessage::is_fragment` -/
def DtlsMessage.isFragment {β : Type} : DtlsMessage β → Bool
  | .handshake h => match h.body with
    | .fragment _ => true
    | _ => false
  | _ => false

end Tls
