/-
  Props/C16.lean — multi-record parsers equal repeated single-record parsing.
  Generic in the single-record parser `p`: `many1 (complete p)` is "apply `p` from the start for
  as long as it succeeds"; instantiated for `tls_parser_many` and `parse_dtls_plaintext_records`.
-/
import TlsModel.Props.C01
import TlsModel.Props.C02
namespace Tls
variable {β α : Type}

/-- apply `p` repeatedly from the start of the buffer for as long as it succeeds:
    (records, remainder starting at the first record that fails or is incomplete) -/
def repeatP (p : Parser β α) (i : List β) : List α × List β :=
  match p i with
  | .ok i1 o =>
    if _h : i1.length < i.length then
      let r := repeatP p i1
      (o :: r.1, r.2)
    else ([], i)
  | _ => ([], i)
termination_by i.length

/-- a successful application consumes at least one byte -/
def Consumes (p : Parser β α) : Prop := ∀ i r v, p i = .ok r v → r.length < i.length

theorem many1Loop_complete_eq_repeat (p : Parser β α) (hc : Clean p) (hcons : Consumes p) (i : List β) :
    many1Loop (complete p) i = .ok (repeatP p i).2 (repeatP p i).1 := by
  induction i using repeatP.induct p with
  | case1 i i1 o h hlt ih =>
    unfold many1Loop repeatP
    simp only [complete, h, hlt, if_true, dite_true, ih, Res.map]
  | case2 i i1 o h hlt => exact absurd (hcons i i1 o h) hlt
  | case3 i h =>
    unfold many1Loop repeatP
    have hp := (hc i).1
    have hf := (hc i).2
    cases hpi : p i with
    | ok r v => exact absurd hpi (by intro hh; exact h r v hh)
    | incomplete n => simp [complete, hpi]
    | error k => simp [complete, hpi]
    | failure k => exact absurd hpi (hf k)
    | panic => exact absurd hpi hp

/-- **C16, generic**: with at least one record, the multi-record parser returns exactly the records of
    repeated single-record parsing and the remainder where that stops -/
theorem many1_complete_eq_repeat (p : Parser β α) (hc : Clean p) (hcons : Consumes p) (i : List β)
    (r : List β) (v : α) (h : p i = .ok r v) :
    many1 (complete p) i = .ok (repeatP p i).2 (repeatP p i).1 := by
  have hlt := hcons i r v h
  unfold many1
  simp only [complete, h]
  rw [many1Loop_complete_eq_repeat p hc hcons r]
  conv => rhs; unfold repeatP
  simp [h, hlt, Res.map]

/-- **fails iff the very first record does not parse** -/
theorem many1_complete_fails_iff (p : Parser β α) (hc : Clean p) (hcons : Consumes p) (i : List β) :
    (many1 (complete p) i).isOk = (p i).isOk := by
  cases h : p i with
  | ok r v => rw [many1_complete_eq_repeat p hc hcons i r v h]; rfl
  | incomplete n => simp [many1, complete, h, Res.isOk]
  | error k => simp [many1, complete, h, Res.isOk]
  | failure k => simp [many1, complete, h, Res.isOk]
  | panic => simp [many1, complete, h, Res.isOk]

/-- and when it fails, no record at all is produced by the repetition either -/
theorem repeat_nil_iff (p : Parser β α) (hcons : Consumes p) (i : List β) :
    (repeatP p i).1 = [] ↔ (p i).isOk = false := by
  unfold repeatP
  cases h : p i with
  | ok r v => simp [hcons i r v h, Res.isOk]
  | incomplete n => simp [Res.isOk]
  | error k => simp [Res.isOk]
  | failure k => simp [Res.isOk]
  | panic => simp [Res.isOk]

/-! ### Instances -/
section
variable [ByteLike β]

theorem parsePlaintext_ok_rem (i r : List β) (v : Plaintext β) (h : parsePlaintext i = .ok r v) :
    r = i.drop (5 + declLen i) ∧ 5 + declLen i ≤ i.length := by
  by_cases h5 : 5 ≤ i.length
  · obtain ⟨t, ver, hh⟩ := header_of_long i h5
    by_cases hl : declLen i > 16640
    · simp [parsePlaintext, hh, Res.bind, maxRecordLen, hl] at h
    · have hl' : ¬ (16640 < declLen i) := hl
      by_cases hd : declLen i ≤ i.length - 5
      · simp only [parsePlaintext, hh, Res.bind, maxRecordLen, hl', if_false, mapParser, Tls.take,
          List.length_drop, hd, if_true] at h
        cases hp : parseRecordWithHeader ⟨t, ver, declLen i⟩ ((i.drop 5).take (declLen i)) <;> simp [hp] at h
        refine ⟨?_, by omega⟩
        rw [← h.1]
      · simp [parsePlaintext, hh, Res.bind, maxRecordLen, hl', mapParser, Tls.take, List.length_drop, hd] at h
  · obtain ⟨n, hn⟩ := header_incomplete i (by omega)
    simp [parsePlaintext, hn, Res.bind] at h

theorem parsePlaintext_consumes : Consumes (parsePlaintext : Parser β _) := by
  intro i r v h
  obtain ⟨hr, hlen⟩ := parsePlaintext_ok_rem i r v h
  subst hr; simp [List.length_drop]; omega

/-- `tls_parser_many` = repeated `parse_tls_plaintext` -/
theorem tlsParserMany_eq_repeat (i r : List β) (v : Plaintext β) (h : parsePlaintext i = .ok r v) :
    tlsParserMany i = .ok (repeatP parsePlaintext i).2 (repeatP parsePlaintext i).1 :=
  many1_complete_eq_repeat parsePlaintext parsePlaintext_clean parsePlaintext_consumes i r v h

theorem tlsParserMany_fails_iff (i : List β) :
    (tlsParserMany i).isOk = (parsePlaintext i).isOk :=
  many1_complete_fails_iff parsePlaintext parsePlaintext_clean parsePlaintext_consumes i

/-! non-vacuity (kernel-evaluated): two records then garbage - exactly the two records, remainder = the garbage;
    garbage first - failure; an application-data record of length 0 is a record like any other -/
example : tlsParserMany (β := Fin 256) [20, 3, 3, 0, 1, 1, 21, 3, 3, 0, 2, 1, 0, 99, 9]
    = .ok [99, 9] [⟨⟨20, 771, 1⟩, [.changeCipherSpec]⟩, ⟨⟨21, 771, 2⟩, [.alert 1 0]⟩] := by decide +kernel
example : (tlsParserMany (β := Fin 256) [99, 3, 3, 0, 1, 1]).isOk = false := by decide +kernel
example : tlsParserMany (β := Fin 256) [23, 3, 3, 0, 0, 23, 3, 3, 0, 0]
    = .ok [] [⟨⟨23, 771, 0⟩, [.applicationData []]⟩, ⟨⟨23, 771, 0⟩, [.applicationData []]⟩] := by decide +kernel

/-- the deprecated `tls_parser` is `parse_tls_plaintext` -/
theorem tlsParser_eq (i : List β) : tlsParser i = parsePlaintext i := rfl

end

end Tls
