/-
  Props/C05.lean — extensions decode by IANA type; GREASE and unknown types are preserved.
-/
import TlsModel.Props.C04
import TlsModel.Extensions
namespace Tls
variable {β : Type} [ByteLike β]

/-! ### encoders (content of each of the 28 variants) -/

def encSniEntry (p : Nat × List β) : List β := encBE 1 p.1 ++ encLD 2 p.2
def encOidFilter (p : List β × List β) : List β := encLD 1 p.1 ++ encLD 2 p.2

def extContent : Extension β → List β
  | .sni l => encLD 2 (l.flatMap encSniEntry)
  | .maxFragmentLength n => encBE 1 n
  | .statusRequest none => []
  | .statusRequest (some (t, d)) => encBE 1 t ++ d
  | .ellipticCurves l => encLD 2 (encU16s l)
  | .ecPointFormats d => encLD 1 d
  | .signatureAlgorithms l => encLD 2 (encU16s l)
  | .recordSizeLimit n => encBE 2 n
  | .sessionTicket d => d
  | .keyShareOld d => d
  | .keyShare d => d
  | .preSharedKey d => d
  | .earlyData none => []
  | .earlyData (some n) => encBE 4 n
  | .supportedVersions l => encBE 1 (2 * l.length) ++ encU16s l     -- ClientHello form: u8 length, versions
  | .cookie d => d
  | .pskExchangeModes v => encLD 1 (encBytes v)
  | .heartbeat n => encBE 1 n
  | .alpn l => encLD 2 (l.flatMap (encLD 1))
  | .signedCertificateTimestamp none => []
  | .signedCertificateTimestamp (some d) => encLD 2 d
  | .padding d => d
  | .encryptThenMac => []
  | .extendedMasterSecret => []
  | .oidFilters l => encLD 2 (l.flatMap encOidFilter)
  | .postHandshakeAuth => []
  | .nextProtocolNegotiation => []
  | .renegotiationInfo d => encLD 1 d
  | .encryptedServerName cs g ks rd es => encBE 2 cs ++ (encBE 2 g ++ (encLD 2 ks ++ (encLD 2 rd ++ encLD 2 es)))
  | .grease _ d => d
  | .unknown _ d => d

/-- the type on the wire (GREASE and Unknown carry theirs; `typeOf` maps every GREASE value to 0xfafa) -/
def Extension.wireType : Extension β → Nat
  | .grease t _ => t
  | e => e.typeOf

/-- (type u16, length u16, data) -/
def encExtension (e : Extension β) : List β := encBE 2 e.wireType ++ encLD 2 (extContent e)

/-- field ranges of the contents -/
def WFExtContent : Extension β → Prop
  | .sni l => (∀ p ∈ l, p.1 < 256 ∧ p.2.length < 65536) ∧ (l.flatMap encSniEntry).length < 65536
  | .maxFragmentLength n => n < 256
  | .statusRequest none => True
  | .statusRequest (some (t, _)) => t < 256
  | .ellipticCurves l => (∀ g ∈ l, g < 65536) ∧ 2 * l.length < 65536
  | .ecPointFormats d => d.length < 256
  | .signatureAlgorithms l => (∀ g ∈ l, g < 65536) ∧ 2 * l.length < 65536
  | .recordSizeLimit n => n < 65536
  | .earlyData (some n) => n < 4294967296
  | .supportedVersions l => (∀ g ∈ l, g < 65536) ∧ 2 * l.length < 256
  | .pskExchangeModes v => (∀ x ∈ v, x < 256) ∧ v.length < 256
  | .heartbeat n => n < 256
  | .alpn l => (∀ p ∈ l, p.length < 256) ∧ (l.flatMap (encLD 1)).length < 65536
  | .signedCertificateTimestamp (some d) => d.length < 65536
  | .oidFilters l => (∀ p ∈ l, p.1.length < 256 ∧ p.2.length < 65536) ∧ (l.flatMap encOidFilter).length < 65536
  | .renegotiationInfo d => d.length < 256
  | .encryptedServerName cs g ks rd es => cs < 65536 ∧ g < 65536 ∧ ks.length < 65536 ∧ rd.length < 65536 ∧ es.length < 65536
  | .grease t _ => isGrease t = true ∧ t < 65536
  | .unknown t _ => t < 65536 ∧ isGrease t = false ∧ ∀ n, (extTable (β := β) n).all (fun e => e.1 != t) = true
  | _ => True

def WFExtension (e : Extension β) : Prop := WFExtContent e ∧ (extContent e).length < 65536

/-- the dispatchers that have an arm for a (known) variant -/
def Extension.arms : Extension β → Arms
  | .ellipticCurves _ | .padding _ | .pskExchangeModes _ | .oidFilters _ | .postHandshakeAuth
  | .encryptedServerName .. => .cg
  | .keyShareOld _ => .g
  | _ => .all

/-! ### content parsers on their encodings -/

theorem parseU16All_enc (l : List Nat) (h : ∀ c ∈ l, c < 65536) : parseU16All (encU16s l : List β) = .ok [] l := by
  unfold parseU16All
  cases l with
  | nil => simp [encU16s]
  | cons c l' =>
    have hlen : (encU16s (c :: l') : List β).length ≠ 0 := by simp
    have hodd : ¬ ((encU16s (c :: l') : List β).length % 2 = 1 ∨
        (encU16s (c :: l') : List β).length > (encU16s (c :: l') : List β).length) := by simp
    simp only [hlen, hodd, if_false, Nat.le_refl, if_true, List.take_length, List.drop_length,
      chunks2_encU16s (c :: l') h]

theorem sniEntry_roundtrip (p : Nat × List β) (h : p.1 < 256 ∧ p.2.length < 65536) (rest : List β) :
    parseSniHostname (encSniEntry p ++ rest) = .ok rest p := by
  simp [parseSniHostname, encSniEntry, List.append_assoc, beU1_enc _ h.1, lengthData2_enc _ h.2, Res.bind]

theorem oidFilter_roundtrip (p : List β × List β) (h : p.1.length < 256 ∧ p.2.length < 65536) (rest : List β) :
    parseOidFilter (encOidFilter p ++ rest) = .ok rest p := by
  simp [parseOidFilter, encOidFilter, List.append_assoc, lengthData1_enc _ h.1, lengthData2_enc _ h.2, Res.bind]

theorem encSniEntry_ne_nil (p : Nat × List β) : encSniEntry p ≠ [] := by
  intro h; have := congrArg List.length h; simp [encSniEntry] at this
theorem encOidFilter_ne_nil (p : List β × List β) : encOidFilter p ≠ [] := by
  intro h; have := congrArg List.length h; simp [encOidFilter] at this

theorem ld2_all (d : List β) (h : d.length < 65536) : lengthData (beU 2) (encLD 2 d) = .ok [] d := by
  have := lengthData2_enc d h []; simpa using this
theorem ld1_all (d : List β) (h : d.length < 256) : lengthData (beU 1) (encLD 1 d) = .ok [] d := by
  have := lengthData1_enc d h []; simpa using this
theorem mapParser_ld2_all {α : Type} (g : Parser β α) (d : List β) (h : d.length < 65536) :
    mapParser (lengthData (beU 2)) g (encLD 2 d) = (g d).bind fun _ o => .ok [] o := by
  have := mapParser_ld2_enc g d h []; simpa using this
theorem beU1_all (n : Nat) (h : n < 256) : beU 1 (encBE 1 n : List β) = .ok [] n := by
  have := beU1_enc n h ([] : List β); simpa using this
theorem beU2_all (n : Nat) (h : n < 65536) : beU 2 (encBE 2 n : List β) = .ok [] n := by
  have := beU2_enc n h ([] : List β); simpa using this
theorem beU4_all (n : Nat) (h : n < 4294967296) : beU 4 (encBE 4 n : List β) = .ok [] n := by
  have := beU4_enc n h ([] : List β); simpa using this

/-- is the variant one of the 26 typed ones (not Grease / Unknown) -/
def Extension.known : Extension β → Bool
  | .grease .. => false
  | .unknown .. => false
  | _ => true

/-- the content parser of each typed variant (specification side: written by variant, not by type number) -/
def contentParserOf : Extension β → Nat → Parser β (Extension β)
  | .sni _, _ => parseSniContent
  | .maxFragmentLength _, _ => parseMaxFragmentLengthContent
  | .statusRequest _, n => parseStatusRequestContent n
  | .ellipticCurves _, _ => parseEllipticCurvesContent
  | .ecPointFormats _, _ => parseEcPointFormatsContent
  | .signatureAlgorithms _, _ => parseSignatureAlgorithmsContent
  | .recordSizeLimit _, _ => mapP (beU 2) .recordSizeLimit
  | .sessionTicket _, n => mapP (take n) .sessionTicket
  | .keyShareOld _, n => mapP (take n) .keyShareOld
  | .keyShare _, n => mapP (take n) .keyShare
  | .preSharedKey _, n => mapP (take n) .preSharedKey
  | .earlyData _, n => parseEarlyDataContent n
  | .supportedVersions _, n => parseSupportedVersionsContent n
  | .cookie _, n => mapP (take n) .cookie
  | .pskExchangeModes _, _ => parsePskModesContent
  | .heartbeat _, _ => parseHeartbeatContent
  | .alpn _, _ => parseAlpnContent
  | .signedCertificateTimestamp _, _ => parseSctContent
  | .padding _, n => mapP (take n) .padding
  | .encryptThenMac, n => parseEmptyContent n .encryptThenMac
  | .extendedMasterSecret, n => parseEmptyContent n .extendedMasterSecret
  | .oidFilters _, _ => parseOidFilters
  | .postHandshakeAuth, n => parseEmptyContent n .postHandshakeAuth
  | .nextProtocolNegotiation, n => parseEmptyContent n .nextProtocolNegotiation
  | .renegotiationInfo _, _ => parseRenegotiationInfoContent
  | .encryptedServerName .., _ => parseEncryptedServerName
  | .grease .., _ => failP .Switch
  | .unknown .., _ => failP .Switch

@[simp] theorem Arms.has_all (d : Dispatcher) : Arms.all.has d = true := rfl
@[simp] theorem Arms.has_cg_generic : Arms.cg.has .generic = true := rfl
@[simp] theorem Arms.has_cg_client : Arms.cg.has .client = true := rfl
@[simp] theorem Arms.has_cg_server : Arms.cg.has .server = false := rfl
@[simp] theorem Arms.has_g_generic : Arms.g.has .generic = true := rfl
@[simp] theorem Arms.has_g_client : Arms.g.has .client = false := rfl
@[simp] theorem Arms.has_g_server : Arms.g.has .server = false := rfl

/-- **dispatch by IANA type**: for each typed variant, every dispatcher that has the arm selects, for the
    variant's IANA type, that variant's content parser -/
theorem dispatch_known (e : Extension β) (hk : e.known = true) (d : Dispatcher) (hd : e.arms.has d = true) (n : Nat) :
    extContentParser d e.wireType n = some (contentParserOf e n) := by
  cases e <;> cases d <;> simp [Extension.known, Extension.arms] at hk hd <;>
    simp [extContentParser, extTable, List.find?, Extension.wireType, Extension.typeOf, contentParserOf]

/-- every typed variant's content parser returns the variant on the variant's content -/
theorem content_roundtrip (e : Extension β) (hk : e.known = true) (hw : WFExtension e) :
    ∃ rem, contentParserOf e (extContent e).length (extContent e) = .ok rem e := by
  obtain ⟨hc, hl⟩ := hw
  cases e with
  | grease t dd => exact absurd hk (by simp [Extension.known])
  | unknown t dd => exact absurd hk (by simp [Extension.known])
  | sni l =>
    refine ⟨[], ?_⟩
    obtain ⟨h1, h2⟩ := hc
    have hne : (encLD 2 (l.flatMap encSniEntry) : List β).isEmpty = false := by simp [encLD, encBE]
    simp only [contentParserOf, parseSniContent, extContent, hne, Bool.false_eq_true, if_false]
    rw [show encLD 2 (l.flatMap encSniEntry) = (encBE 2 (l.flatMap encSniEntry).length : List β) ++ (l.flatMap encSniEntry ++ []) by simp [encLD]]
    rw [beU2_enc _ h2]; simp only [Res.bind_ok]
    rw [mapParser_take_enc]
    rw [many0_complete_roundtrip parseSniHostname encSniEntry l (fun p _ => encSniEntry_ne_nil p)
      (fun p hp r => sniEntry_roundtrip p (h1 p hp) r) ⟨_, rfl⟩]
    rfl
  | maxFragmentLength n =>
    exact ⟨[], by simp [contentParserOf, parseMaxFragmentLengthContent, mapP, extContent, beU1_all n hc, Res.map]⟩
  | statusRequest o =>
    refine ⟨[], ?_⟩
    cases o with
    | none => simp [contentParserOf, parseStatusRequestContent, extContent]
    | some p =>
      obtain ⟨t, dd⟩ := p
      have h1 : ¬ (((encBE 1 t : List β) ++ dd).length = 0) := by simp
      have h2 : 1 ≤ ((encBE 1 t : List β) ++ dd).length := by simp
      have h3 : ((encBE 1 t : List β) ++ dd).length - 1 = dd.length := by simp
      simp only [contentParserOf, parseStatusRequestContent, extContent, h1, if_false]
      rw [beU1_enc _ hc]; simp only [Res.bind_ok, h2, if_true, h3, take_all]
  | ellipticCurves l =>
    obtain ⟨h1, h2⟩ := hc
    exact ⟨[], by simp [contentParserOf, parseEllipticCurvesContent, extContent, mapParser_ld2_all _ _ (show (encU16s l : List β).length < 65536 by simpa using h2), mapP, parseU16All_enc l h1, Res.map, Res.bind]⟩
  | ecPointFormats dd =>
    exact ⟨[], by simp [contentParserOf, parseEcPointFormatsContent, mapP, extContent, ld1_all dd hc, Res.map]⟩
  | signatureAlgorithms l =>
    obtain ⟨h1, h2⟩ := hc
    exact ⟨[], by simp [contentParserOf, parseSignatureAlgorithmsContent, extContent, mapParser_ld2_all _ _ (show (encU16s l : List β).length < 65536 by simpa using h2), u16list_enc l h1, Res.bind]⟩
  | recordSizeLimit n => exact ⟨[], by simp [contentParserOf, mapP, extContent, beU2_all n hc, Res.map]⟩
  | sessionTicket dd => exact ⟨[], by simp [contentParserOf, mapP, extContent, take_all, Res.map]⟩
  | keyShareOld dd => exact ⟨[], by simp [contentParserOf, mapP, extContent, take_all, Res.map]⟩
  | keyShare dd => exact ⟨[], by simp [contentParserOf, mapP, extContent, take_all, Res.map]⟩
  | preSharedKey dd => exact ⟨[], by simp [contentParserOf, mapP, extContent, take_all, Res.map]⟩
  | earlyData o =>
    cases o with
    | none => exact ⟨[], by simp [contentParserOf, parseEarlyDataContent, mapP, cond, extContent, Res.map]⟩
    | some n => exact ⟨[], by simp [contentParserOf, parseEarlyDataContent, mapP, cond, extContent, beU4_all n hc, Res.map]⟩
  | supportedVersions l =>
    refine ⟨[], ?_⟩
    obtain ⟨h1, h2⟩ := hc
    have hlen : ((encBE 1 (2 * l.length) : List β) ++ encU16s l).length = 1 + 2 * l.length := by simp
    have hne2 : ¬ (1 + 2 * l.length = 2) := by omega
    have hne0 : ¬ (1 + 2 * l.length = 0) := by omega
    have hge : 1 ≤ 1 + 2 * l.length := by omega
    have hsub : 1 + 2 * l.length - 1 = (encU16s l : List β).length := by simp
    simp only [contentParserOf, parseSupportedVersionsContent, extContent, hlen, hne2, hne0, hge, if_false, if_true]
    rw [beU1_enc _ h2]; simp only [Res.bind_ok]
    rw [hsub]
    have := mapParser_take_enc parseU16All (encU16s l : List β) []
    simp only [List.append_nil] at this
    rw [this, parseU16All_enc l h1]; rfl
  | cookie dd => exact ⟨[], by simp [contentParserOf, mapP, extContent, take_all, Res.map]⟩
  | pskExchangeModes v =>
    obtain ⟨h1, h2⟩ := hc
    exact ⟨[], by simp [contentParserOf, parsePskModesContent, extContent, ld1_all _ (show (encBytes v : List β).length < 256 by simpa using h2), Res.bind, toNat_encBytes v h1]⟩
  | heartbeat n =>
    exact ⟨[], by simp [contentParserOf, parseHeartbeatContent, mapP, extContent, beU1_all n hc, Res.map]⟩
  | alpn l =>
    refine ⟨[], ?_⟩
    obtain ⟨h1, h2⟩ := hc
    simp only [contentParserOf, parseAlpnContent, extContent, mapParser_ld2_all _ _ h2]
    rw [many0_complete_roundtrip (lengthData (beU 1)) (encLD 1) l (fun p _ => encLD_ne_nil 1 (by decide) p)
      (fun p hp r => lengthData1_enc p (h1 p hp) r) ⟨_, rfl⟩]
    rfl
  | signedCertificateTimestamp o =>
    cases o with
    | none => exact ⟨[], by simp [contentParserOf, parseSctContent, mapP, opt, complete, lengthData, beU, extContent, Res.bind, Res.map]⟩
    | some dd => exact ⟨[], by simp [contentParserOf, parseSctContent, mapP, opt, complete, extContent, ld2_all dd hc, Res.map]⟩
  | padding dd => exact ⟨[], by simp [contentParserOf, mapP, extContent, take_all, Res.map]⟩
  | encryptThenMac => exact ⟨[], by simp [contentParserOf, parseEmptyContent, extContent]⟩
  | extendedMasterSecret => exact ⟨[], by simp [contentParserOf, parseEmptyContent, extContent]⟩
  | oidFilters l =>
    refine ⟨[], ?_⟩
    obtain ⟨h1, h2⟩ := hc
    simp only [contentParserOf, parseOidFilters, extContent, mapParser_ld2_all _ _ h2]
    rw [many0_complete_roundtrip parseOidFilter encOidFilter l (fun p _ => encOidFilter_ne_nil p)
      (fun p hp r => oidFilter_roundtrip p (h1 p hp) r) ⟨_, rfl⟩]
    rfl
  | postHandshakeAuth => exact ⟨[], by simp [contentParserOf, parseEmptyContent, extContent]⟩
  | nextProtocolNegotiation => exact ⟨[], by simp [contentParserOf, parseEmptyContent, extContent]⟩
  | renegotiationInfo dd =>
    exact ⟨[], by simp [contentParserOf, parseRenegotiationInfoContent, mapP, extContent, ld1_all dd hc, Res.map]⟩
  | encryptedServerName cs g ks rd es =>
    obtain ⟨h1, h2, h3, h4, h5⟩ := hc
    have := lengthData2_enc es h5 []
    simp only [List.append_nil] at this
    exact ⟨[], by simp [contentParserOf, parseEncryptedServerName, extContent, beU2_enc _ h1, beU2_enc _ h2, lengthData2_enc _ h3, lengthData2_enc _ h4, this, Res.bind]⟩

/-! ### single extension through the three dispatchers -/

theorem known_not_grease (e : Extension β) (hk : e.known = true) : isGrease e.wireType = false := by
  cases e <;> simp [Extension.known] at hk <;> simp [Extension.wireType, Extension.typeOf, isGrease]

theorem wireType_lt (e : Extension β) (hw : WFExtension e) : e.wireType < 65536 := by
  cases e <;> simp [Extension.wireType, Extension.typeOf]
  · exact hw.1.2
  · exact hw.1.1

/-- framing of every dispatcher: type, length-prefixed data, then GREASE test / content dispatch -/
theorem parseExtensionD_frame (d : Dispatcher) (t : Nat) (ht : t < 65536) (data : List β) (hl : data.length < 65536) (r : List β) :
    parseExtensionD d ((encBE 2 t : List β) ++ (encLD 2 data ++ r)) =
      if isGrease t then .ok r (.grease t data)
      else match extContentParser d t data.length with
        | some p => (p data).bind fun _ e => .ok r e
        | none => .ok r (.unknown t data) := by
  unfold parseExtensionD
  rw [beU2_enc _ ht]; simp only [Res.bind_ok]
  rw [lengthData2_enc _ hl]; simp only [Res.bind_ok, Nat.mod_eq_of_lt hl]
  split
  · rfl
  · split <;> simp_all

/-- **typed variants**: each of the 26 known types decodes to its variant with exact contents, through every
    dispatcher that has the arm, consuming exactly the extension -/
theorem extension_roundtrip_known (e : Extension β) (hk : e.known = true) (hw : WFExtension e)
    (d : Dispatcher) (hd : e.arms.has d = true) (r : List β) :
    parseExtensionD d (encExtension e ++ r) = .ok r e := by
  obtain ⟨rem, hc⟩ := content_roundtrip e hk hw
  unfold encExtension
  rw [List.append_assoc, parseExtensionD_frame d _ (wireType_lt e hw) _ hw.2,
    known_not_grease e hk, dispatch_known e hk d hd]
  simp [hc]

/-- **GREASE**: every RFC 8701 code point, with any data, is preserved as `Grease(type, data)` by every dispatcher -/
theorem extension_roundtrip_grease (t : Nat) (data : List β) (hg : isGrease t = true) (ht : t < 65536)
    (hl : data.length < 65536) (d : Dispatcher) (r : List β) :
    parseExtensionD d (encExtension (.grease t data) ++ r) = .ok r (.grease t data) := by
  unfold encExtension
  rw [List.append_assoc, parseExtensionD_frame d _ (by simpa [Extension.wireType] using ht) _ (by simpa [extContent] using hl)]
  simp [Extension.wireType, hg, extContent]

/-- the GREASE test is exactly the 16 values 0x0a0a, 0x1a1a, …, 0xfafa of RFC 8701 -/
theorem isGrease_iff (t : Nat) (ht : t < 65536) : isGrease t = true ↔ ∃ k, k < 16 ∧ t = 0x0a0a + 0x1010 * k := by
  simp only [isGrease, Bool.and_eq_true, decide_eq_true_eq]
  constructor
  · rintro ⟨⟨h1, h2⟩, h3⟩
    exact ⟨t / 4096, by omega, by omega⟩
  · rintro ⟨k, hk, rfl⟩
    have : k = 0 ∨ k = 1 ∨ k = 2 ∨ k = 3 ∨ k = 4 ∨ k = 5 ∨ k = 6 ∨ k = 7 ∨ k = 8 ∨ k = 9 ∨ k = 10 ∨ k = 11 ∨
        k = 12 ∨ k = 13 ∨ k = 14 ∨ k = 15 := by omega
    rcases this with h | h | h | h | h | h | h | h | h | h | h | h | h | h | h | h <;> subst h <;> decide

theorem find?_eq_none_of_all {α : Type} (l : List α) (p q : α → Bool) (h : l.all (fun x => !p x) = true) :
    l.find? (fun x => p x && q x) = none := by
  induction l with
  | nil => rfl
  | cons a l ih =>
    simp only [List.all_cons, Bool.and_eq_true, Bool.not_eq_true'] at h
    simp [List.find?, h.1, ih h.2]

/-- **unknown types**: every type that is neither known nor GREASE is preserved byte-for-byte as `Unknown(type, data)` -/
theorem extension_roundtrip_unknown (t : Nat) (data : List β) (hw : WFExtension (.unknown t data))
    (d : Dispatcher) (r : List β) :
    parseExtensionD d (encExtension (.unknown t data) ++ r) = .ok r (.unknown t data) := by
  obtain ⟨⟨ht, hng, htab⟩, hl⟩ := hw
  unfold encExtension
  rw [List.append_assoc, parseExtensionD_frame d _ (by simpa [Extension.wireType, Extension.typeOf] using ht) _ hl]
  have hnone : extContentParser (β := β) d t (extContent (.unknown t data : Extension β)).length = none := by
    unfold extContentParser
    have := htab (extContent (.unknown t data : Extension β)).length
    rw [find?_eq_none_of_all _ (fun (e : Nat × Arms × Parser β (Extension β)) => e.1 == t) (fun e => e.2.1.has d)
      (by simpa [bne] using this)]
    rfl
  have hnone' : extContentParser (β := β) d t data.length = none := by simpa [extContent] using hnone
  simp [Extension.wireType, Extension.typeOf, hng, hnone', extContent]

/-- a type for which a dispatcher has no arm is returned as `Unknown` by that dispatcher (e.g. supported_groups,
    padding, psk modes in a ServerHello; the pre-draft-23 key_share outside the generic parser) -/
theorem missing_arm_gives_unknown (d : Dispatcher) (t : Nat) (ht : t < 65536) (hng : isGrease t = false)
    (data : List β) (hl : data.length < 65536) (hnone : extContentParser (β := β) d t data.length = none) (r : List β) :
    parseExtensionD d ((encBE 2 t : List β) ++ (encLD 2 data ++ r)) = .ok r (.unknown t data) := by
  rw [parseExtensionD_frame d t ht data hl, hng, hnone]; rfl

example : extContentParser (β := Fin 256) .server 10 4 = none := by
  simp [extContentParser, extTable, List.find?]
example : extContentParser (β := Fin 256) .client 40 4 = none := by
  simp [extContentParser, extTable, List.find?]

/-- what decoding an extension through dispatcher `d` must give: the variant itself for typed variants whose
    arm `d` has, GREASE and unknown types for all `d` -/
def Decodes (d : Dispatcher) (e : Extension β) : Prop :=
  match e with
  | .grease t _ => isGrease t = true ∧ t < 65536
  | .unknown .. => True
  | e => e.arms.has d = true

theorem extension_roundtrip (d : Dispatcher) (e : Extension β) (hw : WFExtension e) (hd : Decodes d e) (r : List β) :
    parseExtensionD d (encExtension e ++ r) = .ok r e := by
  cases hk : e.known with
  | true =>
    apply extension_roundtrip_known e hk hw d _ r
    cases e <;> simp [Extension.known] at hk <;> exact hd
  | false =>
    cases e <;> simp [Extension.known] at hk
    · exact extension_roundtrip_grease _ _ hd.1 hd.2 (by simpa [extContent] using hw.2) d r
    · exact extension_roundtrip_unknown _ _ hw d r

/-! ### lists of extensions -/

theorem encExtension_ne_nil (e : Extension β) : encExtension e ≠ [] := by
  intro h; have := congrArg List.length h; simp [encExtension] at this

/-- **list round trip**: one element per extension, in wire order, the whole block consumed -/
theorem extensions_roundtrip (d : Dispatcher) (es : List (Extension β)) (hw : ∀ e ∈ es, WFExtension e)
    (hd : ∀ e ∈ es, Decodes d e) :
    parseExtensionsD d (es.flatMap encExtension) = .ok [] es := by
  unfold parseExtensionsD
  exact many0_complete_roundtrip (parseExtensionD d) encExtension es (fun e _ => encExtension_ne_nil e)
    (fun e he r => extension_roundtrip d e (hw e he) (hd e he) r) ⟨_, rfl⟩

/-- **a length field exceeding the enclosing block never yields a value**, and the list parser stops before it -/
theorem extension_overrun (d : Dispatcher) (t n : Nat) (ht : t < 65536) (hn : n < 65536) (rest : List β) (h : rest.length < n) :
    ∃ k, parseExtensionD d ((encBE 2 t : List β) ++ ((encBE 2 n : List β) ++ rest)) = .incomplete k := by
  unfold parseExtensionD
  rw [beU2_enc _ ht]; simp only [Res.bind_ok, lengthData]
  rw [beU2_enc _ hn]; simp only [Res.bind_ok, take_of_gt h]
  exact ⟨_, rfl⟩

theorem extensions_stop_at_overrun (d : Dispatcher) (t n : Nat) (ht : t < 65536) (hn : n < 65536) (rest : List β) (h : rest.length < n) :
    parseExtensionsD d ((encBE 2 t : List β) ++ ((encBE 2 n : List β) ++ rest))
      = .ok ((encBE 2 t : List β) ++ ((encBE 2 n : List β) ++ rest)) [] := by
  obtain ⟨k, hk⟩ := extension_overrun d t n ht hn rest h
  exact many0_stop_error _ _ .Complete (by simp [complete, hk])

/-! ### extensions defined as empty are rejected when they carry data -/

theorem empty_extension_with_data_rejected (d : Dispatcher) (t : Nat) (ht : t = 22 ∨ t = 23 ∨ t = 13172 ∨ (t = 49 ∧ d ≠ .server))
    (data : List β) (hne : data ≠ []) (hl : data.length < 65536) (r : List β) :
    parseExtensionD d ((encBE 2 t : List β) ++ (encLD 2 data ++ r)) = .error .Verify := by
  have hlen : data.length ≠ 0 := fun h => hne (List.eq_nil_of_length_eq_zero h)
  have ht' : t < 65536 := by rcases ht with h | h | h | ⟨h, _⟩ <;> omega
  rw [parseExtensionD_frame d t ht' data hl]
  rcases ht with h | h | h | ⟨h, hd⟩
  · subst h; cases d <;> simp [isGrease, extContentParser, extTable, List.find?, parseEmptyContent, hlen, Res.bind]
  · subst h; cases d <;> simp [isGrease, extContentParser, extTable, List.find?, parseEmptyContent, hlen, Res.bind]
  · subst h; cases d <;> simp [isGrease, extContentParser, extTable, List.find?, parseEmptyContent, hlen, Res.bind]
  · subst h; cases d <;> simp [isGrease, extContentParser, extTable, List.find?, parseEmptyContent, hlen, Res.bind] at hd ⊢

/-! ### the derived type tag equals the wire type (GREASE ↦ the single Grease tag) -/

theorem typeOf_known (e : Extension β) (hk : e.known = true) : e.typeOf = e.wireType := by
  cases e <;> simp [Extension.known] at hk <;> rfl

theorem typeOf_grease (t : Nat) (data : List β) : (Extension.grease t data).typeOf = 0xfafa := rfl
theorem typeOf_unknown (t : Nat) (data : List β) : (Extension.unknown t data).typeOf = t := rfl

/-- every successful result of `p` is a variant whose derived type tag is `t` -/
def OutType (p : Parser β (Extension β)) (t : Nat) : Prop := ∀ i rem e, p i = .ok rem e → e.typeOf = t

theorem OutType.pure (e : Extension β) (t : Nat) (h : e.typeOf = t) : OutType (fun i => Res.ok i e) t := by
  intro i rem e' he; simp at he; rw [← he.2]; exact h
theorem OutType.error (k : ErrKind) (t : Nat) : OutType (fun _ : List β => (Res.error k : Res β (Extension β))) t := by
  intro i rem e he; simp at he
theorem OutType.mapP {α : Type} (f : Parser β α) (g : α → Extension β) (t : Nat) (h : ∀ x, (g x).typeOf = t) : OutType (mapP f g) t := by
  intro i rem e he; unfold Tls.mapP at he
  cases hf : f i <;> rw [hf] at he <;> simp at he
  rw [← he.2]; exact h _
theorem OutType.bind {α : Type} {p : Parser β α} {q : α → Parser β (Extension β)} {t : Nat} (hq : ∀ x, OutType (q x) t) :
    OutType (fun i => (p i).bind fun i1 x => q x i1) t := by
  intro i rem e he; simp only at he
  cases hp : p i <;> rw [hp] at he <;> simp at he
  exact hq _ _ _ _ he
theorem OutType.mapParser {f : Parser β (List β)} {g : Parser β (Extension β)} {t : Nat} (hg : OutType g t) : OutType (mapParser f g) t := by
  intro i rem e he; unfold Tls.mapParser at he
  cases hf : f i <;> rw [hf] at he <;> simp at he
  rename_i r1 o1
  cases hgo : g o1 <;> rw [hgo] at he <;> simp at he
  rw [← he.2]; exact hg _ _ _ hgo
theorem OutType.iteI {c : List β → Prop} [DecidablePred c] {p q : Parser β (Extension β)} {t : Nat} (hp : OutType p t) (hq : OutType q t) :
    OutType (fun i => if c i then p i else q i) t := by
  intro i rem e he; simp only at he
  split at he
  · exact hp _ _ _ he
  · exact hq _ _ _ he

syntax "outtype_step" : tactic
macro_rules | `(tactic| outtype_step) => `(tactic| first
  | exact OutType.pure _ _ rfl | exact OutType.error _ _
  | exact OutType.mapP _ _ _ (fun _ => rfl)
  | refine OutType.mapParser ?_
  | refine OutType.iteI ?_ ?_
  | refine OutType.bind (fun _ => ?_))
macro "outtype" : tactic => `(tactic| repeat outtype_step)

/-- every row of the dispatch table produces only the variant of its own IANA type -/
theorem extTable_outType (n : Nat) : ∀ e ∈ (extTable n : List (Nat × Arms × Parser β (Extension β))), OutType e.2.2 e.1 := by
  simp only [extTable, List.forall_mem_cons, List.not_mem_nil, false_imp_iff, implies_true, and_true]
  refine ⟨?_, ?_, ?_, ?_, ?_, ?_, ?_, ?_, ?_, ?_, ?_, ?_, ?_, ?_, ?_, ?_, ?_, ?_, ?_, ?_, ?_, ?_, ?_, ?_, ?_, ?_⟩
  · unfold parseSniContent; outtype
  · unfold parseMaxFragmentLengthContent; outtype
  · unfold parseStatusRequestContent; outtype
  · unfold parseEllipticCurvesContent; outtype
  · unfold parseEcPointFormatsContent; outtype
  · unfold parseSignatureAlgorithmsContent; outtype
  · unfold parseHeartbeatContent; outtype
  · unfold parseAlpnContent; outtype
  · unfold parseSctContent; outtype
  · outtype
  · unfold parseEmptyContent; outtype
  · unfold parseEmptyContent; outtype
  · outtype
  · outtype
  · outtype
  · outtype
  · unfold parseEarlyDataContent; outtype
  · unfold parseSupportedVersionsContent; outtype
  · outtype
  · unfold parsePskModesContent; outtype
  · unfold parseOidFilters; outtype
  · unfold parseEmptyContent; outtype
  · outtype
  · unfold parseEmptyContent; outtype
  · unfold parseRenegotiationInfoContent; outtype
  · unfold parseEncryptedServerName; outtype

/-- **the type tag derived from any decoded variant equals the wire type** (every GREASE value ↦ the single Grease tag
    0xfafa) — for every input the dispatchers accept, well-formed or not -/
theorem typeOf_eq_wire_type (d : Dispatcher) (i r : List β) (e : Extension β) (h : parseExtensionD d i = .ok r e) :
    ∃ t, beU 2 i = .ok (i.drop 2) t ∧ e.typeOf = if isGrease t then 0xfafa else t := by
  unfold parseExtensionD at h
  rcases beU_cases 2 i with ⟨h2, e2⟩ | ⟨_, e2⟩
  · refine ⟨_, e2, ?_⟩
    rw [e2] at h; simp only [Res.bind_ok] at h
    cases hl : lengthData (beU 2) (i.drop 2) with
    | ok r1 data =>
      rw [hl] at h; simp only [Res.bind_ok] at h
      split at h
      · rename_i hg; simp at h; rw [← h.2, hg]; rfl
      · rename_i hg
        simp only [hg, Bool.false_eq_true, if_false]
        split at h
        · rename_i p hp
          cases hpd : p data <;> rw [hpd] at h <;> simp at h
          unfold extContentParser at hp
          cases hf : (extTable (data.length % 65536) : List (Nat × Arms × Parser β (Extension β))).find?
              (fun x => x.1 == beVal (i.take 2) && x.2.1.has d) with
          | none => rw [hf] at hp; simp at hp
          | some row =>
            rw [hf] at hp; simp at hp
            have hmem := List.mem_of_find?_eq_some hf
            have hprop := List.find?_some hf
            simp at hprop
            have := extTable_outType (β := β) (data.length % 65536) row hmem data _ _ (hp ▸ hpd)
            rw [← h.2, this, hprop.1]
        · simp at h; rw [← h.2]; rfl
    | _ => rw [hl] at h; simp at h
  · rw [e2] at h; simp at h

/-! ### the three dispatchers agree on every type they all recognise (and on every type none does) -/

theorem find?_congr_mem {α : Type} (l : List α) (p q : α → Bool) (h : ∀ x ∈ l, p x = q x) : l.find? p = l.find? q := by
  induction l with
  | nil => rfl
  | cons a l ih =>
    simp only [List.find?, h a (by simp)]
    rw [ih (fun x hx => h x (by simp [hx]))]

theorem dispatchers_agree (t n : Nat) (h : ∀ e ∈ (extTable n : List (Nat × Arms × Parser β (Extension β))), e.1 = t → e.2.1 = .all)
    (d d' : Dispatcher) : extContentParser (β := β) d t n = extContentParser d' t n := by
  unfold extContentParser
  rw [find?_congr_mem _ _ (fun e => e.1 == t && e.2.1.has d')]
  intro e he
  by_cases ht : e.1 = t
  · simp [h e he ht]
  · have : (e.1 == t) = false := by simp [ht]
    simp [this]

/-- hence on such a type the three dispatchers return identical results on identical input -/
theorem dispatchers_agree_parse (t : Nat) (ht : t < 65536) (data r : List β) (hl : data.length < 65536)
    (h : ∀ e ∈ (extTable data.length : List (Nat × Arms × Parser β (Extension β))), e.1 = t → e.2.1 = .all)
    (d d' : Dispatcher) :
    parseExtensionD d ((encBE 2 t : List β) ++ (encLD 2 data ++ r)) = parseExtensionD d' ((encBE 2 t : List β) ++ (encLD 2 data ++ r)) := by
  rw [parseExtensionD_frame d t ht data hl, parseExtensionD_frame d' t ht data hl, dispatchers_agree t _ h d d']

/-! ### the single-purpose (tag-specific) parsers accept exactly their own IANA type, then agree with the generic parser -/

theorem tag2_enc (hi lo t : Nat) (hhi : hi < 256) (hlo : lo < 256) (ht : t < 65536) (rest : List β) :
    tag [hi, lo] ((encBE 2 t : List β) ++ rest) = if t = hi * 256 + lo then .ok rest () else .error .Tag := by
  have e : (encBE 2 t : List β) = [ByteLike.ofNat (t / 256), ByteLike.ofNat t] := by simp [encBE]
  rw [e]
  simp only [tag, List.cons_append, List.nil_append, List.map_cons, List.zip_cons_cons, List.any_cons, ByteLike.toNat_ofNat]
  by_cases h : t = hi * 256 + lo
  · subst h
    have h1 : (hi * 256 + lo) / 256 % 256 = hi := by omega
    have h2 : (hi * 256 + lo) % 256 = lo := by omega
    simp [h1, h2]
  · simp only [h, if_false]
    by_cases h1 : t / 256 % 256 = hi
    · have h2 : t % 256 ≠ lo := by omega
      simp [h1, h2]
    · simp [h1]

/-- **wrong type ⇒ rejected** (with `Tag`), for every tag-specific parser of either form -/
theorem tagLD_wrong_type (hi lo t : Nat) (hhi : hi < 256) (hlo : lo < 256) (ht : t < 65536) (hne : t ≠ hi * 256 + lo)
    (c : Parser β (Extension β)) (rest : List β) :
    tagLD [hi, lo] c ((encBE 2 t : List β) ++ rest) = .error .Tag := by
  simp [tagLD, tag2_enc hi lo t hhi hlo ht, hne, Res.bind]

theorem tagLen_wrong_type (hi lo t : Nat) (hhi : hi < 256) (hlo : lo < 256) (ht : t < 65536) (hne : t ≠ hi * 256 + lo)
    (c : Nat → Parser β (Extension β)) (rest : List β) :
    tagLen [hi, lo] c ((encBE 2 t : List β) ++ rest) = .error .Tag := by
  simp [tagLen, tag2_enc hi lo t hhi hlo ht, hne, Res.bind]

theorem tagLD_own (hi lo : Nat) (hhi : hi < 256) (hlo : lo < 256) (c : Parser β (Extension β)) (content rest : List β)
    (hl : content.length < 65536) :
    tagLD [hi, lo] c ((encBE 2 (hi * 256 + lo) : List β) ++ (encLD 2 content ++ rest)) = (c content).bind fun _ e => .ok rest e := by
  have ht : hi * 256 + lo < 65536 := by omega
  unfold tagLD
  rw [tag2_enc hi lo (hi * 256 + lo) hhi hlo ht]
  simp only [if_true, Res.bind_ok, mapParser_ld2_enc c content hl]

theorem tagLen_own (hi lo : Nat) (hhi : hi < 256) (hlo : lo < 256) (c : Nat → Parser β (Extension β)) (content rest : List β)
    (hl : content.length < 65536) :
    tagLen [hi, lo] c ((encBE 2 (hi * 256 + lo) : List β) ++ (encLD 2 content ++ rest))
      = (c content.length content).bind fun _ e => .ok rest e := by
  have ht : hi * 256 + lo < 65536 := by omega
  unfold tagLen
  rw [tag2_enc hi lo (hi * 256 + lo) hhi hlo ht]
  simp only [if_true, Res.bind_ok, encLD, List.append_assoc]
  rw [beU2_enc _ hl]; simp only [Res.bind_ok]
  rw [mapParser_take_enc]

/-- the tag-specific parser of a variant (16 of the 28 variants have one) -/
def tagParserOf : Extension β → Option (Parser β (Extension β))
  | .sni _ => some parseTagSni
  | .maxFragmentLength _ => some parseTagMaxFragmentLength
  | .statusRequest _ => some parseTagStatusRequest
  | .ellipticCurves _ => some parseTagEllipticCurves
  | .ecPointFormats _ => some parseTagEcPointFormats
  | .signatureAlgorithms _ => some parseTagSignatureAlgorithms
  | .encryptThenMac => some parseTagEncryptThenMac
  | .extendedMasterSecret => some parseTagExtendedMasterSecret
  | .sessionTicket _ => some parseTagSessionTicket
  | .keyShare _ => some parseTagKeyShare
  | .preSharedKey _ => some parseTagPreSharedKey
  | .earlyData _ => some parseTagEarlyData
  | .supportedVersions _ => some parseTagSupportedVersions
  | .cookie _ => some parseTagCookie
  | .pskExchangeModes _ => some parseTagPskModes
  | _ => none

/-- **own type on a well-formed encoding ⇒ the same value as the generic parser** -/
theorem tag_parser_agrees_with_generic (e : Extension β) (hw : WFExtension e) (p : Parser β (Extension β))
    (hp : tagParserOf e = some p) (r : List β) :
    p (encExtension e ++ r) = .ok r e ∧ parseExtension (encExtension e ++ r) = .ok r e := by
  have hk : e.known = true := by cases e <;> simp [tagParserOf] at hp <;> rfl
  obtain ⟨rem, hc⟩ := content_roundtrip e hk hw
  refine ⟨?_, extension_roundtrip_known e hk hw .generic (by cases e <;> simp [tagParserOf] at hp <;> rfl) r⟩
  have hl := hw.2
  unfold encExtension
  rw [List.append_assoc]
  cases e <;> simp [tagParserOf] at hp <;> subst hp
  all_goals first
    | (simp only [parseTagSni, parseTagMaxFragmentLength, parseTagEllipticCurves, parseTagEcPointFormats,
        parseTagSignatureAlgorithms, Extension.wireType, Extension.typeOf]
       first
        | (rw [show (0 : Nat) = 0 * 256 + 0 from rfl, tagLD_own 0 0 (by decide) (by decide) _ _ _ hl])
        | (rw [show (1 : Nat) = 0 * 256 + 1 from rfl, tagLD_own 0 1 (by decide) (by decide) _ _ _ hl])
        | (rw [show (10 : Nat) = 0 * 256 + 10 from rfl, tagLD_own 0 10 (by decide) (by decide) _ _ _ hl])
        | (rw [show (11 : Nat) = 0 * 256 + 11 from rfl, tagLD_own 0 11 (by decide) (by decide) _ _ _ hl])
        | (rw [show (13 : Nat) = 0 * 256 + 13 from rfl, tagLD_own 0 13 (by decide) (by decide) _ _ _ hl])
       simp only [contentParserOf] at hc
       rw [hc]; rfl)
    | (simp only [parseTagStatusRequest, parseTagEncryptThenMac, parseTagExtendedMasterSecret, parseTagSessionTicket,
        parseTagKeyShare, parseTagPreSharedKey, parseTagEarlyData, parseTagSupportedVersions, parseTagCookie, parseTagPskModes,
        Extension.wireType, Extension.typeOf]
       first
        | (rw [show (5 : Nat) = 0 * 256 + 5 from rfl, tagLen_own 0 5 (by decide) (by decide) _ _ _ hl])
        | (rw [show (22 : Nat) = 0 * 256 + 22 from rfl, tagLen_own 0 22 (by decide) (by decide) _ _ _ hl])
        | (rw [show (23 : Nat) = 0 * 256 + 23 from rfl, tagLen_own 0 23 (by decide) (by decide) _ _ _ hl])
        | (rw [show (35 : Nat) = 0 * 256 + 35 from rfl, tagLen_own 0 35 (by decide) (by decide) _ _ _ hl])
        | (rw [show (51 : Nat) = 0 * 256 + 51 from rfl, tagLen_own 0 51 (by decide) (by decide) _ _ _ hl])
        | (rw [show (41 : Nat) = 0 * 256 + 41 from rfl, tagLen_own 0 41 (by decide) (by decide) _ _ _ hl])
        | (rw [show (42 : Nat) = 0 * 256 + 42 from rfl, tagLen_own 0 42 (by decide) (by decide) _ _ _ hl])
        | (rw [show (43 : Nat) = 0 * 256 + 43 from rfl, tagLen_own 0 43 (by decide) (by decide) _ _ _ hl])
        | (rw [show (44 : Nat) = 0 * 256 + 44 from rfl, tagLen_own 0 44 (by decide) (by decide) _ _ _ hl])
        | (rw [show (45 : Nat) = 0 * 256 + 45 from rfl, tagLen_own 0 45 (by decide) (by decide) _ _ _ hl])
       simp only [contentParserOf] at hc
       rw [hc]; rfl)

/-- the heartbeat single-purpose parser (which additionally insists on a one-byte content) -/
theorem tag_heartbeat_own (n : Nat) (hn : n < 256) (r : List β) :
    parseTagHeartbeat (encExtension (.heartbeat n) ++ r) = .ok r (.heartbeat n) := by
  unfold parseTagHeartbeat encExtension
  simp only [Extension.wireType, Extension.typeOf, extContent, encLD, List.append_assoc]
  rw [show (15 : Nat) = 0 * 256 + 15 from rfl, tag2_enc 0 15 (0 * 256 + 15) (by decide) (by decide) (by decide)]
  simp only [if_true, Res.bind_ok, encBE_length, verify]
  rw [beU2_enc _ (by decide)]
  simp only [Res.bind_ok, decide_true, if_true]
  have := mapParser_take_enc parseHeartbeatContent (encBE 1 n : List β) r
  simp only [encBE_length] at this
  rw [this]
  simp [parseHeartbeatContent, mapP, beU1_all n hn, Res.map, Res.bind]

theorem tag_heartbeat_wrong_type (t : Nat) (ht : t < 65536) (hne : t ≠ 15) (rest : List β) :
    parseTagHeartbeat ((encBE 2 t : List β) ++ rest) = .error .Tag := by
  unfold parseTagHeartbeat
  rw [tag2_enc 0 15 t (by decide) (by decide) ht]
  simp [hne, Res.bind]

/-! ### non-vacuity -/
example : WFExtension (β := Fin 256) (.sni [(0, [97, 98])]) := by
  simp [WFExtension, WFExtContent, extContent, encSniEntry]
example : parseExtension (β := Fin 256) [0x3a, 0x3a, 0, 1, 0, 9] = .ok [9] (.grease 0x3a3a [0]) := by decide +kernel
example : parseExtension (β := Fin 256) [0x1a, 0x2a, 0, 1, 0] = .ok [] (.unknown 0x1a2a [0]) := by decide +kernel
example : parseServerHelloExtension (β := Fin 256) [0, 22, 0, 0] = .ok [] .encryptThenMac := by decide +kernel

end Tls
