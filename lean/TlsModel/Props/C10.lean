/-
  Props/C10.lean — DTLS records and handshake fragments.
-/
import TlsModel.Lemmas.Basic
import TlsModel.Dtls
import TlsModel.Props.C01
import TlsModel.Props.C16
import TlsModel.Props.C04
namespace Tls
variable {β : Type} [ByteLike β]

/-- 13-byte DTLS record header: type, version, epoch (16 bit), sequence number (48 bit), length -/
def encDtlsHeader (ct v epoch seq len : Nat) : List β :=
  encBE 1 ct ++ encBE 2 v ++ encBE 2 epoch ++ encBE 6 seq ++ encBE 2 len

@[simp] theorem encDtlsHeader_length (ct v e s l : Nat) : (encDtlsHeader ct v e s l : List β).length = 13 := by
  simp [encDtlsHeader]

theorem beU8_epoch_seq (epoch seq : Nat) (he : epoch < 65536) (hs : seq < 2 ^ 48) (r : List β) :
    beU 8 ((encBE 2 epoch : List β) ++ (encBE 6 seq ++ r)) = .ok r (epoch * 2 ^ 48 + seq) := by
  rw [← List.append_assoc, beU_append_exact 8 _ r (by simp), beVal_append,
    beVal_encBE 2 epoch (by simpa using he), beVal_encBE 6 seq (by simpa using hs)]
  simp

/-- **header decode**: for all content types, versions, epochs, 48-bit sequence numbers and lengths -/
theorem dtls_header_roundtrip (ct v epoch seq len : Nat) (hct : ct < 256) (hv : v < 65536)
    (he : epoch < 65536) (hs : seq < 2 ^ 48) (hl : len < 65536) (r : List β) :
    parseDtlsRecordHeader (encDtlsHeader ct v epoch seq len ++ r) = .ok r ⟨ct, v, epoch, seq, len⟩ := by
  unfold parseDtlsRecordHeader encDtlsHeader
  simp only [List.append_assoc]
  rw [beU_encBE 1 ct _ (by simpa using hct)]
  simp only [Res.bind]
  rw [beU_encBE 2 v _ (by simpa using hv)]
  simp only [Res.bind]
  rw [beU8_epoch_seq epoch seq he hs]
  simp only [Res.bind]
  rw [beU_encBE 2 len _ (by simpa using hl)]
  have h1 : (epoch * 2 ^ 48 + seq) / 2 ^ 48 % 65536 = epoch := by
    rw [Nat.mul_comm, Nat.mul_add_div (by decide), Nat.div_eq_of_lt hs]; simp; omega
  have h2 : (epoch * 2 ^ 48 + seq) % 2 ^ 48 = seq := by
    rw [Nat.mul_comm, Nat.mul_add_mod]; exact Nat.mod_eq_of_lt hs
  simp [h1, h2]

def dtlsDeclLen (i : List β) : Nat := beVal ((i.drop 11).take 2)

theorem dtls_header_incomplete (i : List β) (h : i.length < 13) : ∃ n, parseDtlsRecordHeader i = .incomplete n := by
  unfold parseDtlsRecordHeader
  rcases beU_cases 1 i with ⟨h1, e1⟩ | ⟨h1, e1⟩
  · rw [e1, Res.bind_ok]
    rcases beU_cases 2 (i.drop 1) with ⟨h2, e2⟩ | ⟨h2, e2⟩
    · rw [e2, Res.bind_ok]
      rcases beU_cases 8 ((i.drop 1).drop 2) with ⟨h3, e3⟩ | ⟨h3, e3⟩
      · rw [e3, Res.bind_ok]
        rcases beU_cases 2 (((i.drop 1).drop 2).drop 8) with ⟨h4, e4⟩ | ⟨h4, e4⟩
        · simp [List.length_drop] at h4; omega
        · rw [e4]; exact ⟨_, rfl⟩
      · rw [e3]; exact ⟨_, rfl⟩
    · rw [e2]; exact ⟨_, rfl⟩
  · rw [e1]; exact ⟨_, rfl⟩

theorem dtls_header_of_long (i : List β) (h : 13 ≤ i.length) :
    ∃ ct v e s, parseDtlsRecordHeader i = .ok (i.drop 13) ⟨ct, v, e, s, dtlsDeclLen i⟩ := by
  unfold parseDtlsRecordHeader
  rcases beU_cases 1 i with ⟨h1, e1⟩ | ⟨h1, e1⟩
  · rw [e1, Res.bind_ok]
    rcases beU_cases 2 (i.drop 1) with ⟨h2, e2⟩ | ⟨h2, e2⟩
    · rw [e2, Res.bind_ok]
      rcases beU_cases 8 ((i.drop 1).drop 2) with ⟨h3, e3⟩ | ⟨h3, e3⟩
      · rw [e3, Res.bind_ok]
        rcases beU_cases 2 (((i.drop 1).drop 2).drop 8) with ⟨h4, e4⟩ | ⟨h4, e4⟩
        · rw [e4, Res.bind_ok]
          refine ⟨beVal (i.take 1), beVal ((i.drop 1).take 2), beVal (((i.drop 1).drop 2).take 8) / 2 ^ 48 % 65536,
            beVal (((i.drop 1).drop 2).take 8) % 2 ^ 48, ?_⟩
          simp [List.drop_drop, dtlsDeclLen]
        · simp [List.length_drop] at h4; omega
      · simp [List.length_drop] at h3; omega
    · simp [List.length_drop] at h2; omega
  · omega

/-- **too_large** -/
theorem dtls_too_large (i : List β) (h13 : 13 ≤ i.length) (hl : dtlsDeclLen i > 16640) :
    parseDtlsPlaintextRecord i = .error .TooLarge := by
  obtain ⟨ct, v, e, s, hh⟩ := dtls_header_of_long i h13
  simp [parseDtlsPlaintextRecord, hh, Res.bind, maxRecordLen, hl]

/-- every arm of the DTLS record-content dispatch is `many1(complete ..)`: never Incomplete -/
theorem dtlsRecordWithHeader_neverIncomplete (hdr : DtlsHeader) :
    NeverIncomplete (parseDtlsRecordWithHeader hdr : Parser β _) := by
  intro i n
  unfold parseDtlsRecordWithHeader
  split; · exact NeverIncomplete.many1 (NeverIncomplete.complete _) i n
  split; · exact NeverIncomplete.many1 (NeverIncomplete.complete _) i n
  split; · exact NeverIncomplete.many1 (NeverIncomplete.complete _) i n
  simp

/-- **incomplete_iff**: Incomplete iff the datagram is a strict prefix of header + declared length -/
theorem dtls_incomplete_iff (i : List β) :
    (∃ n, parseDtlsPlaintextRecord i = .incomplete n) ↔
      i.length < 13 ∨ (dtlsDeclLen i ≤ 16640 ∧ i.length < 13 + dtlsDeclLen i) := by
  by_cases h13 : 13 ≤ i.length
  · obtain ⟨ct, v, e, s, hh⟩ := dtls_header_of_long i h13
    by_cases hl : dtlsDeclLen i > 16640
    · simp [parseDtlsPlaintextRecord, hh, Res.bind, maxRecordLen, hl]; omega
    · have hl' : ¬ (16640 < dtlsDeclLen i) := hl
      by_cases hd : dtlsDeclLen i ≤ i.length - 13
      · have hni := dtlsRecordWithHeader_neverIncomplete (β := β) ⟨ct, v, e, s, dtlsDeclLen i⟩ ((i.drop 13).take (dtlsDeclLen i))
        have : ¬ i.length < 13 + dtlsDeclLen i := by omega
        simp only [parseDtlsPlaintextRecord, hh, Res.bind, maxRecordLen, hl', if_false, mapParser, Tls.take,
          List.length_drop, hd, if_true, this, and_false, or_false]
        cases hp : parseDtlsRecordWithHeader ⟨ct, v, e, s, dtlsDeclLen i⟩ ((i.drop 13).take (dtlsDeclLen i)) <;> simp_all
      · simp [parseDtlsPlaintextRecord, hh, Res.bind, maxRecordLen, hl', mapParser, Tls.take, List.length_drop, hd]; omega
  · obtain ⟨n, hn⟩ := dtls_header_incomplete i (by omega)
    simp [parseDtlsPlaintextRecord, hn, Res.bind]; omega

/-- **needed_exact** -/
theorem dtls_needed_exact (i : List β) (h13 : 13 ≤ i.length) (hl : dtlsDeclLen i ≤ 16640)
    (hshort : i.length < 13 + dtlsDeclLen i) :
    parseDtlsPlaintextRecord i = .incomplete (.size (13 + dtlsDeclLen i - i.length)) := by
  obtain ⟨ct, v, e, s, hh⟩ := dtls_header_of_long i h13
  have hl' : ¬ (16640 < dtlsDeclLen i) := by omega
  have hd : ¬ dtlsDeclLen i ≤ i.length - 13 := by omega
  simp [parseDtlsPlaintextRecord, hh, Res.bind, maxRecordLen, hl', mapParser, Tls.take, List.length_drop, hd]
  omega

/-- **frame**: exact consumption; the payload (and nothing else) goes to the content parser -/
theorem dtls_frame (ct v epoch seq : Nat) (data r : List β) (hct : ct < 256) (hv : v < 65536)
    (he : epoch < 65536) (hs : seq < 2 ^ 48) (hlen : data.length ≤ 16640) :
    parseDtlsPlaintextRecord (encDtlsHeader ct v epoch seq data.length ++ data ++ r)
      = (parseDtlsRecordWithHeader ⟨ct, v, epoch, seq, data.length⟩ data).bind
          fun _ msgs => .ok r ⟨⟨ct, v, epoch, seq, data.length⟩, msgs⟩ := by
  unfold parseDtlsPlaintextRecord
  rw [List.append_assoc, dtls_header_roundtrip ct v epoch seq data.length hct hv he hs (by omega)]
  have hl' : ¬ (16640 < data.length) := by omega
  simp only [Res.bind, maxRecordLen, hl', if_false, mapParser, take_append_exact]
  cases parseDtlsRecordWithHeader ⟨ct, v, epoch, seq, data.length⟩ data <;> rfl

/-! ### handshake header and the fragment rule -/

/-- 12-byte DTLS handshake header -/
def encDtlsHsHeader (t len mseq off flen : Nat) : List β :=
  encBE 1 t ++ encBE 3 len ++ encBE 2 mseq ++ encBE 3 off ++ encBE 3 flen

/-- **fragment rule** and **header verbatim**: with offset > 0 or fragment length < length the body is
    the opaque fragment of exactly `flen` bytes, whatever the message type; `is_fragment()` is true -/
theorem dtls_fragment (t len mseq off : Nat) (frag r : List β) (ht : t < 256) (hlen : len < 2 ^ 24)
    (hm : mseq < 65536) (ho : off < 2 ^ 24) (hf : frag.length < 2 ^ 24)
    (hfrag : off > 0 ∨ frag.length < len) :
    parseDtlsMessageHandshake (encDtlsHsHeader t len mseq off frag.length ++ frag ++ r)
      = .ok r (.handshake ⟨t, len, mseq, off, frag.length, .fragment frag⟩) ∧
    (DtlsMessage.handshake ⟨t, len, mseq, off, frag.length, .fragment frag⟩ : DtlsMessage β).isFragment = true := by
  refine ⟨?_, rfl⟩
  unfold parseDtlsMessageHandshake encDtlsHsHeader
  simp only [List.append_assoc]
  rw [beU_encBE 1 t _ (by simpa using ht)]; simp only [Res.bind]
  rw [beU_encBE 3 len _ (by simpa using hlen)]; simp only [Res.bind]
  rw [beU_encBE 2 mseq _ (by simpa using hm)]; simp only [Res.bind]
  rw [beU_encBE 3 off _ (by simpa using ho)]; simp only [Res.bind]
  rw [beU_encBE 3 frag.length _ (by simpa using hf)]; simp only [Res.bind]
  rw [take_append_exact]
  have : (decide (off > 0) || decide (frag.length < len)) = true := by
    rcases hfrag with h | h <;> simp [h]
  simp [Res.bind, parseDtlsBody, this]

/-- when neither condition holds the body is not treated as a fragment: it goes to the body parser
    selected by the message type (and an unsupported type is rejected) -/
theorem dtls_not_fragment (t len mseq : Nat) (body r : List β) (ht : t < 256) (hlen : len < 2 ^ 24)
    (hm : mseq < 65536) (hf : body.length < 2 ^ 24) (hnf : ¬ body.length < len) :
    parseDtlsMessageHandshake (encDtlsHsHeader t len mseq 0 body.length ++ body ++ r)
      = (parseDtlsBody t len false body).bind fun _ b => .ok r (.handshake ⟨t, len, mseq, 0, body.length, b⟩) := by
  unfold parseDtlsMessageHandshake encDtlsHsHeader
  simp only [List.append_assoc]
  rw [beU_encBE 1 t _ (by simpa using ht)]; simp only [Res.bind]
  rw [beU_encBE 3 len _ (by simpa using hlen)]; simp only [Res.bind]
  rw [beU_encBE 2 mseq _ (by simpa using hm)]; simp only [Res.bind]
  rw [beU_encBE 3 0 _ (by decide)]; simp only [Res.bind]
  rw [beU_encBE 3 body.length _ (by simpa using hf)]; simp only [Res.bind]
  rw [take_append_exact]
  have : (decide (0 > 0) || decide (body.length < len)) = false := by simp [hnf]
  simp only [Res.bind, this]

/-! ### the supported bodies decode to the values that were encoded -/

def encDtlsClientHelloBody (c : DtlsClientHello β) : List β :=
  encBE 2 c.version ++ (c.random ++ (encSid c.sessionId ++ (encLD 1 c.cookie ++ (encLD 2 (encU16s c.ciphers) ++
    (encLD 1 (encBytes c.comp) ++ encOptExt c.ext)))))

/-- cookie of 0..255 bytes; the other fields as for the TLS ClientHello -/
def WFDtlsClientHello (c : DtlsClientHello β) : Prop :=
  c.version < 65536 ∧ c.random.length = 32 ∧ WFSid c.sessionId ∧ c.cookie.length < 256 ∧ (∀ x ∈ c.ciphers, x < 65536) ∧
  2 * c.ciphers.length < 65536 ∧ (∀ x ∈ c.comp, x < 256) ∧ c.comp.length < 256 ∧ WFOptExt c.ext

theorem dtlsClientHello_body_roundtrip (c : DtlsClientHello β) (h : WFDtlsClientHello c) :
    parseDtlsClientHello (encDtlsClientHelloBody c) = .ok [] (.clientHello c) := by
  obtain ⟨hv, hr, hsid, hck, hci, hcl, hco, hcol, hext⟩ := h
  obtain ⟨version, random, sid, cookie, ciphers, comp, ext⟩ := c
  simp only at hv hr hsid hck hci hcl hco hcol hext
  unfold parseDtlsClientHello encDtlsClientHelloBody
  simp only []
  rw [beU2_enc _ hv]; simp only [Res.bind_ok]
  rw [take32_enc _ _ hr]; simp only [Res.bind_ok]
  have hs := sid_enc sid hsid (encLD 1 cookie ++ (encLD 2 (encU16s ciphers) ++ (encLD 1 (encBytes comp) ++ encOptExt ext)))
  cases hvv : verify (beU 1) (fun n => decide (n ≤ 32)) (encSid sid ++ (encLD 1 cookie ++ (encLD 2 (encU16s ciphers) ++ (encLD 1 (encBytes comp) ++ encOptExt ext)))) with
  | ok r1 sidlen =>
    rw [hvv] at hs; simp only [Res.bind_ok] at hs ⊢
    rw [hs]; simp only [Res.bind_ok]
    rw [lengthData1_enc _ hck]; simp only [Res.bind_ok]
    have hcl' : (encU16s ciphers : List β).length < 65536 := by simp; omega
    simp only [encLD, List.append_assoc]
    rw [beU2_enc _ hcl']; simp only [Res.bind_ok]
    rw [parseCipherSuites_enc ciphers hci]; simp only [Res.bind_ok]
    have hcol' : (encBytes comp : List β).length < 256 := by simpa using hcol
    rw [beU1_enc _ hcol']; simp only [Res.bind_ok]
    rw [parseCompressionsAlgs_enc comp hco]; simp only [Res.bind_ok]
    rw [optExtBlock_enc ext hext]
    rfl
  | incomplete n => rw [hvv] at hs; simp at hs
  | error k => rw [hvv] at hs; simp at hs
  | failure k => rw [hvv] at hs; simp at hs
  | panic => rw [hvv] at hs; simp at hs

theorem dtlsHelloVerifyRequest_body_roundtrip (version : Nat) (cookie : List β) (hv : version < 65536) (hc : cookie.length < 256) :
    parseDtlsHelloVerifyRequest ((encBE 2 version : List β) ++ encLD 1 cookie) = .ok [] (.helloVerifyRequest version cookie) := by
  unfold parseDtlsHelloVerifyRequest
  rw [beU2_enc _ hv]; simp only [Res.bind_ok]
  have := lengthData1_enc cookie hc []
  simp only [List.append_nil] at this
  rw [this]; rfl

/-- the bodies of an unfragmented DTLS handshake message, by message type -/
def dtlsTypeAndBody : DtlsBody β → Nat × List β
  | .clientHello c => (0x01, encDtlsClientHelloBody c)
  | .helloVerifyRequest v c => (0x03, encBE 2 v ++ encLD 1 c)
  | .serverHello s => (0x02, encServerHelloBody s)
  | .certificate c => (0x0b, encCertificateBody c)
  | .serverDone d => (0x0e, d)
  | .clientKeyExchange (.unknown d) => (0x10, d)
  | .clientKeyExchange (.dh d) => (0x10, d)
  | .clientKeyExchange (.ecdh d) => (0x10, d)
  | .fragment d => (0xff, d)

def WFDtlsBody : DtlsBody β → Prop
  | .clientHello c => WFDtlsClientHello c
  | .helloVerifyRequest v c => v < 65536 ∧ c.length < 256
  | .serverHello s => s.version < 65536 ∧ s.random.length = 32 ∧ WFSid s.sessionId ∧ s.cipher < 65536 ∧ s.compression < 256 ∧ WFOptExt s.ext
  | .certificate c => WFCertificate c
  | .serverDone _ => True
  | .clientKeyExchange (.unknown _) => True
  | _ => False

theorem dtlsBody_roundtrip (b : DtlsBody β) (hw : WFDtlsBody b) :
    ∃ rem, parseDtlsBody (dtlsTypeAndBody b).1 (dtlsTypeAndBody b).2.length false (dtlsTypeAndBody b).2 = .ok rem b := by
  cases b with
  | clientHello c => exact ⟨[], by simp [parseDtlsBody, dtlsTypeAndBody, dtlsClientHello_body_roundtrip c hw]⟩
  | helloVerifyRequest v c =>
    exact ⟨[], by simp [parseDtlsBody, dtlsTypeAndBody, dtlsHelloVerifyRequest_body_roundtrip v c hw.1 hw.2]⟩
  | serverHello s =>
    obtain ⟨hv, hr, hsid, hc, hco, hext⟩ := hw
    exact ⟨[], by simp [parseDtlsBody, dtlsTypeAndBody, mapP, serverHelloV12_body s hv hr hsid hc hco hext true (by simp), Res.map]⟩
  | certificate c =>
    have := certificate_body c hw []
    simp only [List.append_nil] at this
    exact ⟨[], by simp [parseDtlsBody, dtlsTypeAndBody, mapP, this, Res.map]⟩
  | serverDone d => exact ⟨[], by simp [parseDtlsBody, dtlsTypeAndBody, mapP, take_all, Res.map]⟩
  | clientKeyExchange c =>
    cases c with
    | unknown d => exact ⟨[], by simp [parseDtlsBody, dtlsTypeAndBody, mapP, take_all, Res.map]⟩
    | dh d => exact absurd hw (by simp [WFDtlsBody])
    | ecdh d => exact absurd hw (by simp [WFDtlsBody])
  | fragment d => exact absurd hw (by simp [WFDtlsBody])

/-- **unfragmented message round trip**: ClientHello (with cookie), HelloVerifyRequest, ServerHello, Certificate,
    ServerHelloDone and ClientKeyExchange decode to the values that were encoded, the 12-byte header verbatim -/
theorem dtls_handshake_roundtrip (b : DtlsBody β) (hw : WFDtlsBody b) (mseq : Nat) (hm : mseq < 65536)
    (hlen : (dtlsTypeAndBody b).2.length < 2 ^ 24) (r : List β) :
    parseDtlsMessageHandshake
        (encDtlsHsHeader (dtlsTypeAndBody b).1 (dtlsTypeAndBody b).2.length mseq 0 (dtlsTypeAndBody b).2.length ++ (dtlsTypeAndBody b).2 ++ r)
      = .ok r (.handshake ⟨(dtlsTypeAndBody b).1, (dtlsTypeAndBody b).2.length, mseq, 0, (dtlsTypeAndBody b).2.length, b⟩) := by
  obtain ⟨rem, hb⟩ := dtlsBody_roundtrip b hw
  have ht : (dtlsTypeAndBody b).1 < 256 := by
    cases b <;> simp [dtlsTypeAndBody]
    rename_i c; cases c <;> simp [dtlsTypeAndBody]
  rw [dtls_not_fragment _ _ mseq _ r ht hlen hm hlen (by omega), hb]; rfl

/-! ### a handshake record holding several messages (fragments and whole messages mixed) decodes to exactly those messages -/

/-- a DTLS handshake message as it appears on the wire: an opaque fragment (any type, any header values satisfying the
    fragment rule), or a whole message of a supported kind -/
inductive DtlsWire (β : Type) where
  | frag (t len mseq off : Nat) (data : List β)
  | whole (b : DtlsBody β) (mseq : Nat)

def DtlsWire.WF : DtlsWire β → Prop
  | .frag t len mseq off data => t < 256 ∧ len < 2 ^ 24 ∧ mseq < 65536 ∧ off < 2 ^ 24 ∧ data.length < 2 ^ 24 ∧ (off > 0 ∨ data.length < len)
  | .whole b mseq => WFDtlsBody b ∧ mseq < 65536 ∧ (dtlsTypeAndBody b).2.length < 2 ^ 24

def DtlsWire.enc : DtlsWire β → List β
  | .frag t len mseq off data => encDtlsHsHeader t len mseq off data.length ++ data
  | .whole b mseq => encDtlsHsHeader (dtlsTypeAndBody b).1 (dtlsTypeAndBody b).2.length mseq 0 (dtlsTypeAndBody b).2.length ++ (dtlsTypeAndBody b).2

def DtlsWire.value : DtlsWire β → DtlsMessage β
  | .frag t len mseq off data => .handshake ⟨t, len, mseq, off, data.length, .fragment data⟩
  | .whole b mseq => .handshake ⟨(dtlsTypeAndBody b).1, (dtlsTypeAndBody b).2.length, mseq, 0, (dtlsTypeAndBody b).2.length, b⟩

theorem DtlsWire.roundtrip (m : DtlsWire β) (hw : m.WF) (r : List β) :
    parseDtlsMessageHandshake (m.enc ++ r) = .ok r m.value := by
  cases m with
  | frag t len mseq off data =>
    obtain ⟨ht, hlen, hm, ho, hf, hfrag⟩ := hw
    have := (dtls_fragment t len mseq off data r ht hlen hm ho hf hfrag).1
    simpa [DtlsWire.enc, DtlsWire.value, List.append_assoc] using this
  | whole b mseq =>
    obtain ⟨hb, hm, hlen⟩ := hw
    have := dtls_handshake_roundtrip b hb mseq hm hlen r
    simpa [DtlsWire.enc, DtlsWire.value, List.append_assoc] using this

theorem encDtlsHsHeader_length (t len mseq off flen : Nat) :
    (encDtlsHsHeader t len mseq off flen : List β).length = 12 := by
  simp [encDtlsHsHeader, encBE_length]

theorem DtlsWire.enc_ne_nil (m : DtlsWire β) : m.enc ≠ [] := by
  intro h
  have hl := congrArg List.length h
  cases m <;> simp [DtlsWire.enc, encDtlsHsHeader_length] at hl

/-- **several handshake messages in one record**: any non-empty sequence of wire messages - first, middle and last
    fragments, zero-length fragments, whole messages of the supported kinds, in any mix and any number - decodes to exactly
    those messages, in order, each with its 12-byte header verbatim, and the payload is consumed entirely -/
theorem dtls_handshake_payload_roundtrip (hdr : DtlsHeader) (hct : hdr.contentType = 0x16)
    (ms : List (DtlsWire β)) (hne : ms ≠ []) (hw : ∀ m ∈ ms, m.WF) :
    parseDtlsRecordWithHeader hdr (ms.flatMap DtlsWire.enc) = .ok [] (ms.map DtlsWire.value) := by
  have h16 : parseDtlsRecordWithHeader hdr = many1 (complete (parseDtlsMessageHandshake : Parser β _)) := by
    funext i; simp [parseDtlsRecordWithHeader, hct]
  rw [h16]
  have hstop : ∃ n, (parseDtlsMessageHandshake : Parser β _) [] = .incomplete n := ⟨.size 1, by simp [parseDtlsMessageHandshake, beU, Res.bind]⟩
  have key : ∀ (ws : List (DtlsWire β)), ws ≠ [] → (∀ m ∈ ws, m.WF) →
      many1 (complete (parseDtlsMessageHandshake : Parser β _)) (ws.flatMap DtlsWire.enc ++ []) = .ok [] (ws.map DtlsWire.value) := by
    intro ws hne' hw'
    -- reuse the generic list lemma on the *values*, encoding each value through the wire message it came from
    induction ws with
    | nil => exact absurd rfl hne'
    | cons w ws ih =>
      by_cases hws : ws = []
      · subst hws
        simp only [List.flatMap_cons, List.flatMap_nil, List.append_nil, List.map_cons, List.map_nil]
        have h1 := DtlsWire.roundtrip w (hw' w (by simp)) []
        simp only [List.append_nil] at h1
        unfold many1
        simp only [complete, h1]
        unfold many1Loop
        obtain ⟨n, hn⟩ := hstop
        simp [complete, hn, Res.map]
      · have hrest := ih hws (fun m hm => hw' m (by simp [hm]))
        simp only [List.append_nil] at hrest
        simp only [List.flatMap_cons, List.append_nil, List.map_cons]
        have h1 := DtlsWire.roundtrip w (hw' w (by simp)) (ws.flatMap DtlsWire.enc)
        -- many1 on (enc w ++ rest): first message, then the loop equals many1 on rest (rest is non-empty and starts with a message)
        have hloop : many1Loop (complete (parseDtlsMessageHandshake : Parser β _)) (ws.flatMap DtlsWire.enc) = .ok [] (ws.map DtlsWire.value) := by
          cases ws with
          | nil => exact absurd rfl hws
          | cons w2 ws2 =>
            simp only [List.flatMap_cons]
            rw [many1Loop_cons (complete parseDtlsMessageHandshake) w2.enc _ w2.value (DtlsWire.enc_ne_nil w2)
              (by simp [complete, DtlsWire.roundtrip w2 (hw' w2 (by simp)) _])]
            have h2 := hrest
            simp only [List.flatMap_cons, List.map_cons] at h2
            unfold many1 at h2
            simp only [complete, DtlsWire.roundtrip w2 (hw' w2 (by simp)) _] at h2
            cases hl : many1Loop (complete parseDtlsMessageHandshake) (ws2.flatMap DtlsWire.enc) <;> simp [hl, Res.map] at h2 ⊢
            exact h2
        unfold many1
        simp only [complete, h1, hloop, Res.map]
  have := key ms hne hw
  simpa using this

/-- in particular a trailing zero-length message (a ServerHelloDone, or an empty last fragment) is not lost -/
example : parseDtlsRecordWithHeader (β := Fin 256) ⟨22, 0xfefd, 0, 0, 24⟩
    [14, 0, 0, 0, 0, 1, 0, 0, 0, 0, 0, 0, 14, 0, 0, 0, 0, 2, 0, 0, 0, 0, 0, 0]
    = .ok [] [.handshake ⟨14, 0, 1, 0, 0, .serverDone []⟩, .handshake ⟨14, 0, 2, 0, 0, .serverDone []⟩] := by decide +kernel

/-! ### several records in one datagram (C16 instance) -/

theorem parseDtlsPlaintextRecord_ok_rem (i r : List β) (v : DtlsPlaintext β) (h : parseDtlsPlaintextRecord i = .ok r v) :
    r = i.drop (13 + dtlsDeclLen i) ∧ 13 + dtlsDeclLen i ≤ i.length := by
  by_cases h13 : 13 ≤ i.length
  · obtain ⟨ct, ver, e, s, hh⟩ := dtls_header_of_long i h13
    by_cases hl : dtlsDeclLen i > 16640
    · simp [parseDtlsPlaintextRecord, hh, Res.bind, maxRecordLen, hl] at h
    · have hl' : ¬ (16640 < dtlsDeclLen i) := hl
      by_cases hd : dtlsDeclLen i ≤ i.length - 13
      · simp only [parseDtlsPlaintextRecord, hh, Res.bind, maxRecordLen, hl', if_false, mapParser, Tls.take,
          List.length_drop, hd, if_true] at h
        cases hp : parseDtlsRecordWithHeader ⟨ct, ver, e, s, dtlsDeclLen i⟩ ((i.drop 13).take (dtlsDeclLen i)) <;> simp [hp] at h
        refine ⟨?_, by omega⟩
        rw [← h.1]
      · simp [parseDtlsPlaintextRecord, hh, Res.bind, maxRecordLen, hl', mapParser, Tls.take, List.length_drop, hd] at h
  · obtain ⟨n, hn⟩ := dtls_header_incomplete i (by omega)
    simp [parseDtlsPlaintextRecord, hn, Res.bind] at h

theorem parseDtlsPlaintextRecord_consumes : Consumes (parseDtlsPlaintextRecord : Parser β _) := by
  intro i r v h
  obtain ⟨hr, hlen⟩ := parseDtlsPlaintextRecord_ok_rem i r v h
  subst hr; simp [List.length_drop]; omega

/-- `parse_dtls_plaintext_records` = repeated `parse_dtls_plaintext_record` -/
theorem dtlsRecords_eq_repeat (i r : List β) (v : DtlsPlaintext β) (h : parseDtlsPlaintextRecord i = .ok r v) :
    parseDtlsPlaintextRecords i
      = .ok (repeatP parseDtlsPlaintextRecord i).2 (repeatP parseDtlsPlaintextRecord i).1 :=
  many1_complete_eq_repeat _ parseDtlsPlaintextRecord_clean parseDtlsPlaintextRecord_consumes i r v h

theorem dtlsRecords_fails_iff (i : List β) :
    (parseDtlsPlaintextRecords i).isOk = (parseDtlsPlaintextRecord i).isOk :=
  many1_complete_fails_iff _ parseDtlsPlaintextRecord_clean parseDtlsPlaintextRecord_consumes i

/-! ### non-vacuity -/
example : parseDtlsRecordHeader (β := Fin 256) [22, 254, 253, 0, 1, 0, 0, 0, 0, 0, 5, 0, 2, 9, 9] =
    .ok [9, 9] ⟨22, 0xfefd, 1, 5, 2⟩ := by decide

end Tls
