/-
  Props/C12.lean — the cipher-suite registry is exact, self-consistent and invertible.
  General theorems about the lookup model (for every table / id / name), instantiated with the
  registry dumped from the running implementation (Gen/Ciphers.lean), whose table-level obligations
  (`runtime_eq_file`, `pinned_sub_file`, sortedness, distinct names, derived sizes) are in Gen/CiphersCheck.lean.
-/
import TlsModel.Gen.CiphersCheck
namespace Tls
open Tls.Gen

/-! ### lookup by id -/

theorem fromId_isSome_iff (table : List CipherRow) (id : Nat) :
    (fromId table id).isSome = true ↔ id ∈ table.map (·.key) := by
  simp [fromId, List.find?_isSome]

theorem fromId_key (table : List CipherRow) (id : Nat) (s : CipherRow) (h : fromId table id = some s) :
    s.key = id ∧ s ∈ table := by
  have h1 := List.find?_some h
  exact ⟨by simpa using h1, List.mem_of_find?_eq_some h⟩

/-- **for every 16-bit id**: the registry returns a suite iff the id is listed, and that suite carries the queried id -/
theorem registry_fromId (id : Nat) :
    ((fromId runtimeCiphers id).isSome = true ↔ id ∈ runtimeCiphers.map (·.key)) ∧
    (∀ s, fromId runtimeCiphers id = some s → s.id = id) := by
  refine ⟨fromId_isSome_iff _ _, fun s h => ?_⟩
  obtain ⟨hk, hm⟩ := fromId_key _ _ _ h
  have hall := runtime_ids_sorted.2
  rw [List.all_eq_true] at hall
  have := hall s hm
  simp at this
  omega

/-! ### lookup by name -/

theorem fromName_name (table : List CipherRow) (n : Nat) (s : CipherRow) (h : fromName table n = some s) :
    s.name = n ∧ s ∈ table := by
  have h1 := List.find?_some h
  exact ⟨by simpa using h1, List.mem_of_find?_eq_some h⟩

theorem fromName_none (table : List CipherRow) (n : Nat) (h : n ∉ table.map (·.name)) : fromName table n = none := by
  simp only [fromName, List.find?_eq_none]
  intro r hr hn
  exact h (by simp; exact ⟨r, hr, by simpa using hn⟩)

/-- with pairwise different names, the lookup returns *the* row with that name -/
theorem fromName_unique (table : List CipherRow) (hnd : (table.map (·.name)).Nodup) (r : CipherRow) (hr : r ∈ table) :
    fromName table r.name = some r := by
  induction table with
  | nil => cases hr
  | cons a t ih =>
    simp only [List.map_cons, List.nodup_cons] at hnd
    simp only [fromName, List.find?]
    by_cases ha : a.name = r.name
    · simp only [ha, beq_self_eq_true]
      rcases List.mem_cons.mp hr with h | h
      · rw [h]
      · exfalso; exact hnd.1 (by rw [ha]; exact List.mem_map.mpr ⟨r, h, rfl⟩)
    · have : (a.name == r.name) = false := by simp [ha]
      simp only [this]
      rcases List.mem_cons.mp hr with h | h
      · exact absurd (h ▸ rfl) ha
      · exact ih hnd.2 h

/-- **lookup by name**: the unique suite with that name, and nothing for any other string (prefixes, case changes,
    neighbours are simply strings that are not in the name column) -/
theorem registry_fromName (n : Nat) :
    (∀ s, fromName runtimeCiphers n = some s → s.name = n) ∧
    (∀ r ∈ runtimeCiphers, r.name = n → fromName runtimeCiphers n = some r) ∧
    (n ∉ runtimeCiphers.map (·.name) → fromName runtimeCiphers n = none) :=
  ⟨fun s h => (fromName_name _ _ _ h).1,
   fun r hr hn => hn ▸ fromName_unique _ runtime_names_distinct r hr,
   fromName_none _ _⟩

/-- registry size -/
theorem registry_size : runtimeCiphers.length = fileCiphers.length := by
  have := congrArg List.length runtime_eq_file
  simpa using this

/-! ### non-vacuity -/
example : (fromId runtimeCiphers 0xc02f).isSome = true := by decide +kernel
example : fromId runtimeCiphers 0x1234 = none := by decide +kernel

end Tls
