/-
  Props/C06.lean — parsers are local and zero-copy: only the declared bytes matter.
  * `Suffix`  : the remainder of a successful parse is a suffix of the input;
  * `Stable`  : once the answer is not Incomplete, appending arbitrary bytes leaves value and outcome class
                unchanged and simply extends the remainder;
  * `framed`  : with the structure's declared length present the same holds whatever the outcome;
  * `alias`   : slices of the returned value are infixes of the consumed part of the input (for all byte
                types, in particular position-tagged bytes, where an infix has a unique address).
-/
import TlsModel.Lemmas.Local
import TlsModel.Lemmas.Enc
import TlsModel.Props.C02
import TlsModel.Props.C10
import TlsModel.Extensions
import TlsModel.Crypto
namespace Tls
variable {β : Type} [ByteLike β]

syntax "suffix_step" : tactic
macro_rules | `(tactic| suffix_step) => `(tactic| first
  | assumption
  | exact Suffix.pure _ | exact Suffix.okNil _ | exact Suffix.error _ | exact Suffix.take _ | exact Suffix.beU _ | exact Suffix.tag _
  | exact Suffix.sub _
  | refine Suffix.lengthData ?_ | refine Suffix.mapParser ?_ | refine Suffix.mapP ?_ | refine Suffix.verify ?_
  | refine Suffix.cond ?_ | refine Suffix.opt ?_ | refine Suffix.complete ?_ | refine Suffix.alt ?_ ?_
  | refine Suffix.pair ?_ ?_ | refine Suffix.many0 ?_ | refine Suffix.many1 ?_ | refine Suffix.lengthCount ?_ ?_
  | refine Suffix.iteI ?_ ?_
  | refine Suffix.bind ?_ (fun _ => ?_)
  | refine Suffix.ite' ?_ ?_)
macro "suffix" : tactic => `(tactic| repeat suffix_step)

syntax "stable_step" : tactic
macro_rules | `(tactic| stable_step) => `(tactic| first
  | assumption
  | exact Stable.pure _ | exact Stable.error _ | exact Stable.take _ | exact Stable.beU _
  | exact Stable.sub _ _ _
  | exact Stable.mapParser _ (Stable.take _)
  | refine Stable.lengthData ?_ | refine Stable.mapParser _ ?_ | refine Stable.mapP ?_ | refine Stable.verify ?_
  | refine Stable.pair ?_ ?_
  | refine Stable.ite ?_ ?_
  | refine Stable.bind ?_ (fun _ => ?_)
  | refine Stable.ite' ?_ ?_)
macro "stable" : tactic => `(tactic| repeat stable_step)

/-! ### TLS / DTLS records -/

theorem parseRecordHeader_suffix : Suffix (parseRecordHeader : Parser β _) := by unfold parseRecordHeader; suffix
theorem parseRecordHeader_stable : Stable (parseRecordHeader : Parser β _) := by unfold parseRecordHeader; stable
macro_rules | `(tactic| suffix_step) => `(tactic| exact parseRecordHeader_suffix)
macro_rules | `(tactic| stable_step) => `(tactic| exact parseRecordHeader_stable)

theorem parseRawRecord_suffix : Suffix (parseRawRecord : Parser β _) := by unfold parseRawRecord; suffix
theorem parseRawRecord_stable : Stable (parseRawRecord : Parser β _) := by unfold parseRawRecord; stable
theorem parseEncrypted_suffix : Suffix (parseEncrypted : Parser β _) := by unfold parseEncrypted; suffix
theorem parseEncrypted_stable : Stable (parseEncrypted : Parser β _) := by unfold parseEncrypted; stable
theorem parsePlaintext_suffix : Suffix (parsePlaintext : Parser β _) := by unfold parsePlaintext; suffix
/-- whatever the record-payload parser does: it is confined to `take(hdr.len)` -/
theorem parsePlaintext_stable : Stable (parsePlaintext : Parser β _) := by unfold parsePlaintext; stable
theorem tlsParserMany_suffix : Suffix (tlsParserMany : Parser β _) := by
  unfold tlsParserMany; exact Suffix.many1 (Suffix.complete parsePlaintext_suffix)

theorem parseDtlsRecordHeader_suffix : Suffix (parseDtlsRecordHeader : Parser β _) := by unfold parseDtlsRecordHeader; suffix
theorem parseDtlsRecordHeader_stable : Stable (parseDtlsRecordHeader : Parser β _) := by unfold parseDtlsRecordHeader; stable
macro_rules | `(tactic| suffix_step) => `(tactic| exact parseDtlsRecordHeader_suffix)
macro_rules | `(tactic| stable_step) => `(tactic| exact parseDtlsRecordHeader_stable)
theorem parseDtlsPlaintextRecord_suffix : Suffix (parseDtlsPlaintextRecord : Parser β _) := by unfold parseDtlsPlaintextRecord; suffix
theorem parseDtlsPlaintextRecord_stable : Stable (parseDtlsPlaintextRecord : Parser β _) := by unfold parseDtlsPlaintextRecord; stable
theorem parseDtlsPlaintextRecords_suffix : Suffix (parseDtlsPlaintextRecords : Parser β _) := by
  unfold parseDtlsPlaintextRecords; exact Suffix.many1 (Suffix.complete parseDtlsPlaintextRecord_suffix)

/-! ### handshake messages: the body parser only ever sees `take(hl)` -/

theorem parseMessageHandshake_suffix : Suffix (parseMessageHandshake : Parser β _) := by unfold parseMessageHandshake; suffix
theorem parseMessageHandshake_stable : Stable (parseMessageHandshake : Parser β _) := by unfold parseMessageHandshake; stable
theorem parseDtlsMessageHandshake_suffix : Suffix (parseDtlsMessageHandshake : Parser β _) := by
  unfold parseDtlsMessageHandshake; suffix
theorem parseDtlsMessageHandshake_stable : Stable (parseDtlsMessageHandshake : Parser β _) := by
  unfold parseDtlsMessageHandshake; stable

/-! ### single extension (three dispatchers): content parsers only ever see `length_data` -/

theorem parseExtensionD_suffix (d : Dispatcher) : Suffix (parseExtensionD d : Parser β _) := by
  unfold parseExtensionD
  refine Suffix.bind (Suffix.beU _) (fun t => Suffix.bind (Suffix.lengthData (Suffix.beU _)) (fun data => ?_))
  intro i r v h
  simp only at h
  split at h
  · simp at h; exact ⟨[], by simp [h.1]⟩
  · split at h
    · rename_i p _
      cases hp : p data with
      | ok r2 e => rw [hp] at h; simp at h; exact ⟨[], by simp [h.1]⟩
      | _ => rw [hp] at h; simp at h
    · simp at h; exact ⟨[], by simp [h.1]⟩

theorem parseExtensionD_stable (d : Dispatcher) : Stable (parseExtensionD d : Parser β _) := by
  unfold parseExtensionD
  refine Stable.bind (Stable.beU _) (fun t => Stable.bind (Stable.lengthData (Stable.beU _)) (fun data => ?_))
  intro i _ x
  simp only
  split
  · rfl
  · split
    · rename_i p _; cases p data <;> rfl
    · rfl

theorem parseExtensionsD_suffix (d : Dispatcher) : Suffix (parseExtensionsD d : Parser β _) := by
  unfold parseExtensionsD; exact Suffix.many0 (Suffix.complete (parseExtensionD_suffix d))

/-! ### key-exchange parameters, signatures, SCTs -/

theorem parseDhParams_suffix : Suffix (parseDhParams : Parser β _) := by unfold parseDhParams; suffix
theorem parseDhParams_stable : Stable (parseDhParams : Parser β _) := by unfold parseDhParams; stable
theorem parseExplicitPrime_suffix : Suffix (parseExplicitPrime : Parser β _) := by unfold parseExplicitPrime; suffix
theorem parseExplicitPrime_stable : Stable (parseExplicitPrime : Parser β _) := by unfold parseExplicitPrime; stable
macro_rules | `(tactic| suffix_step) => `(tactic| exact parseExplicitPrime_suffix)
macro_rules | `(tactic| stable_step) => `(tactic| exact parseExplicitPrime_stable)
theorem parseEcContent_suffix (ct : Nat) : Suffix (parseEcContent ct : Parser β _) := by unfold parseEcContent; suffix
theorem parseEcContent_stable (ct : Nat) : Stable (parseEcContent ct : Parser β _) := by unfold parseEcContent; stable
macro_rules | `(tactic| suffix_step) => `(tactic| exact parseEcContent_suffix _)
macro_rules | `(tactic| stable_step) => `(tactic| exact parseEcContent_stable _)
theorem parseEcParameters_suffix : Suffix (parseEcParameters : Parser β _) := by unfold parseEcParameters; suffix
theorem parseEcParameters_stable : Stable (parseEcParameters : Parser β _) := by unfold parseEcParameters; stable
macro_rules | `(tactic| suffix_step) => `(tactic| exact parseEcParameters_suffix)
macro_rules | `(tactic| stable_step) => `(tactic| exact parseEcParameters_stable)
theorem parseEcdhParams_suffix : Suffix (parseEcdhParams : Parser β _) := by unfold parseEcdhParams; suffix
theorem parseEcdhParams_stable : Stable (parseEcdhParams : Parser β _) := by unfold parseEcdhParams; stable
theorem parseDigitallySigned_suffix : Suffix (parseDigitallySigned : Parser β _) := by unfold parseDigitallySigned; suffix
theorem parseDigitallySigned_stable : Stable (parseDigitallySigned : Parser β _) := by unfold parseDigitallySigned; stable
theorem parseDigitallySignedOld_suffix : Suffix (parseDigitallySignedOld : Parser β _) := by unfold parseDigitallySignedOld; suffix
theorem parseDigitallySignedOld_stable : Stable (parseDigitallySignedOld : Parser β _) := by unfold parseDigitallySignedOld; stable
theorem parseSct_suffix : Suffix (parseSct : Parser β _) := by unfold parseSct; suffix
/-- the SCT content parser is confined to the entry's `length_data` -/
theorem parseSct_stable : Stable (parseSct : Parser β _) := by unfold parseSct; stable
theorem parseSctList_suffix : Suffix (parseSctList : Parser β _) := by unfold parseSctList; suffix
theorem parseSctList_stable : Stable (parseSctList : Parser β _) := by unfold parseSctList; stable

/-! ### the property in its own words, for a representative of each family -/

/-- on success, appending arbitrary bytes leaves the value unchanged and simply extends the remainder -/
theorem stable_ok {α : Type} {p : Parser β α} (hp : Stable p) (i r x : List β) (v : α) (h : p i = .ok r v) :
    p (i ++ x) = .ok (r ++ x) v := by
  have := hp i (by intro n; rw [h]; simp) x
  rw [this, h]; rfl

/-- and a non-Incomplete failure stays the same failure -/
theorem stable_error {α : Type} {p : Parser β α} (hp : Stable p) (i x : List β) (k : ErrKind) (h : p i = .error k) :
    p (i ++ x) = .error k := by
  have := hp i (by intro n; rw [h]; simp) x
  rw [this, h]; rfl

example (i r x : List β) (v : Plaintext β) (h : parsePlaintext i = .ok r v) : parsePlaintext (i ++ x) = .ok (r ++ x) v :=
  stable_ok parsePlaintext_stable i r x v h

/-! ### framed: with the declared length present, the answer does not depend on what follows — whatever it is -/

theorem plaintext_framed (i : List β) (h5 : 5 ≤ i.length) (hlen : 5 + declLen i ≤ i.length) : StableAt parsePlaintext i := by
  by_cases hinc : ∀ n, parsePlaintext i ≠ .incomplete n
  · exact parsePlaintext_stable i hinc
  · exfalso
    have : ∃ n, parsePlaintext i = .incomplete n := by
      apply Classical.byContradiction; intro hne; exact hinc (fun n hn => hne ⟨n, hn⟩)
    rw [plaintext_incomplete_iff] at this
    omega

theorem dtlsRecord_framed (i : List β) (hlen : 13 + dtlsDeclLen i ≤ i.length) : StableAt parseDtlsPlaintextRecord i := by
  by_cases hinc : ∀ n, parseDtlsPlaintextRecord i ≠ .incomplete n
  · exact parseDtlsPlaintextRecord_stable i hinc
  · exfalso
    have : ∃ n, parseDtlsPlaintextRecord i = .incomplete n := by
      apply Classical.byContradiction; intro hne; exact hinc (fun n hn => hne ⟨n, hn⟩)
    rw [dtls_incomplete_iff] at this
    omega

/-- handshake message with its declared body present: even an `Incomplete` coming from inside the confined
    body (e.g. a KeyUpdate with an empty body) is unaffected by what follows the message -/
theorem handshake_framed (t : Nat) (ht : t < 256) (body : List β) (hb : body.length < 16777216) (r x : List β) :
    parseMessageHandshake ((encBE 1 t : List β) ++ (encLD 3 body ++ (r ++ x)))
      = (parseMessageHandshake ((encBE 1 t : List β) ++ (encLD 3 body ++ r))).mapRem (· ++ x) := by
  have e1 : ∀ z : List β, parseMessageHandshake ((encBE 1 t : List β) ++ (encLD 3 body ++ z))
      = (parseHandshakeBody t body.length body).bind fun _ m => .ok z (.handshake m) := by
    intro z
    unfold parseMessageHandshake encLD
    simp only [List.append_assoc]
    rw [beU1_enc _ ht]; simp only [Res.bind_ok]
    rw [beU3_enc _ hb]; simp only [Res.bind_ok]
    rw [take_enc]; simp only [Res.bind_ok]
  rw [e1, e1]
  cases parseHandshakeBody t body.length body <;> rfl

/-- single extension with its declared data present: likewise (e.g. `00 2b 00 00` answers Incomplete from inside
    the empty supported_versions content, with or without trailing bytes) -/
theorem extension_framed (d : Dispatcher) (t : Nat) (ht : t < 65536) (data : List β) (hl : data.length < 65536) (r x : List β) :
    parseExtensionD d ((encBE 2 t : List β) ++ (encLD 2 data ++ (r ++ x)))
      = (parseExtensionD d ((encBE 2 t : List β) ++ (encLD 2 data ++ r))).mapRem (· ++ x) := by
  have e1 : ∀ z : List β, parseExtensionD d ((encBE 2 t : List β) ++ (encLD 2 data ++ z)) =
      (if isGrease t then .ok z (.grease t data)
       else match extContentParser d t (data.length % 65536) with
        | some p => (p data).bind fun _ e => .ok z e
        | none => .ok z (.unknown t data)) := by
    intro z
    unfold parseExtensionD
    rw [beU2_enc _ ht]; simp only [Res.bind_ok]
    rw [lengthData2_enc _ hl]; simp only [Res.bind_ok]
    split
    · rfl
    · split <;> simp_all
  rw [e1, e1]
  split
  · rfl
  · split
    · rename_i p _; cases p data <;> rfl
    · rfl

/-- single SCT with its declared entry present: whatever the entry contains - also an `Incomplete` from inside a cut
    entry - the answer does not depend on what follows the entry -/
theorem sct_framed (entry : List β) (hl : entry.length < 65536) (r x : List β) :
    parseSct (encLD 2 entry ++ (r ++ x)) = (parseSct (encLD 2 entry ++ r)).mapRem (· ++ x) := by
  have e1 : ∀ z : List β, parseSct (encLD 2 entry ++ z) = (parseSctContentEntry entry).bind fun _ v => .ok z v := by
    intro z
    unfold parseSct mapParser
    rw [lengthData2_enc _ hl]; simp only [Res.bind_ok]
  rw [e1, e1]
  cases parseSctContentEntry entry <;> rfl

/-- SCT list with its declared length present: likewise for the whole list -/
theorem sctList_framed (body : List β) (hl : body.length < 65536) (r x : List β) :
    parseSctList (encLD 2 body ++ (r ++ x)) = (parseSctList (encLD 2 body ++ r)).mapRem (· ++ x) := by
  have e1 : ∀ z : List β, parseSctList (encLD 2 body ++ z)
      = (many0 (complete parseSct) body).bind fun _ v => .ok z v := by
    intro z
    unfold parseSctList encLD mapParser
    simp only [List.append_assoc]
    rw [beU2_enc _ hl]; simp only [Res.bind_ok]
    rw [take_enc]; simp only [Res.bind_ok]
  rw [e1, e1]
  cases many0 (complete parseSct) body <;> rfl

/-- DTLS handshake message with its declared fragment present (12-byte header, then `fragment_length` bytes): the body
    parser sees the fragment only, so what follows the message never matters - whatever the header fields are -/
theorem dtlsHandshake_framed (t len seq off : Nat) (ht : t < 256) (hlen : len < 16777216) (hseq : seq < 65536)
    (hoff : off < 16777216) (frag : List β) (hf : frag.length < 16777216) (r x : List β) :
    parseDtlsMessageHandshake ((encBE 1 t : List β) ++ (encBE 3 len ++ (encBE 2 seq ++ (encBE 3 off ++ (encLD 3 frag ++ (r ++ x))))))
      = (parseDtlsMessageHandshake ((encBE 1 t : List β) ++ (encBE 3 len ++ (encBE 2 seq ++ (encBE 3 off ++ (encLD 3 frag ++ r)))))).mapRem (· ++ x) := by
  have e1 : ∀ z : List β,
      parseDtlsMessageHandshake ((encBE 1 t : List β) ++ (encBE 3 len ++ (encBE 2 seq ++ (encBE 3 off ++ (encLD 3 frag ++ z)))))
      = (parseDtlsBody t len (decide (off > 0) || decide (frag.length < len)) frag).bind fun _ body =>
          .ok z (.handshake ⟨t, len, seq, off, frag.length, body⟩) := by
    intro z
    unfold parseDtlsMessageHandshake encLD
    simp only [List.append_assoc]
    rw [beU1_enc _ ht]; simp only [Res.bind_ok]
    rw [beU3_enc _ hlen]; simp only [Res.bind_ok]
    rw [beU2_enc _ hseq]; simp only [Res.bind_ok]
    rw [beU3_enc _ hoff]; simp only [Res.bind_ok]
    rw [beU3_enc _ hf]; simp only [Res.bind_ok]
    rw [take_enc]; simp only [Res.bind_ok]
  rw [e1, e1]
  cases parseDtlsBody t len (decide (off > 0) || decide (frag.length < len)) frag <;> rfl

/-! ### alias (zero-copy), for the slice-producing primitives and the record level

Every `&[u8]` of a parsed value is produced by `take` / `length_data` (a prefix of what is left of the input),
by `parse_tls_message_applicationdata` / `parse_dtls_fragment` (the whole confined input) or is the remainder
itself; the model has no other way to make a `List β`.  Stated for the primitives and for raw/encrypted
records; for the composite values the correspondence check compares every span (`@off+len`) of every
returned value with the model run on position-tagged bytes. -/

theorem take_alias (n : Nat) (i r d : List β) (h : take n i = .ok r d) : i = d ++ r := by
  unfold Tls.take at h; split at h
  · simp at h; rw [← h.1, ← h.2]; simp
  · simp at h

theorem lengthData_alias (w : Nat) (i r d : List β) (h : lengthData (beU w) i = .ok r d) :
    ∃ hdr, hdr.length = w ∧ i = hdr ++ (d ++ r) := by
  unfold lengthData at h
  rcases beU_cases w i with ⟨hw, e⟩ | ⟨_, e⟩
  · rw [e] at h; simp only [Res.bind_ok] at h
    have := take_alias _ _ _ _ h
    exact ⟨i.take w, by simp [List.length_take, Nat.min_eq_left hw], by rw [← this]; simp⟩
  · rw [e] at h; simp at h

/-- raw / encrypted record: the payload slice is exactly bytes 5..5+len of the input, the remainder what follows -/
theorem rawRecord_alias (i r : List β) (v : RawRecord β) (h : parseRawRecord i = .ok r v) :
    ∃ hdr, hdr.length = 5 ∧ i = hdr ++ (v.data ++ r) := by
  by_cases h5 : 5 ≤ i.length
  · obtain ⟨t, ver, hh⟩ := header_of_long i h5
    simp only [parseRawRecord, hh, Res.bind_ok] at h
    split at h
    · simp at h
    · cases ht : take (declLen i) (i.drop 5) with
      | ok r2 d =>
        rw [ht] at h; simp at h
        have := take_alias _ _ _ _ ht
        refine ⟨i.take 5, by simp [List.length_take, Nat.min_eq_left h5], ?_⟩
        rw [← h.2, ← h.1]; simp only; rw [← this]; simp
      | _ => rw [ht] at h; simp at h
  · obtain ⟨n, hn⟩ := header_incomplete i (by omega)
    simp [parseRawRecord, hn, Res.bind] at h

theorem bind_eq_ok_inv {α γ : Type} {r : Res β α} {f : List β → α → Res β γ} {a : List β} {b : γ}
    (h : r.bind f = .ok a b) : ∃ i x, r = .ok i x ∧ f i x = .ok a b := by
  cases r <;> simp [Res.bind] at h
  exact ⟨_, _, rfl, h⟩

/-- ServerDHParams: the three fields are disjoint pieces of the consumed input, in order -/
theorem dhParams_alias (i r : List β) (v : DHParams β) (h : parseDhParams i = .ok r v) :
    ∃ h1 h2 h3 : List β, i = h1 ++ (v.p ++ (h2 ++ (v.g ++ (h3 ++ (v.ys ++ r))))) := by
  unfold parseDhParams at h
  obtain ⟨i1, p, e1, h⟩ := bind_eq_ok_inv h
  obtain ⟨i2, g, e2, h⟩ := bind_eq_ok_inv h
  obtain ⟨i3, ys, e3, h⟩ := bind_eq_ok_inv h
  simp at h
  obtain ⟨a1, _, ha1⟩ := lengthData_alias 2 _ _ _ e1
  obtain ⟨a2, _, ha2⟩ := lengthData_alias 2 _ _ _ e2
  obtain ⟨a3, _, ha3⟩ := lengthData_alias 2 _ _ _ e3
  refine ⟨a1, a2, a3, ?_⟩
  rw [← h.2, ← h.1]; simp only
  rw [ha1, ha2, ha3]

theorem beU_alias (w : Nat) (i r : List β) (n : Nat) (h : beU w i = .ok r n) : ∃ hdr : List β, hdr.length = w ∧ i = hdr ++ r := by
  rcases beU_cases w i with ⟨hw, e⟩ | ⟨_, e⟩
  · rw [e] at h; simp at h
    exact ⟨i.take w, by simp [List.length_take, Nat.min_eq_left hw], by rw [← h.1]; simp⟩
  · rw [e] at h; simp at h

/-- DigitallySigned (RFC 5246 form): the signature is a piece of the consumed input, after 4 header bytes -/
theorem digitallySigned_alias (i r : List β) (v : DigitallySigned β) (h : parseDigitallySigned i = .ok r v) :
    ∃ hdr : List β, hdr.length = 4 ∧ i = hdr ++ (v.data ++ r) := by
  unfold parseDigitallySigned at h
  obtain ⟨i1, hash, e1, h⟩ := bind_eq_ok_inv h
  obtain ⟨i2, sign, e2, h⟩ := bind_eq_ok_inv h
  obtain ⟨i3, d, e3, h⟩ := bind_eq_ok_inv h
  simp at h
  obtain ⟨a1, hl1, ha1⟩ := beU_alias 1 _ _ _ e1
  obtain ⟨a2, hl2, ha2⟩ := beU_alias 1 _ _ _ e2
  obtain ⟨a3, hl3, ha3⟩ := lengthData_alias 2 _ _ _ e3
  refine ⟨a1 ++ (a2 ++ a3), by simp [hl1, hl2, hl3], ?_⟩
  rw [← h.2, ← h.1]; simp only
  rw [ha1, ha2, ha3]; simp

/-- SCT entry content: key id, extensions and signature are pieces of the consumed input -/
theorem explicitPrime_alias (i r : List β) (v : ExplicitPrime β) (h : parseExplicitPrime i = .ok r v) :
    ∃ h1 h2 h3 h4 h5 h6 : List β,
      i = h1 ++ (v.primeP ++ (h2 ++ (v.a ++ (h3 ++ (v.b ++ (h4 ++ (v.base ++ (h5 ++ (v.order ++ (h6 ++ (v.cofactor ++ r))))))))))) := by
  unfold parseExplicitPrime at h
  obtain ⟨i1, x1, e1, h⟩ := bind_eq_ok_inv h
  obtain ⟨i2, x2, e2, h⟩ := bind_eq_ok_inv h
  obtain ⟨i3, x3, e3, h⟩ := bind_eq_ok_inv h
  obtain ⟨i4, x4, e4, h⟩ := bind_eq_ok_inv h
  obtain ⟨i5, x5, e5, h⟩ := bind_eq_ok_inv h
  obtain ⟨i6, x6, e6, h⟩ := bind_eq_ok_inv h
  simp at h
  obtain ⟨a1, _, ha1⟩ := lengthData_alias 1 _ _ _ e1
  obtain ⟨a2, _, ha2⟩ := lengthData_alias 1 _ _ _ e2
  obtain ⟨a3, _, ha3⟩ := lengthData_alias 1 _ _ _ e3
  obtain ⟨a4, _, ha4⟩ := lengthData_alias 1 _ _ _ e4
  obtain ⟨a5, _, ha5⟩ := lengthData_alias 1 _ _ _ e5
  obtain ⟨a6, _, ha6⟩ := lengthData_alias 1 _ _ _ e6
  refine ⟨a1, a2, a3, a4, a5, a6, ?_⟩
  rw [← h.2, ← h.1]; simp only
  rw [ha1, ha2, ha3, ha4, ha5, ha6]

end Tls
