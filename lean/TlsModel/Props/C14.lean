/-
  Props/C14.lean — Signed Certificate Timestamp lists decode per RFC 6962 section 3.3.
-/
import TlsModel.Props.C13
namespace Tls
variable {β : Type} [ByteLike β]

def encSctContent (s : SCT β) : List β :=
  encBE 1 s.version ++ (s.keyId ++ (encBE 8 s.timestamp ++ (encLD 2 s.extensions ++ encDigitallySigned s.signature)))

/-- one entry: u16 length, then the SCT -/
def encSctEntry (s : SCT β) : List β := encLD 2 (encSctContent s)

/-- the list: u16 total length, then the entries -/
def encSctList (l : List (SCT β)) : List β := encLD 2 (l.flatMap encSctEntry)

/-- field ranges of an SCT (version: all 256 values; timestamp: the full u64 range) -/
def WFSct (s : SCT β) : Prop :=
  s.version < 256 ∧ s.keyId.length = 32 ∧ s.timestamp < 18446744073709551616 ∧ s.extensions.length < 65536 ∧
  (∃ h sg, s.signature.alg = some (h, sg) ∧ h < 256 ∧ sg < 256) ∧ s.signature.data.length < 65536 ∧
  (encSctContent s).length < 65536

theorem sctContent_roundtrip (s : SCT β) (h : WFSct s) (r : List β) :
    parseSctContentEntry (encSctContent s ++ r) = .ok r s := by
  obtain ⟨hv, hk, ht, he, ⟨hh, sg, halg, hh1, hs1⟩, hd, _⟩ := h
  obtain ⟨ver, kid, ts, ext, ⟨alg, data⟩⟩ := s
  simp only at halg hk hd; subst halg
  have hlog : ∀ r' : List β, parseLogId (kid ++ r') = .ok r' kid := by
    intro r'
    have := take_enc kid r'
    rw [hk] at this
    simp [parseLogId, this, Res.bind, hk]
  simp [parseSctContentEntry, encSctContent, encLD, List.append_assoc, beU1_enc, hv, hlog, beU8_enc, ht, beU2_enc, he,
    take_enc, Res.bind, digitallySigned_roundtrip hh sg data hh1 hs1 hd]

/-- **single SCT**: the single-entry parser consumes exactly one length-prefixed entry -/
theorem sct_roundtrip (s : SCT β) (h : WFSct s) (r : List β) :
    parseSct (encSctEntry s ++ r) = .ok r s := by
  have hl := h.2.2.2.2.2.2
  have := sctContent_roundtrip s h []
  simp only [List.append_nil] at this
  simp [parseSct, encSctEntry, mapParser_ld2_enc _ _ hl, this, Res.bind]

theorem encSctEntry_ne_nil (s : SCT β) : encSctEntry s ≠ [] := by
  intro h
  have := congrArg List.length h
  simp [encSctEntry] at this

theorem parseSct_nil : ∃ n, (parseSct ([] : List β)) = .incomplete n :=
  ⟨_, rfl⟩

/-- **list round trip**: every list of SCTs (any number, any field values within their ranges) parses to
    exactly those SCTs in order, consuming exactly the list -/
theorem sctList_roundtrip (l : List (SCT β)) (h : ∀ s ∈ l, WFSct s)
    (htot : (l.flatMap encSctEntry).length < 65536) (r : List β) :
    parseSctList (encSctList l ++ r) = .ok r l := by
  unfold parseSctList encSctList encLD
  rw [List.append_assoc, beU2_enc _ htot]
  simp only [Res.bind]
  rw [mapParser_take_enc]
  rw [many0_complete_roundtrip parseSct encSctEntry l (fun s _ => encSctEntry_ne_nil s)
    (fun s hs rest => sct_roundtrip s (h s hs) rest) parseSct_nil]
  rfl

/-- **list overrun**: a list whose declared length exceeds the input never yields a value -/
theorem sctList_overrun (n : Nat) (hn : n < 65536) (rest : List β) (h : rest.length < n) :
    ∃ k, parseSctList (encBE 2 n ++ rest) = .incomplete k := by
  unfold parseSctList
  rw [beU2_enc _ hn]
  simp only [Res.bind, mapParser, take_of_gt h]
  exact ⟨_, rfl⟩

/-- **entry overrun**: an entry whose declared length exceeds what is left of the enclosing list stops the
    list there: no SCT value comes from that entry or anything after it -/
theorem sctEntries_stop_at_overrun (n : Nat) (hn : n < 65536) (rest : List β) (h : rest.length < n) :
    many0 (complete parseSct) (encBE 2 n ++ rest) = .ok (encBE 2 n ++ rest) [] := by
  apply many0_stop_error _ _ .Complete
  simp [complete, parseSct, mapParser, lengthData, beU2_enc _ hn, Res.bind, take_of_gt h]

example : parseSctList (β := Fin 256) [0, 0, 7] = .ok [7] [] := by decide +kernel

end Tls
