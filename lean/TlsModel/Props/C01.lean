/-
  Props/C01.lean — "never panics" for every modelled parsing entry point, and for the
  defragmenter under every history.  The model produces `panic` exactly where the Rust can
  panic (slice indexing, checked arithmetic, `expect`); these theorems say the guards suffice.
  Termination: every model function is total (Lean's termination checker accepted
  `many0`/`many1Loop` on the strength of nom's progress check).
-/
import TlsModel.Lemmas.Basic
import TlsModel.Record
import TlsModel.Extensions
import TlsModel.Crypto
import TlsModel.Dtls
import TlsModel.RecordsParser
namespace Tls
variable {β : Type} [ByteLike β]

theorem NoPanic.iteI {α : Type} {c : List β → Prop} [DecidablePred c] {p q : Parser β α}
    (hp : NoPanic p) (hq : NoPanic q) : NoPanic (fun i => if c i then p i else q i) := by
  intro i; by_cases h : c i <;> simp [h, hp i, hq i]

/-- a sub-parser run on an already extracted slice (`let (_, m) = g(raw)?; Ok((i, f(m)))`) -/
theorem NoPanic.sub {α γ : Type} {g : Parser β α} {f : α → γ} (hg : NoPanic g) (x : List β) :
    NoPanic (fun i => (g x).bind fun _ m => Res.ok i (f m)) := by
  intro i
  show ((g x).bind fun _ m => Res.ok i (f m)) ≠ .panic
  have := hg x
  cases h : g x <;> simp_all [Res.bind]

theorem NoPanic.okFn {α : Type} (r : List β) (f : List β → α) : NoPanic (fun i => Res.ok r (f i)) := by
  intro i; simp

/-- closure-rule prover for `NoPanic` goals; extended with `macro_rules` after each theorem -/
syntax "nopanic_step" : tactic
macro_rules | `(tactic| nopanic_step) => `(tactic| first
  | assumption
  | exact NoPanic.pure _ | exact NoPanic.okFn _ _ | exact NoPanic.error _ | exact NoPanic.take _ | exact NoPanic.beU _ | exact NoPanic.tag _
  | refine NoPanic.lengthData ?_ | refine NoPanic.mapParser ?_ ?_ | refine NoPanic.mapP ?_ | refine NoPanic.verify ?_
  | refine NoPanic.cond ?_ | refine NoPanic.opt ?_ | refine NoPanic.complete ?_ | refine NoPanic.alt ?_ ?_
  | refine NoPanic.pair ?_ ?_ | refine NoPanic.many0 ?_ | refine NoPanic.many1 ?_ | refine NoPanic.lengthCount ?_ ?_
  | refine NoPanic.iteI ?_ ?_
  | refine NoPanic.sub ?_ _
  | refine NoPanic.bind ?_ (fun _ => ?_)
  | exact fun _ h => Res.noConfusion h
  | refine NoPanic.ite' ?_ ?_)

macro "nopanic" : tactic => `(tactic| repeat nopanic_step)

theorem chunks2_isSome_of_even : ∀ (l : List β), l.length % 2 = 0 → (chunks2 l).isSome
  | [], _ => rfl
  | [_], h => by simp at h
  | a :: b :: r, h => by
    have : r.length % 2 = 0 := by simp at h; omega
    have ih := chunks2_isSome_of_even r this
    simp [chunks2, Option.isSome_map, ih]
termination_by l => l.length

theorem parseCipherSuites_noPanic (len : Nat) : NoPanic (parseCipherSuites len : Parser β (List Nat)) := by
  intro i; unfold parseCipherSuites
  split; · simp
  split; · simp
  rename_i h0 h1
  have hle : len ≤ i.length := by omega
  simp only [hle, if_true]
  have hev : (i.take len).length % 2 = 0 := by simp [List.length_take, Nat.min_eq_left hle]; omega
  have := chunks2_isSome_of_even _ hev
  cases h : chunks2 (i.take len) <;> simp_all

theorem parseCompressionsAlgs_noPanic (len : Nat) : NoPanic (parseCompressionsAlgs len : Parser β (List Nat)) := by
  intro i; unfold parseCompressionsAlgs
  split; · simp
  split; · simp
  rename_i h0 h1
  have hle : len ≤ i.length := by omega
  simp [hle]

theorem parseU16All_noPanic : NoPanic (parseU16All : Parser β (List Nat)) := by
  intro i; unfold parseU16All
  simp only
  split; · simp
  split; · simp
  rename_i h0 h1
  have hev : (i.take i.length).length % 2 = 0 := by simp; omega
  have := chunks2_isSome_of_even _ hev
  simp only [Nat.le_refl, if_true]
  cases h : chunks2 (i.take i.length) <;> simp_all

macro_rules | `(tactic| nopanic_step) => `(tactic| first
  | exact parseCipherSuites_noPanic _ | exact parseCompressionsAlgs_noPanic _ | exact parseU16All_noPanic)

theorem optExtBlock_noPanic : NoPanic (optExtBlock : Parser β _) := by unfold optExtBlock; nopanic
macro_rules | `(tactic| nopanic_step) => `(tactic| exact optExtBlock_noPanic)

theorem parseClientHello_noPanic : NoPanic (parseClientHello : Parser β _) := by
  unfold parseClientHello; nopanic


theorem NoPanic.peek {α γ : Type} {p : Parser β α} {q : α → Parser β γ} (hp : NoPanic p) (hq : ∀ x, NoPanic (q x)) :
    NoPanic (fun i => (p i).bind fun _ x => q x i) := by
  intro i
  show ((p i).bind fun _ x => q x i) ≠ .panic
  have := hp i
  cases h : p i <;> simp_all [Res.bind]
  exact hq _ _

theorem parseServerHelloV12_noPanic (hasExt : Bool) : NoPanic (parseServerHelloV12 hasExt : Parser β _) := by
  unfold parseServerHelloV12; nopanic
macro_rules | `(tactic| nopanic_step) => `(tactic| exact parseServerHelloV12_noPanic _)

theorem parseServerHello13d18_noPanic : NoPanic (parseServerHello13d18 : Parser β _) := by
  unfold parseServerHello13d18; nopanic
macro_rules | `(tactic| nopanic_step) => `(tactic| exact parseServerHello13d18_noPanic)

theorem parseServerHello_noPanic : NoPanic (parseServerHello : Parser β _) := by
  unfold parseServerHello
  refine NoPanic.peek (NoPanic.beU _) (fun v => ?_)
  nopanic
macro_rules | `(tactic| nopanic_step) => `(tactic| exact parseServerHello_noPanic)

theorem parseMsgServerHello_noPanic : NoPanic (parseMsgServerHello : Parser β _) := by
  unfold parseMsgServerHello
  refine NoPanic.peek (NoPanic.beU _) (fun v => ?_)
  nopanic
macro_rules | `(tactic| nopanic_step) => `(tactic| exact parseMsgServerHello_noPanic)

theorem parseNewSessionTicket_noPanic (len : Nat) : NoPanic (parseNewSessionTicket len : Parser β _) := by
  unfold parseNewSessionTicket
  by_cases h : len < 4
  · simp only [h, if_true]; nopanic
  · have h4 : 4 ≤ len := by omega
    simp only [h, h4, if_false, if_true]; nopanic
macro_rules | `(tactic| nopanic_step) => `(tactic| exact parseNewSessionTicket_noPanic _)

theorem parseHelloRetryRequest_noPanic : NoPanic (parseHelloRetryRequest : Parser β _) := by
  unfold parseHelloRetryRequest; nopanic
macro_rules | `(tactic| nopanic_step) => `(tactic| exact parseHelloRetryRequest_noPanic)

theorem parseCerts_noPanic : NoPanic (parseCerts : Parser β _) := by
  unfold parseCerts; nopanic
macro_rules | `(tactic| nopanic_step) => `(tactic| exact parseCerts_noPanic)

theorem parseCertificate_noPanic : NoPanic (parseCertificate : Parser β _) := by
  unfold parseCertificate; nopanic
macro_rules | `(tactic| nopanic_step) => `(tactic| exact parseCertificate_noPanic)

theorem parseCaList_noPanic : NoPanic (parseCaList : Parser β _) := by
  unfold parseCaList; nopanic
macro_rules | `(tactic| nopanic_step) => `(tactic| exact parseCaList_noPanic)

theorem parseCertRequestNoSigAlg_noPanic : NoPanic (parseCertRequestNoSigAlg : Parser β _) := by
  unfold parseCertRequestNoSigAlg; nopanic
macro_rules | `(tactic| nopanic_step) => `(tactic| exact parseCertRequestNoSigAlg_noPanic)

theorem parseCertRequestFull_noPanic : NoPanic (parseCertRequestFull : Parser β _) := by
  unfold parseCertRequestFull; nopanic
macro_rules | `(tactic| nopanic_step) => `(tactic| exact parseCertRequestFull_noPanic)

theorem parseCertRequest_noPanic : NoPanic (parseCertRequest : Parser β _) := by
  unfold parseCertRequest; nopanic
macro_rules | `(tactic| nopanic_step) => `(tactic| exact parseCertRequest_noPanic)

theorem parseCertStatus_noPanic : NoPanic (parseCertStatus : Parser β _) := by
  unfold parseCertStatus; nopanic
macro_rules | `(tactic| nopanic_step) => `(tactic| exact parseCertStatus_noPanic)

theorem parseNextProtocol_noPanic : NoPanic (parseNextProtocol : Parser β _) := by
  unfold parseNextProtocol; nopanic
macro_rules | `(tactic| nopanic_step) => `(tactic| exact parseNextProtocol_noPanic)

theorem parseHandshakeBody_noPanic (ht hl : Nat) : NoPanic (parseHandshakeBody ht hl : Parser β _) := by
  unfold parseHandshakeBody; nopanic
macro_rules | `(tactic| nopanic_step) => `(tactic| exact parseHandshakeBody_noPanic _)

theorem parseMessageHandshake_noPanic : NoPanic (parseMessageHandshake : Parser β _) := by
  unfold parseMessageHandshake; nopanic
macro_rules | `(tactic| nopanic_step) => `(tactic| exact parseMessageHandshake_noPanic)

theorem parseRecordHeader_noPanic : NoPanic (parseRecordHeader : Parser β _) := by
  unfold parseRecordHeader; nopanic
macro_rules | `(tactic| nopanic_step) => `(tactic| exact parseRecordHeader_noPanic)

theorem parseMessageCCS_noPanic : NoPanic (parseMessageCCS : Parser β _) := by
  unfold parseMessageCCS; nopanic
macro_rules | `(tactic| nopanic_step) => `(tactic| exact parseMessageCCS_noPanic)

theorem parseMessageAlert_noPanic : NoPanic (parseMessageAlert : Parser β _) := by
  unfold parseMessageAlert; nopanic
macro_rules | `(tactic| nopanic_step) => `(tactic| exact parseMessageAlert_noPanic)

theorem parseMessageAppData_noPanic : NoPanic (parseMessageAppData : Parser β _) := by
  intro i; simp [parseMessageAppData]
macro_rules | `(tactic| nopanic_step) => `(tactic| exact parseMessageAppData_noPanic)

theorem parseMessageHeartbeat_noPanic (l : Nat) : NoPanic (parseMessageHeartbeat l : Parser β _) := by
  unfold parseMessageHeartbeat; nopanic
macro_rules | `(tactic| nopanic_step) => `(tactic| exact parseMessageHeartbeat_noPanic _)

theorem parseRecordWithHeader_noPanic (hdr : RecordHeader) : NoPanic (parseRecordWithHeader hdr : Parser β _) := by
  unfold parseRecordWithHeader; nopanic
macro_rules | `(tactic| nopanic_step) => `(tactic| exact parseRecordWithHeader_noPanic _)

theorem parsePlaintext_noPanic : NoPanic (parsePlaintext : Parser β _) := by
  unfold parsePlaintext; nopanic
macro_rules | `(tactic| nopanic_step) => `(tactic| exact parsePlaintext_noPanic)

theorem parseEncrypted_noPanic : NoPanic (parseEncrypted : Parser β _) := by
  unfold parseEncrypted; nopanic
macro_rules | `(tactic| nopanic_step) => `(tactic| exact parseEncrypted_noPanic)

theorem parseRawRecord_noPanic : NoPanic (parseRawRecord : Parser β _) := by
  unfold parseRawRecord; nopanic
macro_rules | `(tactic| nopanic_step) => `(tactic| exact parseRawRecord_noPanic)

theorem tlsParser_noPanic : NoPanic (tlsParser : Parser β _) := by
  unfold tlsParser; nopanic
macro_rules | `(tactic| nopanic_step) => `(tactic| exact tlsParser_noPanic)

theorem tlsParserMany_noPanic : NoPanic (tlsParserMany : Parser β _) := by
  unfold tlsParserMany; nopanic
macro_rules | `(tactic| nopanic_step) => `(tactic| exact tlsParserMany_noPanic)

theorem parseSniHostname_noPanic : NoPanic (parseSniHostname : Parser β _) := by
  unfold parseSniHostname; nopanic
macro_rules | `(tactic| nopanic_step) => `(tactic| exact parseSniHostname_noPanic)

theorem parseSniContent_noPanic : NoPanic (parseSniContent : Parser β _) := by
  unfold parseSniContent; nopanic
macro_rules | `(tactic| nopanic_step) => `(tactic| exact parseSniContent_noPanic)

theorem parseMaxFragmentLengthContent_noPanic : NoPanic (parseMaxFragmentLengthContent : Parser β _) := by
  unfold parseMaxFragmentLengthContent; nopanic
macro_rules | `(tactic| nopanic_step) => `(tactic| exact parseMaxFragmentLengthContent_noPanic)

theorem parseStatusRequestContent_noPanic (extLen : Nat) : NoPanic (parseStatusRequestContent extLen : Parser β _) := by
  unfold parseStatusRequestContent
  by_cases h : extLen = 0
  · simp only [h, if_true]; nopanic
  · have h1 : 1 ≤ extLen := by omega
    simp only [h, h1, if_false, if_true]; nopanic
macro_rules | `(tactic| nopanic_step) => `(tactic| exact parseStatusRequestContent_noPanic _)

theorem parseEllipticCurvesContent_noPanic : NoPanic (parseEllipticCurvesContent : Parser β _) := by
  unfold parseEllipticCurvesContent; nopanic
macro_rules | `(tactic| nopanic_step) => `(tactic| exact parseEllipticCurvesContent_noPanic)

theorem parseEcPointFormatsContent_noPanic : NoPanic (parseEcPointFormatsContent : Parser β _) := by
  unfold parseEcPointFormatsContent; nopanic
macro_rules | `(tactic| nopanic_step) => `(tactic| exact parseEcPointFormatsContent_noPanic)

theorem parseSignatureAlgorithmsContent_noPanic : NoPanic (parseSignatureAlgorithmsContent : Parser β _) := by
  unfold parseSignatureAlgorithmsContent; nopanic
macro_rules | `(tactic| nopanic_step) => `(tactic| exact parseSignatureAlgorithmsContent_noPanic)

theorem parseHeartbeatContent_noPanic : NoPanic (parseHeartbeatContent : Parser β _) := by
  unfold parseHeartbeatContent; nopanic
macro_rules | `(tactic| nopanic_step) => `(tactic| exact parseHeartbeatContent_noPanic)

theorem parseAlpnContent_noPanic : NoPanic (parseAlpnContent : Parser β _) := by
  unfold parseAlpnContent; nopanic
macro_rules | `(tactic| nopanic_step) => `(tactic| exact parseAlpnContent_noPanic)

theorem parseSctContent_noPanic : NoPanic (parseSctContent : Parser β _) := by
  unfold parseSctContent; nopanic
macro_rules | `(tactic| nopanic_step) => `(tactic| exact parseSctContent_noPanic)

theorem parseEmptyContent_noPanic (extLen : Nat) (v : Extension β) : NoPanic (parseEmptyContent extLen v : Parser β _) := by
  unfold parseEmptyContent; nopanic
macro_rules | `(tactic| nopanic_step) => `(tactic| exact parseEmptyContent_noPanic _ _)

theorem parseEarlyDataContent_noPanic (extLen : Nat) : NoPanic (parseEarlyDataContent extLen : Parser β _) := by
  unfold parseEarlyDataContent; nopanic
macro_rules | `(tactic| nopanic_step) => `(tactic| exact parseEarlyDataContent_noPanic _)

theorem parseSupportedVersionsContent_noPanic (extLen : Nat) : NoPanic (parseSupportedVersionsContent extLen : Parser β _) := by
  unfold parseSupportedVersionsContent
  by_cases h2 : extLen = 2
  · simp only [h2, if_true]; nopanic
  · by_cases h : extLen = 0
    · simp only [h, if_true]; nopanic
    · have h1 : 1 ≤ extLen := by omega
      simp only [h2, h, h1, if_false, if_true]; nopanic
macro_rules | `(tactic| nopanic_step) => `(tactic| exact parseSupportedVersionsContent_noPanic _)

theorem parsePskModesContent_noPanic : NoPanic (parsePskModesContent : Parser β _) := by
  unfold parsePskModesContent; nopanic
macro_rules | `(tactic| nopanic_step) => `(tactic| exact parsePskModesContent_noPanic)

theorem parseRenegotiationInfoContent_noPanic : NoPanic (parseRenegotiationInfoContent : Parser β _) := by
  unfold parseRenegotiationInfoContent; nopanic
macro_rules | `(tactic| nopanic_step) => `(tactic| exact parseRenegotiationInfoContent_noPanic)

theorem parseEncryptedServerName_noPanic : NoPanic (parseEncryptedServerName : Parser β _) := by
  unfold parseEncryptedServerName; nopanic
macro_rules | `(tactic| nopanic_step) => `(tactic| exact parseEncryptedServerName_noPanic)

theorem parseOidFilter_noPanic : NoPanic (parseOidFilter : Parser β _) := by
  unfold parseOidFilter; nopanic
macro_rules | `(tactic| nopanic_step) => `(tactic| exact parseOidFilter_noPanic)

theorem parseOidFilters_noPanic : NoPanic (parseOidFilters : Parser β _) := by
  unfold parseOidFilters; nopanic
macro_rules | `(tactic| nopanic_step) => `(tactic| exact parseOidFilters_noPanic)

theorem parseExtensionUnknown_noPanic : NoPanic (parseExtensionUnknown : Parser β _) := by
  unfold parseExtensionUnknown; nopanic
macro_rules | `(tactic| nopanic_step) => `(tactic| exact parseExtensionUnknown_noPanic)

theorem extTable_noPanic (extLen : Nat) : ∀ e ∈ (extTable extLen : List (Nat × Arms × Parser β (Extension β))), NoPanic e.2.2 := by
  simp only [extTable, List.forall_mem_cons, List.not_mem_nil, false_imp_iff, implies_true, and_true]
  refine ⟨?_, ?_, ?_, ?_, ?_, ?_, ?_, ?_, ?_, ?_, ?_, ?_, ?_, ?_, ?_, ?_, ?_, ?_, ?_, ?_, ?_, ?_, ?_, ?_, ?_, ?_⟩ <;> nopanic

theorem extContentParser_noPanic (d : Dispatcher) (t extLen : Nat) (p : Parser β (Extension β))
    (h : extContentParser d t extLen = some p) : NoPanic p := by
  unfold extContentParser at h
  cases hf : (extTable extLen : List (Nat × Arms × Parser β (Extension β))).find? (fun e => e.1 == t && e.2.1.has d) with
  | none => simp [hf] at h
  | some e =>
    simp [hf] at h
    subst h
    exact extTable_noPanic extLen e (List.mem_of_find?_eq_some hf)

theorem parseExtensionD_noPanic (d : Dispatcher) : NoPanic (parseExtensionD d : Parser β _) := by
  unfold parseExtensionD
  refine NoPanic.bind (NoPanic.beU _) (fun t => ?_)
  refine NoPanic.bind (NoPanic.lengthData (NoPanic.beU _)) (fun data => ?_)
  intro i
  simp only
  split
  · simp
  · split
    · rename_i p hp
      have := extContentParser_noPanic d t _ p hp data
      cases h : p data <;> simp_all [Res.bind]
    · simp
macro_rules | `(tactic| nopanic_step) => `(tactic| exact parseExtensionD_noPanic _)

theorem parseExtension_noPanic : NoPanic (parseExtension : Parser β _) := by
  unfold parseExtension; nopanic
macro_rules | `(tactic| nopanic_step) => `(tactic| exact parseExtension_noPanic)

theorem parseClientHelloExtension_noPanic : NoPanic (parseClientHelloExtension : Parser β _) := by
  unfold parseClientHelloExtension; nopanic
macro_rules | `(tactic| nopanic_step) => `(tactic| exact parseClientHelloExtension_noPanic)

theorem parseServerHelloExtension_noPanic : NoPanic (parseServerHelloExtension : Parser β _) := by
  unfold parseServerHelloExtension; nopanic
macro_rules | `(tactic| nopanic_step) => `(tactic| exact parseServerHelloExtension_noPanic)

theorem parseExtensionsD_noPanic (d : Dispatcher) : NoPanic (parseExtensionsD d : Parser β _) := by
  unfold parseExtensionsD; nopanic
macro_rules | `(tactic| nopanic_step) => `(tactic| exact parseExtensionsD_noPanic _)

theorem parseExtensions_noPanic : NoPanic (parseExtensions : Parser β _) := by
  unfold parseExtensions; nopanic
macro_rules | `(tactic| nopanic_step) => `(tactic| exact parseExtensions_noPanic)

theorem parseClientHelloExtensions_noPanic : NoPanic (parseClientHelloExtensions : Parser β _) := by
  unfold parseClientHelloExtensions; nopanic
macro_rules | `(tactic| nopanic_step) => `(tactic| exact parseClientHelloExtensions_noPanic)

theorem parseServerHelloExtensions_noPanic : NoPanic (parseServerHelloExtensions : Parser β _) := by
  unfold parseServerHelloExtensions; nopanic
macro_rules | `(tactic| nopanic_step) => `(tactic| exact parseServerHelloExtensions_noPanic)

theorem tagLD_noPanic (t : List Nat) (c : Parser β (Extension β)) (hc : NoPanic c) : NoPanic (tagLD t c : Parser β _) := by
  unfold tagLD; nopanic
macro_rules | `(tactic| nopanic_step) => `(tactic| refine tagLD_noPanic _ _ ?_)

theorem tagLen_noPanic (t : List Nat) (c : Nat → Parser β (Extension β)) (hc : ∀ n, NoPanic (c n)) : NoPanic (tagLen t c : Parser β _) := by
  unfold tagLen; nopanic; exact hc _
macro_rules | `(tactic| nopanic_step) => `(tactic| refine tagLen_noPanic _ _ (fun _ => ?_))


theorem parseTagSni_noPanic : NoPanic (parseTagSni : Parser β _) := by
  unfold parseTagSni; nopanic
macro_rules | `(tactic| nopanic_step) => `(tactic| exact parseTagSni_noPanic)

theorem parseTagMaxFragmentLength_noPanic : NoPanic (parseTagMaxFragmentLength : Parser β _) := by
  unfold parseTagMaxFragmentLength; nopanic
macro_rules | `(tactic| nopanic_step) => `(tactic| exact parseTagMaxFragmentLength_noPanic)

theorem parseTagStatusRequest_noPanic : NoPanic (parseTagStatusRequest : Parser β _) := by
  unfold parseTagStatusRequest; nopanic
macro_rules | `(tactic| nopanic_step) => `(tactic| exact parseTagStatusRequest_noPanic)

theorem parseTagEllipticCurves_noPanic : NoPanic (parseTagEllipticCurves : Parser β _) := by
  unfold parseTagEllipticCurves; nopanic
macro_rules | `(tactic| nopanic_step) => `(tactic| exact parseTagEllipticCurves_noPanic)

theorem parseTagEcPointFormats_noPanic : NoPanic (parseTagEcPointFormats : Parser β _) := by
  unfold parseTagEcPointFormats; nopanic
macro_rules | `(tactic| nopanic_step) => `(tactic| exact parseTagEcPointFormats_noPanic)

theorem parseTagSignatureAlgorithms_noPanic : NoPanic (parseTagSignatureAlgorithms : Parser β _) := by
  unfold parseTagSignatureAlgorithms; nopanic
macro_rules | `(tactic| nopanic_step) => `(tactic| exact parseTagSignatureAlgorithms_noPanic)

theorem parseTagHeartbeat_noPanic : NoPanic (parseTagHeartbeat : Parser β _) := by
  unfold parseTagHeartbeat; nopanic
macro_rules | `(tactic| nopanic_step) => `(tactic| exact parseTagHeartbeat_noPanic)

theorem parseTagEncryptThenMac_noPanic : NoPanic (parseTagEncryptThenMac : Parser β _) := by
  unfold parseTagEncryptThenMac; nopanic
macro_rules | `(tactic| nopanic_step) => `(tactic| exact parseTagEncryptThenMac_noPanic)

theorem parseTagExtendedMasterSecret_noPanic : NoPanic (parseTagExtendedMasterSecret : Parser β _) := by
  unfold parseTagExtendedMasterSecret; nopanic
macro_rules | `(tactic| nopanic_step) => `(tactic| exact parseTagExtendedMasterSecret_noPanic)

theorem parseTagSessionTicket_noPanic : NoPanic (parseTagSessionTicket : Parser β _) := by
  unfold parseTagSessionTicket; nopanic
macro_rules | `(tactic| nopanic_step) => `(tactic| exact parseTagSessionTicket_noPanic)

theorem parseTagKeyShare_noPanic : NoPanic (parseTagKeyShare : Parser β _) := by
  unfold parseTagKeyShare; nopanic
macro_rules | `(tactic| nopanic_step) => `(tactic| exact parseTagKeyShare_noPanic)

theorem parseTagPreSharedKey_noPanic : NoPanic (parseTagPreSharedKey : Parser β _) := by
  unfold parseTagPreSharedKey; nopanic
macro_rules | `(tactic| nopanic_step) => `(tactic| exact parseTagPreSharedKey_noPanic)

theorem parseTagEarlyData_noPanic : NoPanic (parseTagEarlyData : Parser β _) := by
  unfold parseTagEarlyData; nopanic
macro_rules | `(tactic| nopanic_step) => `(tactic| exact parseTagEarlyData_noPanic)

theorem parseTagSupportedVersions_noPanic : NoPanic (parseTagSupportedVersions : Parser β _) := by
  unfold parseTagSupportedVersions; nopanic
macro_rules | `(tactic| nopanic_step) => `(tactic| exact parseTagSupportedVersions_noPanic)

theorem parseTagCookie_noPanic : NoPanic (parseTagCookie : Parser β _) := by
  unfold parseTagCookie; nopanic
macro_rules | `(tactic| nopanic_step) => `(tactic| exact parseTagCookie_noPanic)

theorem parseTagPskModes_noPanic : NoPanic (parseTagPskModes : Parser β _) := by
  unfold parseTagPskModes; nopanic
macro_rules | `(tactic| nopanic_step) => `(tactic| exact parseTagPskModes_noPanic)

theorem parseDhParams_noPanic : NoPanic (parseDhParams : Parser β _) := by
  unfold parseDhParams; nopanic
macro_rules | `(tactic| nopanic_step) => `(tactic| exact parseDhParams_noPanic)

theorem parseExplicitPrime_noPanic : NoPanic (parseExplicitPrime : Parser β _) := by
  unfold parseExplicitPrime; nopanic
macro_rules | `(tactic| nopanic_step) => `(tactic| exact parseExplicitPrime_noPanic)

theorem parseEcContent_noPanic (ct : Nat) : NoPanic (parseEcContent ct : Parser β _) := by
  unfold parseEcContent; nopanic
macro_rules | `(tactic| nopanic_step) => `(tactic| exact parseEcContent_noPanic _)

theorem parseEcParameters_noPanic : NoPanic (parseEcParameters : Parser β _) := by
  unfold parseEcParameters; nopanic
macro_rules | `(tactic| nopanic_step) => `(tactic| exact parseEcParameters_noPanic)

theorem parseEcdhParams_noPanic : NoPanic (parseEcdhParams : Parser β _) := by
  unfold parseEcdhParams; nopanic
macro_rules | `(tactic| nopanic_step) => `(tactic| exact parseEcdhParams_noPanic)

theorem parseNamedGroups_noPanic : NoPanic (parseNamedGroups : Parser β _) := by
  unfold parseNamedGroups; nopanic
macro_rules | `(tactic| nopanic_step) => `(tactic| exact parseNamedGroups_noPanic)

theorem parseDigitallySignedOld_noPanic : NoPanic (parseDigitallySignedOld : Parser β _) := by
  unfold parseDigitallySignedOld; nopanic
macro_rules | `(tactic| nopanic_step) => `(tactic| exact parseDigitallySignedOld_noPanic)

theorem parseDigitallySigned_noPanic : NoPanic (parseDigitallySigned : Parser β _) := by
  unfold parseDigitallySigned; nopanic
macro_rules | `(tactic| nopanic_step) => `(tactic| exact parseDigitallySigned_noPanic)

theorem parseContentAndSignature_noPanic {α : Type} (f : Parser β α) (hf : NoPanic f) (ext : Bool) :
    NoPanic (parseContentAndSignature f ext) := by
  unfold parseContentAndSignature; cases ext <;> simp <;> nopanic

theorem parseLogId_noPanic : NoPanic (parseLogId : Parser β _) := by
  intro i; unfold parseLogId Tls.take
  by_cases h : 32 ≤ i.length <;> simp [h, Res.bind, List.length_take, Nat.min_eq_left]
macro_rules | `(tactic| nopanic_step) => `(tactic| exact parseLogId_noPanic)

theorem parseSctContentEntry_noPanic : NoPanic (parseSctContentEntry : Parser β _) := by
  unfold parseSctContentEntry; nopanic
macro_rules | `(tactic| nopanic_step) => `(tactic| exact parseSctContentEntry_noPanic)

theorem parseSct_noPanic : NoPanic (parseSct : Parser β _) := by
  unfold parseSct; nopanic
macro_rules | `(tactic| nopanic_step) => `(tactic| exact parseSct_noPanic)

theorem parseSctList_noPanic : NoPanic (parseSctList : Parser β _) := by
  unfold parseSctList; nopanic
macro_rules | `(tactic| nopanic_step) => `(tactic| exact parseSctList_noPanic)

theorem parseDtlsRecordHeader_noPanic : NoPanic (parseDtlsRecordHeader : Parser β _) := by
  unfold parseDtlsRecordHeader; nopanic
macro_rules | `(tactic| nopanic_step) => `(tactic| exact parseDtlsRecordHeader_noPanic)

theorem parseDtlsClientHello_noPanic : NoPanic (parseDtlsClientHello : Parser β _) := by
  unfold parseDtlsClientHello; nopanic
macro_rules | `(tactic| nopanic_step) => `(tactic| exact parseDtlsClientHello_noPanic)

theorem parseDtlsHelloVerifyRequest_noPanic : NoPanic (parseDtlsHelloVerifyRequest : Parser β _) := by
  unfold parseDtlsHelloVerifyRequest; nopanic
macro_rules | `(tactic| nopanic_step) => `(tactic| exact parseDtlsHelloVerifyRequest_noPanic)

theorem parseDtlsBody_noPanic (t l : Nat) (f : Bool) : NoPanic (parseDtlsBody t l f : Parser β _) := by
  unfold parseDtlsBody; nopanic
macro_rules | `(tactic| nopanic_step) => `(tactic| exact parseDtlsBody_noPanic _ _)

theorem parseDtlsMessageHandshake_noPanic : NoPanic (parseDtlsMessageHandshake : Parser β _) := by
  unfold parseDtlsMessageHandshake; nopanic
macro_rules | `(tactic| nopanic_step) => `(tactic| exact parseDtlsMessageHandshake_noPanic)

theorem parseDtlsMessageCCS_noPanic : NoPanic (parseDtlsMessageCCS : Parser β _) := by
  unfold parseDtlsMessageCCS; nopanic
macro_rules | `(tactic| nopanic_step) => `(tactic| exact parseDtlsMessageCCS_noPanic)

theorem parseDtlsMessageAlert_noPanic : NoPanic (parseDtlsMessageAlert : Parser β _) := by
  unfold parseDtlsMessageAlert; nopanic
macro_rules | `(tactic| nopanic_step) => `(tactic| exact parseDtlsMessageAlert_noPanic)

theorem parseDtlsRecordWithHeader_noPanic (hdr : DtlsHeader) : NoPanic (parseDtlsRecordWithHeader hdr : Parser β _) := by
  unfold parseDtlsRecordWithHeader; nopanic
macro_rules | `(tactic| nopanic_step) => `(tactic| exact parseDtlsRecordWithHeader_noPanic _)

theorem parseDtlsPlaintextRecord_noPanic : NoPanic (parseDtlsPlaintextRecord : Parser β _) := by
  unfold parseDtlsPlaintextRecord; nopanic
macro_rules | `(tactic| nopanic_step) => `(tactic| exact parseDtlsPlaintextRecord_noPanic)

theorem parseDtlsPlaintextRecords_noPanic : NoPanic (parseDtlsPlaintextRecords : Parser β _) := by
  unfold parseDtlsPlaintextRecords; nopanic
macro_rules | `(tactic| nopanic_step) => `(tactic| exact parseDtlsPlaintextRecords_noPanic)


/-! ### The defragmenter never panics, for any payload parser that does not and any history -/

theorem rpNocopy_noPanic {α : Type} (R : RecordHeader → Parser β α) (hR : ∀ h, NoPanic (R h))
    (s : RPState β) (r : RawRecord β) : (rpNocopy R s r).2 ≠ .panic := by
  unfold rpNocopy
  by_cases h1 : s.inProgress = true
  · simp [h1]
  · by_cases h2 : isCompleteErr (R r.hdr r.data) = true
    · simp [h1, h2]
    · simp only [h1, h2]; exact hR _ _

theorem rpParse_noPanic {α : Type} (R : RecordHeader → Parser β α) (hR : ∀ h, NoPanic (R h))
    (s : RPState β) (r : RawRecord β) : (rpParse R s r).2 ≠ .panic := by
  unfold rpParse
  by_cases h1 : s.inProgress = true
  · simp only [h1, Bool.not_true, Bool.false_eq_true, if_false]
    split; · simp
    split; · simp
    have := hR { r.hdr with len := (s.buf ++ copyInto s.buf.length r.data).length % 65536 }
      (s.buf ++ copyInto s.buf.length r.data)
    split
    · simp
    · split
      · simp
      · simpa using this
  · simp only [h1, Bool.not_false, if_true]
    split
    · exact rpNocopy_noPanic R hR s r
    · have := hR r.hdr r.data
      split
      · simp
      · split
        · simp
        · simpa using this

/-- no output of any history is a panic -/
theorem rpRun_noPanic {α : Type} (R : RecordHeader → Parser β α) (hR : ∀ h, NoPanic (R h))
    (ops : List (RPOp β)) (s : RPState β) : ∀ o ∈ (rpRun R s ops).2, o ≠ some .panic := by
  induction ops generalizing s with
  | nil => simp [rpRun]
  | cons op ops ih =>
    simp only [rpRun]
    intro o ho
    simp only [List.mem_cons] at ho
    rcases ho with rfl | ho
    · cases op with
      | reset => simp [rpStep]
      | nocopy r => simp only [rpStep]; intro h; injection h with h; exact rpNocopy_noPanic R hR s r h
      | parse r => simp only [rpStep]; intro h; injection h with h; exact rpParse_noPanic R hR s r h
    · exact ih _ o ho

/-- C01 for `TlsRecordsParser`: any sequence of `parse_record` / `parse_record_nocopy` / `reset`. -/
theorem recordsParser_noPanic (ops : List (RPOp β)) :
    ∀ o ∈ (rpRun parseRecordWithHeader RPState.init ops).2, o ≠ some .panic :=
  rpRun_noPanic parseRecordWithHeader parseRecordWithHeader_noPanic ops RPState.init

-- non-vacuity: a concrete two-fragment history (empty first fragment, then a record)
example : (rpRun (β := Fin 256) parseRecordWithHeader RPState.init
    [.parse ⟨⟨22, 771, 0⟩, []⟩, .parse ⟨⟨22, 771, 4⟩, [0, 0, 0, 0]⟩]).2.length = 2 := by decide

end Tls
