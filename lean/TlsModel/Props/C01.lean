/-
  Props/C01.lean — "never panics" for every modelled parsing entry point, and for the
  defragmenter under every history.  The model produces `panic` exactly where the Rust can
  panic (slice indexing, checked arithmetic, `expect`); these theorems say the guards suffice.
  Termination: every model function is total (Lean's termination checker accepted
  `many0`/`many1Loop` on the strength of nom's progress check).
-/
import TlsModel.Lemmas.Basic
import TlsModel.Record
import TlsModel.Extensions
import TlsModel.Crypto
import TlsModel.Dtls
import TlsModel.RecordsParser
namespace Tls
variable {β : Type} [ByteLike β]

theorem Clean.iteI {α : Type} {c : List β → Prop} [DecidablePred c] {p q : Parser β α}
    (hp : Clean p) (hq : Clean q) : Clean (fun i => if c i then p i else q i) := by
  intro i; by_cases h : c i <;> simp [h, hp i, hq i]

/-- a sub-parser run on an already extracted slice (`let (_, m) = g(raw)?; Ok((i, f(m)))`) -/
theorem Clean.sub {α γ : Type} {g : Parser β α} {f : α → γ} (hg : Clean g) (x : List β) :
    Clean (fun i => (g x).bind fun _ m => Res.ok i (f m)) := by
  intro i
  have := hg x
  cases h : g x <;> simp_all [Res.bind]

theorem Clean.okFn {α : Type} (r : List β) (f : List β → α) : Clean (fun i => Res.ok r (f i)) := by
  intro i; simp

/-- the remainder of a successful parse is not longer than the input -/
def Suffix' {α : Type} (p : Parser β α) : Prop := ∀ i r v, p i = .ok r v → r.length ≤ i.length

/-- closure-rule prover for `Clean` goals; extended with `macro_rules` after each theorem -/
syntax "clean_step" : tactic
macro_rules | `(tactic| clean_step) => `(tactic| first
  | assumption
  | exact Clean.pure _ | exact Clean.okFn _ _ | exact Clean.error _ | exact Clean.take _ | exact Clean.beU _ | exact Clean.tag _
  | refine Clean.lengthData ?_ | refine Clean.mapParser ?_ ?_ | refine Clean.mapP ?_ | refine Clean.verify ?_
  | refine Clean.cond ?_ | refine Clean.opt ?_ | refine Clean.complete ?_ | refine Clean.alt ?_ ?_
  | refine Clean.pair ?_ ?_ | refine Clean.many0 ?_ | refine Clean.many1 ?_ | refine Clean.lengthCount ?_ ?_
  | refine Clean.iteI ?_ ?_
  | refine Clean.sub ?_ _
  | refine Clean.bind ?_ (fun _ => ?_)
  | exact fun _ h => Res.noConfusion h
  | refine Clean.ite' ?_ ?_)

macro "clean" : tactic => `(tactic| repeat clean_step)

theorem chunks2_isSome_of_even : ∀ (l : List β), l.length % 2 = 0 → (chunks2 l).isSome
  | [], _ => rfl
  | [_], h => by simp at h
  | a :: b :: r, h => by
    have : r.length % 2 = 0 := by simp at h; omega
    have ih := chunks2_isSome_of_even r this
    simp [chunks2, Option.isSome_map, ih]
termination_by l => l.length

theorem parseCipherSuites_clean (len : Nat) : Clean (parseCipherSuites len : Parser β (List Nat)) := by
  intro i; unfold parseCipherSuites
  split; · simp
  split; · simp
  rename_i h0 h1
  have hle : len ≤ i.length := by omega
  simp only [hle, if_true]
  have hev : (i.take len).length % 2 = 0 := by simp [List.length_take, Nat.min_eq_left hle]; omega
  have := chunks2_isSome_of_even _ hev
  cases h : chunks2 (i.take len) <;> simp_all

theorem parseCompressionsAlgs_clean (len : Nat) : Clean (parseCompressionsAlgs len : Parser β (List Nat)) := by
  intro i; unfold parseCompressionsAlgs
  split; · simp
  split; · simp
  rename_i h0 h1
  have hle : len ≤ i.length := by omega
  simp [hle]

theorem parseU16All_clean : Clean (parseU16All : Parser β (List Nat)) := by
  intro i; unfold parseU16All
  simp only
  split; · simp
  split; · simp
  rename_i h0 h1
  have hev : (i.take i.length).length % 2 = 0 := by simp; omega
  have := chunks2_isSome_of_even _ hev
  simp only [Nat.le_refl, if_true]
  cases h : chunks2 (i.take i.length) <;> simp_all

macro_rules | `(tactic| clean_step) => `(tactic| first
  | exact parseCipherSuites_clean _ | exact parseCompressionsAlgs_clean _ | exact parseU16All_clean)

theorem optExtBlock_clean : Clean (optExtBlock : Parser β _) := by unfold optExtBlock; clean
macro_rules | `(tactic| clean_step) => `(tactic| exact optExtBlock_clean)

theorem parseClientHello_clean : Clean (parseClientHello : Parser β _) := by
  unfold parseClientHello; clean


theorem Clean.peek {α γ : Type} {p : Parser β α} {q : α → Parser β γ} (hp : Clean p) (hq : ∀ x, Clean (q x)) :
    Clean (fun i => (p i).bind fun _ x => q x i) := by
  intro i
  have := hp i
  cases h : p i <;> simp_all [Res.bind]
  exact hq _ _

theorem parseServerHelloV12_clean (hasExt : Bool) : Clean (parseServerHelloV12 hasExt : Parser β _) := by
  unfold parseServerHelloV12; clean
macro_rules | `(tactic| clean_step) => `(tactic| exact parseServerHelloV12_clean _)

theorem parseServerHello13d18_clean : Clean (parseServerHello13d18 : Parser β _) := by
  unfold parseServerHello13d18; clean
macro_rules | `(tactic| clean_step) => `(tactic| exact parseServerHello13d18_clean)

theorem parseServerHello_clean : Clean (parseServerHello : Parser β _) := by
  unfold parseServerHello
  refine Clean.peek (Clean.beU _) (fun v => ?_)
  clean
macro_rules | `(tactic| clean_step) => `(tactic| exact parseServerHello_clean)

theorem parseMsgServerHello_clean : Clean (parseMsgServerHello : Parser β _) := by
  unfold parseMsgServerHello
  refine Clean.peek (Clean.beU _) (fun v => ?_)
  clean
macro_rules | `(tactic| clean_step) => `(tactic| exact parseMsgServerHello_clean)

theorem parseNewSessionTicket_clean (len : Nat) : Clean (parseNewSessionTicket len : Parser β _) := by
  unfold parseNewSessionTicket
  by_cases h : len < 4
  · simp only [h, if_true]; clean
  · have h4 : 4 ≤ len := by omega
    simp only [h, h4, if_false, if_true]; clean
macro_rules | `(tactic| clean_step) => `(tactic| exact parseNewSessionTicket_clean _)

theorem parseHelloRetryRequest_clean : Clean (parseHelloRetryRequest : Parser β _) := by
  unfold parseHelloRetryRequest; clean
macro_rules | `(tactic| clean_step) => `(tactic| exact parseHelloRetryRequest_clean)

theorem parseCerts_clean : Clean (parseCerts : Parser β _) := by
  unfold parseCerts; clean
macro_rules | `(tactic| clean_step) => `(tactic| exact parseCerts_clean)

theorem parseCertificate_clean : Clean (parseCertificate : Parser β _) := by
  unfold parseCertificate; clean
macro_rules | `(tactic| clean_step) => `(tactic| exact parseCertificate_clean)

theorem parseCaList_clean : Clean (parseCaList : Parser β _) := by
  unfold parseCaList; clean
macro_rules | `(tactic| clean_step) => `(tactic| exact parseCaList_clean)

theorem parseCertRequestNoSigAlg_clean : Clean (parseCertRequestNoSigAlg : Parser β _) := by
  unfold parseCertRequestNoSigAlg; clean
macro_rules | `(tactic| clean_step) => `(tactic| exact parseCertRequestNoSigAlg_clean)

theorem parseCertRequestFull_clean : Clean (parseCertRequestFull : Parser β _) := by
  unfold parseCertRequestFull; clean
macro_rules | `(tactic| clean_step) => `(tactic| exact parseCertRequestFull_clean)

theorem parseCertRequest_clean : Clean (parseCertRequest : Parser β _) := by
  unfold parseCertRequest; clean
macro_rules | `(tactic| clean_step) => `(tactic| exact parseCertRequest_clean)

theorem parseCertStatus_clean : Clean (parseCertStatus : Parser β _) := by
  unfold parseCertStatus; clean
macro_rules | `(tactic| clean_step) => `(tactic| exact parseCertStatus_clean)

theorem parseNextProtocol_clean : Clean (parseNextProtocol : Parser β _) := by
  unfold parseNextProtocol; clean
macro_rules | `(tactic| clean_step) => `(tactic| exact parseNextProtocol_clean)

theorem parseHandshakeBody_clean (ht hl : Nat) : Clean (parseHandshakeBody ht hl : Parser β _) := by
  unfold parseHandshakeBody; clean
macro_rules | `(tactic| clean_step) => `(tactic| exact parseHandshakeBody_clean _)

theorem parseMessageHandshake_clean : Clean (parseMessageHandshake : Parser β _) := by
  unfold parseMessageHandshake; clean
macro_rules | `(tactic| clean_step) => `(tactic| exact parseMessageHandshake_clean)

theorem parseRecordHeader_clean : Clean (parseRecordHeader : Parser β _) := by
  unfold parseRecordHeader; clean
macro_rules | `(tactic| clean_step) => `(tactic| exact parseRecordHeader_clean)

theorem parseMessageCCS_clean : Clean (parseMessageCCS : Parser β _) := by
  unfold parseMessageCCS; clean
macro_rules | `(tactic| clean_step) => `(tactic| exact parseMessageCCS_clean)

theorem parseMessageAlert_clean : Clean (parseMessageAlert : Parser β _) := by
  unfold parseMessageAlert; clean
macro_rules | `(tactic| clean_step) => `(tactic| exact parseMessageAlert_clean)

theorem parseMessageAppData_clean : Clean (parseMessageAppData : Parser β _) := by
  intro i; simp [parseMessageAppData]
macro_rules | `(tactic| clean_step) => `(tactic| exact parseMessageAppData_clean)

theorem parseMessageHeartbeat_clean (l : Nat) : Clean (parseMessageHeartbeat l : Parser β _) := by
  unfold parseMessageHeartbeat; clean
macro_rules | `(tactic| clean_step) => `(tactic| exact parseMessageHeartbeat_clean _)

theorem parseRecordWithHeader_clean (hdr : RecordHeader) : Clean (parseRecordWithHeader hdr : Parser β _) := by
  unfold parseRecordWithHeader; clean
macro_rules | `(tactic| clean_step) => `(tactic| exact parseRecordWithHeader_clean _)

theorem parsePlaintext_clean : Clean (parsePlaintext : Parser β _) := by
  unfold parsePlaintext; clean
macro_rules | `(tactic| clean_step) => `(tactic| exact parsePlaintext_clean)

theorem parseEncrypted_clean : Clean (parseEncrypted : Parser β _) := by
  unfold parseEncrypted; clean
macro_rules | `(tactic| clean_step) => `(tactic| exact parseEncrypted_clean)

theorem parseRawRecord_clean : Clean (parseRawRecord : Parser β _) := by
  unfold parseRawRecord; clean
macro_rules | `(tactic| clean_step) => `(tactic| exact parseRawRecord_clean)

theorem tlsParser_clean : Clean (tlsParser : Parser β _) := by
  unfold tlsParser; clean
macro_rules | `(tactic| clean_step) => `(tactic| exact tlsParser_clean)

theorem tlsParserMany_clean : Clean (tlsParserMany : Parser β _) := by
  unfold tlsParserMany; clean
macro_rules | `(tactic| clean_step) => `(tactic| exact tlsParserMany_clean)

theorem parseSniHostname_clean : Clean (parseSniHostname : Parser β _) := by
  unfold parseSniHostname; clean
macro_rules | `(tactic| clean_step) => `(tactic| exact parseSniHostname_clean)

theorem parseSniContent_clean : Clean (parseSniContent : Parser β _) := by
  unfold parseSniContent; clean
macro_rules | `(tactic| clean_step) => `(tactic| exact parseSniContent_clean)

theorem parseMaxFragmentLengthContent_clean : Clean (parseMaxFragmentLengthContent : Parser β _) := by
  unfold parseMaxFragmentLengthContent; clean
macro_rules | `(tactic| clean_step) => `(tactic| exact parseMaxFragmentLengthContent_clean)

theorem parseStatusRequestContent_clean (extLen : Nat) : Clean (parseStatusRequestContent extLen : Parser β _) := by
  unfold parseStatusRequestContent
  by_cases h : extLen = 0
  · simp only [h, if_true]; clean
  · have h1 : 1 ≤ extLen := by omega
    simp only [h, h1, if_false, if_true]; clean
macro_rules | `(tactic| clean_step) => `(tactic| exact parseStatusRequestContent_clean _)

theorem parseEllipticCurvesContent_clean : Clean (parseEllipticCurvesContent : Parser β _) := by
  unfold parseEllipticCurvesContent; clean
macro_rules | `(tactic| clean_step) => `(tactic| exact parseEllipticCurvesContent_clean)

theorem parseEcPointFormatsContent_clean : Clean (parseEcPointFormatsContent : Parser β _) := by
  unfold parseEcPointFormatsContent; clean
macro_rules | `(tactic| clean_step) => `(tactic| exact parseEcPointFormatsContent_clean)

theorem parseSignatureAlgorithmsContent_clean : Clean (parseSignatureAlgorithmsContent : Parser β _) := by
  unfold parseSignatureAlgorithmsContent; clean
macro_rules | `(tactic| clean_step) => `(tactic| exact parseSignatureAlgorithmsContent_clean)

theorem parseHeartbeatContent_clean : Clean (parseHeartbeatContent : Parser β _) := by
  unfold parseHeartbeatContent; clean
macro_rules | `(tactic| clean_step) => `(tactic| exact parseHeartbeatContent_clean)

theorem parseAlpnContent_clean : Clean (parseAlpnContent : Parser β _) := by
  unfold parseAlpnContent; clean
macro_rules | `(tactic| clean_step) => `(tactic| exact parseAlpnContent_clean)

theorem parseSctContent_clean : Clean (parseSctContent : Parser β _) := by
  unfold parseSctContent; clean
macro_rules | `(tactic| clean_step) => `(tactic| exact parseSctContent_clean)

theorem parseEmptyContent_clean (extLen : Nat) (v : Extension β) : Clean (parseEmptyContent extLen v : Parser β _) := by
  unfold parseEmptyContent; clean
macro_rules | `(tactic| clean_step) => `(tactic| exact parseEmptyContent_clean _ _)

theorem parseEarlyDataContent_clean (extLen : Nat) : Clean (parseEarlyDataContent extLen : Parser β _) := by
  unfold parseEarlyDataContent; clean
macro_rules | `(tactic| clean_step) => `(tactic| exact parseEarlyDataContent_clean _)

theorem parseSupportedVersionsContent_clean (extLen : Nat) : Clean (parseSupportedVersionsContent extLen : Parser β _) := by
  unfold parseSupportedVersionsContent
  by_cases h2 : extLen = 2
  · simp only [h2, if_true]; clean
  · by_cases h : extLen = 0
    · simp only [h, if_true]; clean
    · have h1 : 1 ≤ extLen := by omega
      simp only [h2, h, h1, if_false, if_true]; clean
macro_rules | `(tactic| clean_step) => `(tactic| exact parseSupportedVersionsContent_clean _)

theorem parsePskModesContent_clean : Clean (parsePskModesContent : Parser β _) := by
  unfold parsePskModesContent; clean
macro_rules | `(tactic| clean_step) => `(tactic| exact parsePskModesContent_clean)

theorem parseRenegotiationInfoContent_clean : Clean (parseRenegotiationInfoContent : Parser β _) := by
  unfold parseRenegotiationInfoContent; clean
macro_rules | `(tactic| clean_step) => `(tactic| exact parseRenegotiationInfoContent_clean)

theorem parseEncryptedServerName_clean : Clean (parseEncryptedServerName : Parser β _) := by
  unfold parseEncryptedServerName; clean
macro_rules | `(tactic| clean_step) => `(tactic| exact parseEncryptedServerName_clean)

theorem parseOidFilter_clean : Clean (parseOidFilter : Parser β _) := by
  unfold parseOidFilter; clean
macro_rules | `(tactic| clean_step) => `(tactic| exact parseOidFilter_clean)

theorem parseOidFilters_clean : Clean (parseOidFilters : Parser β _) := by
  unfold parseOidFilters; clean
macro_rules | `(tactic| clean_step) => `(tactic| exact parseOidFilters_clean)

theorem parseExtensionUnknown_clean : Clean (parseExtensionUnknown : Parser β _) := by
  unfold parseExtensionUnknown; clean
macro_rules | `(tactic| clean_step) => `(tactic| exact parseExtensionUnknown_clean)

theorem extTable_clean (extLen : Nat) : ∀ e ∈ (extTable extLen : List (Nat × Arms × Parser β (Extension β))), Clean e.2.2 := by
  simp only [extTable, List.forall_mem_cons, List.not_mem_nil, false_imp_iff, implies_true, and_true]
  refine ⟨?_, ?_, ?_, ?_, ?_, ?_, ?_, ?_, ?_, ?_, ?_, ?_, ?_, ?_, ?_, ?_, ?_, ?_, ?_, ?_, ?_, ?_, ?_, ?_, ?_, ?_⟩ <;> clean

theorem extContentParser_clean (d : Dispatcher) (t extLen : Nat) (p : Parser β (Extension β))
    (h : extContentParser d t extLen = some p) : Clean p := by
  unfold extContentParser at h
  cases hf : (extTable extLen : List (Nat × Arms × Parser β (Extension β))).find? (fun e => e.1 == t && e.2.1.has d) with
  | none => simp [hf] at h
  | some e =>
    simp [hf] at h
    subst h
    exact extTable_clean extLen e (List.mem_of_find?_eq_some hf)

theorem parseExtensionD_clean (d : Dispatcher) : Clean (parseExtensionD d : Parser β _) := by
  unfold parseExtensionD
  refine Clean.bind (Clean.beU _) (fun t => ?_)
  refine Clean.bind (Clean.lengthData (Clean.beU _)) (fun data => ?_)
  intro i
  simp only
  split
  · simp
  · split
    · rename_i p hp
      have := extContentParser_clean d t _ p hp data
      cases h : p data <;> simp_all [Res.bind]
    · simp
macro_rules | `(tactic| clean_step) => `(tactic| exact parseExtensionD_clean _)

theorem parseExtension_clean : Clean (parseExtension : Parser β _) := by
  unfold parseExtension; clean
macro_rules | `(tactic| clean_step) => `(tactic| exact parseExtension_clean)

theorem parseClientHelloExtension_clean : Clean (parseClientHelloExtension : Parser β _) := by
  unfold parseClientHelloExtension; clean
macro_rules | `(tactic| clean_step) => `(tactic| exact parseClientHelloExtension_clean)

theorem parseServerHelloExtension_clean : Clean (parseServerHelloExtension : Parser β _) := by
  unfold parseServerHelloExtension; clean
macro_rules | `(tactic| clean_step) => `(tactic| exact parseServerHelloExtension_clean)

theorem parseExtensionsD_clean (d : Dispatcher) : Clean (parseExtensionsD d : Parser β _) := by
  unfold parseExtensionsD; clean
macro_rules | `(tactic| clean_step) => `(tactic| exact parseExtensionsD_clean _)

theorem parseExtensions_clean : Clean (parseExtensions : Parser β _) := by
  unfold parseExtensions; clean
macro_rules | `(tactic| clean_step) => `(tactic| exact parseExtensions_clean)

theorem parseClientHelloExtensions_clean : Clean (parseClientHelloExtensions : Parser β _) := by
  unfold parseClientHelloExtensions; clean
macro_rules | `(tactic| clean_step) => `(tactic| exact parseClientHelloExtensions_clean)

theorem parseServerHelloExtensions_clean : Clean (parseServerHelloExtensions : Parser β _) := by
  unfold parseServerHelloExtensions; clean
macro_rules | `(tactic| clean_step) => `(tactic| exact parseServerHelloExtensions_clean)

theorem tagLD_clean (t : List Nat) (c : Parser β (Extension β)) (hc : Clean c) : Clean (tagLD t c : Parser β _) := by
  unfold tagLD; clean
macro_rules | `(tactic| clean_step) => `(tactic| refine tagLD_clean _ _ ?_)

theorem tagLen_clean (t : List Nat) (c : Nat → Parser β (Extension β)) (hc : ∀ n, Clean (c n)) : Clean (tagLen t c : Parser β _) := by
  unfold tagLen; clean; exact hc _
macro_rules | `(tactic| clean_step) => `(tactic| refine tagLen_clean _ _ (fun _ => ?_))


theorem parseTagSni_clean : Clean (parseTagSni : Parser β _) := by
  unfold parseTagSni; clean
macro_rules | `(tactic| clean_step) => `(tactic| exact parseTagSni_clean)

theorem parseTagMaxFragmentLength_clean : Clean (parseTagMaxFragmentLength : Parser β _) := by
  unfold parseTagMaxFragmentLength; clean
macro_rules | `(tactic| clean_step) => `(tactic| exact parseTagMaxFragmentLength_clean)

theorem parseTagStatusRequest_clean : Clean (parseTagStatusRequest : Parser β _) := by
  unfold parseTagStatusRequest; clean
macro_rules | `(tactic| clean_step) => `(tactic| exact parseTagStatusRequest_clean)

theorem parseTagEllipticCurves_clean : Clean (parseTagEllipticCurves : Parser β _) := by
  unfold parseTagEllipticCurves; clean
macro_rules | `(tactic| clean_step) => `(tactic| exact parseTagEllipticCurves_clean)

theorem parseTagEcPointFormats_clean : Clean (parseTagEcPointFormats : Parser β _) := by
  unfold parseTagEcPointFormats; clean
macro_rules | `(tactic| clean_step) => `(tactic| exact parseTagEcPointFormats_clean)

theorem parseTagSignatureAlgorithms_clean : Clean (parseTagSignatureAlgorithms : Parser β _) := by
  unfold parseTagSignatureAlgorithms; clean
macro_rules | `(tactic| clean_step) => `(tactic| exact parseTagSignatureAlgorithms_clean)

theorem parseTagHeartbeat_clean : Clean (parseTagHeartbeat : Parser β _) := by
  unfold parseTagHeartbeat; clean
macro_rules | `(tactic| clean_step) => `(tactic| exact parseTagHeartbeat_clean)

theorem parseTagEncryptThenMac_clean : Clean (parseTagEncryptThenMac : Parser β _) := by
  unfold parseTagEncryptThenMac; clean
macro_rules | `(tactic| clean_step) => `(tactic| exact parseTagEncryptThenMac_clean)

theorem parseTagExtendedMasterSecret_clean : Clean (parseTagExtendedMasterSecret : Parser β _) := by
  unfold parseTagExtendedMasterSecret; clean
macro_rules | `(tactic| clean_step) => `(tactic| exact parseTagExtendedMasterSecret_clean)

theorem parseTagSessionTicket_clean : Clean (parseTagSessionTicket : Parser β _) := by
  unfold parseTagSessionTicket; clean
macro_rules | `(tactic| clean_step) => `(tactic| exact parseTagSessionTicket_clean)

theorem parseTagKeyShare_clean : Clean (parseTagKeyShare : Parser β _) := by
  unfold parseTagKeyShare; clean
macro_rules | `(tactic| clean_step) => `(tactic| exact parseTagKeyShare_clean)

theorem parseTagPreSharedKey_clean : Clean (parseTagPreSharedKey : Parser β _) := by
  unfold parseTagPreSharedKey; clean
macro_rules | `(tactic| clean_step) => `(tactic| exact parseTagPreSharedKey_clean)

theorem parseTagEarlyData_clean : Clean (parseTagEarlyData : Parser β _) := by
  unfold parseTagEarlyData; clean
macro_rules | `(tactic| clean_step) => `(tactic| exact parseTagEarlyData_clean)

theorem parseTagSupportedVersions_clean : Clean (parseTagSupportedVersions : Parser β _) := by
  unfold parseTagSupportedVersions; clean
macro_rules | `(tactic| clean_step) => `(tactic| exact parseTagSupportedVersions_clean)

theorem parseTagCookie_clean : Clean (parseTagCookie : Parser β _) := by
  unfold parseTagCookie; clean
macro_rules | `(tactic| clean_step) => `(tactic| exact parseTagCookie_clean)

theorem parseTagPskModes_clean : Clean (parseTagPskModes : Parser β _) := by
  unfold parseTagPskModes; clean
macro_rules | `(tactic| clean_step) => `(tactic| exact parseTagPskModes_clean)

theorem parseDhParams_clean : Clean (parseDhParams : Parser β _) := by
  unfold parseDhParams; clean
macro_rules | `(tactic| clean_step) => `(tactic| exact parseDhParams_clean)

theorem parseExplicitPrime_clean : Clean (parseExplicitPrime : Parser β _) := by
  unfold parseExplicitPrime; clean
macro_rules | `(tactic| clean_step) => `(tactic| exact parseExplicitPrime_clean)

theorem parseEcContent_clean (ct : Nat) : Clean (parseEcContent ct : Parser β _) := by
  unfold parseEcContent; clean
macro_rules | `(tactic| clean_step) => `(tactic| exact parseEcContent_clean _)

theorem parseEcParameters_clean : Clean (parseEcParameters : Parser β _) := by
  unfold parseEcParameters; clean
macro_rules | `(tactic| clean_step) => `(tactic| exact parseEcParameters_clean)

theorem parseEcdhParams_clean : Clean (parseEcdhParams : Parser β _) := by
  unfold parseEcdhParams; clean
macro_rules | `(tactic| clean_step) => `(tactic| exact parseEcdhParams_clean)

theorem parseNamedGroups_clean : Clean (parseNamedGroups : Parser β _) := by
  unfold parseNamedGroups; clean
macro_rules | `(tactic| clean_step) => `(tactic| exact parseNamedGroups_clean)

theorem parseDigitallySignedOld_clean : Clean (parseDigitallySignedOld : Parser β _) := by
  unfold parseDigitallySignedOld; clean
macro_rules | `(tactic| clean_step) => `(tactic| exact parseDigitallySignedOld_clean)

theorem parseDigitallySigned_clean : Clean (parseDigitallySigned : Parser β _) := by
  unfold parseDigitallySigned; clean
macro_rules | `(tactic| clean_step) => `(tactic| exact parseDigitallySigned_clean)

theorem parseContentAndSignature_clean {α : Type} (f : Parser β α) (hf : Clean f) (ext : Bool) :
    Clean (parseContentAndSignature f ext) := by
  unfold parseContentAndSignature; cases ext <;> simp <;> clean

theorem parseLogId_clean : Clean (parseLogId : Parser β _) := by
  intro i; unfold parseLogId Tls.take
  by_cases h : 32 ≤ i.length <;> simp [h, Res.bind, List.length_take, Nat.min_eq_left]
macro_rules | `(tactic| clean_step) => `(tactic| exact parseLogId_clean)

theorem parseSctContentEntry_clean : Clean (parseSctContentEntry : Parser β _) := by
  unfold parseSctContentEntry; clean
macro_rules | `(tactic| clean_step) => `(tactic| exact parseSctContentEntry_clean)

theorem parseSct_clean : Clean (parseSct : Parser β _) := by
  unfold parseSct; clean
macro_rules | `(tactic| clean_step) => `(tactic| exact parseSct_clean)

theorem parseSctList_clean : Clean (parseSctList : Parser β _) := by
  unfold parseSctList; clean
macro_rules | `(tactic| clean_step) => `(tactic| exact parseSctList_clean)

theorem parseDtlsRecordHeader_clean : Clean (parseDtlsRecordHeader : Parser β _) := by
  unfold parseDtlsRecordHeader; clean
macro_rules | `(tactic| clean_step) => `(tactic| exact parseDtlsRecordHeader_clean)

theorem parseDtlsClientHello_clean : Clean (parseDtlsClientHello : Parser β _) := by
  unfold parseDtlsClientHello; clean
macro_rules | `(tactic| clean_step) => `(tactic| exact parseDtlsClientHello_clean)

theorem parseDtlsHelloVerifyRequest_clean : Clean (parseDtlsHelloVerifyRequest : Parser β _) := by
  unfold parseDtlsHelloVerifyRequest; clean
macro_rules | `(tactic| clean_step) => `(tactic| exact parseDtlsHelloVerifyRequest_clean)

theorem parseDtlsBody_clean (t l : Nat) (f : Bool) : Clean (parseDtlsBody t l f : Parser β _) := by
  unfold parseDtlsBody; clean
macro_rules | `(tactic| clean_step) => `(tactic| exact parseDtlsBody_clean _ _)

theorem parseDtlsMessageHandshake_clean : Clean (parseDtlsMessageHandshake : Parser β _) := by
  unfold parseDtlsMessageHandshake; clean
macro_rules | `(tactic| clean_step) => `(tactic| exact parseDtlsMessageHandshake_clean)

theorem parseDtlsMessageCCS_clean : Clean (parseDtlsMessageCCS : Parser β _) := by
  unfold parseDtlsMessageCCS; clean
macro_rules | `(tactic| clean_step) => `(tactic| exact parseDtlsMessageCCS_clean)

theorem parseDtlsMessageAlert_clean : Clean (parseDtlsMessageAlert : Parser β _) := by
  unfold parseDtlsMessageAlert; clean
macro_rules | `(tactic| clean_step) => `(tactic| exact parseDtlsMessageAlert_clean)

theorem parseDtlsRecordWithHeader_clean (hdr : DtlsHeader) : Clean (parseDtlsRecordWithHeader hdr : Parser β _) := by
  unfold parseDtlsRecordWithHeader; clean
macro_rules | `(tactic| clean_step) => `(tactic| exact parseDtlsRecordWithHeader_clean _)

theorem parseDtlsPlaintextRecord_clean : Clean (parseDtlsPlaintextRecord : Parser β _) := by
  unfold parseDtlsPlaintextRecord; clean
macro_rules | `(tactic| clean_step) => `(tactic| exact parseDtlsPlaintextRecord_clean)

theorem parseDtlsPlaintextRecords_clean : Clean (parseDtlsPlaintextRecords : Parser β _) := by
  unfold parseDtlsPlaintextRecords; clean
macro_rules | `(tactic| clean_step) => `(tactic| exact parseDtlsPlaintextRecords_clean)


/-! ### Headline: every public parsing entry point never panics (and never answers `Failure`) -/

theorem parseU16All_noPanic : NoPanic (parseU16All : Parser β _) := parseU16All_clean.noPanic
theorem optExtBlock_noPanic : NoPanic (optExtBlock : Parser β _) := optExtBlock_clean.noPanic
theorem parseClientHello_noPanic : NoPanic (parseClientHello : Parser β _) := parseClientHello_clean.noPanic
theorem parseServerHello13d18_noPanic : NoPanic (parseServerHello13d18 : Parser β _) := parseServerHello13d18_clean.noPanic
theorem parseServerHello_noPanic : NoPanic (parseServerHello : Parser β _) := parseServerHello_clean.noPanic
theorem parseMsgServerHello_noPanic : NoPanic (parseMsgServerHello : Parser β _) := parseMsgServerHello_clean.noPanic
theorem parseHelloRetryRequest_noPanic : NoPanic (parseHelloRetryRequest : Parser β _) := parseHelloRetryRequest_clean.noPanic
theorem parseCerts_noPanic : NoPanic (parseCerts : Parser β _) := parseCerts_clean.noPanic
theorem parseCertificate_noPanic : NoPanic (parseCertificate : Parser β _) := parseCertificate_clean.noPanic
theorem parseCaList_noPanic : NoPanic (parseCaList : Parser β _) := parseCaList_clean.noPanic
theorem parseCertRequestNoSigAlg_noPanic : NoPanic (parseCertRequestNoSigAlg : Parser β _) := parseCertRequestNoSigAlg_clean.noPanic
theorem parseCertRequestFull_noPanic : NoPanic (parseCertRequestFull : Parser β _) := parseCertRequestFull_clean.noPanic
theorem parseCertRequest_noPanic : NoPanic (parseCertRequest : Parser β _) := parseCertRequest_clean.noPanic
theorem parseCertStatus_noPanic : NoPanic (parseCertStatus : Parser β _) := parseCertStatus_clean.noPanic
theorem parseNextProtocol_noPanic : NoPanic (parseNextProtocol : Parser β _) := parseNextProtocol_clean.noPanic
theorem parseMessageHandshake_noPanic : NoPanic (parseMessageHandshake : Parser β _) := parseMessageHandshake_clean.noPanic
theorem parseRecordHeader_noPanic : NoPanic (parseRecordHeader : Parser β _) := parseRecordHeader_clean.noPanic
theorem parseMessageCCS_noPanic : NoPanic (parseMessageCCS : Parser β _) := parseMessageCCS_clean.noPanic
theorem parseMessageAlert_noPanic : NoPanic (parseMessageAlert : Parser β _) := parseMessageAlert_clean.noPanic
theorem parseMessageAppData_noPanic : NoPanic (parseMessageAppData : Parser β _) := parseMessageAppData_clean.noPanic
theorem parsePlaintext_noPanic : NoPanic (parsePlaintext : Parser β _) := parsePlaintext_clean.noPanic
theorem parseEncrypted_noPanic : NoPanic (parseEncrypted : Parser β _) := parseEncrypted_clean.noPanic
theorem parseRawRecord_noPanic : NoPanic (parseRawRecord : Parser β _) := parseRawRecord_clean.noPanic
theorem tlsParser_noPanic : NoPanic (tlsParser : Parser β _) := tlsParser_clean.noPanic
theorem tlsParserMany_noPanic : NoPanic (tlsParserMany : Parser β _) := tlsParserMany_clean.noPanic
theorem parseSniHostname_noPanic : NoPanic (parseSniHostname : Parser β _) := parseSniHostname_clean.noPanic
theorem parseSniContent_noPanic : NoPanic (parseSniContent : Parser β _) := parseSniContent_clean.noPanic
theorem parseMaxFragmentLengthContent_noPanic : NoPanic (parseMaxFragmentLengthContent : Parser β _) := parseMaxFragmentLengthContent_clean.noPanic
theorem parseEllipticCurvesContent_noPanic : NoPanic (parseEllipticCurvesContent : Parser β _) := parseEllipticCurvesContent_clean.noPanic
theorem parseEcPointFormatsContent_noPanic : NoPanic (parseEcPointFormatsContent : Parser β _) := parseEcPointFormatsContent_clean.noPanic
theorem parseSignatureAlgorithmsContent_noPanic : NoPanic (parseSignatureAlgorithmsContent : Parser β _) := parseSignatureAlgorithmsContent_clean.noPanic
theorem parseHeartbeatContent_noPanic : NoPanic (parseHeartbeatContent : Parser β _) := parseHeartbeatContent_clean.noPanic
theorem parseAlpnContent_noPanic : NoPanic (parseAlpnContent : Parser β _) := parseAlpnContent_clean.noPanic
theorem parseSctContent_noPanic : NoPanic (parseSctContent : Parser β _) := parseSctContent_clean.noPanic
theorem parsePskModesContent_noPanic : NoPanic (parsePskModesContent : Parser β _) := parsePskModesContent_clean.noPanic
theorem parseRenegotiationInfoContent_noPanic : NoPanic (parseRenegotiationInfoContent : Parser β _) := parseRenegotiationInfoContent_clean.noPanic
theorem parseEncryptedServerName_noPanic : NoPanic (parseEncryptedServerName : Parser β _) := parseEncryptedServerName_clean.noPanic
theorem parseOidFilter_noPanic : NoPanic (parseOidFilter : Parser β _) := parseOidFilter_clean.noPanic
theorem parseOidFilters_noPanic : NoPanic (parseOidFilters : Parser β _) := parseOidFilters_clean.noPanic
theorem parseExtensionUnknown_noPanic : NoPanic (parseExtensionUnknown : Parser β _) := parseExtensionUnknown_clean.noPanic
theorem parseExtension_noPanic : NoPanic (parseExtension : Parser β _) := parseExtension_clean.noPanic
theorem parseClientHelloExtension_noPanic : NoPanic (parseClientHelloExtension : Parser β _) := parseClientHelloExtension_clean.noPanic
theorem parseServerHelloExtension_noPanic : NoPanic (parseServerHelloExtension : Parser β _) := parseServerHelloExtension_clean.noPanic
theorem parseExtensions_noPanic : NoPanic (parseExtensions : Parser β _) := parseExtensions_clean.noPanic
theorem parseClientHelloExtensions_noPanic : NoPanic (parseClientHelloExtensions : Parser β _) := parseClientHelloExtensions_clean.noPanic
theorem parseServerHelloExtensions_noPanic : NoPanic (parseServerHelloExtensions : Parser β _) := parseServerHelloExtensions_clean.noPanic
theorem parseTagSni_noPanic : NoPanic (parseTagSni : Parser β _) := parseTagSni_clean.noPanic
theorem parseTagMaxFragmentLength_noPanic : NoPanic (parseTagMaxFragmentLength : Parser β _) := parseTagMaxFragmentLength_clean.noPanic
theorem parseTagStatusRequest_noPanic : NoPanic (parseTagStatusRequest : Parser β _) := parseTagStatusRequest_clean.noPanic
theorem parseTagEllipticCurves_noPanic : NoPanic (parseTagEllipticCurves : Parser β _) := parseTagEllipticCurves_clean.noPanic
theorem parseTagEcPointFormats_noPanic : NoPanic (parseTagEcPointFormats : Parser β _) := parseTagEcPointFormats_clean.noPanic
theorem parseTagSignatureAlgorithms_noPanic : NoPanic (parseTagSignatureAlgorithms : Parser β _) := parseTagSignatureAlgorithms_clean.noPanic
theorem parseTagHeartbeat_noPanic : NoPanic (parseTagHeartbeat : Parser β _) := parseTagHeartbeat_clean.noPanic
theorem parseTagEncryptThenMac_noPanic : NoPanic (parseTagEncryptThenMac : Parser β _) := parseTagEncryptThenMac_clean.noPanic
theorem parseTagExtendedMasterSecret_noPanic : NoPanic (parseTagExtendedMasterSecret : Parser β _) := parseTagExtendedMasterSecret_clean.noPanic
theorem parseTagSessionTicket_noPanic : NoPanic (parseTagSessionTicket : Parser β _) := parseTagSessionTicket_clean.noPanic
theorem parseTagKeyShare_noPanic : NoPanic (parseTagKeyShare : Parser β _) := parseTagKeyShare_clean.noPanic
theorem parseTagPreSharedKey_noPanic : NoPanic (parseTagPreSharedKey : Parser β _) := parseTagPreSharedKey_clean.noPanic
theorem parseTagEarlyData_noPanic : NoPanic (parseTagEarlyData : Parser β _) := parseTagEarlyData_clean.noPanic
theorem parseTagSupportedVersions_noPanic : NoPanic (parseTagSupportedVersions : Parser β _) := parseTagSupportedVersions_clean.noPanic
theorem parseTagCookie_noPanic : NoPanic (parseTagCookie : Parser β _) := parseTagCookie_clean.noPanic
theorem parseTagPskModes_noPanic : NoPanic (parseTagPskModes : Parser β _) := parseTagPskModes_clean.noPanic
theorem parseDhParams_noPanic : NoPanic (parseDhParams : Parser β _) := parseDhParams_clean.noPanic
theorem parseExplicitPrime_noPanic : NoPanic (parseExplicitPrime : Parser β _) := parseExplicitPrime_clean.noPanic
theorem parseEcParameters_noPanic : NoPanic (parseEcParameters : Parser β _) := parseEcParameters_clean.noPanic
theorem parseEcdhParams_noPanic : NoPanic (parseEcdhParams : Parser β _) := parseEcdhParams_clean.noPanic
theorem parseNamedGroups_noPanic : NoPanic (parseNamedGroups : Parser β _) := parseNamedGroups_clean.noPanic
theorem parseDigitallySignedOld_noPanic : NoPanic (parseDigitallySignedOld : Parser β _) := parseDigitallySignedOld_clean.noPanic
theorem parseDigitallySigned_noPanic : NoPanic (parseDigitallySigned : Parser β _) := parseDigitallySigned_clean.noPanic
theorem parseLogId_noPanic : NoPanic (parseLogId : Parser β _) := parseLogId_clean.noPanic
theorem parseSctContentEntry_noPanic : NoPanic (parseSctContentEntry : Parser β _) := parseSctContentEntry_clean.noPanic
theorem parseSct_noPanic : NoPanic (parseSct : Parser β _) := parseSct_clean.noPanic
theorem parseSctList_noPanic : NoPanic (parseSctList : Parser β _) := parseSctList_clean.noPanic
theorem parseDtlsRecordHeader_noPanic : NoPanic (parseDtlsRecordHeader : Parser β _) := parseDtlsRecordHeader_clean.noPanic
theorem parseDtlsClientHello_noPanic : NoPanic (parseDtlsClientHello : Parser β _) := parseDtlsClientHello_clean.noPanic
theorem parseDtlsHelloVerifyRequest_noPanic : NoPanic (parseDtlsHelloVerifyRequest : Parser β _) := parseDtlsHelloVerifyRequest_clean.noPanic
theorem parseDtlsMessageHandshake_noPanic : NoPanic (parseDtlsMessageHandshake : Parser β _) := parseDtlsMessageHandshake_clean.noPanic
theorem parseDtlsMessageCCS_noPanic : NoPanic (parseDtlsMessageCCS : Parser β _) := parseDtlsMessageCCS_clean.noPanic
theorem parseDtlsMessageAlert_noPanic : NoPanic (parseDtlsMessageAlert : Parser β _) := parseDtlsMessageAlert_clean.noPanic
theorem parseDtlsPlaintextRecord_noPanic : NoPanic (parseDtlsPlaintextRecord : Parser β _) := parseDtlsPlaintextRecord_clean.noPanic
theorem parseDtlsPlaintextRecords_noPanic : NoPanic (parseDtlsPlaintextRecords : Parser β _) := parseDtlsPlaintextRecords_clean.noPanic

/-! ### Allocation, logical part: every `Vec` built by a repetition has at most as many elements as bytes were consumed

(The byte counts of the allocator are measured on the implementation; what is provable on the model is that the number
of elements a parser can make the crate allocate is bounded by the input it consumed, never by a declared length.) -/

theorem many0_length_le {α : Type} (f : Parser β α) (i r : List β) (vs : List α) (h : many0 f i = .ok r vs) :
    vs.length + r.length ≤ i.length := by
  induction i using many0.induct f generalizing r vs with
  | case1 i k hf => unfold many0 at h; simp [hf] at h; obtain ⟨h1, h2⟩ := h; subst h1 h2; simp
  | case2 i n hf => unfold many0 at h; simp [hf] at h
  | case3 i k hf => unfold many0 at h; simp [hf] at h
  | case4 i hf => unfold many0 at h; simp [hf] at h
  | case5 i i1 o hf hlt ih =>
    unfold many0 at h; simp only [hf, hlt, dite_true] at h
    cases h2 : many0 f i1 with
    | ok r2 vs2 =>
      rw [h2] at h; simp at h
      have := ih r2 vs2 h2
      rw [← h.1, ← h.2]; simp; omega
    | _ => rw [h2] at h; simp at h
  | case6 i i1 o hf hlt => unfold many0 at h; simp [hf, hlt] at h

theorem many1Loop_length_le {α : Type} (f : Parser β α) (i r : List β) (vs : List α) (h : many1Loop f i = .ok r vs) :
    vs.length + r.length ≤ i.length := by
  induction i using many1Loop.induct f generalizing r vs with
  | case1 i k hf => unfold many1Loop at h; simp [hf] at h; obtain ⟨h1, h2⟩ := h; subst h1 h2; simp
  | case2 i n hf => unfold many1Loop at h; simp [hf] at h
  | case3 i k hf => unfold many1Loop at h; simp [hf] at h
  | case4 i hf => unfold many1Loop at h; simp [hf] at h
  | case5 i i1 o hf hlt ih =>
    unfold many1Loop at h; simp only [hf, hlt, dite_true] at h
    cases h2 : many1Loop f i1 with
    | ok r2 vs2 =>
      rw [h2] at h; simp at h
      have := ih r2 vs2 h2
      rw [← h.1, ← h.2]; simp; omega
    | _ => rw [h2] at h; simp at h
  | case6 i i1 o hf hlt => unfold many1Loop at h; simp [hf, hlt] at h

/-- a record payload of `n` bytes yields at most `n + 1` messages (ChangeCipherSpec / alert / handshake lists) -/
theorem many1_length_le {α : Type} (f : Parser β α) (hs : Suffix' f) (i r : List β) (vs : List α) (h : many1 f i = .ok r vs) :
    vs.length ≤ i.length + 1 := by
  unfold many1 at h
  cases hf : f i with
  | ok i1 o =>
    rw [hf] at h; simp only at h
    cases h2 : many1Loop f i1 with
    | ok r2 vs2 =>
      rw [h2] at h; simp at h
      have := many1Loop_length_le f i1 r2 vs2 h2
      have := hs i i1 o hf
      rw [← h.2]; simp; omega
    | _ => rw [h2] at h; simp at h
  | _ => rw [hf] at h; simp at h

/-- the manual u16 list decoders return exactly len/2 elements -/
theorem chunks2_length : ∀ (l : List β) (v : List Nat), chunks2 l = some v → 2 * v.length = l.length
  | [], v, h => by simp [chunks2] at h; subst h; rfl
  | [_], v, h => by simp [chunks2] at h
  | a :: b :: r, v, h => by
    simp only [chunks2, Option.map_eq_some_iff] at h
    obtain ⟨v', hv', rfl⟩ := h
    have := chunks2_length r v' hv'
    simp; omega

/-! ### The defragmenter never panics, for any payload parser that does not and any history -/

theorem rpNocopy_noPanic {α : Type} (R : RecordHeader → Parser β α) (hR : ∀ h, NoPanic (R h))
    (s : RPState β) (r : RawRecord β) : (rpNocopy R s r).2 ≠ .panic := by
  unfold rpNocopy
  by_cases h1 : s.inProgress = true
  · simp [h1]
  · by_cases h2 : isCompleteErr (R r.hdr r.data) = true
    · simp [h1, h2]
    · simp only [h1, h2]; exact hR _ _

theorem rpParse_noPanic {α : Type} (R : RecordHeader → Parser β α) (hR : ∀ h, NoPanic (R h))
    (s : RPState β) (r : RawRecord β) : (rpParse R s r).2 ≠ .panic := by
  unfold rpParse
  by_cases h1 : s.inProgress = true
  · simp only [h1, Bool.not_true, Bool.false_eq_true, if_false]
    split; · simp
    split; · simp
    have := hR { r.hdr with len := (s.buf ++ copyInto s.buf.length r.data).length % 65536 }
      (s.buf ++ copyInto s.buf.length r.data)
    split
    · simp
    · split
      · simp
      · simpa using this
  · simp only [h1, Bool.not_false, if_true]
    split
    · exact rpNocopy_noPanic R hR s r
    · have := hR r.hdr r.data
      split
      · simp
      · split
        · simp
        · simpa using this

/-- no output of any history is a panic -/
theorem rpRun_noPanic {α : Type} (R : RecordHeader → Parser β α) (hR : ∀ h, NoPanic (R h))
    (ops : List (RPOp β)) (s : RPState β) : ∀ o ∈ (rpRun R s ops).2, o ≠ some .panic := by
  induction ops generalizing s with
  | nil => simp [rpRun]
  | cons op ops ih =>
    simp only [rpRun]
    intro o ho
    simp only [List.mem_cons] at ho
    rcases ho with rfl | ho
    · cases op with
      | reset => simp [rpStep]
      | nocopy r => simp only [rpStep]; intro h; injection h with h; exact rpNocopy_noPanic R hR s r h
      | parse r => simp only [rpStep]; intro h; injection h with h; exact rpParse_noPanic R hR s r h
    · exact ih _ o ho

/-- C01 for `TlsRecordsParser`: any sequence of `parse_record` / `parse_record_nocopy` / `reset`. -/
theorem recordsParser_noPanic (ops : List (RPOp β)) :
    ∀ o ∈ (rpRun parseRecordWithHeader RPState.init ops).2, o ≠ some .panic :=
  rpRun_noPanic parseRecordWithHeader (fun h => (parseRecordWithHeader_clean h).noPanic) ops RPState.init

-- non-vacuity: a concrete two-fragment history (empty first fragment, then a record)
example : (rpRun (β := Fin 256) parseRecordWithHeader RPState.init
    [.parse ⟨⟨22, 771, 0⟩, []⟩, .parse ⟨⟨22, 771, 4⟩, [0, 0, 0, 0]⟩]).2.length = 2 := by decide

end Tls
