/-
  Props/C06Alias.lean — zero-copy for composite values: every byte slice reachable from a value returned by a
  parser is an infix of the part of the input that parser consumed (`Al []`, see Lemmas/Alias.lean), for every
  self-delimiting parser of the property and for all inputs.
-/
import TlsModel.Lemmas.Alias
import TlsModel.Extensions
import TlsModel.Crypto
import TlsModel.Record
import TlsModel.Dtls
import TlsModel.RecordsParser
namespace Tls
variable {β : Type} [ByteLike β]

/-- side goals: the slices of a re-wrapped value are those already extracted -/
syntax "alias_side" : tactic
macro_rules | `(tactic| alias_side) => `(tactic|
  first
  | focus (intro m s hs; first
    | focus (simp [slices] at hs; done)
    | focus (simp [slices] at hs ⊢; first | exact hs | grind))
  | (intro s hs; first
    | focus (simp [slices] at hs; done)
    | focus (simp [slices] at hs ⊢; first | exact hs | grind)
    | focus (refine Inside.self ?_; simp [slices] at hs ⊢; grind)))

syntax "alias_step" : tactic
macro_rules | `(tactic| alias_step) => `(tactic| first
  | assumption
  | exact Al.take _ | exact Al.beU _ | exact Al.tag _ | exact Al.error _ | exact Al.panic | exact Al.lengthData _
  | refine Al.mapParser ?_ ?_ | refine Al.verify ?_ | refine Al.cond ?_ | refine Al.opt ?_ | refine Al.complete ?_
  | refine Al.alt ?_ ?_ | refine Al.pair ?_ ?_ | refine Al.many0 ?_ | refine Al.many1 ?_ | refine Al.lengthCount ?_ ?_
  | exact Al.okAll _ (by intro i s hs; simp [slices] at hs; exact hs)
  | (refine Al.sub _ (Inside.self (by simp)) ?_ ?_)
  | refine Al.bind ?_ (fun _ => ?_)
  | refine Al.peek (fun _ => ?_)
  | refine Al.ite ?_ ?_
  | refine Al.ite' ?_ ?_
  | refine Al.iteI ?_ ?_
  | (refine Al.mapP ?_ ?_)
  | (refine Al.pure _ ?_)
  | alias_side)
macro "alias" : tactic => `(tactic| repeat alias_step)


/-! ### lists of integers: no slices, the remainder is what follows -/

theorem parseCipherSuites_al {ctx : List (List β)} (len : Nat) : Al ctx (parseCipherSuites len : Parser β (List Nat)) := by
  refine Al.ofSuffix ?_ (by intro v; induction v <;> simp_all)
  intro i r v h; unfold parseCipherSuites at h
  split at h
  · simp at h; exact ⟨[], by simp [h.1]⟩
  · split at h
    · simp at h
    · split at h
      · split at h
        · simp at h; exact ⟨i.take len, by rw [← h.1]; simp⟩
        · simp at h
      · simp at h
theorem parseCompressionsAlgs_al {ctx : List (List β)} (len : Nat) : Al ctx (parseCompressionsAlgs len : Parser β (List Nat)) := by
  refine Al.ofSuffix ?_ (by intro v; induction v <;> simp_all)
  intro i r v h; unfold parseCompressionsAlgs at h
  split at h
  · simp at h; exact ⟨[], by simp [h.1]⟩
  · split at h
    · simp at h
    · split at h
      · simp at h; exact ⟨i.take len, by rw [← h.1]; simp⟩
      · simp at h
theorem parseU16All_al {ctx : List (List β)} : Al ctx (parseU16All : Parser β (List Nat)) := by
  refine Al.ofSuffix ?_ (by intro v; induction v <;> simp_all)
  intro i r v h; unfold parseU16All at h
  simp only at h
  split at h
  · simp at h; exact ⟨[], by simp [h.1]⟩
  · split at h
    · simp at h
    · split at h
      · split at h
        · simp at h; exact ⟨i, by simp [h.1]⟩
        · simp at h
      · simp at h
macro_rules | `(tactic| alias_step) => `(tactic| first
  | exact parseCipherSuites_al _ | exact parseCompressionsAlgs_al _ | exact parseU16All_al)

/-! ### handshake bodies -/

theorem optExtBlock_al {ctx : List (List β)} : Al ctx (optExtBlock : Parser β _) := by unfold optExtBlock; alias
macro_rules | `(tactic| alias_step) => `(tactic| exact optExtBlock_al)
theorem parseClientHello_al {ctx : List (List β)} : Al ctx (parseClientHello : Parser β _) := by unfold parseClientHello; alias
macro_rules | `(tactic| alias_step) => `(tactic| exact parseClientHello_al)
theorem parseServerHelloV12_al {ctx : List (List β)} (e : Bool) : Al ctx (parseServerHelloV12 e : Parser β _) := by
  unfold parseServerHelloV12; alias
macro_rules | `(tactic| alias_step) => `(tactic| exact parseServerHelloV12_al _)
theorem parseServerHello13d18_al {ctx : List (List β)} : Al ctx (parseServerHello13d18 : Parser β _) := by
  unfold parseServerHello13d18; alias
macro_rules | `(tactic| alias_step) => `(tactic| exact parseServerHello13d18_al)
theorem parseServerHello_al {ctx : List (List β)} : Al ctx (parseServerHello : Parser β _) := by unfold parseServerHello; alias
theorem parseMsgServerHello_al {ctx : List (List β)} : Al ctx (parseMsgServerHello : Parser β _) := by
  unfold parseMsgServerHello; alias
macro_rules | `(tactic| alias_step) => `(tactic| exact parseMsgServerHello_al)
theorem parseNewSessionTicket_al {ctx : List (List β)} (len : Nat) : Al ctx (parseNewSessionTicket len : Parser β _) := by
  unfold parseNewSessionTicket; alias
macro_rules | `(tactic| alias_step) => `(tactic| exact parseNewSessionTicket_al _)
theorem parseHelloRetryRequest_al {ctx : List (List β)} : Al ctx (parseHelloRetryRequest : Parser β _) := by
  unfold parseHelloRetryRequest; alias
macro_rules | `(tactic| alias_step) => `(tactic| exact parseHelloRetryRequest_al)
theorem parseCerts_al {ctx : List (List β)} : Al ctx (parseCerts : Parser β _) := by unfold parseCerts; alias
macro_rules | `(tactic| alias_step) => `(tactic| exact parseCerts_al)
theorem parseCertificate_al {ctx : List (List β)} : Al ctx (parseCertificate : Parser β _) := by unfold parseCertificate; alias
macro_rules | `(tactic| alias_step) => `(tactic| exact parseCertificate_al)
theorem parseCaList_al {ctx : List (List β)} : Al ctx (parseCaList : Parser β _) := by unfold parseCaList; alias
macro_rules | `(tactic| alias_step) => `(tactic| exact parseCaList_al)
theorem parseCertRequestNoSigAlg_al {ctx : List (List β)} : Al ctx (parseCertRequestNoSigAlg : Parser β _) := by
  unfold parseCertRequestNoSigAlg; alias
theorem parseCertRequestFull_al {ctx : List (List β)} : Al ctx (parseCertRequestFull : Parser β _) := by
  unfold parseCertRequestFull; alias
macro_rules | `(tactic| alias_step) => `(tactic| first | exact parseCertRequestNoSigAlg_al | exact parseCertRequestFull_al)
theorem parseCertRequest_al {ctx : List (List β)} : Al ctx (parseCertRequest : Parser β _) := by unfold parseCertRequest; alias
macro_rules | `(tactic| alias_step) => `(tactic| exact parseCertRequest_al)
theorem parseCertStatus_al {ctx : List (List β)} : Al ctx (parseCertStatus : Parser β _) := by unfold parseCertStatus; alias
macro_rules | `(tactic| alias_step) => `(tactic| exact parseCertStatus_al)
theorem parseNextProtocol_al {ctx : List (List β)} : Al ctx (parseNextProtocol : Parser β _) := by unfold parseNextProtocol; alias
macro_rules | `(tactic| alias_step) => `(tactic| exact parseNextProtocol_al)
theorem parseHandshakeBody_al {ctx : List (List β)} (ht hl : Nat) : Al ctx (parseHandshakeBody ht hl : Parser β _) := by
  unfold parseHandshakeBody; alias
macro_rules | `(tactic| alias_step) => `(tactic| exact parseHandshakeBody_al _ _)
/-- **handshake message**: every slice of the decoded body lies inside the `4 + hl` consumed bytes -/
theorem parseMessageHandshake_al {ctx : List (List β)} : Al ctx (parseMessageHandshake : Parser β _) := by
  unfold parseMessageHandshake; alias
macro_rules | `(tactic| alias_step) => `(tactic| exact parseMessageHandshake_al)


/-! ### records -/

theorem parseRecordHeader_al {ctx : List (List β)} : Al ctx (parseRecordHeader : Parser β _) := by unfold parseRecordHeader; alias
macro_rules | `(tactic| alias_step) => `(tactic| exact parseRecordHeader_al)
theorem parseMessageCCS_al {ctx : List (List β)} : Al ctx (parseMessageCCS : Parser β _) := by unfold parseMessageCCS; alias
theorem parseMessageAlert_al {ctx : List (List β)} : Al ctx (parseMessageAlert : Parser β _) := by unfold parseMessageAlert; alias
theorem parseMessageAppData_al {ctx : List (List β)} : Al ctx (parseMessageAppData : Parser β _) := by unfold parseMessageAppData; alias
theorem parseMessageHeartbeat_al {ctx : List (List β)} (n : Nat) : Al ctx (parseMessageHeartbeat n : Parser β _) := by
  unfold parseMessageHeartbeat; alias
macro_rules | `(tactic| alias_step) => `(tactic| first
  | exact parseMessageCCS_al | exact parseMessageAlert_al | exact parseMessageAppData_al | exact parseMessageHeartbeat_al _)
theorem parseRecordWithHeader_al {ctx : List (List β)} (hdr : RecordHeader) : Al ctx (parseRecordWithHeader hdr : Parser β _) := by
  unfold parseRecordWithHeader; alias
macro_rules | `(tactic| alias_step) => `(tactic| exact parseRecordWithHeader_al _)
/-- **TLS plaintext record**: every slice of every decoded message lies inside the `5 + len` consumed bytes -/
theorem parsePlaintext_al {ctx : List (List β)} : Al ctx (parsePlaintext : Parser β _) := by unfold parsePlaintext; alias
macro_rules | `(tactic| alias_step) => `(tactic| exact parsePlaintext_al)
theorem parseEncrypted_al {ctx : List (List β)} : Al ctx (parseEncrypted : Parser β _) := by unfold parseEncrypted; alias
theorem parseRawRecord_al {ctx : List (List β)} : Al ctx (parseRawRecord : Parser β _) := by unfold parseRawRecord; alias
theorem tlsParserMany_al {ctx : List (List β)} : Al ctx (tlsParserMany : Parser β _) := by unfold tlsParserMany; alias

/-! ### extensions -/

theorem parseSniHostname_al {ctx : List (List β)} : Al ctx (parseSniHostname : Parser β _) := by unfold parseSniHostname; alias
macro_rules | `(tactic| alias_step) => `(tactic| exact parseSniHostname_al)
theorem parseSniContent_al {ctx : List (List β)} : Al ctx (parseSniContent : Parser β _) := by unfold parseSniContent; alias
theorem parseMaxFragmentLengthContent_al {ctx : List (List β)} : Al ctx (parseMaxFragmentLengthContent : Parser β _) := by
  unfold parseMaxFragmentLengthContent; alias
theorem parseStatusRequestContent_al {ctx : List (List β)} (n : Nat) : Al ctx (parseStatusRequestContent n : Parser β _) := by
  unfold parseStatusRequestContent; alias
theorem parseEllipticCurvesContent_al {ctx : List (List β)} : Al ctx (parseEllipticCurvesContent : Parser β _) := by
  unfold parseEllipticCurvesContent; alias
theorem parseEcPointFormatsContent_al {ctx : List (List β)} : Al ctx (parseEcPointFormatsContent : Parser β _) := by
  unfold parseEcPointFormatsContent; alias
theorem parseSignatureAlgorithmsContent_al {ctx : List (List β)} : Al ctx (parseSignatureAlgorithmsContent : Parser β _) := by
  unfold parseSignatureAlgorithmsContent; alias
theorem parseHeartbeatContent_al {ctx : List (List β)} : Al ctx (parseHeartbeatContent : Parser β _) := by
  unfold parseHeartbeatContent; alias
theorem parseAlpnContent_al {ctx : List (List β)} : Al ctx (parseAlpnContent : Parser β _) := by unfold parseAlpnContent; alias
theorem parseSctContent_al {ctx : List (List β)} : Al ctx (parseSctContent : Parser β _) := by unfold parseSctContent; alias
theorem parseEmptyContent_al {ctx : List (List β)} (n : Nat) (v : Extension β) (hv : (slices v : List (List β)) = []) :
    Al ctx (parseEmptyContent n v : Parser β _) := by
  unfold parseEmptyContent
  refine Al.ite (Al.error _) (Al.pure _ ?_)
  intro s hs; simp [hv] at hs
theorem parseEarlyDataContent_al {ctx : List (List β)} (n : Nat) : Al ctx (parseEarlyDataContent n : Parser β _) := by
  unfold parseEarlyDataContent; alias
theorem parseSupportedVersionsContent_al {ctx : List (List β)} (n : Nat) : Al ctx (parseSupportedVersionsContent n : Parser β _) := by
  unfold parseSupportedVersionsContent; alias
theorem parsePskModesContent_al {ctx : List (List β)} : Al ctx (parsePskModesContent : Parser β _) := by
  unfold parsePskModesContent; alias
theorem parseRenegotiationInfoContent_al {ctx : List (List β)} : Al ctx (parseRenegotiationInfoContent : Parser β _) := by
  unfold parseRenegotiationInfoContent; alias
theorem parseEncryptedServerName_al {ctx : List (List β)} : Al ctx (parseEncryptedServerName : Parser β _) := by
  unfold parseEncryptedServerName; alias
theorem parseOidFilter_al {ctx : List (List β)} : Al ctx (parseOidFilter : Parser β _) := by unfold parseOidFilter; alias
macro_rules | `(tactic| alias_step) => `(tactic| exact parseOidFilter_al)
theorem parseOidFilters_al {ctx : List (List β)} : Al ctx (parseOidFilters : Parser β _) := by unfold parseOidFilters; alias
theorem parseExtensionUnknown_al {ctx : List (List β)} : Al ctx (parseExtensionUnknown : Parser β _) := by
  unfold parseExtensionUnknown; alias
macro_rules | `(tactic| alias_step) => `(tactic| first
  | exact parseSniContent_al | exact parseMaxFragmentLengthContent_al | exact parseStatusRequestContent_al _
  | exact parseEllipticCurvesContent_al | exact parseEcPointFormatsContent_al | exact parseSignatureAlgorithmsContent_al
  | exact parseHeartbeatContent_al | exact parseAlpnContent_al | exact parseSctContent_al
  | exact parseEmptyContent_al _ _ rfl | exact parseEarlyDataContent_al _ | exact parseSupportedVersionsContent_al _
  | exact parsePskModesContent_al | exact parseRenegotiationInfoContent_al | exact parseEncryptedServerName_al
  | exact parseOidFilters_al | exact parseExtensionUnknown_al)

/-- every content parser of the dispatch table -/
theorem extTable_al (extLen : Nat) : ∀ e ∈ (extTable extLen : List (Nat × Arms × Parser β (Extension β))), Al [] e.2.2 := by
  simp only [extTable, List.forall_mem_cons, List.not_mem_nil, false_imp_iff, implies_true, and_true]
  refine ⟨?_, ?_, ?_, ?_, ?_, ?_, ?_, ?_, ?_, ?_, ?_, ?_, ?_, ?_, ?_, ?_, ?_, ?_, ?_, ?_, ?_, ?_, ?_, ?_, ?_, ?_⟩ <;> alias

theorem extContentParser_al (d : Dispatcher) (t extLen : Nat) (p : Parser β (Extension β))
    (h : extContentParser d t extLen = some p) : Al [] p := by
  unfold extContentParser at h
  cases hf : (extTable extLen : List (Nat × Arms × Parser β (Extension β))).find? (fun e => e.1 == t && e.2.1.has d) with
  | none => simp [hf] at h
  | some e =>
    simp [hf] at h
    subst h
    exact extTable_al extLen e (List.mem_of_find?_eq_some hf)

/-- **single extension** (three dispatchers): every slice of the typed variant lies inside the extension's own
    `4 + len` bytes — in fact inside its data -/
theorem parseExtensionD_al {ctx : List (List β)} (d : Dispatcher) : Al ctx (parseExtensionD d : Parser β _) := by
  unfold parseExtensionD
  refine Al.bind (Al.beU (β := β) 2) (fun t => Al.bind (Al.lengthData (β := β) 2) (fun data => ?_))
  by_cases hg : isGrease t = true
  · simp only [hg, if_true]
    exact Al.pure _ (by intro s hs; simp [slices] at hs; subst hs; exact Inside.self (by simp))
  · simp only [hg]
    cases hp : (extContentParser d t (data.length % 65536) : Option (Parser β (Extension β))) with
    | none =>
      simp only [Bool.false_eq_true, if_false]
      exact Al.pure _ (by intro s hs; simp [slices] at hs; subst hs; exact Inside.self (by simp))
    | some p =>
      simp only [Bool.false_eq_true, if_false]
      exact Al.sub data (Inside.self (by simp)) (extContentParser_al d t _ p hp) (by intro m s hs; exact hs)
macro_rules | `(tactic| alias_step) => `(tactic| exact parseExtensionD_al _)
theorem parseExtensionsD_al {ctx : List (List β)} (d : Dispatcher) : Al ctx (parseExtensionsD d : Parser β _) := by
  unfold parseExtensionsD; alias

/-! ### key-exchange parameters, signatures, SCTs -/

theorem parseDhParams_al {ctx : List (List β)} : Al ctx (parseDhParams : Parser β _) := by unfold parseDhParams; alias
theorem parseExplicitPrime_al {ctx : List (List β)} : Al ctx (parseExplicitPrime : Parser β _) := by unfold parseExplicitPrime; alias
macro_rules | `(tactic| alias_step) => `(tactic| exact parseExplicitPrime_al)
theorem parseEcContent_al {ctx : List (List β)} (ct : Nat) : Al ctx (parseEcContent ct : Parser β _) := by unfold parseEcContent; alias
macro_rules | `(tactic| alias_step) => `(tactic| exact parseEcContent_al _)
theorem parseEcParameters_al {ctx : List (List β)} : Al ctx (parseEcParameters : Parser β _) := by unfold parseEcParameters; alias
macro_rules | `(tactic| alias_step) => `(tactic| exact parseEcParameters_al)
theorem parseEcdhParams_al {ctx : List (List β)} : Al ctx (parseEcdhParams : Parser β _) := by unfold parseEcdhParams; alias
theorem parseDigitallySignedOld_al {ctx : List (List β)} : Al ctx (parseDigitallySignedOld : Parser β _) := by
  unfold parseDigitallySignedOld; alias
theorem parseDigitallySigned_al {ctx : List (List β)} : Al ctx (parseDigitallySigned : Parser β _) := by
  unfold parseDigitallySigned; alias
macro_rules | `(tactic| alias_step) => `(tactic| first | exact parseDigitallySigned_al | exact parseDigitallySignedOld_al)
theorem parseContentAndSignature_al {α : Type} [Slices β α] {ctx : List (List β)} {f : Parser β α} (hf : Al ctx f) (ext : Bool) :
    Al ctx (parseContentAndSignature f ext) := by
  unfold parseContentAndSignature; alias
omit [ByteLike β] in
theorem parseLogId_al {ctx : List (List β)} : Al ctx (parseLogId : Parser β _) := by unfold parseLogId; alias
macro_rules | `(tactic| alias_step) => `(tactic| exact parseLogId_al)
theorem parseSctContentEntry_al {ctx : List (List β)} : Al ctx (parseSctContentEntry : Parser β _) := by
  unfold parseSctContentEntry; alias
macro_rules | `(tactic| alias_step) => `(tactic| exact parseSctContentEntry_al)
theorem parseSct_al {ctx : List (List β)} : Al ctx (parseSct : Parser β _) := by unfold parseSct; alias
macro_rules | `(tactic| alias_step) => `(tactic| exact parseSct_al)
theorem parseSctList_al {ctx : List (List β)} : Al ctx (parseSctList : Parser β _) := by unfold parseSctList; alias

/-! ### DTLS -/

theorem parseDtlsRecordHeader_al {ctx : List (List β)} : Al ctx (parseDtlsRecordHeader : Parser β _) := by
  unfold parseDtlsRecordHeader; alias
macro_rules | `(tactic| alias_step) => `(tactic| exact parseDtlsRecordHeader_al)
theorem parseDtlsClientHello_al {ctx : List (List β)} : Al ctx (parseDtlsClientHello : Parser β _) := by
  unfold parseDtlsClientHello; alias
theorem parseDtlsHelloVerifyRequest_al {ctx : List (List β)} : Al ctx (parseDtlsHelloVerifyRequest : Parser β _) := by
  unfold parseDtlsHelloVerifyRequest; alias
macro_rules | `(tactic| alias_step) => `(tactic| first | exact parseDtlsClientHello_al | exact parseDtlsHelloVerifyRequest_al)
theorem parseDtlsBody_al {ctx : List (List β)} (t l : Nat) (f : Bool) : Al ctx (parseDtlsBody t l f : Parser β _) := by
  unfold parseDtlsBody; alias
macro_rules | `(tactic| alias_step) => `(tactic| exact parseDtlsBody_al _ _ _)
theorem parseDtlsMessageHandshake_al {ctx : List (List β)} : Al ctx (parseDtlsMessageHandshake : Parser β _) := by
  unfold parseDtlsMessageHandshake; alias
theorem parseDtlsMessageCCS_al {ctx : List (List β)} : Al ctx (parseDtlsMessageCCS : Parser β _) := by
  unfold parseDtlsMessageCCS; alias
theorem parseDtlsMessageAlert_al {ctx : List (List β)} : Al ctx (parseDtlsMessageAlert : Parser β _) := by
  unfold parseDtlsMessageAlert; alias
macro_rules | `(tactic| alias_step) => `(tactic| first
  | exact parseDtlsMessageHandshake_al | exact parseDtlsMessageCCS_al | exact parseDtlsMessageAlert_al)
theorem parseDtlsRecordWithHeader_al {ctx : List (List β)} (h : DtlsHeader) : Al ctx (parseDtlsRecordWithHeader h : Parser β _) := by
  unfold parseDtlsRecordWithHeader; alias
macro_rules | `(tactic| alias_step) => `(tactic| exact parseDtlsRecordWithHeader_al _)
/-- **DTLS record** -/
theorem parseDtlsPlaintextRecord_al {ctx : List (List β)} : Al ctx (parseDtlsPlaintextRecord : Parser β _) := by
  unfold parseDtlsPlaintextRecord; alias
macro_rules | `(tactic| alias_step) => `(tactic| exact parseDtlsPlaintextRecord_al)
theorem parseDtlsPlaintextRecords_al {ctx : List (List β)} : Al ctx (parseDtlsPlaintextRecords : Parser β _) := by
  unfold parseDtlsPlaintextRecords; alias

end Tls

namespace Tls
variable {β : Type} [ByteLike β]

/-! ### the property in its own words -/

/-- every byte slice reachable from a returned value is an infix of the consumed part of the caller's buffer -/
theorem zero_copy {α : Type} [Slices β α] {p : Parser β α} (hp : Al [] p) (i r : List β) (v : α) (h : p i = .ok r v) :
    ∃ c, i = c ++ r ∧ ∀ s ∈ (slices v : List (List β)), s <:+: c := Al.infix hp h

theorem plaintext_zero_copy (i r : List β) (v : Plaintext β) (h : parsePlaintext i = .ok r v) :
    ∃ c, i = c ++ r ∧ ∀ s ∈ (slices v : List (List β)), s <:+: c := zero_copy parsePlaintext_al i r v h
theorem dtlsRecord_zero_copy (i r : List β) (v : DtlsPlaintext β) (h : parseDtlsPlaintextRecord i = .ok r v) :
    ∃ c, i = c ++ r ∧ ∀ s ∈ (slices v : List (List β)), s <:+: c := zero_copy parseDtlsPlaintextRecord_al i r v h
theorem handshake_zero_copy (i r : List β) (v : Message β) (h : parseMessageHandshake i = .ok r v) :
    ∃ c, i = c ++ r ∧ ∀ s ∈ (slices v : List (List β)), s <:+: c := zero_copy parseMessageHandshake_al i r v h
theorem extension_zero_copy (d : Dispatcher) (i r : List β) (v : Extension β) (h : parseExtensionD d i = .ok r v) :
    ∃ c, i = c ++ r ∧ ∀ s ∈ (slices v : List (List β)), s <:+: c := zero_copy (parseExtensionD_al d) i r v h
theorem extensions_zero_copy (d : Dispatcher) (i r : List β) (v : List (Extension β)) (h : parseExtensionsD d i = .ok r v) :
    ∃ c, i = c ++ r ∧ ∀ s ∈ (slices v : List (List β)), s <:+: c := zero_copy (parseExtensionsD_al d) i r v h
theorem sct_zero_copy (i r : List β) (v : SCT β) (h : parseSct i = .ok r v) :
    ∃ c, i = c ++ r ∧ ∀ s ∈ (slices v : List (List β)), s <:+: c := zero_copy parseSct_al i r v h
theorem sctList_zero_copy (i r : List β) (v : List (SCT β)) (h : parseSctList i = .ok r v) :
    ∃ c, i = c ++ r ∧ ∀ s ∈ (slices v : List (List β)), s <:+: c := zero_copy parseSctList_al i r v h
theorem dhParams_zero_copy (i r : List β) (v : DHParams β) (h : parseDhParams i = .ok r v) :
    ∃ c, i = c ++ r ∧ ∀ s ∈ (slices v : List (List β)), s <:+: c := zero_copy parseDhParams_al i r v h
theorem ecdhParams_zero_copy (i r : List β) (v : ECDHParams β) (h : parseEcdhParams i = .ok r v) :
    ∃ c, i = c ++ r ∧ ∀ s ∈ (slices v : List (List β)), s <:+: c := zero_copy parseEcdhParams_al i r v h
theorem ecParameters_zero_copy (i r : List β) (v : ECParameters β) (h : parseEcParameters i = .ok r v) :
    ∃ c, i = c ++ r ∧ ∀ s ∈ (slices v : List (List β)), s <:+: c := zero_copy parseEcParameters_al i r v h
theorem digitallySigned_zero_copy (i r : List β) (v : DigitallySigned β) (h : parseDigitallySigned i = .ok r v) :
    ∃ c, i = c ++ r ∧ ∀ s ∈ (slices v : List (List β)), s <:+: c := zero_copy parseDigitallySigned_al i r v h
theorem tlsParserMany_zero_copy (i r : List β) (v : List (Plaintext β)) (h : tlsParserMany i = .ok r v) :
    ∃ c, i = c ++ r ∧ ∀ s ∈ (slices v : List (List β)), s <:+: c := zero_copy tlsParserMany_al i r v h

/-- on a buffer whose elements are pairwise distinct (position-tagged bytes) a non-empty infix sits at exactly one
    place: "is an infix of the consumed bytes" is "points into the consumed bytes" -/
theorem infix_position_unique {γ : Type} (l s a b a' b' : List γ) (hn : l.Nodup) (hs : s ≠ [])
    (h1 : l = a ++ (s ++ b)) (h2 : l = a' ++ (s ++ b')) : a = a' ∧ b = b' := by
  obtain ⟨x, s', rfl⟩ := List.exists_cons_of_ne_nil hs
  have key : ∀ (a a' b b' : List γ), l = a ++ (x :: s' ++ b) → l = a' ++ (x :: s' ++ b') → a.length ≤ a'.length → a = a' := by
    intro a a' b b' h1 h2 hle
    have e : a ++ (x :: s' ++ b) = a' ++ (x :: s' ++ b') := by rw [← h1, ← h2]
    rcases List.append_eq_append_iff.mp e with ⟨c, hc1, hc2⟩ | ⟨c, hc1, hc2⟩
    · -- a' = a ++ c
      cases c with
      | nil => simpa using hc1.symm
      | cons y c' =>
        exfalso
        simp only [List.cons_append] at hc2
        have hxy : x = y := (List.cons.inj hc2).1
        subst hxy
        rw [h2, hc1] at hn
        simp only [List.append_assoc, List.cons_append] at hn
        have := (List.nodup_append.mp hn).2.1
        simp at this
    · -- a = a' ++ c
      cases c with
      | nil => simpa using hc1
      | cons y c' =>
        exfalso
        have : a.length = a'.length + (c'.length + 1) := by rw [hc1]; simp
        omega
  rcases Nat.le_total a.length a'.length with hle | hle
  · have ha := key a a' b b' h1 h2 hle
    subst ha
    refine ⟨rfl, ?_⟩
    have e : a ++ (x :: s' ++ b) = a ++ (x :: s' ++ b') := by rw [← h1, ← h2]
    simpa using e
  · have ha := key a' a b' b h2 h1 hle
    subst ha
    refine ⟨rfl, ?_⟩
    have e : a' ++ (x :: s' ++ b) = a' ++ (x :: s' ++ b') := by rw [← h1, ← h2]
    simpa using e

/-! ### the defragmenter: results alias the caller's record or the defragmentation buffer, nothing else -/

theorem rpNocopy_alias {α : Type} [Slices β α] (R : RecordHeader → Parser β α) (hR : ∀ h, Al [] (R h))
    (s s' : RPState β) (r : RawRecord β) (rem : List β) (v : α) (h : rpNocopy R s r = (s', .ok rem v)) :
    ∀ sl ∈ (slices v : List (List β)), sl <:+: r.data := by
  unfold rpNocopy at h
  split at h
  · simp at h
  · split at h
    · simp at h
    · simp only [Prod.mk.injEq] at h
      obtain ⟨c, hc, hs⟩ := Al.infix (hR r.hdr) h.2
      intro sl hsl
      exact (hs sl hsl).trans (by rw [hc]; exact List.infix_append' [] c rem |>.trans (by simp))

theorem rpParse_alias {α : Type} [Slices β α] (R : RecordHeader → Parser β α) (hR : ∀ h, Al [] (R h))
    (s s' : RPState β) (r : RawRecord β) (rem : List β) (v : α) (h : rpParse R s r = (s', .ok rem v)) :
    (s.inProgress = false ∧ ∀ sl ∈ (slices v : List (List β)), sl <:+: r.data) ∨
    (s.inProgress = true ∧ s'.buf = s.buf ++ copyInto s.buf.length r.data ∧ ∀ sl ∈ (slices v : List (List β)), sl <:+: s'.buf) := by
  unfold rpParse at h
  cases hip : s.inProgress with
  | false =>
    left; refine ⟨rfl, ?_⟩
    simp only [hip, Bool.not_false, if_true] at h
    split at h
    · exact rpNocopy_alias R hR s s' r rem v h
    · split at h
      · rename_i rem' v' heq
        simp only [Prod.mk.injEq, Res.ok.injEq] at h
        obtain ⟨_, h1, h2⟩ := h
        subst h1 h2
        obtain ⟨c, hc, hs⟩ := Al.infix (hR r.hdr) heq
        intro sl hsl
        exact (hs sl hsl).trans (by rw [hc]; exact List.infix_append' [] c rem' |>.trans (by simp))
      · split at h <;> simp at h
        rename_i res hne _
        obtain ⟨_, h2⟩ := h
        exact absurd h2 (hne rem v)
  | true =>
    right; refine ⟨rfl, ?_⟩
    simp only [hip, Bool.not_true, Bool.false_eq_true, if_false] at h
    split at h
    · simp at h
    · split at h
      · simp at h
      · split at h
        · rename_i rem' v' heq
          simp only [Prod.mk.injEq, Res.ok.injEq] at h
          obtain ⟨hs', h1, h2⟩ := h
          subst h1 h2 hs'
          refine ⟨rfl, ?_⟩
          obtain ⟨c, hc, hs⟩ := Al.infix (hR _) heq
          intro sl hsl
          exact (hs sl hsl).trans (by simp only; rw [hc]; exact List.infix_append' [] c rem' |>.trans (by simp))
        · rename_i res hne
          split at h
          · simp at h
          · simp only [Prod.mk.injEq] at h
            exact absurd h.2 (hne rem v)

/-- instantiated with the real record-payload parser -/
theorem recordsParser_zero_copy (s s' : RPState β) (r : RawRecord β) (rem : List β) (v : List (Message β))
    (h : rpParse parseRecordWithHeader s r = (s', .ok rem v)) :
    (s.inProgress = false ∧ ∀ sl ∈ (slices v : List (List β)), sl <:+: r.data) ∨
    (s.inProgress = true ∧ s'.buf = s.buf ++ copyInto s.buf.length r.data ∧ ∀ sl ∈ (slices v : List (List β)), sl <:+: s'.buf) :=
  rpParse_alias parseRecordWithHeader (fun h => parseRecordWithHeader_al h) s s' r rem v h

/-! ### non-vacuity: concrete accepted inputs whose values do hold slices -/

example : ∃ r v, parsePlaintext (β := Fin 256) [22, 3, 3, 0, 6, 14, 0, 0, 2, 7, 8, 9] = .ok r v ∧
    (slices v : List (List (Fin 256))) = [[7, 8]] :=
  ⟨[9], ⟨⟨22, 771, 6⟩, [.handshake (.serverDone [7, 8])]⟩, by decide +kernel, by decide +kernel⟩
example : ∃ r v, parseExtensionD (β := Fin 256) .generic [0, 16, 0, 5, 0, 3, 2, 104, 50, 1] = .ok r v ∧
    (slices v : List (List (Fin 256))) = [[104, 50]] :=
  ⟨[1], .alpn [[104, 50]], by decide +kernel, by decide +kernel⟩
example : ([7, 8] : List (Fin 256)) <:+: [22, 3, 3, 0, 6, 14, 0, 0, 2, 7, 8] := ⟨[22, 3, 3, 0, 6, 14, 0, 0, 2], [], by decide⟩

end Tls
