/-
  Props/C07.lean — the record defragmenter equals accumulate-then-parse, with its safety limits.
  All theorems are generic in the one-shot payload parser `R` (and hold in particular for
  `parseRecordWithHeader`), and in the byte type.
-/
import TlsModel.RecordsParser
import TlsModel.Props.C01
namespace Tls
variable {β α : Type} [ByteLike β]

/-- "this is a fragment": what makes `parse_record` start / continue buffering -/
def fragLike (r : Res β α) : Bool := r.isIncomplete || isCompleteErr r

/-- non-fragmentable content types -/
def noDefrag (t : Nat) : Prop := t = 0x15 ∨ t = 0x14

/-! ### fast path and refusals -/

/-- **fast path**: a record that parses on its own is returned as is, nothing is buffered, the state is unchanged -/
theorem fast_path (R : RecordHeader → Parser β α) (s : RPState β) (r : RawRecord β)
    (hs : s.inProgress = false) (rem : List β) (v : α) (hok : R r.hdr r.data = .ok rem v) :
    rpParse R s r = (s, .ok rem v) := by
  unfold rpParse
  simp only [hs, Bool.not_false, if_true]
  split
  · simp [rpNocopy, hs, hok, isCompleteErr]
  · simp [hok]

/-- **refusal Tag**: while defragmenting, another content type is refused, state unchanged -/
theorem refuse_other_type (R : RecordHeader → Parser β α) (s : RPState β) (r : RawRecord β)
    (hs : s.inProgress = true) (ht : some r.hdr.recordType ≠ s.cur) :
    rpParse R s r = (s, .error .Tag) := by
  simp [rpParse, hs, ht]

/-- **refusal TooLarge**: a fragment that would bring the buffer to 10 MiB is refused, state unchanged -/
theorem refuse_too_large (R : RecordHeader → Parser β α) (s : RPState β) (r : RawRecord β)
    (hs : s.inProgress = true) (ht : some r.hdr.recordType = s.cur)
    (hbig : s.buf.length + r.data.length ≥ maxRecordData) :
    rpParse R s r = (s, .error .TooLarge) := by
  simp [rpParse, hs, ht, hbig]

/-- **refusal NonEmpty**: `parse_record_nocopy` refuses while defragmenting, state unchanged -/
theorem nocopy_refuses (R : RecordHeader → Parser β α) (s : RPState β) (r : RawRecord β)
    (hs : s.inProgress = true) :
    rpNocopy R s r = (s, .failure .NonEmpty) := by
  simp [rpNocopy, hs]

/-- `parse_record_nocopy` never changes the state -/
theorem nocopy_state (R : RecordHeader → Parser β α) (s : RPState β) (r : RawRecord β) :
    (rpNocopy R s r).1 = s := by
  unfold rpNocopy
  split
  · rfl
  · split <;> rfl

/-! ### buffer bound -/

theorem copyInto_length (o : Nat) (l : List β) : (copyInto o l).length = l.length := by
  induction l generalizing o with
  | nil => rfl
  | cons b l ih => simp [copyInto, ih]

/-- one `parse_record` keeps the buffer below 10 MiB, for records shorter than 10 MiB -/
theorem rpParse_buffer_bound (R : RecordHeader → Parser β α) (s : RPState β) (r : RawRecord β)
    (hinv : s.buf.length < maxRecordData) (hr : r.data.length < maxRecordData) :
    (rpParse R s r).1.buf.length < maxRecordData := by
  unfold rpParse
  by_cases hs : s.inProgress = true
  · simp only [hs, Bool.not_true, Bool.false_eq_true, if_false]
    split; · exact hinv
    split; · exact hinv
    rename_i _ hcap
    have : (s.buf ++ copyInto s.buf.length r.data).length < maxRecordData := by
      simp [copyInto_length]; omega
    split
    · exact this
    · split <;> exact this
  · simp only [hs, Bool.not_false, if_true]
    split
    · rw [nocopy_state]; exact hinv
    · split
      · exact hinv
      · split
        · simpa [copyInto_length] using hr
        · exact hinv

/-- **buffer bound**: for every history whose records are within the record-length cap (indeed: below
    10 MiB), every reachable state has a buffer shorter than 10 MiB -/
theorem buffer_bound (R : RecordHeader → Parser β α) (ops : List (RPOp β)) (s : RPState β)
    (hinv : s.buf.length < maxRecordData)
    (hops : ∀ op ∈ ops, match op with
      | .parse r => r.data.length ≤ 16640
      | _ => True) :
    (rpRun R s ops).1.buf.length < maxRecordData := by
  induction ops generalizing s with
  | nil => simpa [rpRun]
  | cons op ops ih =>
    simp only [rpRun]
    apply ih
    · cases op with
      | reset => simp [rpStep, RPState.init, maxRecordData]
      | nocopy r => simp only [rpStep]; rw [nocopy_state]; exact hinv
      | parse r =>
        simp only [rpStep]
        have := hops (.parse r) (by simp)
        simp only at this
        exact rpParse_buffer_bound R s r hinv (by simp [maxRecordData]; omega)
    · intro op' h'; exact hops op' (by simp [h'])

/-! ### fresh-equivalence: a parser that is not defragmenting behaves like a fresh one -/

/-- two states are equivalent when they agree on `current_record_type` and, if defragmenting, on the buffer
    (the buffer left over after a completed message is never read again) -/
def RPState.equiv (s₁ s₂ : RPState β) : Prop := s₁.cur = s₂.cur ∧ (s₁.cur ≠ none → s₁.buf = s₂.buf)

theorem rpNocopy_equiv (R : RecordHeader → Parser β α) (s₁ s₂ : RPState β) (h : s₁.equiv s₂) (r : RawRecord β) :
    (rpNocopy R s₁ r).2 = (rpNocopy R s₂ r).2 ∧ (rpNocopy R s₁ r).1.equiv (rpNocopy R s₂ r).1 := by
  have hp : s₁.inProgress = s₂.inProgress := by simp [RPState.inProgress, h.1]
  refine ⟨?_, by rw [nocopy_state, nocopy_state]; exact h⟩
  unfold rpNocopy; rw [hp]
  split
  · rfl
  · split <;> rfl

theorem rpParse_equiv (R : RecordHeader → Parser β α) (s₁ s₂ : RPState β) (h : s₁.equiv s₂) (r : RawRecord β) :
    (rpParse R s₁ r).2 = (rpParse R s₂ r).2 ∧ (rpParse R s₁ r).1.equiv (rpParse R s₂ r).1 := by
  have hp : s₁.inProgress = s₂.inProgress := by simp [RPState.inProgress, h.1]
  by_cases hs : s₁.inProgress = true
  · have hcur : s₁.cur ≠ none := by
      intro hc; simp [RPState.inProgress, hc] at hs
    have hbuf := h.2 hcur
    have hs2 : s₂.inProgress = true := hp ▸ hs
    obtain ⟨b1, c1⟩ := s₁; obtain ⟨b2, c2⟩ := s₂
    simp only [RPState.equiv] at h hbuf hcur
    obtain ⟨rfl, _⟩ := h
    subst hbuf
    exact ⟨rfl, rfl, fun _ => rfl⟩
  · have hs2 : ¬ s₂.inProgress = true := hp ▸ hs
    unfold rpParse
    simp only [hs, hs2, Bool.not_false, if_true]
    split
    · exact rpNocopy_equiv R s₁ s₂ h r
    · split
      · exact ⟨rfl, h⟩
      · split
        · exact ⟨rfl, rfl, fun _ => rfl⟩
        · exact ⟨rfl, h⟩

theorem rpRun_equiv (R : RecordHeader → Parser β α) (ops : List (RPOp β)) (s₁ s₂ : RPState β) (h : s₁.equiv s₂) :
    (rpRun R s₁ ops).2 = (rpRun R s₂ ops).2 := by
  induction ops generalizing s₁ s₂ with
  | nil => rfl
  | cons op ops ih =>
    simp only [rpRun]
    cases op with
    | reset => simp [rpStep]
    | nocopy r =>
      obtain ⟨ho, hs⟩ := rpNocopy_equiv R s₁ s₂ h r
      simp only [rpStep, ho]; rw [ih _ _ hs]
    | parse r =>
      obtain ⟨ho, hs⟩ := rpParse_equiv R s₁ s₂ h r
      simp only [rpStep, ho]; rw [ih _ _ hs]

/-- **fresh after a completed message / after reset**: whenever the parser is not defragmenting — whatever
    is left in its buffer from earlier records — every future output equals that of a fresh parser;
    no byte of earlier records can appear in later results. -/
theorem idle_behaves_fresh (R : RecordHeader → Parser β α) (s : RPState β) (hs : s.cur = none)
    (ops : List (RPOp β)) : (rpRun R s ops).2 = (rpRun R RPState.init ops).2 :=
  rpRun_equiv R ops s RPState.init ⟨hs, fun h => absurd hs h⟩

theorem reset_is_fresh (R : RecordHeader → Parser β α) (s : RPState β) : (rpStep R s .reset).1 = RPState.init := rfl

/-! ### accumulate-then-parse -/

/-- the pseudo header built for a continuation: the record's header with `len = buffer length as u16` -/
def pseudoHdr (h : RecordHeader) (buf : List β) : RecordHeader := { h with len := buf.length % 65536 }

/-- Hypotheses of a continuation phase, by recursion on the fragments still to come: every fragment has
    the content type being defragmented and fits under the cap; on every proper prefix-concatenation `R`
    answers like a fragment; on the whole it answers `final`. -/
def ContHyp (R : RecordHeader → Parser β α) (t : Nat) : List β → List (RawRecord β) → RawRecord β → Res β α → Prop
  | acc, [], last, final =>
      last.hdr.recordType = t ∧ acc.length + last.data.length < maxRecordData ∧
      R (pseudoHdr last.hdr (acc ++ copyInto acc.length last.data)) (acc ++ copyInto acc.length last.data) = final
  | acc, r :: rs, last, final =>
      r.hdr.recordType = t ∧ acc.length + r.data.length < maxRecordData ∧
      fragLike (R (pseudoHdr r.hdr (acc ++ copyInto acc.length r.data)) (acc ++ copyInto acc.length r.data)) = true ∧
      ContHyp R t (acc ++ copyInto acc.length r.data) rs last final

/-- the buffer after all continuation fragments -/
def accAll : List β → List (RawRecord β) → List β
  | acc, [] => acc
  | acc, r :: rs => accAll (acc ++ copyInto acc.length r.data) rs

theorem cont_inner (res : Res β α) (buf : List β) (t : Nat) (hf : fragLike res = true) :
    ∃ o, (match res with
      | .ok rem v => ((⟨buf, none⟩ : RPState β), Res.ok rem v)
      | res => if isCompleteErr res then (⟨buf, some t⟩, .incomplete .unknown) else (⟨buf, some t⟩, res))
      = (⟨buf, some t⟩, o) ∧ o.isIncomplete = true := by
  cases res with
  | ok rem v => simp [fragLike, Res.isIncomplete, isCompleteErr] at hf
  | incomplete n => exact ⟨.incomplete n, by simp [isCompleteErr], rfl⟩
  | error k => cases k <;> simp [fragLike, Res.isIncomplete, isCompleteErr] at hf ⊢
  | failure k => cases k <;> simp [fragLike, Res.isIncomplete, isCompleteErr] at hf ⊢
  | panic => simp [fragLike, Res.isIncomplete, isCompleteErr] at hf

theorem cont_step_frag (R : RecordHeader → Parser β α) (t : Nat) (acc : List β) (r : RawRecord β)
    (ht : r.hdr.recordType = t) (hcap : acc.length + r.data.length < maxRecordData)
    (hf : fragLike (R (pseudoHdr r.hdr (acc ++ copyInto acc.length r.data)) (acc ++ copyInto acc.length r.data)) = true) :
    ∃ o, rpParse R ⟨acc, some t⟩ r = (⟨acc ++ copyInto acc.length r.data, some t⟩, o) ∧ o.isIncomplete = true := by
  subst ht
  have hcap' : ¬ (acc.length + r.data.length ≥ maxRecordData) := by omega
  unfold rpParse
  simp only [RPState.inProgress, Option.isSome_some, Bool.not_true, Bool.false_eq_true, if_false,
    ne_eq, not_true_eq_false, hcap']
  exact cont_inner _ _ _ hf

theorem cont_step_last (R : RecordHeader → Parser β α) (t : Nat) (acc : List β) (r : RawRecord β)
    (ht : r.hdr.recordType = t) (hcap : acc.length + r.data.length < maxRecordData) (rem : List β) (v : α)
    (hok : R (pseudoHdr r.hdr (acc ++ copyInto acc.length r.data)) (acc ++ copyInto acc.length r.data) = .ok rem v) :
    rpParse R ⟨acc, some t⟩ r = (⟨acc ++ copyInto acc.length r.data, none⟩, .ok rem v) := by
  subst ht
  have hcap' : ¬ (acc.length + r.data.length ≥ maxRecordData) := by omega
  unfold pseudoHdr at hok
  unfold rpParse
  simp only [RPState.inProgress, Option.isSome_some, Bool.not_true, Bool.false_eq_true, if_false,
    ne_eq, not_true_eq_false, hcap']
  rw [hok]

/-- **continuation phase**: from a defragmenting state, fragments that are fragment-like are all answered
    `Incomplete` with defragmentation still in progress, and the last one — on which the payload parser
    succeeds on the accumulated bytes — returns exactly that result and ends defragmentation. -/
theorem continuation_phase (R : RecordHeader → Parser β α) (t : Nat) (rs : List (RawRecord β)) (last : RawRecord β)
    (acc rem : List β) (v : α) (h : ContHyp R t acc rs last (.ok rem v)) :
    ∃ outs, (rpRun R ⟨acc, some t⟩ ((rs.map .parse) ++ [.parse last])).2 = outs ++ [some (.ok rem v)] ∧
      outs.length = rs.length ∧ (∀ o ∈ outs, ∃ r, o = some r ∧ r.isIncomplete = true) ∧
      (rpRun R ⟨acc, some t⟩ ((rs.map .parse) ++ [.parse last])).1 =
        ⟨accAll acc (rs ++ [last]), none⟩ := by
  induction rs generalizing acc with
  | nil =>
    obtain ⟨ht, hcap, hok⟩ := h
    refine ⟨[], ?_, rfl, by simp, ?_⟩ <;>
      simp [rpRun, rpStep, cont_step_last R t acc last ht hcap rem v hok, accAll]
  | cons r rs ih =>
    obtain ⟨ht, hcap, hf, hrest⟩ := h
    obtain ⟨o, hstep, hinc⟩ := cont_step_frag R t acc r ht hcap hf
    obtain ⟨outs, h1, h2, h3, h4⟩ := ih _ hrest
    refine ⟨some o :: outs, ?_, by simp [h2], ?_, ?_⟩
    · simp only [List.map_cons, List.cons_append, rpRun, rpStep, hstep, h1]
    · intro o' ho'
      simp only [List.mem_cons] at ho'
      rcases ho' with rfl | ho'
      · exact ⟨o, rfl, hinc⟩
      · exact h3 o' ho'
    · simp only [List.map_cons, List.cons_append, rpRun, rpStep, hstep, h4, accAll]

/-- **first fragment**: a record of a fragmentable type on which the payload parser answers like a fragment
    starts defragmentation: `Incomplete`, in progress, buffer = (a copy of) the record's data -/
theorem first_inner (res : Res β α) (s s' : RPState β) (hf : fragLike res = true) :
    (match res with
      | .ok rem v => (s, Res.ok rem v)
      | res => if (res.isIncomplete || isCompleteErr res) = true then (s', .incomplete .unknown) else (s, res))
      = (s', .incomplete .unknown) := by
  cases res with
  | ok rem v => simp [fragLike, Res.isIncomplete, isCompleteErr] at hf
  | incomplete n => simp [Res.isIncomplete]
  | error k => cases k <;> simp [fragLike, Res.isIncomplete, isCompleteErr] at hf ⊢
  | failure k => cases k <;> simp [fragLike, Res.isIncomplete, isCompleteErr] at hf ⊢
  | panic => simp [fragLike, Res.isIncomplete, isCompleteErr] at hf

theorem first_fragment (R : RecordHeader → Parser β α) (s : RPState β) (r : RawRecord β)
    (hs : s.cur = none) (ht : ¬ noDefrag r.hdr.recordType) (hf : fragLike (R r.hdr r.data) = true) :
    rpParse R s r = (⟨copyInto 0 r.data, some r.hdr.recordType⟩, .incomplete .unknown) := by
  unfold rpParse
  have ht' : ¬ (r.hdr.recordType = 0x15 ∨ r.hdr.recordType = 0x14) := ht
  simp only [RPState.inProgress, hs, Option.isSome_none, Bool.not_false, if_true, ht', if_false]
  exact first_inner _ _ _ hf

/-- **accumulate-then-parse**: a payload split over `1 + rs.length + 1` records of one fragmentable type, the
    first message of which is completed only by the last record: every call but the last answers Incomplete
    with `defrag_in_progress()`, the last returns what the one-shot payload parser returns on the
    accumulated bytes (with the pseudo header `len = total as u16`) and ends defragmentation. -/
theorem accumulate_then_parse (R : RecordHeader → Parser β α) (s : RPState β) (hs : s.cur = none)
    (first : RawRecord β) (rs : List (RawRecord β)) (last : RawRecord β) (rem : List β) (v : α)
    (ht : ¬ noDefrag first.hdr.recordType) (hf : fragLike (R first.hdr first.data) = true)
    (h : ContHyp R first.hdr.recordType (copyInto 0 first.data) rs last (.ok rem v)) :
    ∃ outs, (rpRun R s (.parse first :: (rs.map .parse ++ [.parse last]))).2
        = some (.incomplete .unknown) :: (outs ++ [some (.ok rem v)]) ∧
      outs.length = rs.length ∧ (∀ o ∈ outs, ∃ r, o = some r ∧ r.isIncomplete = true) ∧
      (rpRun R s (.parse first :: (rs.map .parse ++ [.parse last]))).1.inProgress = false := by
  obtain ⟨outs, h1, h2, h3, h4⟩ := continuation_phase R _ rs last _ rem v h
  refine ⟨outs, ?_, h2, h3, ?_⟩
  · simp only [rpRun, rpStep, first_fragment R s first hs ht hf, h1]
  · simp only [rpRun, rpStep, first_fragment R s first hs ht hf, h4, RPState.inProgress, Option.isSome_none]

/-- the accumulated buffer is (a copy of) the concatenation of the fragments -/
theorem copyInto_append (o : Nat) (a b : List β) : copyInto o (a ++ b) = copyInto o a ++ copyInto (o + a.length) b := by
  induction a generalizing o with
  | nil => simp [copyInto]
  | cons x a ih => simp [copyInto, ih, Nat.add_assoc, Nat.add_comm 1]

theorem accAll_eq_concat (d : List β) (rs : List (RawRecord β)) :
    accAll (copyInto 0 d) rs = copyInto 0 (d ++ (rs.map (·.data)).flatten) := by
  induction rs generalizing d with
  | nil => simp [accAll]
  | cons r rs ih =>
    simp only [accAll, copyInto_length, List.map_cons, List.flatten_cons]
    have := copyInto_append 0 d r.data
    simp only [Nat.zero_add] at this
    rw [← this, ih, List.append_assoc]

/-- on plain bytes the copy is the identity: the buffer *is* the concatenation -/
theorem copyInto_uint8 (o : Nat) (l : List UInt8) : copyInto o l = l := by
  induction l generalizing o with
  | nil => rfl
  | cons b l ih => simp [copyInto, ih, ByteLike.copy]

/-! ### discharging the fragment hypothesis for handshake payloads -/

/-- a handshake payload whose first message is cut short (anywhere, including inside the 4-byte header)
    makes the one-shot payload parser answer `Error(Complete)`: it is a fragment for the defragmenter -/
theorem handshake_prefix_fragLike (hdr : RecordHeader) (hh : hdr.recordType = 0x16) (i : List β)
    (hcut : ∃ n, parseMessageHandshake i = .incomplete n) :
    parseRecordWithHeader hdr i = .error .Complete := by
  obtain ⟨n, hn⟩ := hcut
  simp [parseRecordWithHeader, hh, many1, complete, hn]

theorem handshake_cut_incomplete (i : List β) (h : i.length < 4 ∨ (4 ≤ i.length ∧ i.length < 4 + beVal ((i.drop 1).take 3))) :
    ∃ n, parseMessageHandshake i = .incomplete n := by
  unfold parseMessageHandshake
  rcases beU_cases 1 i with ⟨h1, e1⟩ | ⟨h1, e1⟩
  · rw [e1, Res.bind_ok]
    rcases beU_cases 3 (i.drop 1) with ⟨h2, e2⟩ | ⟨h2, e2⟩
    · rw [e2, Res.bind_ok]
      have h4 : 4 ≤ i.length := by rw [List.length_drop] at h2; omega
      rcases h with h | ⟨_, h⟩
      · omega
      · have hl : ((i.drop 1).drop 3).length = i.length - 4 := by rw [List.length_drop, List.length_drop]; omega
        have : ((i.drop 1).drop 3).length < beVal ((i.drop 1).take 3) := by rw [hl]; omega
        rw [take_of_gt this]; exact ⟨_, rfl⟩
    · rw [e2]; exact ⟨_, rfl⟩
  · rw [e1]; exact ⟨_, rfl⟩

/-! ### end to end for handshake payloads on plain bytes: any k-way split whose first message is completed only by the
     last record -/

/-- "the first handshake message of `x` is cut short": fewer than 4 bytes, or fewer than 4 + declared length -/
def firstMessageCut (x : List UInt8) : Prop :=
  x.length < 4 ∨ (4 ≤ x.length ∧ x.length < 4 + beVal ((x.drop 1).take 3))

theorem cut_fragLike (hdr : RecordHeader) (hh : hdr.recordType = 0x16) (x : List UInt8) (hc : firstMessageCut x) :
    fragLike (parseRecordWithHeader hdr x) = true := by
  rw [handshake_prefix_fragLike hdr hh x (handshake_cut_incomplete x hc)]
  rfl

/-- the hypotheses of the continuation phase follow from: every fragment is a handshake record, the running total stays
    below the cap, every proper prefix-concatenation cuts the first message, and the one-shot parser accepts the whole -/
theorem contHyp_of_cuts (acc : List UInt8) (rs : List (RawRecord UInt8)) (last : RawRecord UInt8) (rem : List UInt8)
    (v : List (Message UInt8))
    (ht : ∀ r ∈ rs ++ [last], r.hdr.recordType = 0x16)
    (hcap : acc.length + ((rs ++ [last]).map (·.data.length)).sum < maxRecordData)
    (hcut : ∀ k, k < rs.length → firstMessageCut (acc ++ ((rs.take (k + 1)).map (·.data)).flatten))
    (hfinal : parseRecordWithHeader (pseudoHdr last.hdr (acc ++ ((rs ++ [last]).map (·.data)).flatten))
                (acc ++ ((rs ++ [last]).map (·.data)).flatten) = .ok rem v) :
    ContHyp parseRecordWithHeader 0x16 acc rs last (.ok rem v) := by
  induction rs generalizing acc with
  | nil =>
    simp only [ContHyp, copyInto_uint8]
    refine ⟨ht last (by simp), by simpa using hcap, ?_⟩
    simpa using hfinal
  | cons r rs ih =>
    simp only [ContHyp, copyInto_uint8]
    have htr : r.hdr.recordType = 0x16 := ht r (by simp)
    refine ⟨htr, ?_, ?_, ?_⟩
    · simp only [List.cons_append, List.map_cons, List.sum_cons] at hcap; omega
    · have := hcut 0 (by simp)
      simp only [List.take_succ_cons, List.take_zero, List.map_cons, List.map_nil, List.flatten_cons, List.flatten_nil, List.append_nil] at this
      exact cut_fragLike _ (by simp [pseudoHdr, htr]) _ this
    · apply ih
      · intro x hx; exact ht x (by rw [List.cons_append]; exact List.mem_cons_of_mem _ hx)
      · simp only [List.cons_append, List.map_cons, List.sum_cons, List.length_append] at hcap ⊢
        omega
      · intro k hk
        have := hcut (k + 1) (by simp; omega)
        simpa [List.take_succ_cons, List.append_assoc] using this
      · simpa [List.append_assoc] using hfinal

/-- **C07 for handshake payloads, end to end** (plain bytes): a payload split into `1 + rs.length + 1` handshake
    records, cut anywhere (also inside the 4-byte handshake header, also with empty fragments), such that every
    proper prefix still cuts the first message: every call but the last answers Incomplete with defragmentation in
    progress; the last returns exactly what the one-shot parser returns on the unsplit payload (with the pseudo
    header) and ends defragmentation. -/
theorem handshake_split_refines (s : RPState UInt8) (hs : s.cur = none)
    (first : RawRecord UInt8) (rs : List (RawRecord UInt8)) (last : RawRecord UInt8) (rem : List UInt8) (v : List (Message UInt8))
    (ht : ∀ r ∈ first :: (rs ++ [last]), r.hdr.recordType = 0x16)
    (hcap : ((first :: (rs ++ [last])).map (·.data.length)).sum < maxRecordData)
    (hcut1 : firstMessageCut first.data)
    (hcut : ∀ k, k < rs.length → firstMessageCut (first.data ++ ((rs.take (k + 1)).map (·.data)).flatten))
    (hfinal : parseRecordWithHeader (pseudoHdr last.hdr (first.data ++ ((rs ++ [last]).map (·.data)).flatten))
                (first.data ++ ((rs ++ [last]).map (·.data)).flatten) = .ok rem v) :
    ∃ outs, (rpRun parseRecordWithHeader s (.parse first :: (rs.map .parse ++ [.parse last]))).2
        = some (.incomplete .unknown) :: (outs ++ [some (.ok rem v)]) ∧
      outs.length = rs.length ∧ (∀ o ∈ outs, ∃ r, o = some r ∧ r.isIncomplete = true) ∧
      (rpRun parseRecordWithHeader s (.parse first :: (rs.map .parse ++ [.parse last]))).1.inProgress = false := by
  have ht1 : first.hdr.recordType = 0x16 := ht first (by simp)
  apply accumulate_then_parse parseRecordWithHeader s hs first rs last rem v
  · simp [noDefrag, ht1]
  · exact cut_fragLike _ ht1 _ hcut1
  · rw [ht1, copyInto_uint8]
    apply contHyp_of_cuts
    · intro r hr; exact ht r (List.mem_cons_of_mem _ hr)
    · simp only [List.map_cons, List.sum_cons] at hcap; exact hcap
    · exact hcut
    · exact hfinal

/-! ### the other fragmentable content type: heartbeat (application data always parses; CCS / alert are never buffered) -/

/-- a heartbeat payload is cut short: fewer than the 3 header bytes, or fewer than 3 + payload_length bytes while the
    length the (pseudo-)header states is at least 3 (with a stated length below 3 the parser answers `Verify`, which is
    not a fragment: that is how the code is written, and the `as u16` of the pseudo header is part of it) -/
def heartbeatCut (stated : Nat) (x : List UInt8) : Prop :=
  x.length < 3 ∨ (3 ≤ stated ∧ x.length < 3 + beVal ((x.drop 1).take 2))

theorem heartbeat_cut_fragLike (hdr : RecordHeader) (hh : hdr.recordType = 0x18) (x : List UInt8)
    (hc : heartbeatCut hdr.len x) : fragLike (parseRecordWithHeader hdr x) = true := by
  have h18 : parseRecordWithHeader hdr x = complete (parseMessageHeartbeat hdr.len) x := by
    simp [parseRecordWithHeader, hh]
  rw [h18]
  unfold complete parseMessageHeartbeat
  rcases beU_cases 1 x with ⟨h1, e1⟩ | ⟨h1, e1⟩
  · rw [e1, Res.bind_ok]
    rcases beU_cases 2 (x.drop 1) with ⟨h2, e2⟩ | ⟨h2, e2⟩
    · rw [e2, Res.bind_ok]
      have h3 : 3 ≤ x.length := by rw [List.length_drop] at h2; omega
      rcases hc with hc | ⟨hst, hc⟩
      · omega
      · have hnot : ¬ hdr.len < 3 := by omega
        simp only [hnot, if_false]
        have hl : ((x.drop 1).drop 2).length = x.length - 3 := by rw [List.length_drop, List.length_drop]; omega
        have : ((x.drop 1).drop 2).length < beVal ((x.drop 1).take 2) := by rw [hl]; omega
        rw [take_of_gt this]; rfl
    · rw [e2]; rfl
  · rw [e1]; rfl

/-- continuation hypotheses from heartbeat cuts; the stated length of the pseudo header is the accumulated length `% 65536` -/
theorem contHyp_of_heartbeat_cuts (acc : List UInt8) (rs : List (RawRecord UInt8)) (last : RawRecord UInt8) (rem : List UInt8)
    (v : List (Message UInt8))
    (ht : ∀ r ∈ rs ++ [last], r.hdr.recordType = 0x18)
    (hcap : acc.length + ((rs ++ [last]).map (·.data.length)).sum < maxRecordData)
    (hcut : ∀ k, k < rs.length →
      heartbeatCut ((acc ++ ((rs.take (k + 1)).map (·.data)).flatten).length % 65536) (acc ++ ((rs.take (k + 1)).map (·.data)).flatten))
    (hfinal : parseRecordWithHeader (pseudoHdr last.hdr (acc ++ ((rs ++ [last]).map (·.data)).flatten))
                (acc ++ ((rs ++ [last]).map (·.data)).flatten) = .ok rem v) :
    ContHyp parseRecordWithHeader 0x18 acc rs last (.ok rem v) := by
  induction rs generalizing acc with
  | nil =>
    simp only [ContHyp, copyInto_uint8]
    refine ⟨ht last (by simp), by simpa using hcap, ?_⟩
    simpa using hfinal
  | cons r rs ih =>
    simp only [ContHyp, copyInto_uint8]
    have htr : r.hdr.recordType = 0x18 := ht r (by simp)
    refine ⟨htr, ?_, ?_, ?_⟩
    · simp only [List.cons_append, List.map_cons, List.sum_cons] at hcap; omega
    · have := hcut 0 (by simp)
      simp only [List.take_succ_cons, List.take_zero, List.map_cons, List.map_nil, List.flatten_cons, List.flatten_nil, List.append_nil] at this
      exact heartbeat_cut_fragLike _ (by simp [pseudoHdr, htr]) _ (by simpa [pseudoHdr] using this)
    · apply ih
      · intro x hx; exact ht x (by rw [List.cons_append]; exact List.mem_cons_of_mem _ hx)
      · simp only [List.cons_append, List.map_cons, List.sum_cons, List.length_append] at hcap ⊢
        omega
      · intro k hk
        have := hcut (k + 1) (by simp; omega)
        simpa [List.take_succ_cons, List.append_assoc] using this
      · simpa [List.append_assoc] using hfinal

/-- **C07 for heartbeat payloads, end to end** (plain bytes): a heartbeat record payload split into `1 + rs.length + 1`
    records such that every proper prefix is still cut (fewer than 3 + payload_length bytes; the first record states a
    length of at least 3 once it holds the 3 header bytes, later prefixes have their accumulated length `% 65536 ≥ 3`):
    every call but the last answers Incomplete with defragmentation in progress, the last returns what the one-shot
    parser returns on the unsplit payload under the pseudo header and ends defragmentation. -/
theorem heartbeat_split_refines (s : RPState UInt8) (hs : s.cur = none)
    (first : RawRecord UInt8) (rs : List (RawRecord UInt8)) (last : RawRecord UInt8) (rem : List UInt8) (v : List (Message UInt8))
    (ht : ∀ r ∈ first :: (rs ++ [last]), r.hdr.recordType = 0x18)
    (hcap : ((first :: (rs ++ [last])).map (·.data.length)).sum < maxRecordData)
    (hcut1 : heartbeatCut first.hdr.len first.data)
    (hcut : ∀ k, k < rs.length →
      heartbeatCut ((first.data ++ ((rs.take (k + 1)).map (·.data)).flatten).length % 65536)
        (first.data ++ ((rs.take (k + 1)).map (·.data)).flatten))
    (hfinal : parseRecordWithHeader (pseudoHdr last.hdr (first.data ++ ((rs ++ [last]).map (·.data)).flatten))
                (first.data ++ ((rs ++ [last]).map (·.data)).flatten) = .ok rem v) :
    ∃ outs, (rpRun parseRecordWithHeader s (.parse first :: (rs.map .parse ++ [.parse last]))).2
        = some (.incomplete .unknown) :: (outs ++ [some (.ok rem v)]) ∧
      outs.length = rs.length ∧ (∀ o ∈ outs, ∃ r, o = some r ∧ r.isIncomplete = true) ∧
      (rpRun parseRecordWithHeader s (.parse first :: (rs.map .parse ++ [.parse last]))).1.inProgress = false := by
  have ht1 : first.hdr.recordType = 0x18 := ht first (by simp)
  apply accumulate_then_parse parseRecordWithHeader s hs first rs last rem v
  · simp [noDefrag, ht1]
  · exact heartbeat_cut_fragLike _ ht1 _ hcut1
  · rw [ht1, copyInto_uint8]
    apply contHyp_of_heartbeat_cuts
    · intro r hr; exact ht r (List.mem_cons_of_mem _ hr)
    · simp only [List.map_cons, List.sum_cons] at hcap; exact hcap
    · exact hcut
    · exact hfinal

/-- application data never fragments: whatever the bytes, the one-shot parser succeeds, so `parse_record` answers at once
    from the caller's record (fast path) -/
theorem appdata_never_fragments (s : RPState β) (hs : s.inProgress = false) (r : RawRecord β) (hh : r.hdr.recordType = 0x17) :
    rpParse parseRecordWithHeader s r = (s, .ok [] [.applicationData r.data]) := by
  apply fast_path parseRecordWithHeader s r hs
  simp [parseRecordWithHeader, hh, mapP, parseMessageAppData, Res.map]

/-! ### non-vacuity: a heartbeat message (type 1, payload 2 bytes, 1 byte of padding) split 2 + 4 bytes -/
example : (rpRun (β := Fin 256) parseRecordWithHeader RPState.init
    [.parse ⟨⟨24, 771, 6⟩, [1, 0]⟩, .parse ⟨⟨24, 771, 4⟩, [2, 9, 9, 7]⟩]).2
    = [some (.incomplete .unknown), some (.ok [7] [.heartbeat 1 2 [9, 9]])] := by decide +kernel

/-- … and the corner the hypothesis excludes: a first fragment that holds the header but *states* a length below 3 is
    answered with the parser's `Verify` error, not buffered -/
example : (rpRun (β := Fin 256) parseRecordWithHeader RPState.init
    [.parse ⟨⟨24, 771, 2⟩, [1, 0, 2]⟩]).2 = [some (.error .Verify)] := by decide +kernel

/-! ### non-vacuity: a ServerHelloDone message split inside its 4-byte header (2 + 2 bytes) -/
example : (rpRun (β := Fin 256) parseRecordWithHeader RPState.init
    [.parse ⟨⟨22, 771, 2⟩, [14, 0]⟩, .parse ⟨⟨22, 771, 2⟩, [0, 0]⟩]).2
    = [some (.incomplete .unknown), some (.ok [] [.handshake (.serverDone [])])] := by decide +kernel

end Tls
