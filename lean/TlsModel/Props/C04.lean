/-
  Props/C04.lean — handshake messages decode to the values an RFC encoder wrote; structurally
  invalid bodies are rejected.
-/
import TlsModel.Encode
import TlsModel.Handshake
import TlsModel.Record
namespace Tls
variable {β : Type} [ByteLike β]

/-! ### helper lemmas on the manual list decoders -/

theorem chunks2_encU16s (cs : List Nat) (h : ∀ c ∈ cs, c < 65536) : chunks2 (encU16s cs : List β) = some cs := by
  induction cs with
  | nil => rfl
  | cons c cs ih =>
    have hc := h c (by simp)
    simp only [encU16s, chunks2, ih (fun c hc => h c (by simp [hc])), Option.map_some, ByteLike.toNat_ofNat]
    congr 2
    omega

@[simp] theorem encU16s_length (cs : List Nat) : (encU16s cs : List β).length = 2 * cs.length := by
  induction cs with
  | nil => rfl
  | cons c cs ih => simp only [encU16s, List.length_cons, ih]; omega

@[simp] theorem encBytes_length (l : List Nat) : (encBytes l : List β).length = l.length := by simp [encBytes]

theorem parseCipherSuites_enc (cs : List Nat) (h : ∀ c ∈ cs, c < 65536) (rest : List β) :
    parseCipherSuites (encU16s cs : List β).length (encU16s cs ++ rest) = .ok rest cs := by
  unfold parseCipherSuites
  cases cs with
  | nil => simp [encU16s]
  | cons c cs' =>
    have hlen : (encU16s (c :: cs') : List β).length ≠ 0 := by simp
    have hodd : ¬ ((encU16s (c :: cs') : List β).length % 2 = 1 ∨
        (encU16s (c :: cs') : List β).length > (encU16s (c :: cs') ++ rest).length) := by
      simp
    simp only [hlen, hodd, if_false]
    simp [chunks2_encU16s (c :: cs') h]

theorem toNat_encBytes (l : List Nat) (h : ∀ c ∈ l, c < 256) : (encBytes l : List β).map toNat = l := by
  induction l with
  | nil => rfl
  | cons c l ih =>
    simp only [encBytes, List.map_cons, ByteLike.toNat_ofNat] at *
    rw [ih (fun c hc => h c (by simp [hc])), Nat.mod_eq_of_lt (h c (by simp))]

theorem parseCompressionsAlgs_enc (l : List Nat) (h : ∀ c ∈ l, c < 256) (rest : List β) :
    parseCompressionsAlgs (encBytes l : List β).length (encBytes l ++ rest) = .ok rest l := by
  unfold parseCompressionsAlgs
  cases l with
  | nil => simp [encBytes]
  | cons c l' =>
    have hlen : (encBytes (c :: l') : List β).length ≠ 0 := by simp
    have hgt : ¬ ((encBytes (c :: l') : List β).length > (encBytes (c :: l') ++ rest).length) := by simp
    simp only [hlen, hgt, if_false]
    simp [toNat_encBytes (c :: l') h]

theorem optExtBlock_nil : optExtBlock ([] : List β) = .ok [] none := by
  simp [optExtBlock, opt, complete, lengthData, beU, Res.bind]

theorem optExtBlock_some (e : List β) (h : e.length < 65536) :
    optExtBlock (encLD 2 e) = .ok [] (some e) := by
  have := lengthData2_enc e h []
  simp only [List.append_nil] at this
  simp [optExtBlock, opt, complete, this]

/-- optional extension block at the end of a body -/
def WFOptExt : Option (List β) → Prop
  | none => True
  | some e => e.length < 65536

theorem optExtBlock_enc (e : Option (List β)) (h : WFOptExt e) : optExtBlock (encOptExt e) = .ok [] e := by
  cases e with
  | none => exact optExtBlock_nil
  | some e => exact optExtBlock_some e h

/-- session id: absent, or 1..32 bytes -/
def WFSid : Option (List β) → Prop
  | none => True
  | some s => 1 ≤ s.length ∧ s.length ≤ 32

theorem sid_enc (sid : Option (List β)) (h : WFSid sid) (rest : List β) :
    ((verify (beU 1) (fun n => decide (n ≤ 32)) (encSid sid ++ rest)).bind fun i sidlen =>
      cond (decide (sidlen > 0)) (take sidlen) i) = .ok rest sid := by
  cases sid with
  | none => simp [encSid, verify, beU1_enc, Res.bind, cond]
  | some s =>
    obtain ⟨h1, h2⟩ := h
    have h3 : s.length < 256 := by omega
    have h4 : 0 < s.length := by omega
    simp [encSid, encLD, List.append_assoc, verify, beU1_enc _ h3, Res.bind, h2, cond, h4, take_enc, Res.map]

/-! ### ClientHello -/

def WFClientHello (c : ClientHello β) : Prop :=
  c.version < 65536 ∧ c.random.length = 32 ∧ WFSid c.sessionId ∧ (∀ x ∈ c.ciphers, x < 65536) ∧
  2 * c.ciphers.length < 65536 ∧ (∀ x ∈ c.comp, x < 256) ∧ c.comp.length < 256 ∧ WFOptExt c.ext

theorem take32_enc (rnd rest : List β) (h : rnd.length = 32) : take 32 (rnd ++ rest) = .ok rest rnd := by
  have := take_enc rnd rest; rwa [h] at this

theorem clientHello_body_roundtrip (c : ClientHello β) (h : WFClientHello c) :
    parseClientHello (encClientHelloBody c) = .ok [] c := by
  obtain ⟨hv, hr, hsid, hci, hcl, hco, hcol, hext⟩ := h
  obtain ⟨version, random, sid, ciphers, comp, ext⟩ := c
  simp only at hv hr hsid hci hcl hco hcol hext
  unfold parseClientHello encClientHelloBody
  simp only []
  rw [beU2_enc _ hv]; simp only [Res.bind_ok]
  rw [take32_enc _ _ hr]; simp only [Res.bind_ok]
  have hs := sid_enc sid hsid (encLD 2 (encU16s ciphers) ++ (encLD 1 (encBytes comp) ++ encOptExt ext))
  cases hvv : verify (beU 1) (fun n => decide (n ≤ 32)) (encSid sid ++ (encLD 2 (encU16s ciphers) ++ (encLD 1 (encBytes comp) ++ encOptExt ext))) with
  | ok r1 sidlen =>
    rw [hvv] at hs; simp only [Res.bind_ok] at hs ⊢
    rw [hs]; simp only [Res.bind_ok]
    have hcl' : (encU16s ciphers : List β).length < 65536 := by simp; omega
    simp only [encLD, List.append_assoc]
    rw [beU2_enc _ hcl']; simp only [Res.bind_ok]
    rw [parseCipherSuites_enc ciphers hci]; simp only [Res.bind_ok]
    have hcol' : (encBytes comp : List β).length < 256 := by simpa using hcol
    rw [beU1_enc _ hcol']; simp only [Res.bind_ok]
    rw [parseCompressionsAlgs_enc comp hco]; simp only [Res.bind_ok]
    rw [optExtBlock_enc ext hext]
    rfl
  | incomplete n => rw [hvv] at hs; simp at hs
  | error k => rw [hvv] at hs; simp at hs
  | failure k => rw [hvv] at hs; simp at hs
  | panic => rw [hvv] at hs; simp at hs

/-! ### ServerHello (TLS 1.0–1.2 with optional extension block, SSLv3 without, draft-18 form) -/

def WFServerHello (s : ServerHello β) : Prop :=
  s.random.length = 32 ∧ WFSid s.sessionId ∧ s.cipher < 65536 ∧ s.compression < 256 ∧ WFOptExt s.ext ∧
  (s.version = 0x0303 ∨ s.version = 0x0302 ∨ s.version = 0x0301 ∨ (s.version = 0x0300 ∧ s.ext = none))

theorem serverHelloV12_body (s : ServerHello β) (hv : s.version < 65536) (hr : s.random.length = 32)
    (hsid : WFSid s.sessionId) (hc : s.cipher < 65536) (hco : s.compression < 256) (hext : WFOptExt s.ext)
    (hasExt : Bool) (hne : hasExt = false → s.ext = none) :
    parseServerHelloV12 hasExt (encServerHelloBody s) = .ok [] s := by
  obtain ⟨version, random, sid, cipher, comp, ext⟩ := s
  simp only at hv hr hsid hc hco hext hne
  unfold parseServerHelloV12 encServerHelloBody
  simp only []
  rw [beU2_enc _ hv]; simp only [Res.bind_ok]
  rw [take32_enc _ _ hr]; simp only [Res.bind_ok]
  have hs := sid_enc sid hsid (encBE 2 cipher ++ (encBE 1 comp ++ encOptExt ext))
  cases hvv : verify (beU 1) (fun n => decide (n ≤ 32)) (encSid sid ++ (encBE 2 cipher ++ (encBE 1 comp ++ encOptExt ext))) with
  | ok r1 sidlen =>
    rw [hvv] at hs; simp only [Res.bind_ok] at hs ⊢
    rw [hs]; simp only [Res.bind_ok]
    rw [beU2_enc _ hc]; simp only [Res.bind_ok]
    rw [beU1_enc _ hco]; simp only [Res.bind_ok]
    cases hasExt with
    | true => simp [optExtBlock_enc ext hext]
    | false => simp [hne rfl, encOptExt]
  | incomplete n => rw [hvv] at hs; simp at hs
  | error k => rw [hvv] at hs; simp at hs
  | failure k => rw [hvv] at hs; simp at hs
  | panic => rw [hvv] at hs; simp at hs

theorem peek_version (v : Nat) (hv : v < 65536) (rest : List β) :
    beU 2 ((encBE 2 v : List β) ++ rest) = .ok rest v := beU2_enc v hv rest

theorem msgServerHello_body (s : ServerHello β) (h : WFServerHello s) :
    parseMsgServerHello (encServerHelloBody s) = .ok [] (.serverHello s) := by
  obtain ⟨hr, hsid, hc, hco, hext, hver⟩ := h
  have hv : s.version < 65536 := by rcases hver with h | h | h | ⟨h, _⟩ <;> omega
  unfold parseMsgServerHello
  have hpeek : beU 2 (encServerHelloBody s) = .ok (s.random ++ (encSid s.sessionId ++ (encBE 2 s.cipher ++ (encBE 1 s.compression ++ encOptExt s.ext)))) s.version := by
    unfold encServerHelloBody; exact beU2_enc _ hv _
  rw [hpeek]; simp only [Res.bind_ok]
  rcases hver with h | h | h | ⟨h, he⟩
  · simp [h, mapP, serverHelloV12_body s hv hr hsid hc hco hext true (by simp), Res.map]
  · simp [h, mapP, serverHelloV12_body s hv hr hsid hc hco hext true (by simp), Res.map]
  · simp [h, mapP, serverHelloV12_body s hv hr hsid hc hco hext true (by simp), Res.map]
  · simp [h, mapP, serverHelloV12_body s hv hr hsid hc hco hext false (fun _ => he), Res.map]

def WFServerHello13d18 (s : ServerHello13d18 β) : Prop :=
  s.version = 0x7f12 ∧ s.random.length = 32 ∧ s.cipher < 65536 ∧ WFOptExt s.ext

theorem serverHello13d18_body (s : ServerHello13d18 β) (h : WFServerHello13d18 s) :
    parseMsgServerHello (encServerHello13d18Body s) = .ok [] (.serverHello13d18 s) := by
  obtain ⟨hver, hr, hc, hext⟩ := h
  obtain ⟨version, random, cipher, ext⟩ := s
  simp only at hver hr hc hext; subst hver
  unfold parseMsgServerHello encServerHello13d18Body
  simp only []
  rw [beU2_enc _ (by decide)]; simp only [Res.bind_ok, if_true]
  unfold parseServerHello13d18
  rw [beU2_enc _ (by decide)]; simp only [Res.bind_ok]
  rw [take32_enc _ _ hr]; simp only [Res.bind_ok]
  rw [beU2_enc _ hc]; simp only [Res.bind_ok]
  rw [optExtBlock_enc ext hext]; rfl

/-- **unsupported legacy version is rejected** (Tag), whatever follows -/
theorem serverHello_bad_version (v : Nat) (hv : v < 65536)
    (hbad : v ≠ 0x7f12 ∧ v ≠ 0x0303 ∧ v ≠ 0x0302 ∧ v ≠ 0x0301 ∧ v ≠ 0x0300) (rest : List β) :
    parseMsgServerHello ((encBE 2 v : List β) ++ rest) = .error .Tag := by
  obtain ⟨h1, h2, h3, h4, h5⟩ := hbad
  simp [parseMsgServerHello, beU2_enc _ hv, Res.bind, h1, h2, h3, h4, h5]

/-! ### the other bodies -/

theorem newSessionTicket_body (t : NewSessionTicket β) (hh : t.hint < 4294967296) :
    parseNewSessionTicket (4 + t.ticket.length) ((encBE 4 t.hint : List β) ++ t.ticket) = .ok [] (.newSessionTicket t) := by
  unfold parseNewSessionTicket
  have h1 : ¬ (4 + t.ticket.length < 4) := by omega
  have h2 : 4 ≤ 4 + t.ticket.length := by omega
  have h3 : 4 + t.ticket.length - 4 = t.ticket.length := by omega
  simp only [h1, h2, if_false, if_true, h3]
  rw [beU4_enc _ hh]; simp only [Res.bind_ok]
  have := take_enc t.ticket ([] : List β)
  simp only [List.append_nil] at this
  rw [this]; rfl

/-- **NewSessionTicket shorter than 4 bytes is rejected** -/
theorem newSessionTicket_short (len : Nat) (h : len < 4) (i : List β) :
    parseNewSessionTicket len i = .error .Verify := by
  simp [parseNewSessionTicket, h]

def WFHelloRetryRequest (h : HelloRetryRequest β) : Prop := h.version < 65536 ∧ h.cipher < 65536 ∧ WFOptExt h.ext

theorem helloRetryRequest_body (h : HelloRetryRequest β) (hw : WFHelloRetryRequest h) :
    parseHelloRetryRequest (encHelloRetryRequestBody h) = .ok [] (.helloRetryRequest h) := by
  obtain ⟨hv, hc, he⟩ := hw
  unfold parseHelloRetryRequest encHelloRetryRequestBody
  rw [beU2_enc _ hv]; simp only [Res.bind_ok]
  rw [beU2_enc _ hc]; simp only [Res.bind_ok]
  rw [optExtBlock_enc _ he]; rfl

def WFCertificate (chain : List (List β)) : Prop :=
  (∀ c ∈ chain, c.length < 16777216) ∧ (chain.flatMap (encLD 3)).length < 16777216

theorem encLD_ne_nil (w : Nat) (hw : 0 < w) (d : List β) : encLD w d ≠ [] := by
  intro h; have := congrArg List.length h; simp at this; omega

theorem certificate_body (chain : List (List β)) (h : WFCertificate chain) (rest : List β) :
    parseCertificate (encCertificateBody chain ++ rest) = .ok rest chain := by
  obtain ⟨hc, htot⟩ := h
  unfold parseCertificate encCertificateBody
  rw [show encLD 3 (chain.flatMap (encLD 3)) = (encBE 3 (chain.flatMap (encLD 3)).length : List β) ++ chain.flatMap (encLD 3) from rfl]
  rw [List.append_assoc, beU3_enc _ htot]; simp only [Res.bind_ok]
  rw [mapParser_take_enc]
  unfold parseCerts
  rw [many0_complete_roundtrip (lengthData (beU 3)) (encLD 3) chain (fun c _ => encLD_ne_nil 3 (by decide) c)
    (fun c hcm r => lengthData3_enc c (hc c hcm) r) ⟨_, rfl⟩]
  rfl

/-- **certificate list longer than the body is rejected** (no value) -/
theorem certificate_list_overrun (n : Nat) (hn : n < 16777216) (rest : List β) (h : rest.length < n) :
    ∃ k, parseCertificate ((encBE 3 n : List β) ++ rest) = .incomplete k := by
  unfold parseCertificate
  rw [beU3_enc _ hn]
  simp only [Res.bind, mapParser, take_of_gt h]
  exact ⟨_, rfl⟩

def WFCertStatus (s : CertStatus β) : Prop := s.statusType < 256 ∧ s.blob.length < 16777216

theorem certStatus_body (s : CertStatus β) (h : WFCertStatus s) (rest : List β) :
    parseCertStatus (encCertStatusBody s ++ rest) = .ok rest s := by
  obtain ⟨h1, h2⟩ := h
  simp [parseCertStatus, encCertStatusBody, List.append_assoc, beU1_enc _ h1, lengthData3_enc _ h2, Res.bind]

/-- **status blob longer than the body is rejected** -/
theorem certStatus_blob_overrun (t n : Nat) (ht : t < 256) (hn : n < 16777216) (rest : List β) (h : rest.length < n) :
    ∃ k, parseCertStatus ((encBE 1 t : List β) ++ ((encBE 3 n : List β) ++ rest)) = .incomplete k := by
  unfold parseCertStatus
  rw [beU1_enc _ ht]
  simp only [Res.bind, lengthData, beU3_enc _ hn, take_of_gt h]
  exact ⟨_, rfl⟩

def WFNextProtocol (n : NextProtocol β) : Prop := n.selected.length < 256 ∧ n.padding.length < 256

theorem nextProtocol_body (n : NextProtocol β) (h : WFNextProtocol n) (rest : List β) :
    parseNextProtocol (encNextProtocolBody n ++ rest) = .ok rest n := by
  obtain ⟨h1, h2⟩ := h
  simp [parseNextProtocol, encNextProtocolBody, List.append_assoc, lengthData1_enc _ h1, lengthData1_enc _ h2, Res.bind]

/-! ### CertificateRequest: TLS 1.2 form first, then the legacy form -/

theorem countP_encBytes (l : List Nat) (h : ∀ c ∈ l, c < 256) (rest : List β) :
    countP (beU 1) l.length ((encBytes l : List β) ++ rest) = .ok rest l := by
  induction l with
  | nil => rfl
  | cons c l ih =>
    have hc := h c (by simp)
    have : (encBytes (c :: l) : List β) ++ rest = (encBE 1 c : List β) ++ (encBytes l ++ rest) := by
      simp [encBytes, encBE]
    rw [this]
    simp only [List.length_cons, countP]
    rw [beU1_enc _ hc]; simp only [Res.bind_ok]
    rw [ih (fun c hc => h c (by simp [hc]))]; rfl

theorem certTypes_enc (l : List Nat) (h : ∀ c ∈ l, c < 256) (hl : l.length < 256) (rest : List β) :
    lengthCount (beU 1) (beU 1) (encLD 1 (encBytes l : List β) ++ rest) = .ok rest l := by
  unfold lengthCount encLD
  rw [List.append_assoc, beU1_enc _ (by simpa using hl)]
  simp only [Res.bind_ok, encBytes_length]
  exact countP_encBytes l h rest

theorem u16list_enc (algs : List Nat) (h : ∀ a ∈ algs, a < 65536) :
    many0 (complete (beU 2)) (encU16s algs : List β) = .ok [] algs := by
  rw [encU16s_eq_flatMap]
  exact many0_complete_roundtrip (beU 2) (fun n => encBE 2 n) algs
    (fun a _ => by intro hh; have := congrArg List.length hh; simp at this)
    (fun a ha r => beU2_enc a (h a ha) r) ⟨_, rfl⟩

def WFCaList (cas : List (List β)) : Prop :=
  (∀ c ∈ cas, c.length < 65536) ∧ (cas.flatMap (encLD 2)).length < 65536

theorem caList_enc (cas : List (List β)) (h : WFCaList cas) (rest : List β) :
    parseCaList (encCaList cas ++ rest) = .ok rest cas := by
  obtain ⟨hc, htot⟩ := h
  unfold parseCaList encCaList
  rw [show encLD 2 (cas.flatMap (encLD 2)) = (encBE 2 (cas.flatMap (encLD 2)).length : List β) ++ cas.flatMap (encLD 2) from rfl]
  rw [List.append_assoc, beU2_enc _ htot]; simp only [Res.bind_ok]
  rw [mapParser_take_enc]
  rw [many0_complete_roundtrip (lengthData (beU 2)) (encLD 2) cas (fun c _ => encLD_ne_nil 2 (by decide) c)
    (fun c hcm r => lengthData2_enc c (hc c hcm) r) ⟨_, rfl⟩]
  rfl

def WFCertRequest (r : CertRequest β) : Prop :=
  (∀ c ∈ r.certTypes, c < 256) ∧ r.certTypes.length < 256 ∧ WFCaList r.unparsedCa ∧
  (match r.sigHashAlgs with
    | some algs => (∀ a ∈ algs, a < 65536) ∧ 2 * algs.length < 65536
    | none => True)

/-- `many0(p)` is total when `p` either errors or makes progress -/
theorem many0_total {α : Type} (p : Parser β α)
    (hp : ∀ i, (∃ k, p i = .error k) ∨ (∃ i1 o, p i = .ok i1 o ∧ i1.length < i.length)) :
    ∀ (n : Nat) (x : List β), x.length = n → ∃ r v, many0 p x = .ok r v := by
  intro n
  induction n using Nat.strongRecOn with
  | _ n ih =>
    intro x hx
    rcases hp x with ⟨k, e⟩ | ⟨i1, o, e, hlt⟩
    · exact ⟨x, [], by unfold many0; rw [e]⟩
    · obtain ⟨r, v, hv⟩ := ih i1.length (by omega) i1 rfl
      exact ⟨r, o :: v, by unfold many0; rw [e]; simp [hlt, hv, Res.map]⟩

/-- `many0(complete(be_u16))` never fails: it reads pairs of bytes for as long as there are two -/
theorem many0_u16_ok (x : List β) : ∃ r v, many0 (complete (beU 2)) x = .ok r v := by
  refine many0_total (complete (beU 2)) (fun i => ?_) x.length x rfl
  rcases beU_cases 2 i with ⟨h2, e⟩ | ⟨_, e⟩
  · exact .inr ⟨i.drop 2, beVal (i.take 2), by simp [complete, e], by rw [List.length_drop]; omega⟩
  · exact .inl ⟨.Complete, by simp [complete, e]⟩

theorem certRequest_full_body (types algs : List Nat) (cas : List (List β))
    (h : WFCertRequest ⟨types, some algs, cas⟩) :
    parseCertRequest (encCertRequestBody ⟨types, some algs, cas⟩) = .ok [] ⟨types, some algs, cas⟩ := by
  obtain ⟨ht, htl, hca, ha, hal⟩ := h
  have hfull : parseCertRequestFull (encCertRequestBody ⟨types, some algs, cas⟩) = .ok [] ⟨types, some algs, cas⟩ := by
    unfold parseCertRequestFull encCertRequestBody
    simp only []
    rw [certTypes_enc types ht htl]; simp only [Res.bind_ok]
    rw [show encLD 2 (encU16s algs) = (encBE 2 (encU16s algs : List β).length : List β) ++ encU16s algs from rfl]
    rw [List.append_assoc, beU2_enc _ (by simpa using hal)]; simp only [Res.bind_ok]
    rw [mapParser_take_enc, u16list_enc algs ha]; simp only [Res.bind_ok]
    have := caList_enc cas hca []
    simp only [List.append_nil] at this
    rw [this]; rfl
  simp [parseCertRequest, alt, complete, hfull]

theorem certRequest_legacy_body (types : List Nat) (cas : List (List β))
    (h : WFCertRequest ⟨types, none, cas⟩) :
    parseCertRequest (encCertRequestBody ⟨types, none, cas⟩) = .ok [] ⟨types, none, cas⟩ := by
  obtain ⟨ht, htl, hca, _⟩ := h
  have hca' := hca
  obtain ⟨hc, htot⟩ := hca
  -- the TLS 1.2 form cannot match: after the first u16 block nothing is left for the CA length
  have hfull : ∃ n, parseCertRequestFull (encCertRequestBody ⟨types, none, cas⟩) = .incomplete n := by
    unfold parseCertRequestFull encCertRequestBody
    simp only [List.nil_append]
    rw [certTypes_enc types ht htl]; simp only [Res.bind_ok]
    unfold encCaList
    rw [show encLD 2 (cas.flatMap (encLD 2)) = (encBE 2 (cas.flatMap (encLD 2)).length : List β) ++ cas.flatMap (encLD 2) from rfl]
    rw [beU2_enc _ htot]; simp only [Res.bind_ok]
    have h0 := mapParser_take_enc (many0 (complete (beU 2))) (cas.flatMap (encLD 2)) ([] : List β)
    simp only [List.append_nil] at h0
    rw [h0]
    obtain ⟨r, v, hv⟩ := many0_u16_ok (cas.flatMap (encLD 2))
    rw [hv]; simp only [Res.bind_ok]
    exact ⟨_, rfl⟩
  obtain ⟨n, hn⟩ := hfull
  have hleg : parseCertRequestNoSigAlg (encCertRequestBody ⟨types, none, cas⟩) = .ok [] ⟨types, none, cas⟩ := by
    unfold parseCertRequestNoSigAlg encCertRequestBody
    simp only [List.nil_append]
    rw [certTypes_enc types ht htl]; simp only [Res.bind_ok]
    have := caList_enc cas hca' []
    simp only [List.append_nil] at this
    rw [this]; rfl
  simp [parseCertRequest, alt, complete, hn, hleg]

/-! ### the 17 variants as whole messages -/

/-- field ranges per variant; never a restriction on a code point that does not select the structure -/
def WFHandshake : Handshake β → Prop
  | .helloRequest => True
  | .clientHello c => WFClientHello c
  | .serverHello s => WFServerHello s
  | .serverHello13d18 s => WFServerHello13d18 s
  | .newSessionTicket t => t.hint < 4294967296
  | .endOfEarlyData => True
  | .helloRetryRequest h => WFHelloRetryRequest h
  | .certificate c => WFCertificate c
  | .serverKeyExchange _ => True
  | .certificateRequest r => WFCertRequest r
  | .serverDone _ => True
  | .certificateVerify _ => True
  | .clientKeyExchange (.unknown _) => True
  | .clientKeyExchange _ => False          -- the parser cannot know the key-exchange method
  | .finished _ => True
  | .certificateStatus s => WFCertStatus s
  | .nextProtocol n => WFNextProtocol n
  | .keyUpdate n => n < 256

theorem take_all (d : List β) : take d.length d = .ok [] d := by
  have := take_enc d ([] : List β); simpa using this

/-- body parser on exactly the body bytes -/
theorem handshakeBody_roundtrip (h : Handshake β) (hw : WFHandshake h) :
    ∃ rem, parseHandshakeBody (hsTypeAndBody h).1 (hsTypeAndBody h).2.length (hsTypeAndBody h).2 = .ok rem h := by
  cases h with
  | helloRequest => exact ⟨[], by simp [parseHandshakeBody, hsTypeAndBody]⟩
  | clientHello c =>
    exact ⟨[], by simp [parseHandshakeBody, hsTypeAndBody, mapP, clientHello_body_roundtrip c hw, Res.map]⟩
  | serverHello s => exact ⟨[], by simp [parseHandshakeBody, hsTypeAndBody, msgServerHello_body s hw]⟩
  | serverHello13d18 s => exact ⟨[], by simp [parseHandshakeBody, hsTypeAndBody, serverHello13d18_body s hw]⟩
  | newSessionTicket t =>
    refine ⟨[], ?_⟩
    have := newSessionTicket_body t hw
    simp only [parseHandshakeBody, hsTypeAndBody, List.length_append, encBE_length]
    simpa using this
  | endOfEarlyData => exact ⟨[], by simp [parseHandshakeBody, hsTypeAndBody]⟩
  | helloRetryRequest hr =>
    exact ⟨[], by simp [parseHandshakeBody, hsTypeAndBody, helloRetryRequest_body hr hw]⟩
  | certificate c =>
    have := certificate_body c hw []
    simp only [List.append_nil] at this
    exact ⟨[], by simp [parseHandshakeBody, hsTypeAndBody, mapP, this, Res.map]⟩
  | serverKeyExchange p => exact ⟨[], by simp [parseHandshakeBody, hsTypeAndBody, mapP, take_all, Res.map]⟩
  | certificateRequest r =>
    obtain ⟨types, algs, cas⟩ := r
    cases algs with
    | none => exact ⟨[], by simp [parseHandshakeBody, hsTypeAndBody, mapP, certRequest_legacy_body types cas hw, Res.map]⟩
    | some a => exact ⟨[], by simp [parseHandshakeBody, hsTypeAndBody, mapP, certRequest_full_body types a cas hw, Res.map]⟩
  | serverDone d => exact ⟨[], by simp [parseHandshakeBody, hsTypeAndBody, mapP, take_all, Res.map]⟩
  | certificateVerify d => exact ⟨[], by simp [parseHandshakeBody, hsTypeAndBody, mapP, take_all, Res.map]⟩
  | clientKeyExchange c =>
    cases c with
    | unknown d => exact ⟨[], by simp [parseHandshakeBody, hsTypeAndBody, mapP, take_all, Res.map]⟩
    | dh d => exact absurd hw (by simp [WFHandshake])
    | ecdh d => exact absurd hw (by simp [WFHandshake])
  | finished d => exact ⟨[], by simp [parseHandshakeBody, hsTypeAndBody, mapP, take_all, Res.map]⟩
  | certificateStatus st =>
    have := certStatus_body st hw []
    simp only [List.append_nil] at this
    exact ⟨[], by simp [parseHandshakeBody, hsTypeAndBody, mapP, this, Res.map]⟩
  | nextProtocol n =>
    have := nextProtocol_body n hw []
    simp only [List.append_nil] at this
    exact ⟨[], by simp [parseHandshakeBody, hsTypeAndBody, mapP, this, Res.map]⟩
  | keyUpdate n =>
    have : beU 1 (encBE 1 n : List β) = .ok [] n := by
      have := beU1_enc n hw ([] : List β); simpa using this
    exact ⟨[], by simp [parseHandshakeBody, hsTypeAndBody, mapP, this, Res.map]⟩

theorem hsType_lt (h : Handshake β) : (hsTypeAndBody h).1 < 256 := by
  cases h <;> simp [hsTypeAndBody]
  rename_i c; cases c <;> simp [hsTypeAndBody]

/-- **C04 round trip**: every handshake message value of the 17 variants, encoded per the RFCs (type byte,
    24-bit length, body) and followed by anything, parses to exactly that value, consuming exactly the message -/
theorem handshake_roundtrip (h : Handshake β) (hw : WFHandshake h)
    (hlen : (hsTypeAndBody h).2.length < 16777216) (r : List β) :
    parseMessageHandshake (encHandshake h ++ r) = .ok r (.handshake h) := by
  obtain ⟨rem, hb⟩ := handshakeBody_roundtrip h hw
  unfold parseMessageHandshake encHandshake encLD
  simp only [List.append_assoc]
  rw [beU1_enc _ (hsType_lt h)]; simp only [Res.bind_ok]
  rw [beU3_enc _ hlen]; simp only [Res.bind_ok]
  rw [take_enc]; simp only [Res.bind_ok]
  rw [hb]; rfl

/-! ### confinement: nothing beyond the 24-bit length is read -/

/-- with the declared body present, the outcome is determined by (type, length, body): whatever follows the
    message is returned untouched as remainder and cannot influence the value or the outcome class -/
theorem handshake_confined (t hl : Nat) (body r : List β) (ht : t < 256) (hhl : body.length < 16777216) :
    parseMessageHandshake ((encBE 1 t : List β) ++ (encLD 3 body ++ r))
      = (parseHandshakeBody t body.length body).bind fun _ m => .ok r (.handshake m) := by
  unfold parseMessageHandshake encLD
  simp only [List.append_assoc]
  rw [beU1_enc _ ht]; simp only [Res.bind_ok]
  rw [beU3_enc _ hhl]; simp only [Res.bind_ok]
  rw [take_enc]; simp only [Res.bind_ok]

/-! ### rejections -/

/-- **unknown handshake type** -/
theorem unknown_handshake_type (t hl : Nat) (raw : List β)
    (ht : t ∉ [0x00, 0x01, 0x02, 0x04, 0x05, 0x06, 0x0b, 0x0c, 0x0d, 0x0e, 0x0f, 0x10, 0x14, 0x16, 0x18, 0x43]) :
    parseHandshakeBody t hl raw = .error .Switch := by
  simp only [List.mem_cons, List.not_mem_nil, or_false, not_or] at ht
  obtain ⟨h0, h1, h2, h4, h5, h6, hb, hc, hd, he, hf, h10, h14, h16, h18, h43⟩ := ht
  simp [parseHandshakeBody, h0, h1, h2, h4, h5, h6, hb, hc, hd, he, hf, h10, h14, h16, h18, h43]

/-- **session-id length above 32** (ClientHello; the ServerHello parser has the same check) -/
theorem clientHello_sid_too_long (v : Nat) (hv : v < 65536) (rnd : List β) (hr : rnd.length = 32)
    (n : Nat) (hn : 32 < n) (hn' : n < 256) (rest : List β) :
    parseClientHello ((encBE 2 v : List β) ++ (rnd ++ ((encBE 1 n : List β) ++ rest))) = .error .Verify := by
  unfold parseClientHello
  rw [beU2_enc _ hv]; simp only [Res.bind_ok]
  rw [take32_enc _ _ hr]; simp only [Res.bind_ok]
  have : ¬ n ≤ 32 := by omega
  simp [verify, beU1_enc _ hn', Res.bind, this]

/-- **odd or overlong cipher-suite list** -/
theorem cipherSuites_odd_or_overlong (len : Nat) (i : List β) (h0 : len ≠ 0)
    (h : len % 2 = 1 ∨ len > i.length) : parseCipherSuites len i = .error .LengthValue := by
  simp [parseCipherSuites, h0, h]

/-- **overlong compression list** -/
theorem compressions_overlong (len : Nat) (i : List β) (h0 : len ≠ 0) (h : len > i.length) :
    parseCompressionsAlgs len i = .error .LengthValue := by
  simp [parseCompressionsAlgs, h0, h]

/-- **a mandatory field cut off by the declared message length**: a body parser that answers Incomplete on
    the confined body makes the whole message a non-value (here: any body shorter than the fixed part
    of a ClientHello) -/
theorem clientHello_cut (body : List β) (h : body.length < 34) : ∃ n, parseClientHello body = .incomplete n := by
  unfold parseClientHello
  rcases beU_cases 2 body with ⟨h2, e2⟩ | ⟨_, e2⟩
  · rw [e2, Res.bind_ok]
    have : (body.drop 2).length < 32 := by rw [List.length_drop]; omega
    rw [take_of_gt this]; exact ⟨_, rfl⟩
  · rw [e2]; exact ⟨_, rfl⟩

theorem message_not_ok_of_body_not_ok (t : Nat) (body r : List β) (ht : t < 256) (hhl : body.length < 16777216)
    (hbad : (parseHandshakeBody t body.length body).isOk = false) :
    (parseMessageHandshake ((encBE 1 t : List β) ++ (encLD 3 body ++ r))).isOk = false := by
  rw [handshake_confined t body.length body r ht hhl]
  cases hb : parseHandshakeBody t body.length body <;> simp_all [Res.isOk, Res.bind]

/-! ### non-vacuity -/
example : WFHandshake (β := Fin 256) (.serverDone []) := trivial
example : WFClientHello (β := Fin 256) ⟨771, List.replicate 32 0, none, [47, 53], [0], some []⟩ := by
  simp [WFClientHello, WFSid, WFOptExt]
example : parseMessageHandshake (β := Fin 256) [14, 0, 0, 1, 7, 9] = .ok [9] (.handshake (.serverDone [7])) := by decide +kernel

end Tls
