/-
  Props/C11.lean — unknown enumerated code points are accepted and preserved.
  One theorem per field, each for *every* value of the field's domain (no registry hypothesis):
  corollaries of the round-trip theorems, whose well-formedness predicates never restrict a code
  point that does not select the structure.
-/
import TlsModel.Props.C03
import TlsModel.Props.C05
import TlsModel.Props.C13
import TlsModel.Props.C14
namespace Tls
variable {β : Type} [ByteLike β]

/-- content type of raw / encrypted records: all 256 values; record version: all 65536 values -/
theorem record_type_and_version_preserved (t v : Nat) (ht : t < 256) (hv : v < 65536) (data r : List β) (hl : data.length ≤ 16640) :
    parseRawRecord (encHeader t v data.length ++ data ++ r) = .ok r ⟨⟨t, v, data.length⟩, data⟩ ∧
    parseEncrypted (encHeader t v data.length ++ data ++ r) = .ok r ⟨⟨t, v, data.length⟩, data⟩ :=
  ⟨raw_frame_exact t v data r ht hv hl, encrypted_frame_exact t v data r ht hv hl⟩

/-- alert level and description: all 256 × 256 values -/
theorem alert_codes_preserved (level desc : Nat) (hl : level < 256) (hd : desc < 256) (rest : List β) :
    parseMessageAlert ((encBE 1 level : List β) ++ ((encBE 1 desc : List β) ++ rest)) = .ok rest (.alert level desc) :=
  alert_roundtrip level desc hl hd rest

/-- heartbeat message type: all 256 values -/
theorem heartbeat_type_preserved (hdr : RecordHeader) (h : hdr.recordType = 0x18) (hl : 3 ≤ hdr.len)
    (t : Nat) (ht : t < 256) (payload padding : List β) (hp : payload.length < 65536) :
    parseRecordWithHeader hdr ((encBE 1 t : List β) ++ ((encBE 2 payload.length : List β) ++ (payload ++ padding)))
      = .ok padding [.heartbeat t payload.length payload] :=
  heartbeat_payload hdr h hl t ht payload padding hp

/-- ClientHello: message version (all 65536), every cipher-suite id (all 65536 each), every compression id (all 256 each) -/
theorem clientHello_codes_preserved (version : Nat) (hv : version < 65536) (random : List β) (hr : random.length = 32)
    (ciphers comp : List Nat) (hc : ∀ x ∈ ciphers, x < 65536) (hcl : 2 * ciphers.length < 65536)
    (hco : ∀ x ∈ comp, x < 256) (hcol : comp.length < 256) (r : List β) :
    parseMessageHandshake (encHandshake (.clientHello ⟨version, random, none, ciphers, comp, none⟩) ++ r)
      = .ok r (.handshake (.clientHello ⟨version, random, none, ciphers, comp, none⟩)) := by
  have hw : WFHandshake (β := β) (.clientHello ⟨version, random, none, ciphers, comp, none⟩) :=
    ⟨hv, hr, trivial, hc, hcl, hco, hcol, trivial⟩
  apply handshake_roundtrip _ hw
  simp [hsTypeAndBody, encClientHelloBody, encSid, encOptExt, hr]
  omega

/-- ServerHello: selected cipher suite (all 65536) and compression method (all 256) -/
theorem serverHello_codes_preserved (random : List β) (hr : random.length = 32) (cipher comp : Nat)
    (hc : cipher < 65536) (hco : comp < 256) (r : List β) :
    parseMessageHandshake (encHandshake (.serverHello ⟨0x0303, random, none, cipher, comp, none⟩) ++ r)
      = .ok r (.handshake (.serverHello ⟨0x0303, random, none, cipher, comp, none⟩)) := by
  have hw : WFHandshake (β := β) (.serverHello ⟨0x0303, random, none, cipher, comp, none⟩) :=
    ⟨hr, trivial, hc, hco, trivial, .inl rfl⟩
  apply handshake_roundtrip _ hw
  simp [hsTypeAndBody, encServerHelloBody, encSid, encOptExt, hr]

/-- HelloRetryRequest: version (all 65536) and cipher (all 65536) -/
theorem helloRetryRequest_codes_preserved (version cipher : Nat) (hv : version < 65536) (hc : cipher < 65536) (r : List β) :
    parseMessageHandshake (encHandshake (.helloRetryRequest ⟨version, cipher, none⟩) ++ r)
      = .ok r (.handshake (.helloRetryRequest ⟨version, cipher, none⟩)) := by
  have hw : WFHandshake (β := β) (.helloRetryRequest ⟨version, cipher, none⟩) := ⟨hv, hc, trivial⟩
  apply handshake_roundtrip _ hw
  simp [hsTypeAndBody, encHelloRetryRequestBody, encOptExt]

/-- KeyUpdate request value: all 256 values -/
theorem keyUpdate_value_preserved (n : Nat) (hn : n < 256) (r : List β) :
    parseMessageHandshake (encHandshake (.keyUpdate n) ++ r) = .ok r (.handshake (.keyUpdate n : Handshake β)) := by
  have hw : WFHandshake (β := β) (.keyUpdate n) := hn
  apply handshake_roundtrip _ hw
  simp [hsTypeAndBody]

/-- certificate-status type in the CertificateStatus message: all 256 values -/
theorem certStatus_type_preserved (t : Nat) (ht : t < 256) (blob : List β) (hb : blob.length < 16777216 - 4) (r : List β) :
    parseMessageHandshake (encHandshake (.certificateStatus ⟨t, blob⟩) ++ r) = .ok r (.handshake (.certificateStatus ⟨t, blob⟩)) := by
  have hw : WFHandshake (β := β) (.certificateStatus ⟨t, blob⟩) := ⟨ht, by simp; omega⟩
  apply handshake_roundtrip _ hw
  simp [hsTypeAndBody, encCertStatusBody]; omega

/-- certificate types and signature/hash algorithm pairs in a CertificateRequest: all values -/
theorem certRequest_codes_preserved (types algs : List Nat) (ht : ∀ c ∈ types, c < 256) (htl : types.length < 256)
    (ha : ∀ a ∈ algs, a < 65536) (hal : 2 * algs.length < 65536) (r : List β) :
    parseMessageHandshake (encHandshake (.certificateRequest ⟨types, some algs, []⟩) ++ r)
      = .ok r (.handshake (.certificateRequest ⟨types, some algs, []⟩)) := by
  have hw : WFHandshake (β := β) (.certificateRequest ⟨types, some algs, []⟩) :=
    ⟨ht, htl, ⟨by simp, by simp⟩, ha, hal⟩
  apply handshake_roundtrip _ hw
  simp [hsTypeAndBody, encCertRequestBody, encCaList]; omega

/-- extension type: every type that is neither known nor GREASE comes back as `Unknown(type, data)`; every GREASE
    type as `Grease(type, data)` — through all three dispatchers -/
theorem extension_type_preserved (d : Dispatcher) (t : Nat) (data : List β) (hw : WFExtension (.unknown t data)) (r : List β) :
    parseExtensionD d (encExtension (.unknown t data) ++ r) = .ok r (.unknown t data) :=
  extension_roundtrip_unknown t data hw d r

/-- named groups (all 65536 each) in supported_groups -/
theorem named_groups_preserved (groups : List Nat) (hg : ∀ g ∈ groups, g < 65536) (hl : 2 * groups.length < 65534) (r : List β) :
    parseExtension (encExtension (.ellipticCurves groups) ++ r) = .ok r (.ellipticCurves groups) := by
  have hw : WFExtension (β := β) (.ellipticCurves groups) := ⟨⟨hg, by omega⟩, by simp [extContent]; omega⟩
  exact extension_roundtrip_known _ rfl hw .generic rfl r

/-- signature schemes / (hash, signature) pairs (all 65536 each) in signature_algorithms -/
theorem signature_algorithms_preserved (algs : List Nat) (hg : ∀ g ∈ algs, g < 65536) (hl : 2 * algs.length < 65534) (r : List β) :
    parseExtension (encExtension (.signatureAlgorithms algs) ++ r) = .ok r (.signatureAlgorithms algs) := by
  have hw : WFExtension (β := β) (.signatureAlgorithms algs) := ⟨⟨hg, by omega⟩, by simp [extContent]; omega⟩
  exact extension_roundtrip_known _ rfl hw .generic rfl r

/-- hash and signature algorithm of a DigitallySigned: all 256 × 256 values -/
theorem digitallySigned_algs_preserved (hash sign : Nat) (hh : hash < 256) (hs : sign < 256) (data : List β)
    (hd : data.length < 65536) (r : List β) :
    parseDigitallySigned (encDigitallySigned ⟨some (hash, sign), data⟩ ++ r) = .ok r ⟨some (hash, sign), data⟩ :=
  digitallySigned_roundtrip hash sign data hh hs hd r

/-- SNI name type: all 256 values -/
theorem sni_name_type_preserved (t : Nat) (ht : t < 256) (name : List β) (hn : name.length < 65000) (r : List β) :
    parseExtension (encExtension (.sni [(t, name)]) ++ r) = .ok r (.sni [(t, name)]) := by
  have hw : WFExtension (β := β) (.sni [(t, name)]) :=
    ⟨⟨by simp; exact ⟨ht, by omega⟩, by simp [encSniEntry]; omega⟩, by simp [extContent, encSniEntry]; omega⟩
  exact extension_roundtrip_known _ rfl hw .generic rfl r

/-- certificate-status type in status_request: all 256 values -/
theorem status_request_type_preserved (t : Nat) (ht : t < 256) (req : List β) (hn : req.length < 65000) (r : List β) :
    parseExtension (encExtension (.statusRequest (some (t, req))) ++ r) = .ok r (.statusRequest (some (t, req))) := by
  have hw : WFExtension (β := β) (.statusRequest (some (t, req))) := ⟨ht, by simp [extContent]; omega⟩
  exact extension_roundtrip_known _ rfl hw .generic rfl r

/-- PSK key-exchange modes: all 256 values each -/
theorem psk_modes_preserved (modes : List Nat) (hm : ∀ x ∈ modes, x < 256) (hl : modes.length < 255) (r : List β) :
    parseExtension (encExtension (.pskExchangeModes modes) ++ r) = .ok r (.pskExchangeModes modes) := by
  have hw : WFExtension (β := β) (.pskExchangeModes modes) := ⟨⟨hm, by omega⟩, by simp [extContent]; omega⟩
  exact extension_roundtrip_known _ rfl hw .generic rfl r

/-- EC point formats: every byte value -/
theorem ec_point_formats_preserved (formats : List β) (hl : formats.length < 255) (r : List β) :
    parseExtension (encExtension (.ecPointFormats formats) ++ r) = .ok r (.ecPointFormats formats) := by
  have hw : WFExtension (β := β) (.ecPointFormats formats) := ⟨by simp [WFExtContent]; omega, by simp [extContent]; omega⟩
  exact extension_roundtrip_known _ rfl hw .generic rfl r

/-- named group inside ECParameters: all 65536 values -/
theorem ec_named_group_preserved (g : Nat) (hg : g < 65536) (r : List β) :
    parseEcParameters (encEcParameters ⟨3, .namedGroup g⟩ ++ r) = .ok r ⟨3, .namedGroup g⟩ :=
  ecParameters_roundtrip ⟨3, .namedGroup g⟩ ⟨rfl, hg⟩ r

/-- CT version: all 256 values (inside an otherwise well-formed SCT) -/
theorem ct_version_preserved (s : SCT β) (h : WFSct s) (v : Nat) (hv : v < 256) (r : List β) :
    parseSct (encSctEntry { s with version := v } ++ r) = .ok r { s with version := v } := by
  apply sct_roundtrip
  obtain ⟨_, h2, h3, h4, h5, h6, h7⟩ := h
  exact ⟨hv, h2, h3, h4, h5, h6, by simpa [encSctContent] using h7⟩

/-! non-vacuity (kernel-evaluated): unregistered code points in a raw record (type 0x99, version 0x1234), an alert
    (level 7, description 0xee) and an extension (type 0x1234) come back unchanged -/
example : parseRawRecord (β := Fin 256) [0x99, 0x12, 0x34, 0, 1, 5, 6] = .ok [6] ⟨⟨0x99, 0x1234, 1⟩, [5]⟩ := by decide +kernel
example : parseMessageAlert (β := Fin 256) [7, 0xee] = .ok [] (.alert 7 0xee) := by decide +kernel
example : parseExtensionD (β := Fin 256) .generic [0x12, 0x34, 0, 1, 9] = .ok [] (.unknown 0x1234 [9]) := by decide +kernel

end Tls
