/-
  Props/C13.lean — key-exchange parameters and signatures decode exactly and self-delimit.
-/
import TlsModel.Lemmas.Enc
import TlsModel.Crypto
namespace Tls
variable {β : Type} [ByteLike β]

/-! ### RFC 4492 / 5246 encoders (the specification side) -/

def encDh (d : DHParams β) : List β := encLD 2 d.p ++ (encLD 2 d.g ++ encLD 2 d.ys)

def encExplicitPrime (e : ExplicitPrime β) : List β :=
  encLD 1 e.primeP ++ (encLD 1 e.a ++ (encLD 1 e.b ++ (encLD 1 e.base ++ (encLD 1 e.order ++ encLD 1 e.cofactor))))

def encEcParameters (e : ECParameters β) : List β :=
  encBE 1 e.curveType ++ (match e.content with
    | .explicitPrime x => encExplicitPrime x
    | .namedGroup g => encBE 2 g)

def encEcdh (e : ECDHParams β) : List β := encEcParameters e.curve ++ encLD 1 e.pub

def encDigitallySigned (d : DigitallySigned β) : List β :=
  (match d.alg with
    | some (h, s) => encBE 1 h ++ encBE 1 s
    | none => []) ++ encLD 2 d.data

/-! ### well-formedness = field ranges only (never a restriction on code points) -/

def WFDh (d : DHParams β) : Prop := d.p.length < 65536 ∧ d.g.length < 65536 ∧ d.ys.length < 65536

def WFExplicitPrime (e : ExplicitPrime β) : Prop :=
  e.primeP.length < 256 ∧ e.a.length < 256 ∧ e.b.length < 256 ∧ e.base.length < 256 ∧
  e.order.length < 256 ∧ e.cofactor.length < 256

/-- the curve type selects the structure: 1 ↔ explicit prime, 3 ↔ named curve (any of the 65536 groups) -/
def WFEcParameters (e : ECParameters β) : Prop :=
  match e.content with
  | .explicitPrime x => e.curveType = 1 ∧ WFExplicitPrime x
  | .namedGroup g => e.curveType = 3 ∧ g < 65536

def WFEcdh (e : ECDHParams β) : Prop := WFEcParameters e.curve ∧ e.pub.length < 256

/-! ### round trips: exactly the encoded value, exactly its own bytes consumed -/

theorem dh_roundtrip (d : DHParams β) (h : WFDh d) (r : List β) :
    parseDhParams (encDh d ++ r) = .ok r d := by
  obtain ⟨h1, h2, h3⟩ := h
  simp [parseDhParams, encDh, List.append_assoc, lengthData2_enc, h1, h2, h3, Res.bind]

theorem explicitPrime_roundtrip (e : ExplicitPrime β) (h : WFExplicitPrime e) (r : List β) :
    parseExplicitPrime (encExplicitPrime e ++ r) = .ok r e := by
  obtain ⟨h1, h2, h3, h4, h5, h6⟩ := h
  simp [parseExplicitPrime, encExplicitPrime, List.append_assoc, lengthData1_enc, h1, h2, h3, h4, h5, h6, Res.bind]

theorem ecParameters_roundtrip (e : ECParameters β) (h : WFEcParameters e) (r : List β) :
    parseEcParameters (encEcParameters e ++ r) = .ok r e := by
  obtain ⟨ct, c⟩ := e
  cases c with
  | explicitPrime x =>
    obtain ⟨hct, hx⟩ := h
    simp only at hct; subst hct
    simp [parseEcParameters, encEcParameters, List.append_assoc, beU1_enc, Res.bind, parseEcContent, mapP,
      explicitPrime_roundtrip x hx, Res.map]
  | namedGroup g =>
    obtain ⟨hct, hg⟩ := h
    simp only at hct; subst hct
    simp [parseEcParameters, encEcParameters, List.append_assoc, beU1_enc, beU2_enc, hg, Res.bind, parseEcContent, mapP, Res.map]

theorem ecdh_roundtrip (e : ECDHParams β) (h : WFEcdh e) (r : List β) :
    parseEcdhParams (encEcdh e ++ r) = .ok r e := by
  obtain ⟨hc, hp⟩ := h
  simp [parseEcdhParams, encEcdh, List.append_assoc, ecParameters_roundtrip e.curve hc, lengthData1_enc, hp, Res.bind]

/-- **curve types other than explicit-prime (1) and named-curve (3) are rejected** (with `Switch`) -/
theorem curve_type_rejected (ct : β) (hct : toNat ct ≠ 1 ∧ toNat ct ≠ 3) (r : List β) :
    parseEcParameters (ct :: r) = .error .Switch := by
  simp [parseEcParameters, beU, beVal, Res.bind, parseEcContent, hct.1, hct.2]

theorem digitallySigned_roundtrip (hash sign : Nat) (data : List β) (hh : hash < 256) (hs : sign < 256)
    (hd : data.length < 65536) (r : List β) :
    parseDigitallySigned (encDigitallySigned ⟨some (hash, sign), data⟩ ++ r) = .ok r ⟨some (hash, sign), data⟩ := by
  simp [parseDigitallySigned, encDigitallySigned, List.append_assoc, beU1_enc, hh, hs, lengthData2_enc, hd, Res.bind]

theorem digitallySignedOld_roundtrip (data : List β) (hd : data.length < 65536) (r : List β) :
    parseDigitallySignedOld (encDigitallySigned ⟨none, data⟩ ++ r) = .ok r ⟨none, data⟩ := by
  simp [parseDigitallySignedOld, encDigitallySigned, mapP, lengthData2_enc, hd, Res.map]

/-- **content and signature**: the content parser's value, then the signature read *with* the
    algorithm pair iff `ext`, in the legacy length-only form otherwise (for any content parser `f`) -/
theorem contentAndSignature_eq {α : Type} (f : Parser β α) (ext : Bool) :
    parseContentAndSignature f ext = pair f (if ext then parseDigitallySigned else parseDigitallySignedOld) := by
  cases ext <;> rfl

theorem contentAndSignature_roundtrip {α : Type} (f : Parser β α) (enc : List β) (v : α)
    (hf : ∀ r, f (enc ++ r) = .ok r v) (sig : DigitallySigned β)
    (hsig : match sig.alg with
      | some (h, s) => h < 256 ∧ s < 256
      | none => True)
    (hd : sig.data.length < 65536) (r : List β) :
    parseContentAndSignature f sig.alg.isSome (enc ++ (encDigitallySigned sig ++ r)) = .ok r (v, sig) := by
  obtain ⟨alg, data⟩ := sig
  cases alg with
  | none =>
    simp [parseContentAndSignature, pair, hf, Res.bind, digitallySignedOld_roundtrip data hd]
  | some hs =>
    obtain ⟨h, s⟩ := hs
    simp only at hsig
    simp [parseContentAndSignature, pair, hf, Res.bind, digitallySigned_roundtrip h s data hsig.1 hsig.2 hd]

/-! ### non-vacuity -/
example : WFDh (β := Fin 256) ⟨[1, 2], [], [3]⟩ := by simp [WFDh]
example : parseEcParameters (β := Fin 256) [3, 0, 23, 9] = .ok [9] ⟨3, .namedGroup 23⟩ := by decide
example : parseEcParameters (β := Fin 256) [2, 0, 23, 9] = .error .Switch := by decide

end Tls
