/-
  Props/C02.lean — TLS record framing: exact header decode, length cap, streaming contract,
  for `parse_tls_raw_record`, `parse_tls_encrypted` and `parse_tls_plaintext`.
-/
import TlsModel.Lemmas.Basic
import TlsModel.Record
namespace Tls
variable {β : Type} [ByteLike β]

/-- the five header bytes of a record: type u8, version u16, length u16 (big-endian) -/
def encHeader (t v l : Nat) : List β := encBE 1 t ++ encBE 2 v ++ encBE 2 l

@[simp] theorem encHeader_length (t v l : Nat) : (encHeader t v l : List β).length = 5 := by
  simp [encHeader]

/-- **exact header decode**, stated on raw bytes: any five bytes decode as u8, u16, u16 big-endian -/
theorem header_decode (a b c d e : β) (r : List β) :
    parseRecordHeader (a :: b :: c :: d :: e :: r)
      = .ok r ⟨toNat a, toNat b * 256 + toNat c, toNat d * 256 + toNat e⟩ := by
  simp [parseRecordHeader, beU, beVal, Res.bind]

/-- header decode, stated on encodings: all 256 types, all versions, all lengths -/
theorem header_roundtrip (t v l : Nat) (ht : t < 256) (hv : v < 65536) (hl : l < 65536) (r : List β) :
    parseRecordHeader (encHeader t v l ++ r) = .ok r ⟨t, v, l⟩ := by
  unfold parseRecordHeader encHeader
  rw [List.append_assoc, List.append_assoc, beU_encBE 1 t _ (by simpa using ht)]
  simp only [Res.bind]
  rw [beU_encBE 2 v _ (by simpa using hv)]
  simp only [Res.bind]
  rw [beU_encBE 2 l _ (by simpa using hl)]

/-- header parser on short input: Incomplete with the exact number of missing bytes of the field it stopped in -/
theorem header_incomplete (i : List β) (h : i.length < 5) : ∃ n, parseRecordHeader i = .incomplete n := by
  unfold parseRecordHeader
  match i, h with
  | [], _ => exact ⟨_, rfl⟩
  | [_], _ => exact ⟨_, rfl⟩
  | [_, _], _ => exact ⟨_, rfl⟩
  | [_, _, _], _ => exact ⟨_, rfl⟩
  | [_, _, _, _], _ => exact ⟨_, rfl⟩

/-- declared length of a record whose header is present -/
def declLen (i : List β) : Nat := beVal ((i.drop 3).take 2)

theorem header_of_long (i : List β) (h : 5 ≤ i.length) :
    ∃ t v, parseRecordHeader i = .ok (i.drop 5) ⟨t, v, declLen i⟩ := by
  match i, h with
  | a :: b :: c :: d :: e :: r, _ =>
    exact ⟨toNat a, toNat b * 256 + toNat c, by simp [header_decode, declLen, beVal]⟩

/-! ### raw records -/

/-- **frame_exact**: consumes exactly 5+len bytes, payload is exactly those bytes, the rest is untouched -/
theorem raw_frame_exact (t v : Nat) (data r : List β) (ht : t < 256) (hv : v < 65536)
    (hlen : data.length ≤ 16640) :
    parseRawRecord (encHeader t v data.length ++ data ++ r) = .ok r ⟨⟨t, v, data.length⟩, data⟩ := by
  unfold parseRawRecord
  rw [List.append_assoc, header_roundtrip t v data.length ht hv (by omega)]
  have hl' : ¬ (16640 < data.length) := by omega
  simp [Res.bind, maxRecordLen, hl', take_append_exact]

theorem encrypted_frame_exact (t v : Nat) (data r : List β) (ht : t < 256) (hv : v < 65536)
    (hlen : data.length ≤ 16640) :
    parseEncrypted (encHeader t v data.length ++ data ++ r) = .ok r ⟨⟨t, v, data.length⟩, data⟩ := by
  unfold parseEncrypted
  rw [List.append_assoc, header_roundtrip t v data.length ht hv (by omega)]
  have hl' : ¬ (16640 < data.length) := by omega
  simp [Res.bind, maxRecordLen, hl', take_append_exact]

/-- **too_large**: a declared length above 2^14+256 is rejected with TooLarge whatever follows -/
theorem raw_too_large (i : List β) (h5 : 5 ≤ i.length) (hl : declLen i > 16640) :
    parseRawRecord i = .error .TooLarge := by
  obtain ⟨t, v, hh⟩ := header_of_long i h5
  simp [parseRawRecord, hh, Res.bind, maxRecordLen, hl]

theorem encrypted_too_large (i : List β) (h5 : 5 ≤ i.length) (hl : declLen i > 16640) :
    parseEncrypted i = .error .TooLarge := by
  obtain ⟨t, v, hh⟩ := header_of_long i h5
  simp [parseEncrypted, hh, Res.bind, maxRecordLen, hl]

theorem plaintext_too_large (i : List β) (h5 : 5 ≤ i.length) (hl : declLen i > 16640) :
    parsePlaintext i = .error .TooLarge := by
  obtain ⟨t, v, hh⟩ := header_of_long i h5
  simp [parsePlaintext, hh, Res.bind, maxRecordLen, hl]

/-- `MAX_RECORD_LEN` is 2^14 + 256 -/
theorem maxRecordLen_value : maxRecordLen = 2 ^ 14 + 256 := by decide

/-- **needed_exact** + **incomplete_iff** for raw records: Incomplete iff the input is a strict prefix of
    header+payload, and with the header present the Needed size is exactly the number of missing bytes -/
theorem raw_incomplete_iff (i : List β) :
    (∃ n, parseRawRecord i = .incomplete n) ↔
      i.length < 5 ∨ (declLen i ≤ 16640 ∧ i.length < 5 + declLen i) := by
  by_cases h5 : 5 ≤ i.length
  · obtain ⟨t, v, hh⟩ := header_of_long i h5
    by_cases hl : declLen i > 16640
    · simp [parseRawRecord, hh, Res.bind, maxRecordLen, hl]; omega
    · have hl' : ¬ (16640 < declLen i) := hl
      by_cases hd : declLen i ≤ i.length - 5
      · simp [parseRawRecord, hh, Res.bind, maxRecordLen, hl', Tls.take, List.length_drop, hd]; omega
      · simp [parseRawRecord, hh, Res.bind, maxRecordLen, hl', Tls.take, List.length_drop, hd]; omega
  · have h5' : i.length < 5 := by omega
    obtain ⟨n, hn⟩ := header_incomplete i h5'
    simp [parseRawRecord, hn, Res.bind, h5']

theorem raw_needed_exact (i : List β) (h5 : 5 ≤ i.length) (hl : declLen i ≤ 16640)
    (hshort : i.length < 5 + declLen i) :
    parseRawRecord i = .incomplete (.size (5 + declLen i - i.length)) := by
  obtain ⟨t, v, hh⟩ := header_of_long i h5
  have hl' : ¬ (16640 < declLen i) := by omega
  have hd : ¬ declLen i ≤ i.length - 5 := by omega
  simp [parseRawRecord, hh, Res.bind, maxRecordLen, hl', Tls.take, List.length_drop, hd]
  omega

/-! ### encrypted records (same framing) -/

theorem encrypted_incomplete_iff (i : List β) :
    (∃ n, parseEncrypted i = .incomplete n) ↔
      i.length < 5 ∨ (declLen i ≤ 16640 ∧ i.length < 5 + declLen i) := by
  by_cases h5 : 5 ≤ i.length
  · obtain ⟨t, v, hh⟩ := header_of_long i h5
    by_cases hl : declLen i > 16640
    · simp [parseEncrypted, hh, Res.bind, maxRecordLen, hl]; omega
    · have hl' : ¬ (16640 < declLen i) := hl
      by_cases hd : declLen i ≤ i.length - 5
      · simp [parseEncrypted, hh, Res.bind, maxRecordLen, hl', Tls.take, List.length_drop, hd]; omega
      · simp [parseEncrypted, hh, Res.bind, maxRecordLen, hl', Tls.take, List.length_drop, hd]; omega
  · have h5' : i.length < 5 := by omega
    obtain ⟨n, hn⟩ := header_incomplete i h5'
    simp [parseEncrypted, hn, Res.bind, h5']

theorem encrypted_needed_exact (i : List β) (h5 : 5 ≤ i.length) (hl : declLen i ≤ 16640)
    (hshort : i.length < 5 + declLen i) :
    parseEncrypted i = .incomplete (.size (5 + declLen i - i.length)) := by
  obtain ⟨t, v, hh⟩ := header_of_long i h5
  have hl' : ¬ (16640 < declLen i) := by omega
  have hd : ¬ declLen i ≤ i.length - 5 := by omega
  simp [parseEncrypted, hh, Res.bind, maxRecordLen, hl', Tls.take, List.length_drop, hd]
  omega

/-! ### plaintext records: framing is that of raw records, the payload goes to `parseRecordWithHeader` -/

/-- a whole record payload never answers Incomplete (every arm is wrapped in `complete`, or cannot) -/
theorem recordWithHeader_neverIncomplete (hdr : RecordHeader) :
    NeverIncomplete (parseRecordWithHeader hdr : Parser β _) := by
  intro i n
  unfold parseRecordWithHeader
  split; · exact NeverIncomplete.many1 (NeverIncomplete.complete _) i n
  split; · exact NeverIncomplete.many1 (NeverIncomplete.complete _) i n
  split; · exact NeverIncomplete.many1 (NeverIncomplete.complete _) i n
  split; · simp [mapP, parseMessageAppData, Res.map]
  split; · exact NeverIncomplete.complete _ i n
  simp

/-- **one step = framing + payload parser** (also the C03 one-step/two-step agreement) -/
theorem plaintext_frame (t v : Nat) (data r : List β) (ht : t < 256) (hv : v < 65536)
    (hlen : data.length ≤ 16640) :
    parsePlaintext (encHeader t v data.length ++ data ++ r)
      = (parseRecordWithHeader ⟨t, v, data.length⟩ data).bind fun _ msg => .ok r ⟨⟨t, v, data.length⟩, msg⟩ := by
  unfold parsePlaintext
  rw [List.append_assoc, header_roundtrip t v data.length ht hv (by omega)]
  have hl' : ¬ (16640 < data.length) := by omega
  simp only [Res.bind, maxRecordLen, hl', if_false, mapParser, take_append_exact]
  cases parseRecordWithHeader ⟨t, v, data.length⟩ data <;> rfl

theorem plaintext_incomplete_iff (i : List β) :
    (∃ n, parsePlaintext i = .incomplete n) ↔
      i.length < 5 ∨ (declLen i ≤ 16640 ∧ i.length < 5 + declLen i) := by
  by_cases h5 : 5 ≤ i.length
  · obtain ⟨t, v, hh⟩ := header_of_long i h5
    by_cases hl : declLen i > 16640
    · simp [parsePlaintext, hh, Res.bind, maxRecordLen, hl]; omega
    · have hl' : ¬ (16640 < declLen i) := hl
      by_cases hd : declLen i ≤ i.length - 5
      · have hni := recordWithHeader_neverIncomplete (β := β) ⟨t, v, declLen i⟩ ((i.drop 5).take (declLen i))
        have : ¬ i.length < 5 + declLen i := by omega
        simp only [parsePlaintext, hh, Res.bind, maxRecordLen, hl', if_false, mapParser, Tls.take,
          List.length_drop, hd, if_true, this, and_false, or_false]
        cases hp : parseRecordWithHeader ⟨t, v, declLen i⟩ ((i.drop 5).take (declLen i)) <;> simp_all
      · simp [parsePlaintext, hh, Res.bind, maxRecordLen, hl', mapParser, Tls.take, List.length_drop, hd]; omega
  · have h5' : i.length < 5 := by omega
    obtain ⟨n, hn⟩ := header_incomplete i h5'
    simp [parsePlaintext, hn, Res.bind, h5']

theorem plaintext_needed_exact (i : List β) (h5 : 5 ≤ i.length) (hl : declLen i ≤ 16640)
    (hshort : i.length < 5 + declLen i) :
    parsePlaintext i = .incomplete (.size (5 + declLen i - i.length)) := by
  obtain ⟨t, v, hh⟩ := header_of_long i h5
  have hl' : ¬ (16640 < declLen i) := by omega
  have hd : ¬ declLen i ≤ i.length - 5 := by omega
  simp [parsePlaintext, hh, Res.bind, maxRecordLen, hl', mapParser, Tls.take, List.length_drop, hd]
  omega

/-! ### non-vacuity -/

example : parseRawRecord (β := Fin 256) [22, 3, 3, 0, 2, 7, 8, 9] = .ok [9] ⟨⟨22, 771, 2⟩, [7, 8]⟩ := by decide
example : parseRawRecord (β := Fin 256) [22, 3, 3, 0x41, 0x01, 7] = .error .TooLarge := by decide
example : parseRawRecord (β := Fin 256) [22, 3, 3, 0x41, 0x00, 7] = .incomplete (.size 16639) := by decide
example : parsePlaintext (β := Fin 256) [24, 3, 3, 0, 5, 1, 0xff, 0xff, 9, 9] = .error .Complete := by decide

end Tls
