/-
  Props/C09.lean — serializer output parses back to the same value with consistent lengths.
  Strategy: under the wire limits (`WFSer…`), the model of the serializer produces exactly the RFC
  encoding (`encHandshake` / `encExtension` of Encode.lean / C05) of the normalised value; the round trip
  is then the parser round-trip theorem (C04 / C03 / C05), and every length field is the length of what
  it prefixes because that is how the encoders are built (`encLD`).
-/
import TlsModel.Serialize
import TlsModel.Props.C03
import TlsModel.Props.C05
namespace Tls
variable {β : Type} [ByteLike β]

/-- what parsing gives back: an absent extension block reads back as an empty one; a DH / ECDH ClientKeyExchange as
    the opaque body holding the length-prefixed public value -/
def normExt : Option (List β) → Option (List β)
  | none => some []
  | some e => some e

def normHandshake : Handshake β → Handshake β
  | .clientHello c => .clientHello { c with ext := normExt c.ext }
  | .serverHello s => .serverHello (if s.version = 0x0300 then s else { s with ext := normExt s.ext })
  | .serverHello13d18 s => .serverHello13d18 { s with ext := normExt s.ext }
  | .clientKeyExchange (.dh b) => .clientKeyExchange (.unknown (encLD 2 b))
  | .clientKeyExchange (.ecdh p) => .clientKeyExchange (.unknown (encLD 1 p))
  | h => h

theorem serSessionId_eq (sid : Option (List β)) (h : WFSid sid) : serSessionId sid = encSid sid := by
  cases sid with
  | none => rfl
  | some s =>
    have : s.length % 256 = s.length := Nat.mod_eq_of_lt (by have := h.2; omega)
    simp [serSessionId, encSid, encLD, this]

theorem serMaybeExt_eq (e : Option (List β)) (h : WFOptExt e) : serMaybeExt e = encOptExt (normExt e) := by
  cases e with
  | none => simp [serMaybeExt, normExt, encOptExt, encLD]
  | some x =>
    have : x.length % 65536 = x.length := Nat.mod_eq_of_lt h
    simp [serMaybeExt, normExt, encOptExt, encLD, this]

theorem lengthBeU24_eq (b : List β) (h : b.length < 16777216) : lengthBeU24 b = encLD 3 b := by
  have : b.length % 4294967296 % 16777216 = b.length := by omega
  simp [lengthBeU24, encLD, this]

theorem lengthBeU16_eq (b : List β) (h : b.length < 65536) : lengthBeU16 b = encLD 2 b := by
  have : b.length % 65536 = b.length := Nat.mod_eq_of_lt h
  simp [lengthBeU16, encLD, this]

theorem WFOptExt_norm (e : Option (List β)) (h : WFOptExt e) : WFOptExt (normExt e) := by
  cases e <;> simp_all [normExt, WFOptExt]

/-! ### ClientHello -/

/-- wire limits of a serializable ClientHello: 32-byte random, session id absent or 1..32 bytes, at most 32767
    cipher suites, at most 255 compression methods, extension block below 65536 bytes, body below 2^24 -/
def WFSerClientHello (c : ClientHello β) : Prop :=
  WFClientHello c ∧ c.ciphers.length ≤ 32767 ∧ (encClientHelloBody { c with ext := normExt c.ext }).length < 16777216

theorem serClientHello_eq (c : ClientHello β) (h : WFSerClientHello c) :
    serClientHello c = .bytes (encHandshake (normHandshake (.clientHello c))) := by
  obtain ⟨⟨hv, hr, hsid, hci, hcl, hco, hcol, hext⟩, hn, hlen⟩ := h
  have h1 : ¬ (c.ciphers.length % 65536 * 2 ≥ 65536) := by omega
  have h2 : c.ciphers.length % 65536 * 2 = (encU16s c.ciphers : List β).length := by simp; omega
  have h3 : c.comp.length % 256 = (encBytes c.comp : List β).length := by simp; omega
  unfold serClientHello
  simp only [h1, if_false, encHandshake, normHandshake, hsTypeAndBody]
  rw [← lengthBeU24_eq _ hlen]
  simp only [encClientHelloBody, encLD, serSessionId_eq _ hsid, serMaybeExt_eq _ hext, h2, h3, List.append_assoc]

/-- **ClientHello round trip**: serialization succeeds, the bytes parse back (entirely) to the original value with an
    absent extension block read back as an empty one, and re-serializing that value reproduces the same bytes -/
theorem clientHello_serialize_roundtrip (c : ClientHello β) (h : WFSerClientHello c) :
    ∃ b, serHandshake (.clientHello c) = .bytes b ∧
      parseMessageHandshake b = .ok [] (.handshake (normHandshake (.clientHello c))) ∧
      serHandshake (normHandshake (.clientHello c)) = .bytes b := by
  refine ⟨_, serClientHello_eq c h, ?_, ?_⟩
  · have hw : WFHandshake (normHandshake (.clientHello c)) := by
      obtain ⟨⟨hv, hr, hsid, hci, hcl, hco, hcol, hext⟩, _, _⟩ := h
      exact ⟨hv, hr, hsid, hci, hcl, hco, hcol, WFOptExt_norm _ hext⟩
    have := handshake_roundtrip (normHandshake (.clientHello c)) hw (by simpa [normHandshake, hsTypeAndBody] using h.2.2) []
    simpa using this
  · have h' : WFSerClientHello { c with ext := normExt c.ext } := by
      obtain ⟨⟨hv, hr, hsid, hci, hcl, hco, hcol, hext⟩, hn, hlen⟩ := h
      refine ⟨⟨hv, hr, hsid, hci, hcl, hco, hcol, WFOptExt_norm _ hext⟩, hn, ?_⟩
      cases he : c.ext <;> simpa [normExt, he] using hlen
    have := serClientHello_eq _ h'
    simp only [serHandshake, normHandshake] at this ⊢
    rw [this]
    cases he : c.ext <;> simp [normHandshake, normExt, he]

/-! ### ServerHello: TLS 1.0–1.2, SSLv3 (no extension block on the wire is read), TLS 1.3 draft 18 -/

def WFSerServerHello (s : ServerHello β) : Prop :=
  WFServerHello s ∧ s.version ≠ 0x0300 ∧ (encServerHelloBody { s with ext := normExt s.ext }).length < 16777216

theorem serServerHello_eq (s : ServerHello β) (h : WFSerServerHello s) :
    serServerHello s = .bytes (encHandshake (normHandshake (.serverHello s))) := by
  obtain ⟨⟨hr, hsid, hc, hco, hext, hver⟩, hv3, hlen⟩ := h
  unfold serServerHello
  simp only [encHandshake, normHandshake, hsTypeAndBody, hv3, if_false]
  rw [← lengthBeU24_eq _ hlen]
  simp only [encServerHelloBody, serSessionId_eq _ hsid, serMaybeExt_eq _ hext]

theorem serverHello_serialize_roundtrip (s : ServerHello β) (h : WFSerServerHello s) :
    ∃ b, serHandshake (.serverHello s) = .bytes b ∧
      parseMessageHandshake b = .ok [] (.handshake (normHandshake (.serverHello s))) ∧
      serHandshake (normHandshake (.serverHello s)) = .bytes b := by
  refine ⟨_, serServerHello_eq s h, ?_, ?_⟩
  · obtain ⟨⟨hr, hsid, hc, hco, hext, hver⟩, hv3, hlen⟩ := h
    have hw : WFHandshake (normHandshake (.serverHello s)) := by
      simp only [normHandshake, hv3, if_false]
      refine ⟨hr, hsid, hc, hco, WFOptExt_norm _ hext, ?_⟩
      rcases hver with h | h | h | ⟨h, _⟩
      · exact .inl h
      · exact .inr (.inl h)
      · exact .inr (.inr (.inl h))
      · exact absurd h hv3
    have := handshake_roundtrip (normHandshake (.serverHello s)) hw (by simpa [normHandshake, hsTypeAndBody, hv3] using hlen) []
    simpa using this
  · have h' : WFSerServerHello { s with ext := normExt s.ext } := by
      obtain ⟨⟨hr, hsid, hc, hco, hext, hver⟩, hv3, hlen⟩ := h
      refine ⟨⟨hr, hsid, hc, hco, WFOptExt_norm _ hext, ?_⟩, hv3, ?_⟩
      · rcases hver with h | h | h | ⟨h, _⟩
        · exact .inl h
        · exact .inr (.inl h)
        · exact .inr (.inr (.inl h))
        · exact absurd h hv3
      · cases he : s.ext <;> simpa [normExt, he] using hlen
    have := serServerHello_eq _ h'
    have hv3 := h.2.1
    simp only [serHandshake, normHandshake, hv3, if_false] at this ⊢
    rw [this]
    cases he : s.ext <;> simp [normExt, he]

/-- SSLv3: the serializer still writes an (empty) extension block, which the SSLv3 parser does not read: the two bytes
    stay inside the message body and are ignored; the value read back is the original (no extension block) -/
theorem sslv3ServerHello_serialize_roundtrip (s : ServerHello β) (hw : WFServerHello s) (hv : s.version = 0x0300)
    (hlen : (encServerHelloBody s).length + 2 < 16777216) :
    ∃ b, serHandshake (.serverHello s) = .bytes b ∧ parseMessageHandshake b = .ok [] (.handshake (.serverHello s)) := by
  obtain ⟨hr, hsid, hc, hco, hext, hver⟩ := hw
  have hnone : s.ext = none := by
    rcases hver with h | h | h | ⟨_, h⟩ <;> first | omega | exact h
  obtain ⟨version, random, sid, cipher, comp, ext⟩ := s
  simp only at hv hnone hr hsid hc hco; subst hv; subst hnone
  refine ⟨_, rfl, ?_⟩
  -- body = SSLv3 fields ++ [0, 0]
  have hbody : parseMsgServerHello ((encBE 2 0x0300 : List β) ++ (random ++ (serSessionId sid ++ (encBE 2 cipher ++ (encBE 1 comp ++ serMaybeExt none)))))
      = .ok (encBE 2 0) (.serverHello ⟨0x0300, random, sid, cipher, comp, none⟩) := by
    unfold parseMsgServerHello
    rw [beU2_enc _ (by decide)]; simp only [Res.bind_ok]
    simp only [show ¬ ((0x0300 : Nat) = 0x7f12) by decide, show ¬ ((0x0300 : Nat) = 0x0303) by decide,
      show ¬ ((0x0300 : Nat) = 0x0302) by decide, show ¬ ((0x0300 : Nat) = 0x0301) by decide, if_false, if_true, mapP]
    unfold parseServerHelloV12
    rw [beU2_enc _ (by decide)]; simp only [Res.bind_ok]
    rw [take32_enc _ _ hr]; simp only [Res.bind_ok]
    rw [serSessionId_eq _ hsid]
    have hs := sid_enc sid hsid (encBE 2 cipher ++ (encBE 1 comp ++ serMaybeExt none))
    cases hvv : verify (beU 1) (fun n => decide (n ≤ 32)) (encSid sid ++ (encBE 2 cipher ++ (encBE 1 comp ++ serMaybeExt (none : Option (List β))))) with
    | ok r1 sidlen =>
      rw [hvv] at hs; simp only [Res.bind_ok] at hs ⊢
      rw [hs]; simp only [Res.bind_ok]
      rw [beU2_enc _ hc]; simp only [Res.bind_ok]
      rw [beU1_enc _ hco]; simp [Res.map, serMaybeExt]
    | incomplete n => rw [hvv] at hs; simp at hs
    | error k => rw [hvv] at hs; simp at hs
    | failure k => rw [hvv] at hs; simp at hs
    | panic => rw [hvv] at hs; simp at hs
  simp only [serHandshake, serServerHello]
  have hl : ((encBE 2 0x0300 : List β) ++ (random ++ (serSessionId sid ++ (encBE 2 cipher ++ (encBE 1 comp ++ serMaybeExt none))))).length < 16777216 := by
    have : (serMaybeExt (none : Option (List β))).length = 2 := by simp [serMaybeExt]
    simp only [encServerHelloBody, encOptExt, List.append_nil, List.length_append, serSessionId_eq _ hsid] at hlen ⊢
    omega
  rw [lengthBeU24_eq _ hl]
  have := handshake_confined 0x02 0 ((encBE 2 0x0300 : List β) ++ (random ++ (serSessionId sid ++ (encBE 2 cipher ++ (encBE 1 comp ++ serMaybeExt none))))) [] (by decide) hl
  simp only [List.append_nil] at this
  rw [this]
  simp only [parseHandshakeBody, show ¬ ((2 : Nat) = 0) by decide, show ¬ ((2 : Nat) = 1) by decide, if_false, if_true, hbody, Res.bind_ok]

def WFSerServerHello13d18 (s : ServerHello13d18 β) : Prop :=
  WFServerHello13d18 s ∧ (encServerHello13d18Body { s with ext := normExt s.ext }).length < 16777216

theorem serverHello13d18_serialize_roundtrip (s : ServerHello13d18 β) (h : WFSerServerHello13d18 s) :
    ∃ b, serHandshake (.serverHello13d18 s) = .bytes b ∧
      parseMessageHandshake b = .ok [] (.handshake (normHandshake (.serverHello13d18 s))) := by
  obtain ⟨⟨hver, hr, hc, hext⟩, hlen⟩ := h
  have heq : serServerHello13d18 s = .bytes (encHandshake (normHandshake (.serverHello13d18 s))) := by
    unfold serServerHello13d18
    simp only [encHandshake, normHandshake, hsTypeAndBody]
    rw [← lengthBeU24_eq _ hlen]
    simp only [encServerHello13d18Body, serMaybeExt_eq _ hext]
  refine ⟨_, heq, ?_⟩
  have hw : WFHandshake (normHandshake (.serverHello13d18 s)) := ⟨hver, hr, hc, WFOptExt_norm _ hext⟩
  have := handshake_roundtrip (normHandshake (.serverHello13d18 s)) hw (by simpa [normHandshake, hsTypeAndBody] using hlen) []
  simpa using this

/-! ### plaintext records -/

/-- a message that serializes to the RFC encoding of its normal form -/
def SerNormal (norm : Message β → Message β) (m : Message β) : Prop := serMessage m = .bytes (encMessage (norm m))

theorem serMessages_eq (norm : Message β → Message β) (ms : List (Message β)) (h : ∀ m ∈ ms, SerNormal norm m) :
    serMessages ms = .bytes ((ms.map norm).flatMap encMessage) := by
  induction ms with
  | nil => rfl
  | cons m ms ih =>
    have h1 : serMessage m = .bytes (encMessage (norm m)) := h m (by simp)
    have h2 := ih (fun x hx => h x (by simp [hx]))
    simp only [serMessages, h1, h2, SerRes.bind, List.map_cons, List.flatMap_cons]

/-- **record round trip**: a record of one or more serializable messages of its content type (handshake or
    ChangeCipherSpec), payload within the record-length cap: serialization succeeds, the record length field is the
    payload length, and parsing consumes everything and yields the (normalised) messages with that length in the header -/
theorem plaintext_serialize_roundtrip (t v : Nat) (ht : t = 0x14 ∨ t = 0x16) (hv : v < 65536)
    (norm : Message β → Message β) (ms : List (Message β)) (hne : ms ≠ [])
    (hser : ∀ m ∈ ms, SerNormal norm m) (hk : ∀ m ∈ ms, (norm m).contentType = t) (hw : ∀ m ∈ ms, WFMessage (norm m))
    (hcap : ((ms.map norm).flatMap encMessage).length ≤ 16640) (l0 : Nat) :
    ∃ b, serPlaintext ⟨⟨t, v, l0⟩, ms⟩ = .bytes b ∧
      parsePlaintext b = .ok [] ⟨⟨t, v, ((ms.map norm).flatMap encMessage).length⟩, ms.map norm⟩ := by
  have hs := serMessages_eq norm ms hser
  have hl : ((ms.map norm).flatMap encMessage).length < 65536 := by omega
  have ht256 : t < 256 := by rcases ht with h | h <;> omega
  refine ⟨encHeader t v ((ms.map norm).flatMap encMessage).length ++ (ms.map norm).flatMap encMessage, ?_, ?_⟩
  · simp only [serPlaintext, hs, SerRes.bind, lengthBeU16_eq _ hl, encLD, encHeader, List.append_assoc]
  · have := plaintext_frame t v ((ms.map norm).flatMap encMessage) [] ht256 hv hcap
    simp only [List.append_nil] at this
    rw [this]
    have hp := payload_roundtrip (β := β) ⟨t, v, ((ms.map norm).flatMap encMessage).length⟩
      (by rcases ht with h | h <;> simp [h]) (ms.map norm) (by simpa using hne)
      (by intro m hm; obtain ⟨m0, hm0, rfl⟩ := List.mem_map.mp hm; exact hk m0 hm0)
      (by intro m hm; obtain ⟨m0, hm0, rfl⟩ := List.mem_map.mp hm; exact hw m0 hm0)
    rw [hp]; rfl

/-! ### Finished, HelloRequest, ClientKeyExchange, ChangeCipherSpec -/

theorem finished_serialize_roundtrip (d : List β) (h : d.length < 16777216) :
    serHandshake (.finished d) = .bytes (encHandshake (.finished d)) ∧
    parseMessageHandshake (encHandshake (.finished d) : List β) = .ok [] (.handshake (.finished d)) := by
  refine ⟨by simp [serHandshake, encHandshake, hsTypeAndBody, lengthBeU24_eq d h], ?_⟩
  have := handshake_roundtrip (β := β) (.finished d) trivial (by simpa [hsTypeAndBody] using h) []
  simpa using this

theorem helloRequest_serialize_roundtrip :
    serHandshake (.helloRequest : Handshake β) = .bytes (encHandshake .helloRequest) ∧
    parseMessageHandshake (encHandshake .helloRequest : List β) = .ok [] (.handshake .helloRequest) := by
  refine ⟨by simp [serHandshake, encHandshake, hsTypeAndBody, encLD], ?_⟩
  have := handshake_roundtrip (β := β) .helloRequest trivial (by simp [hsTypeAndBody]) []
  simpa using this

/-- every form of ClientKeyExchange serializes to the message whose opaque body is what the parser returns
    (`Unknown(body)`): the raw bytes, the u16-prefixed DH value, the u8-prefixed EC point -/
theorem clientKeyExchange_serialize_roundtrip (c : CKE β)
    (h : match c with
      | .unknown b => b.length < 16777216
      | .dh b => b.length < 65536
      | .ecdh p => p.length < 256) :
    ∃ b, serHandshake (.clientKeyExchange c) = .bytes b ∧
      parseMessageHandshake b = .ok [] (.handshake (normHandshake (.clientKeyExchange c))) ∧
      serHandshake (normHandshake (.clientKeyExchange c)) = .bytes b := by
  cases c with
  | unknown b =>
    refine ⟨encHandshake (.clientKeyExchange (.unknown b)), by simp [serHandshake, serClientKeyExchange, encHandshake, hsTypeAndBody, lengthBeU24_eq b h], ?_,
      by simp [normHandshake, serHandshake, serClientKeyExchange, encHandshake, hsTypeAndBody, lengthBeU24_eq b h]⟩
    have := handshake_roundtrip (β := β) (.clientKeyExchange (.unknown b)) trivial (by simpa [hsTypeAndBody] using h) []
    simpa [normHandshake] using this
  | dh b =>
    have hl : (encLD 2 b : List β).length < 16777216 := by simp; omega
    refine ⟨encHandshake (.clientKeyExchange (.unknown (encLD 2 b))), ?_, ?_, ?_⟩
    · simp [serHandshake, serClientKeyExchange, encHandshake, hsTypeAndBody, lengthBeU16_eq b h, lengthBeU24_eq _ hl]
    · have := handshake_roundtrip (β := β) (.clientKeyExchange (.unknown (encLD 2 b))) trivial (by simpa [hsTypeAndBody] using hl) []
      simpa [normHandshake] using this
    · simp [normHandshake, serHandshake, serClientKeyExchange, encHandshake, hsTypeAndBody, lengthBeU24_eq _ hl]
  | ecdh p =>
    have hl : (encLD 1 p : List β).length < 16777216 := by simp; omega
    have hp : p.length % 256 = p.length := Nat.mod_eq_of_lt h
    refine ⟨encHandshake (.clientKeyExchange (.unknown (encLD 1 p))), ?_, ?_, ?_⟩
    · simp only [serHandshake, serClientKeyExchange, encHandshake, hsTypeAndBody, hp]
      rw [show (encBE 1 p.length : List β) ++ p = encLD 1 p from rfl, lengthBeU24_eq _ hl]
    · have := handshake_roundtrip (β := β) (.clientKeyExchange (.unknown (encLD 1 p))) trivial (by simpa [hsTypeAndBody] using hl) []
      simpa [normHandshake] using this
    · simp [normHandshake, serHandshake, serClientKeyExchange, encHandshake, hsTypeAndBody, lengthBeU24_eq _ hl]

/-- **ChangeCipherSpec** serializes to the single byte 1, which is what the parser accepts -/
theorem ccs_serialize_roundtrip :
    serMessage (.changeCipherSpec : Message β) = .bytes (encBE 1 1) ∧
    parseMessageCCS (encBE 1 1 : List β) = .ok [] .changeCipherSpec := by
  refine ⟨rfl, ?_⟩
  have := ccs_roundtrip (β := β) []
  simpa using this

/-- **unsupported values yield NotYetImplemented**, never bytes -/
theorem unsupported_handshake (h : Handshake β)
    (hu : match h with
      | .helloRequest | .clientHello _ | .serverHello _ | .serverHello13d18 _ | .clientKeyExchange _ | .finished _ => False
      | _ => True) : serHandshake h = .notImplemented := by
  cases h <;> simp_all [serHandshake]

theorem unsupported_message (m : Message β)
    (hu : match m with
      | .alert .. | .applicationData _ | .heartbeat .. => True
      | _ => False) : serMessage m = .notImplemented := by
  cases m <;> simp_all [serMessage]

theorem unsupported_extension (e : Extension β)
    (hu : match e with
      | .sni _ | .maxFragmentLength _ | .ellipticCurves _ => False
      | _ => True) : serExtension e = .notImplemented := by
  cases e <;> simp_all [serExtension]

/-! ### extensions through `gen_tls_extension` and back through the extension parsers -/

theorem flatMap_congr_mem {α γ : Type} (l : List α) (f g : α → List γ) (h : ∀ x ∈ l, f x = g x) : l.flatMap f = l.flatMap g := by
  induction l with
  | nil => rfl
  | cons a l ih => simp only [List.flatMap_cons, h a (by simp), ih (fun x hx => h x (by simp [hx]))]

theorem serExtension_eq (e : Extension β) (hw : WFExtension e)
    (hs : match e with
      | .sni _ | .maxFragmentLength _ | .ellipticCurves _ => True
      | _ => False) : serExtension e = .bytes (encExtension e) := by
  obtain ⟨hc, hl⟩ := hw
  cases e <;> simp at hs
  · rename_i l
    obtain ⟨h1, h2⟩ := hc
    have hinner : (l.flatMap fun p => (encBE 1 p.1 : List β) ++ (encBE 2 (p.2.length % 65536) ++ p.2)) = l.flatMap encSniEntry := by
      apply flatMap_congr_mem
      intro p hp
      have := (h1 p hp).2
      simp [encSniEntry, encLD, Nat.mod_eq_of_lt this]
    simp only [extContent] at hl
    simp only [serExtension, taggedExtension, hinner, encExtension, Extension.wireType, Extension.typeOf, extContent]
    rw [lengthBeU16_eq _ h2, lengthBeU16_eq _ hl]
  · simp only [extContent] at hl
    simp only [serExtension, taggedExtension, encExtension, Extension.wireType, Extension.typeOf, extContent]
    rw [lengthBeU16_eq _ hl]
  · rename_i l
    simp only [extContent] at hl
    have h2 : (encU16s l : List β).length < 65536 := by simpa using hc.2
    simp only [serExtension, taggedExtension, encExtension, Extension.wireType, Extension.typeOf, extContent]
    rw [lengthBeU16_eq _ h2, lengthBeU16_eq _ hl]

/-- SNI, max-fragment-length and supported-groups round-trip through `gen_tls_extension` and `parse_tls_extension` -/
theorem extension_serialize_roundtrip (e : Extension β) (hw : WFExtension e)
    (hs : match e with
      | .sni _ | .maxFragmentLength _ | .ellipticCurves _ => True
      | _ => False) (r : List β) :
    ∃ b, serExtension e = .bytes b ∧ parseExtension (b ++ r) = .ok r e := by
  refine ⟨encExtension e, serExtension_eq e hw hs, ?_⟩
  cases e <;> simp at hs <;> exact extension_roundtrip_known _ rfl hw .generic rfl r

/-! ### lengths are consistent by construction -/

/-- every length field the serializers emit is `encLD`'s: the byte length of exactly what it prefixes -/
theorem encLD_length_field (w : Nat) (d : List β) (h : d.length < 256 ^ w) :
    beVal ((encLD w d).take w) = d.length ∧ (encLD w d).drop w = d := by
  have hl : (encBE w d.length : List β).length = w := encBE_length w d.length
  have ht : (encLD w d).take w = (encBE w d.length : List β) := List.take_left' hl
  have hd : (encLD w d).drop w = d := List.drop_left' hl
  exact ⟨by rw [ht, beVal_encBE _ _ h], hd⟩

/-! ### non-vacuity -/
example : serMessage (β := Fin 256) .changeCipherSpec = .bytes [1] := by decide
example : serHandshake (β := Fin 256) (.finished [7, 8]) = .bytes [20, 0, 0, 2, 7, 8] := by decide
example : serHandshake (β := Fin 256) (.keyUpdate 1) = .notImplemented := by decide

end Tls
