/-
  Props/C15.lean — hello accessors and constructors reflect the parsed fields.
  The trait accessors are the structure's own fields by definition; the derived accessors are modelled here
  (`rand_time` as repaired: big-endian u32 of the first four random bytes) and related to the parsed value.
-/
import TlsModel.Props.C04
import TlsModel.Ciphers
import TlsModel.Accessors
namespace Tls
variable {β : Type} [ByteLike β]

theorem randTime_eq (a b c d : β) (rest : List β) :
    randTime (a :: b :: c :: d :: rest) = ((toNat a * 256 + toNat b) * 256 + toNat c) * 256 + toNat d := by
  simp [randTime, beVal]

theorem randTime_lt (random : List β) : randTime random < 4294967296 := by
  unfold randTime; split
  · have := beVal_lt (random.take 4)
    have hl : (random.take 4).length = 4 := by simp [List.length_take]; omega
    rw [hl] at this; simpa using this
  · decide

theorem randBytes_eq (a b c d : β) (rest : List β) : randBytes (a :: b :: c :: d :: rest) = rest := by
  simp [randBytes]

theorem rand_split (random : List β) (h : 4 ≤ random.length) : random.take 4 ++ randBytes random = random := by
  simp [randBytes, h]

theorem Res.bind_eq_ok {α γ : Type} {r : Res β α} {f : List β → α → Res β γ} {a : List β} {b : γ}
    (h : r.bind f = .ok a b) : ∃ i x, r = .ok i x ∧ f i x = .ok a b := by
  cases r <;> simp [Res.bind] at h
  exact ⟨_, _, rfl, h⟩

/-- a parsed ClientHello always has a 32-byte random: `rand_time` is its first four bytes, `rand_bytes` the other 28 -/
theorem parsed_hello_random (i r : List β) (c : ClientHello β) (h : parseClientHello i = .ok r c) :
    c.random.length = 32 ∧ (randBytes c.random).length = 28 ∧ randTime c.random = beVal (c.random.take 4) := by
  unfold parseClientHello at h
  obtain ⟨i1, version, _, h⟩ := Res.bind_eq_ok h
  obtain ⟨i2, random, hr, h⟩ := Res.bind_eq_ok h
  obtain ⟨i3, sidlen, _, h⟩ := Res.bind_eq_ok h
  obtain ⟨i4, sid, _, h⟩ := Res.bind_eq_ok h
  obtain ⟨i5, cl, _, h⟩ := Res.bind_eq_ok h
  obtain ⟨i6, cs, _, h⟩ := Res.bind_eq_ok h
  obtain ⟨i7, col, _, h⟩ := Res.bind_eq_ok h
  obtain ⟨i8, co, _, h⟩ := Res.bind_eq_ok h
  obtain ⟨i9, ext, _, h⟩ := Res.bind_eq_ok h
  simp at h
  have hlen : random.length = 32 := by
    unfold Tls.take at hr
    split at hr
    · simp at hr; rw [← hr.2]; simp [List.length_take]; omega
    · simp at hr
  rw [← h.2]
  refine ⟨hlen, ?_, ?_⟩
  · simp [randBytes, hlen, List.length_drop]
  · simp [randTime, hlen]

theorem cipherSuites_length (table : List CipherRow) (ciphers : List Nat) :
    (cipherSuites table ciphers).length = ciphers.length := by simp [cipherSuites]

theorem cipherSuites_get (table : List CipherRow) (ciphers : List Nat) (k : Nat) (hk : k < ciphers.length) :
    (cipherSuites table ciphers)[k]'(by simpa [cipherSuites] using hk) = fromId table ciphers[k] := by
  simp [cipherSuites]

example : randTime (β := Fin 256) [0x12, 0x34, 0x56, 0x78, 9, 9] = 0x12345678 := by decide
example : randTime (β := Fin 256) [1, 2, 3] = 0 := by decide

end Tls
