/-
  Props/C08.lean — the handshake state machine accepts exactly the documented flows.

  `specTransition` is written independently of the implementation's `match`: the documented
  handshakes as a list of edges (state, message kind, sender, next state) plus the special
  rules.  `transition_eq_spec` proves the model of `tls_state_transition` equal to it for
  every state, every message (whatever its content) and both directions; the lift to all
  finite message sequences is `run_eq_spec`.  `Gen/States.lean` (regenerated from the running
  implementation) is checked against the model in `TlsModel/Gen/StatesCheck.lean`.
-/
import TlsModel.States
namespace Tls

inductive HsKind where
  | helloRequest | clientHello | serverHello | serverHello13d18 | newSessionTicket | endOfEarlyData
  | helloRetryRequest | certificate | serverKeyExchange | certificateRequest | serverDone
  | certificateVerify | clientKeyExchange | finished | certificateStatus | nextProtocol | keyUpdate
  deriving DecidableEq, Repr

/-- everything the outcome may depend on besides state and direction -/
inductive MsgKind where
  | hs (k : HsKind) (sid : Bool)      -- `sid`: ClientHello carries a session id (false for other kinds)
  | ccs
  | alert (warning : Bool)            -- severity = 1 ?
  | app
  | hb
  deriving DecidableEq, Repr

variable {β : Type}

def hsKind : Handshake β → HsKind × Bool
  | .helloRequest => (.helloRequest, false)
  | .clientHello c => (.clientHello, c.sessionId.isSome)
  | .serverHello _ => (.serverHello, false)
  | .serverHello13d18 _ => (.serverHello13d18, false)
  | .newSessionTicket _ => (.newSessionTicket, false)
  | .endOfEarlyData => (.endOfEarlyData, false)
  | .helloRetryRequest _ => (.helloRetryRequest, false)
  | .certificate _ => (.certificate, false)
  | .serverKeyExchange _ => (.serverKeyExchange, false)
  | .certificateRequest _ => (.certificateRequest, false)
  | .serverDone _ => (.serverDone, false)
  | .certificateVerify _ => (.certificateVerify, false)
  | .clientKeyExchange _ => (.clientKeyExchange, false)
  | .finished _ => (.finished, false)
  | .certificateStatus _ => (.certificateStatus, false)
  | .nextProtocol _ => (.nextProtocol, false)
  | .keyUpdate _ => (.keyUpdate, false)

def msgKind : Message β → MsgKind
  | .handshake h => .hs (hsKind h).1 (hsKind h).2
  | .changeCipherSpec => .ccs
  | .alert sev _ => .alert (sev = 1)
  | .applicationData _ => .app
  | .heartbeat _ _ _ => .hb

/-! ### Specification: the documented flows -/

inductive Who where
  | client | server | any
  deriving DecidableEq, Repr

def Who.admits : Who → Bool → Bool
  | .client, toServer => toServer
  | .server, toServer => !toServer
  | .any, _ => true

structure Edge where
  src : TlsState
  msg : MsgKind
  who : Who
  dst : TlsState
  deriving DecidableEq, Repr

open TlsState HsKind in
/-- every step of every documented handshake, with its sender -/
def flows : List Edge := [
  -- full handshake
  ⟨none, .hs clientHello false, .client, clientHello⟩,
  ⟨clientHello, .hs serverHello false, .server, serverHello⟩,
  ⟨serverHello, .hs certificate false, .server, certificate⟩,
  ⟨certificate, .hs certificateStatus false, .server, certificateSt⟩,
  ⟨certificate, .hs serverKeyExchange false, .server, serverKeyExchange⟩,
  ⟨certificateSt, .hs serverKeyExchange false, .server, serverKeyExchange⟩,
  ⟨serverKeyExchange, .hs serverDone false, .server, serverHelloDone⟩,
  ⟨serverHelloDone, .hs clientKeyExchange false, .client, clientKeyExchange⟩,
  ⟨clientKeyExchange, .ccs, .any, clientChangeCipherSpec⟩,
  ⟨clientChangeCipherSpec, .ccs, .server, sessionEncrypted⟩,
  -- client certificate requested
  ⟨certificate, .hs certificateRequest false, .server, crCertRequest⟩,
  ⟨serverKeyExchange, .hs certificateRequest false, .server, crCertRequest⟩,
  ⟨crCertRequest, .hs serverDone false, .server, crHelloDone⟩,
  ⟨crHelloDone, .hs certificate false, .client, crCert⟩,
  ⟨crCert, .hs clientKeyExchange false, .client, crClientKeyExchange⟩,
  ⟨crClientKeyExchange, .hs certificateVerify false, .client, crCertVerify⟩,
  ⟨crClientKeyExchange, .ccs, .any, clientChangeCipherSpec⟩,
  ⟨crCertVerify, .ccs, .any, clientChangeCipherSpec⟩,
  -- anonymous server (no certificate)
  ⟨serverHello, .hs serverKeyExchange false, .server, noCertSKE⟩,
  ⟨noCertSKE, .hs serverDone false, .server, noCertHelloDone⟩,
  ⟨noCertHelloDone, .hs clientKeyExchange false, .client, noCertCKE⟩,
  ⟨noCertCKE, .ccs, .any, clientChangeCipherSpec⟩,
  -- key exchange without ServerKeyExchange
  ⟨certificate, .hs serverDone false, .server, pskHelloDone⟩,
  ⟨pskHelloDone, .hs clientKeyExchange false, .client, pskCKE⟩,
  ⟨pskCKE, .ccs, .any, clientChangeCipherSpec⟩,
  -- session resumption, and its fallback to a full handshake
  ⟨none, .hs clientHello true, .client, askResumeSession⟩,
  ⟨askResumeSession, .hs serverHello false, .server, resumeSession⟩,
  ⟨resumeSession, .ccs, .any, clientChangeCipherSpec⟩,
  ⟨resumeSession, .hs certificate false, .server, certificate⟩,
  -- TLS 1.3 draft 18, 1-RTT
  ⟨clientHello, .hs serverHello13d18 false, .server, clientChangeCipherSpec⟩,
  -- 0-RTT ChangeCipherSpec
  ⟨askResumeSession, .ccs, .client, askResumeSession⟩,
  -- NewSessionTicket after CCS
  ⟨clientChangeCipherSpec, .hs newSessionTicket false, .server, clientChangeCipherSpec⟩]

/-- the specification: special rules first, then the flows; `none` = `InvalidTransition` -/
def specTransition (s : TlsState) (k : MsgKind) (toServer : Bool) : Option TlsState :=
  if s = .invalid then some .invalid
  else if s = .sessionEncrypted then some .sessionEncrypted
  else if s = .finished then some .invalid
  else match k with
    | .alert w => if w then some s else some .finished
    | .hs .helloRequest _ => if s = .none then Option.none else some s
    | k => (flows.find? fun e => e.src = s ∧ e.msg = k ∧ e.who.admits toServer).map (·.dst)

/-! ### The model of the implementation equals the specification -/

/-- **accepts exactly the documented flows**: for every state, every message — whatever its
    content — and both directions, the implementation model answers what the specification says.
    In particular the outcome depends only on state, direction and `msgKind`. -/
theorem transition_eq_spec (s : TlsState) (m : Message β) (toServer : Bool) :
    tlsStateTransition s m toServer = specTransition s (msgKind m) toServer := by
  cases m with
  | handshake h =>
    cases h with
    | clientHello c =>
      rcases c with ⟨v, r, sid, ci, co, e⟩
      cases sid <;> cases s <;> cases toServer <;> rfl
    | _ => cases s <;> cases toServer <;> rfl
  | changeCipherSpec => cases s <;> cases toServer <;> rfl
  | alert sev code =>
    by_cases h : sev = 1
    · subst h; cases s <;> cases toServer <;> rfl
    · cases s <;> cases toServer <;>
        simp [tlsStateTransition, specTransition, msgKind, h]
  | applicationData b => cases s <;> cases toServer <;> rfl
  | heartbeat t l p => cases s <;> cases toServer <;> rfl

/-! ### Corollaries named by the property -/

theorem invalid_absorbing (m : Message β) (d : Bool) : tlsStateTransition .invalid m d = some .invalid := by
  rw [transition_eq_spec]; rfl

theorem sessionEncrypted_absorbing (m : Message β) (d : Bool) :
    tlsStateTransition .sessionEncrypted m d = some .sessionEncrypted := by
  rw [transition_eq_spec]; rfl

theorem finished_to_invalid (m : Message β) (d : Bool) : tlsStateTransition .finished m d = some .invalid := by
  rw [transition_eq_spec]; rfl

/-- live = not one of the three states handled before anything else -/
def TlsState.live (s : TlsState) : Prop := s ≠ .invalid ∧ s ≠ .sessionEncrypted ∧ s ≠ .finished

theorem warning_alert_keeps_state (s : TlsState) (hs : s.live) (code : Nat) (d : Bool) :
    tlsStateTransition s (.alert 1 code : Message β) d = some s := by
  rw [transition_eq_spec]; obtain ⟨h1, h2, h3⟩ := hs
  simp [specTransition, msgKind, h1, h2, h3]

theorem other_alert_finishes (s : TlsState) (hs : s.live) (sev code : Nat) (hsev : sev ≠ 1) (d : Bool) :
    tlsStateTransition s (.alert sev code : Message β) d = some .finished := by
  rw [transition_eq_spec]; obtain ⟨h1, h2, h3⟩ := hs
  simp [specTransition, msgKind, h1, h2, h3, hsev]

theorem hello_request_ignored (s : TlsState) (hs : s.live) (hn : s ≠ .none) (d : Bool) :
    tlsStateTransition s (.handshake .helloRequest : Message β) d = some s := by
  rw [transition_eq_spec]; obtain ⟨h1, h2, h3⟩ := hs
  simp [specTransition, msgKind, hsKind, h1, h2, h3, hn]

theorem hello_request_rejected_at_start (d : Bool) :
    tlsStateTransition .none (.handshake .helloRequest : Message β) d = Option.none := by
  rw [transition_eq_spec]; rfl

/-- every handshake message of a flow has exactly one documented sender -/
theorem flows_handshake_sender_fixed :
    flows.all (fun e => match e.msg with | .hs _ _ => e.who != .any | _ => true) = true := by decide

/-- the flow table is deterministic: no two edges for the same (state, kind, direction) -/
theorem flows_deterministic :
    flows.all (fun e => flows.all fun e' =>
      !(e.src == e'.src && e.msg == e'.msg && (e.who.admits true && e'.who.admits true || e.who.admits false && e'.who.admits false)) || e == e') = true := by
  decide

theorem specTransition_hs (s : TlsState) (hs : s.live) (k : HsKind) (b : Bool) (hk : k ≠ .helloRequest) (d : Bool) :
    specTransition s (.hs k b) d =
      (flows.find? fun e => e.src = s ∧ e.msg = .hs k b ∧ e.who.admits d).map (·.dst) := by
  obtain ⟨h1, h2, h3⟩ := hs
  cases k <;> first | exact absurd rfl hk | simp [specTransition, h1, h2, h3]

/-- **only from the peer that sends it**: a handshake message other than HelloRequest accepted in a
    live state is an edge of the documented flows whose sender is the message's direction. -/
theorem handshake_sender_only (s : TlsState) (hs : s.live) (h : Handshake β) (hh : (hsKind h).1 ≠ .helloRequest)
    (d : Bool) (s' : TlsState) (hacc : tlsStateTransition s (.handshake h) d = some s') :
    ∃ e ∈ flows, e.src = s ∧ e.msg = .hs (hsKind h).1 (hsKind h).2 ∧ e.dst = s' ∧ e.who ≠ .any ∧ e.who.admits d = true := by
  rw [transition_eq_spec] at hacc
  have hk : msgKind (.handshake h : Message β) = .hs (hsKind h).1 (hsKind h).2 := rfl
  rw [hk, specTransition_hs s hs _ _ hh, Option.map_eq_some_iff] at hacc
  obtain ⟨e, hf, hdst⟩ := hacc
  have hmem := List.mem_of_find?_eq_some hf
  have hp := List.find?_some hf
  simp at hp
  refine ⟨e, hmem, hp.1, hp.2.1, hdst, ?_, hp.2.2⟩
  have hall := flows_handshake_sender_fixed
  rw [List.all_eq_true] at hall
  have := hall e hmem
  rw [hp.2.1] at this
  simpa using this

/-! ### Lift to finite message sequences -/

/-- run the implementation model over a sequence of (message, direction) -/
def runImpl : TlsState → List (Message β × Bool) → Option TlsState
  | s, [] => some s
  | s, (m, d) :: rest => (tlsStateTransition s m d).bind fun s' => runImpl s' rest

/-- run the specification over the sequence of kinds -/
def runSpec : TlsState → List (MsgKind × Bool) → Option TlsState
  | s, [] => some s
  | s, (k, d) :: rest => (specTransition s k d).bind fun s' => runSpec s' rest

theorem run_eq_spec (s : TlsState) (ms : List (Message β × Bool)) :
    runImpl s ms = runSpec s (ms.map fun p => (msgKind p.1, p.2)) := by
  induction ms generalizing s with
  | nil => rfl
  | cons p ms ih =>
    obtain ⟨m, d⟩ := p
    simp only [runImpl, List.map_cons, runSpec, transition_eq_spec]
    cases specTransition s (msgKind m) d <;> simp [Option.bind, ih]

/-! ### Non-vacuity: documented handshakes are accepted from `None`, and a wrong sender is not -/

example : runSpec .none [(.hs .clientHello false, true), (.hs .serverHello false, false),
    (.hs .certificate false, false), (.hs .certificateStatus false, false),
    (.hs .serverKeyExchange false, false), (.hs .serverDone false, false),
    (.hs .clientKeyExchange false, true), (.ccs, true), (.ccs, false)] = some .sessionEncrypted := by decide

example : runSpec .none [(.hs .clientHello true, true), (.hs .serverHello false, false), (.ccs, false),
    (.hs .newSessionTicket false, false), (.ccs, false)] = some .sessionEncrypted := by decide

example : runSpec .none [(.hs .clientHello false, true), (.hs .serverHello false, false),
    (.hs .certificate false, false), (.hs .certificateRequest false, false), (.hs .serverDone false, false),
    (.hs .certificate false, true), (.hs .clientKeyExchange false, true),
    (.hs .certificateVerify false, false)] = Option.none := by decide

example : (TlsState.clientHello).live := by simp [TlsState.live]

/-! constructed values no parser produces are covered by `transition_eq_spec` like any other message: a session id that is
    present but empty still asks for resumption (presence, not length, decides), and a ServerHello in the 1.2 structure that
    merely carries the draft-18 version number is an ordinary ServerHello -/
example : tlsStateTransition (β := Fin 256) .none
    (.handshake (.clientHello ⟨0x0303, List.replicate 32 7, some [], [0x2f], [0], none⟩)) true = some .askResumeSession := by decide
example : tlsStateTransition (β := Fin 256) .clientHello
    (.handshake (.serverHello ⟨0x7f12, List.replicate 32 9, none, 0x2f, 0, none⟩)) false = some .serverHello := by decide
example : tlsStateTransition (β := Fin 256) .clientHello
    (.handshake (.serverHello ⟨0x7f12, List.replicate 32 9, none, 0x2f, 0, none⟩)) true = Option.none := by decide

end Tls
