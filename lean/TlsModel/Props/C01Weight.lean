/-
  Props/C01Weight.lean — allocation, logical part, for composite values: the weight of a returned value (one unit per
  `Vec` element at every nesting level + the length of every borrowed slice, `Lemmas/Weight.lean`) never exceeds the
  number of bytes the parser consumed.  Declared lengths and counts can therefore never make the crate build a value
  larger than its input: heap use of the *values* is linear in the input with constant ≤ `size_of` of the largest
  element type.  (Allocator growth policy and `Vec` capacity doubling are measured on the implementation.)
-/
import TlsModel.Lemmas.Weight
import TlsModel.Extensions
import TlsModel.Crypto
import TlsModel.Record
import TlsModel.Dtls
import TlsModel.Props.C01
namespace Tls
open Weight (weight)
variable {β : Type} [ByteLike β]

syntax "bd_side" : tactic
macro_rules | `(tactic| bd_side) => `(tactic| first
  | focus (intro x; simp [weight]; done)
  | focus (intro x; simp [weight]; omega)
  | focus (simp [weight]; done)
  | focus (simp [weight]; omega)
  | focus omega)

syntax "bd_step" : tactic
macro_rules | `(tactic| bd_step) => `(tactic| first
  | assumption
  | exact Bd.take _ rfl | exact Bd.beU _ (by omega) | exact Bd.tag _ (by simp) | exact Bd.error _ | exact Bd.panic
  | exact Bd.lengthData _ (by omega)
  | refine Bd.mapParser ?_ ?_ | refine Bd.verify ?_ | refine Bd.cond ?_ | refine Bd.opt ?_ | refine Bd.complete ?_
  | refine Bd.alt ?_ ?_ | refine Bd.pair ?_ ?_ | refine Bd.many0 ?_ | refine Bd.many1 ?_ | refine Bd.lengthCount ?_ ?_
  | exact Bd.okAll _ (by intro i; simp [weight])
  | (refine Bd.sub _ (by simp [weight]) ?_ ?_)
  | refine Bd.bind ?_ (fun _ => ?_)
  | refine Bd.peek (fun _ => ?_)
  | refine Bd.ite ?_ ?_
  | refine Bd.ite' ?_ ?_
  | refine Bd.iteI ?_ ?_
  | (refine Bd.mapP ?_ ?_)
  | (refine Bd.pure _ ?_)
  | bd_side)
macro "bd" : tactic => `(tactic| repeat bd_step)

/-! ### lists of integers -/

theorem parseCipherSuites_bd {K : Nat} (len : Nat) : Bd 0 K (parseCipherSuites len : Parser β (List Nat)) := by
  intro i r v h; unfold parseCipherSuites at h
  split at h
  · simp at h; obtain ⟨rfl, rfl⟩ := h; simp
  · split at h
    · simp at h
    · split at h
      · split at h
        · rename_i v' hv
          simp at h; obtain ⟨rfl, rfl⟩ := h
          have := chunks2_length _ _ hv
          simp [List.length_take] at this ⊢; omega
        · simp at h
      · simp at h
theorem parseCompressionsAlgs_bd {K : Nat} (len : Nat) : Bd 0 K (parseCompressionsAlgs len : Parser β (List Nat)) := by
  intro i r v h; unfold parseCompressionsAlgs at h
  split at h
  · simp at h; obtain ⟨rfl, rfl⟩ := h; simp
  · split at h
    · simp at h
    · split at h
      · simp at h; obtain ⟨rfl, rfl⟩ := h; simp [List.length_take]; omega
      · simp at h
theorem parseU16All_bd {K : Nat} : Bd 0 K (parseU16All : Parser β (List Nat)) := by
  intro i r v h; unfold parseU16All at h
  simp only at h
  split at h
  · simp at h; obtain ⟨rfl, rfl⟩ := h; simp
  · split at h
    · simp at h
    · split at h
      · split at h
        · rename_i v' hv
          simp at h; obtain ⟨rfl, rfl⟩ := h
          have := chunks2_length _ _ hv
          simp at this ⊢; omega
        · simp at h
      · simp at h
macro_rules | `(tactic| bd_step) => `(tactic| first
  | exact parseCipherSuites_bd _ | exact parseCompressionsAlgs_bd _ | exact parseU16All_bd)

/-! ### handshake bodies -/

theorem optExtBlock_bd {K : Nat} : Bd 0 K (optExtBlock : Parser β _) := by unfold optExtBlock; bd
macro_rules | `(tactic| bd_step) => `(tactic| exact optExtBlock_bd)
theorem parseClientHello_bd {K : Nat} : Bd 0 K (parseClientHello : Parser β _) := by unfold parseClientHello; bd
macro_rules | `(tactic| bd_step) => `(tactic| exact parseClientHello_bd)

theorem parseServerHelloV12_bd {K : Nat} (e : Bool) : Bd 0 K (parseServerHelloV12 e : Parser β _) := by
  unfold parseServerHelloV12; bd
macro_rules | `(tactic| bd_step) => `(tactic| exact parseServerHelloV12_bd _)
theorem parseServerHello13d18_bd {K : Nat} : Bd 0 K (parseServerHello13d18 : Parser β _) := by unfold parseServerHello13d18; bd
macro_rules | `(tactic| bd_step) => `(tactic| exact parseServerHello13d18_bd)
theorem parseServerHello_bd {K : Nat} : Bd 0 K (parseServerHello : Parser β _) := by unfold parseServerHello; bd
theorem parseMsgServerHello_bd {K : Nat} : Bd 0 K (parseMsgServerHello : Parser β _) := by unfold parseMsgServerHello; bd
macro_rules | `(tactic| bd_step) => `(tactic| exact parseMsgServerHello_bd)
theorem parseNewSessionTicket_bd {K : Nat} (len : Nat) : Bd 0 K (parseNewSessionTicket len : Parser β _) := by
  unfold parseNewSessionTicket; bd
macro_rules | `(tactic| bd_step) => `(tactic| exact parseNewSessionTicket_bd _)
theorem parseHelloRetryRequest_bd {K : Nat} : Bd 0 K (parseHelloRetryRequest : Parser β _) := by unfold parseHelloRetryRequest; bd
macro_rules | `(tactic| bd_step) => `(tactic| exact parseHelloRetryRequest_bd)
theorem parseCerts_bd {K : Nat} : Bd 0 K (parseCerts : Parser β _) := by unfold parseCerts; bd
macro_rules | `(tactic| bd_step) => `(tactic| exact parseCerts_bd)
theorem parseCertificate_bd {K : Nat} : Bd 0 K (parseCertificate : Parser β _) := by unfold parseCertificate; bd
macro_rules | `(tactic| bd_step) => `(tactic| exact parseCertificate_bd)
theorem parseCaList_bd {K : Nat} : Bd 0 K (parseCaList : Parser β _) := by unfold parseCaList; bd
macro_rules | `(tactic| bd_step) => `(tactic| exact parseCaList_bd)
theorem parseCertRequestNoSigAlg_bd {K : Nat} : Bd 0 K (parseCertRequestNoSigAlg : Parser β _) := by
  unfold parseCertRequestNoSigAlg; bd
theorem parseCertRequestFull_bd {K : Nat} : Bd 0 K (parseCertRequestFull : Parser β _) := by unfold parseCertRequestFull; bd
macro_rules | `(tactic| bd_step) => `(tactic| first | exact parseCertRequestNoSigAlg_bd | exact parseCertRequestFull_bd)
theorem parseCertRequest_bd {K : Nat} : Bd 0 K (parseCertRequest : Parser β _) := by unfold parseCertRequest; bd
macro_rules | `(tactic| bd_step) => `(tactic| exact parseCertRequest_bd)
theorem parseCertStatus_bd {K : Nat} : Bd 0 K (parseCertStatus : Parser β _) := by unfold parseCertStatus; bd
macro_rules | `(tactic| bd_step) => `(tactic| exact parseCertStatus_bd)
theorem parseNextProtocol_bd {K : Nat} : Bd 0 K (parseNextProtocol : Parser β _) := by unfold parseNextProtocol; bd
macro_rules | `(tactic| bd_step) => `(tactic| exact parseNextProtocol_bd)
theorem parseHandshakeBody_bd {K : Nat} (ht hl : Nat) : Bd 0 K (parseHandshakeBody ht hl : Parser β _) := by
  unfold parseHandshakeBody; bd
macro_rules | `(tactic| bd_step) => `(tactic| exact parseHandshakeBody_bd _ _)
/-- a handshake message: at most `hl` units for `4 + hl` bytes -/
theorem parseMessageHandshake_bd {s K : Nat} (hs : s ≤ 1) : Bd s K (parseMessageHandshake : Parser β _) := by
  refine Bd.mono (s := 1) (K := 0) ?_ hs (Nat.zero_le _)
  unfold parseMessageHandshake; bd
macro_rules | `(tactic| bd_step) => `(tactic| exact parseMessageHandshake_bd (by omega))

/-! ### records -/

theorem parseRecordHeader_bd {s K : Nat} (hs : s ≤ 5) : Bd s K (parseRecordHeader : Parser β _) := by
  refine Bd.mono (s := 5) (K := 0) ?_ hs (Nat.zero_le _)
  unfold parseRecordHeader
  refine Bd.bindAdd 1 4 (Bd.beU 1 (by omega)) (fun _ => Bd.bindAdd 2 2 (Bd.beU 2 (by omega)) (fun _ => ?_))
  bd
macro_rules | `(tactic| bd_step) => `(tactic| exact parseRecordHeader_bd (by omega))
theorem parseMessageCCS_bd {s K : Nat} (hs : s ≤ 1) : Bd s K (parseMessageCCS : Parser β _) := by
  refine Bd.mono (s := 1) (K := 0) ?_ hs (Nat.zero_le _)
  unfold parseMessageCCS; bd
theorem parseMessageAlert_bd {s K : Nat} (hs : s ≤ 1) : Bd s K (parseMessageAlert : Parser β _) := by
  refine Bd.mono (s := 1) (K := 0) ?_ hs (Nat.zero_le _)
  unfold parseMessageAlert; bd
omit [ByteLike β] in
theorem parseMessageAppData_bd {K : Nat} : Bd 0 K (parseMessageAppData : Parser β _) := by unfold parseMessageAppData; bd
theorem parseMessageHeartbeat_bd {K : Nat} (n : Nat) : Bd 0 K (parseMessageHeartbeat n : Parser β _) := by
  unfold parseMessageHeartbeat
  -- the `Vec` cell of the single message is paid by the type byte
  refine Bd.bindCredit 1 (Bd.beU 1 (by omega)) (fun ty => ?_)
  bd
macro_rules | `(tactic| bd_step) => `(tactic| first
  | exact parseMessageCCS_bd (by omega) | exact parseMessageAlert_bd (by omega) | exact parseMessageAppData_bd
  | exact parseMessageHeartbeat_bd _)

/-- a record payload: one extra unit for the `Vec` cell of the single application-data blob (paid by the record header) -/
theorem parseRecordWithHeader_bd {K : Nat} (hdr : RecordHeader) : Bd 0 (K + 1) (parseRecordWithHeader hdr : Parser β _) := by
  unfold parseRecordWithHeader
  refine Bd.ite ?_ (Bd.ite ?_ (Bd.ite ?_ (Bd.ite ?_ (Bd.ite ?_ (Bd.error _)))))
  · bd
  · bd
  · bd
  · intro i r v h
    simp [Tls.mapP, parseMessageAppData] at h
    obtain ⟨rfl, rfl⟩ := h
    simp [weight]; omega
  · bd
macro_rules | `(tactic| bd_step) => `(tactic| exact parseRecordWithHeader_bd _)

/-- **TLS plaintext record**: the value never weighs more than the `5 + len` bytes consumed (and 4 bytes are to spare) -/
theorem parsePlaintext_bd {s K : Nat} (hs : s ≤ 4) : Bd s K (parsePlaintext : Parser β _) := by
  refine Bd.mono (s := 4) (K := 0) ?_ hs (Nat.zero_le _)
  unfold parsePlaintext
  refine Bd.bindCredit 1 (parseRecordHeader_bd (by omega)) (fun hdr => ?_)
  refine Bd.ite (Bd.error _) ?_
  refine Bd.bindSplit (K1 := 1) ?_ (fun _ => ?_)
  · exact Bd.mapParser (Bd.take _ rfl) (parseRecordWithHeader_bd (K := 0) hdr)
  · bd
macro_rules | `(tactic| bd_step) => `(tactic| exact parsePlaintext_bd (by omega))
theorem parseEncrypted_bd {s K : Nat} (hs : s ≤ 5) : Bd s K (parseEncrypted : Parser β _) := by
  refine Bd.mono (s := 5) (K := 0) ?_ hs (Nat.zero_le _)
  unfold parseEncrypted; bd
theorem parseRawRecord_bd {s K : Nat} (hs : s ≤ 5) : Bd s K (parseRawRecord : Parser β _) := by
  refine Bd.mono (s := 5) (K := 0) ?_ hs (Nat.zero_le _)
  unfold parseRawRecord; bd
theorem tlsParserMany_bd {K : Nat} : Bd 0 K (tlsParserMany : Parser β _) := by unfold tlsParserMany; bd

/-! ### extensions -/

theorem parseSniHostname_bd {s K : Nat} (hs : s ≤ 1) : Bd s K (parseSniHostname : Parser β _) := by
  refine Bd.mono (s := 1) (K := 0) ?_ hs (Nat.zero_le _)
  unfold parseSniHostname; bd
macro_rules | `(tactic| bd_step) => `(tactic| exact parseSniHostname_bd (by omega))
theorem parseSniContent_bd {K : Nat} : Bd 0 K (parseSniContent : Parser β _) := by unfold parseSniContent; bd
theorem parseMaxFragmentLengthContent_bd {K : Nat} : Bd 0 K (parseMaxFragmentLengthContent : Parser β _) := by
  unfold parseMaxFragmentLengthContent; bd
theorem parseStatusRequestContent_bd {K : Nat} (n : Nat) : Bd 0 K (parseStatusRequestContent n : Parser β _) := by
  unfold parseStatusRequestContent; bd
theorem parseEllipticCurvesContent_bd {K : Nat} : Bd 0 K (parseEllipticCurvesContent : Parser β _) := by
  unfold parseEllipticCurvesContent; bd
theorem parseEcPointFormatsContent_bd {K : Nat} : Bd 0 K (parseEcPointFormatsContent : Parser β _) := by
  unfold parseEcPointFormatsContent; bd
theorem parseSignatureAlgorithmsContent_bd {K : Nat} : Bd 0 K (parseSignatureAlgorithmsContent : Parser β _) := by
  unfold parseSignatureAlgorithmsContent; bd
theorem parseHeartbeatContent_bd {K : Nat} : Bd 0 K (parseHeartbeatContent : Parser β _) := by unfold parseHeartbeatContent; bd
theorem parseAlpnContent_bd {K : Nat} : Bd 0 K (parseAlpnContent : Parser β _) := by unfold parseAlpnContent; bd
theorem parseSctContent_bd {K : Nat} : Bd 0 K (parseSctContent : Parser β _) := by unfold parseSctContent; bd
theorem parseEmptyContent_bd {K : Nat} (n : Nat) (v : Extension β) (hv : weight β v = 0) :
    Bd 0 K (parseEmptyContent n v : Parser β _) := by
  unfold parseEmptyContent
  exact Bd.ite (Bd.error _) (Bd.pure _ (by omega))
theorem parseEarlyDataContent_bd {K : Nat} (n : Nat) : Bd 0 K (parseEarlyDataContent n : Parser β _) := by
  unfold parseEarlyDataContent; bd
theorem parseSupportedVersionsContent_bd {K : Nat} (n : Nat) : Bd 0 K (parseSupportedVersionsContent n : Parser β _) := by
  unfold parseSupportedVersionsContent
  refine Bd.ite ?_ ?_
  · exact Bd.mapPSlack 1 (Bd.beU 2 (by omega)) (by intro x; simp [weight])
  · bd
theorem parsePskModesContent_bd {K : Nat} : Bd 0 K (parsePskModesContent : Parser β _) := by unfold parsePskModesContent; bd
theorem parseRenegotiationInfoContent_bd {K : Nat} : Bd 0 K (parseRenegotiationInfoContent : Parser β _) := by
  unfold parseRenegotiationInfoContent; bd
theorem parseEncryptedServerName_bd {K : Nat} : Bd 0 K (parseEncryptedServerName : Parser β _) := by
  unfold parseEncryptedServerName; bd
theorem parseOidFilter_bd {s K : Nat} (hs : s ≤ 1) : Bd s K (parseOidFilter : Parser β _) := by
  refine Bd.mono (s := 1) (K := 0) ?_ hs (Nat.zero_le _)
  unfold parseOidFilter; bd
macro_rules | `(tactic| bd_step) => `(tactic| exact parseOidFilter_bd (by omega))
theorem parseOidFilters_bd {K : Nat} : Bd 0 K (parseOidFilters : Parser β _) := by unfold parseOidFilters; bd
theorem parseExtensionUnknown_bd {K : Nat} : Bd 0 K (parseExtensionUnknown : Parser β _) := by unfold parseExtensionUnknown; bd
macro_rules | `(tactic| bd_step) => `(tactic| first
  | exact parseSniContent_bd | exact parseMaxFragmentLengthContent_bd | exact parseStatusRequestContent_bd _
  | exact parseEllipticCurvesContent_bd | exact parseEcPointFormatsContent_bd | exact parseSignatureAlgorithmsContent_bd
  | exact parseHeartbeatContent_bd | exact parseAlpnContent_bd | exact parseSctContent_bd
  | exact parseEmptyContent_bd _ _ rfl | exact parseEarlyDataContent_bd _ | exact parseSupportedVersionsContent_bd _
  | exact parsePskModesContent_bd | exact parseRenegotiationInfoContent_bd | exact parseEncryptedServerName_bd
  | exact parseOidFilters_bd | exact parseExtensionUnknown_bd)

theorem extTable_bd (extLen : Nat) : ∀ e ∈ (extTable extLen : List (Nat × Arms × Parser β (Extension β))), Bd 0 0 e.2.2 := by
  simp only [extTable, List.forall_mem_cons, List.not_mem_nil, false_imp_iff, implies_true, and_true]
  refine ⟨?_, ?_, ?_, ?_, ?_, ?_, ?_, ?_, ?_, ?_, ?_, ?_, ?_, ?_, ?_, ?_, ?_, ?_, ?_, ?_, ?_, ?_, ?_, ?_, ?_, ?_⟩ <;> bd

theorem extContentParser_bd (d : Dispatcher) (t extLen : Nat) (p : Parser β (Extension β))
    (h : extContentParser d t extLen = some p) : Bd 0 0 p := by
  unfold extContentParser at h
  cases hf : (extTable extLen : List (Nat × Arms × Parser β (Extension β))).find? (fun e => e.1 == t && e.2.1.has d) with
  | none => simp [hf] at h
  | some e =>
    simp [hf] at h
    subst h
    exact extTable_bd extLen e (List.mem_of_find?_eq_some hf)

/-- **single extension**: whatever the type and the content, the value weighs at most the data length (4 header bytes to spare) -/
theorem parseExtensionD_bd {s K : Nat} (d : Dispatcher) (hs : s ≤ 2) : Bd s K (parseExtensionD d : Parser β _) := by
  refine Bd.mono (s := 2) (K := 0) ?_ hs (Nat.zero_le _)
  unfold parseExtensionD
  refine Bd.bind (Bd.beU (β := β) 2 (by omega)) (fun t => Bd.bind (Bd.lengthData (β := β) 2 (by omega)) (fun data => ?_))
  by_cases hg : isGrease t = true
  · simp only [hg, if_true]
    exact Bd.pure _ (by simp [weight])
  · simp only [hg]
    cases hp : (extContentParser d t (data.length % 65536) : Option (Parser β (Extension β))) with
    | none =>
      simp only [Bool.false_eq_true, if_false]
      exact Bd.pure _ (by simp [weight])
    | some p =>
      simp only [Bool.false_eq_true, if_false]
      exact Bd.sub data (by simp) (extContentParser_bd d t _ p hp) (by intro m; exact Nat.le_refl _)
macro_rules | `(tactic| bd_step) => `(tactic| exact parseExtensionD_bd _ (by omega))
theorem parseExtensionsD_bd {K : Nat} (d : Dispatcher) : Bd 0 K (parseExtensionsD d : Parser β _) := by
  unfold parseExtensionsD; bd

/-! ### key-exchange parameters, signatures, SCTs -/

theorem parseDhParams_bd {K : Nat} : Bd 0 K (parseDhParams : Parser β _) := by unfold parseDhParams; bd
theorem parseExplicitPrime_bd {K : Nat} : Bd 0 K (parseExplicitPrime : Parser β _) := by unfold parseExplicitPrime; bd
macro_rules | `(tactic| bd_step) => `(tactic| exact parseExplicitPrime_bd)
theorem parseEcContent_bd {K : Nat} (ct : Nat) : Bd 0 K (parseEcContent ct : Parser β _) := by unfold parseEcContent; bd
macro_rules | `(tactic| bd_step) => `(tactic| exact parseEcContent_bd _)
theorem parseEcParameters_bd {K : Nat} : Bd 0 K (parseEcParameters : Parser β _) := by unfold parseEcParameters; bd
macro_rules | `(tactic| bd_step) => `(tactic| exact parseEcParameters_bd)
theorem parseEcdhParams_bd {K : Nat} : Bd 0 K (parseEcdhParams : Parser β _) := by unfold parseEcdhParams; bd
theorem parseDigitallySignedOld_bd {K : Nat} : Bd 0 K (parseDigitallySignedOld : Parser β _) := by
  unfold parseDigitallySignedOld; bd
theorem parseDigitallySigned_bd {K : Nat} : Bd 0 K (parseDigitallySigned : Parser β _) := by unfold parseDigitallySigned; bd
macro_rules | `(tactic| bd_step) => `(tactic| first | exact parseDigitallySigned_bd | exact parseDigitallySignedOld_bd)
theorem parseContentAndSignature_bd {α : Type} [Weight β α] {K : Nat} {f : Parser β α} (hf : Bd 0 0 f) (ext : Bool) :
    Bd 0 K (parseContentAndSignature f ext) := by
  unfold parseContentAndSignature; bd
omit [ByteLike β] in
theorem parseLogId_bd {K : Nat} : Bd 0 K (parseLogId : Parser β _) := by unfold parseLogId; bd
macro_rules | `(tactic| bd_step) => `(tactic| exact parseLogId_bd)
theorem parseSctContentEntry_bd {K : Nat} : Bd 0 K (parseSctContentEntry : Parser β _) := by unfold parseSctContentEntry; bd
macro_rules | `(tactic| bd_step) => `(tactic| exact parseSctContentEntry_bd)
theorem parseSct_bd {s K : Nat} (hs : s ≤ 2) : Bd s K (parseSct : Parser β _) := by
  refine Bd.mono (s := 2) (K := 0) ?_ hs (Nat.zero_le _)
  unfold parseSct; bd
macro_rules | `(tactic| bd_step) => `(tactic| exact parseSct_bd (by omega))
theorem parseSctList_bd {K : Nat} : Bd 0 K (parseSctList : Parser β _) := by unfold parseSctList; bd

/-! ### DTLS -/

theorem parseDtlsRecordHeader_bd {s K : Nat} (hs : s ≤ 1) : Bd s K (parseDtlsRecordHeader : Parser β _) := by
  refine Bd.mono (s := 1) (K := 0) ?_ hs (Nat.zero_le _)
  unfold parseDtlsRecordHeader; bd
macro_rules | `(tactic| bd_step) => `(tactic| exact parseDtlsRecordHeader_bd (by omega))
theorem parseDtlsClientHello_bd {K : Nat} : Bd 0 K (parseDtlsClientHello : Parser β _) := by unfold parseDtlsClientHello; bd
theorem parseDtlsHelloVerifyRequest_bd {K : Nat} : Bd 0 K (parseDtlsHelloVerifyRequest : Parser β _) := by
  unfold parseDtlsHelloVerifyRequest; bd
macro_rules | `(tactic| bd_step) => `(tactic| first | exact parseDtlsClientHello_bd | exact parseDtlsHelloVerifyRequest_bd)
theorem parseDtlsBody_bd {K : Nat} (t l : Nat) (f : Bool) : Bd 0 K (parseDtlsBody t l f : Parser β _) := by
  unfold parseDtlsBody; bd
macro_rules | `(tactic| bd_step) => `(tactic| exact parseDtlsBody_bd _ _ _)
theorem parseDtlsMessageHandshake_bd {s K : Nat} (hs : s ≤ 1) : Bd s K (parseDtlsMessageHandshake : Parser β _) := by
  refine Bd.mono (s := 1) (K := 0) ?_ hs (Nat.zero_le _)
  unfold parseDtlsMessageHandshake; bd
theorem parseDtlsMessageCCS_bd {s K : Nat} (hs : s ≤ 1) : Bd s K (parseDtlsMessageCCS : Parser β _) := by
  refine Bd.mono (s := 1) (K := 0) ?_ hs (Nat.zero_le _)
  unfold parseDtlsMessageCCS; bd
theorem parseDtlsMessageAlert_bd {s K : Nat} (hs : s ≤ 1) : Bd s K (parseDtlsMessageAlert : Parser β _) := by
  refine Bd.mono (s := 1) (K := 0) ?_ hs (Nat.zero_le _)
  unfold parseDtlsMessageAlert; bd
macro_rules | `(tactic| bd_step) => `(tactic| first
  | exact parseDtlsMessageHandshake_bd (by omega) | exact parseDtlsMessageCCS_bd (by omega) | exact parseDtlsMessageAlert_bd (by omega))
theorem parseDtlsRecordWithHeader_bd {K : Nat} (h : DtlsHeader) : Bd 0 K (parseDtlsRecordWithHeader h : Parser β _) := by
  unfold parseDtlsRecordWithHeader; bd
macro_rules | `(tactic| bd_step) => `(tactic| exact parseDtlsRecordWithHeader_bd _)
theorem parseDtlsPlaintextRecord_bd {s K : Nat} (hs : s ≤ 1) : Bd s K (parseDtlsPlaintextRecord : Parser β _) := by
  refine Bd.mono (s := 1) (K := 0) ?_ hs (Nat.zero_le _)
  unfold parseDtlsPlaintextRecord; bd
macro_rules | `(tactic| bd_step) => `(tactic| exact parseDtlsPlaintextRecord_bd (by omega))
theorem parseDtlsPlaintextRecords_bd {K : Nat} : Bd 0 K (parseDtlsPlaintextRecords : Parser β _) := by
  unfold parseDtlsPlaintextRecords; bd

/-! ### the property's allocation clause, logical part, in its own words -/

omit [ByteLike β] in
/-- whatever the bytes, a value returned by a parser weighs at most what the parser consumed -/
theorem weight_le_consumed {α : Type} [Weight β α] {p : Parser β α} (hp : Bd 0 0 p) (i r : List β) (v : α)
    (h : p i = .ok r v) : weight β v + r.length ≤ i.length := by
  have := hp i r v h; omega

theorem plaintext_weight (i r : List β) (v : Plaintext β) (h : parsePlaintext i = .ok r v) :
    weight β v + r.length ≤ i.length := weight_le_consumed (parsePlaintext_bd (Nat.zero_le _)) i r v h
theorem dtlsRecord_weight (i r : List β) (v : DtlsPlaintext β) (h : parseDtlsPlaintextRecord i = .ok r v) :
    weight β v + r.length ≤ i.length := weight_le_consumed (parseDtlsPlaintextRecord_bd (Nat.zero_le _)) i r v h
theorem handshake_weight (i r : List β) (v : Message β) (h : parseMessageHandshake i = .ok r v) :
    weight β v + r.length ≤ i.length := weight_le_consumed (parseMessageHandshake_bd (Nat.zero_le _)) i r v h
theorem extensions_weight (d : Dispatcher) (i r : List β) (v : List (Extension β)) (h : parseExtensionsD d i = .ok r v) :
    weight β v + r.length ≤ i.length := weight_le_consumed (parseExtensionsD_bd d) i r v h
theorem sctList_weight (i r : List β) (v : List (SCT β)) (h : parseSctList i = .ok r v) :
    weight β v + r.length ≤ i.length := weight_le_consumed parseSctList_bd i r v h
theorem tlsParserMany_weight (i r : List β) (v : List (Plaintext β)) (h : tlsParserMany i = .ok r v) :
    weight β v + r.length ≤ i.length := weight_le_consumed tlsParserMany_bd i r v h
theorem dtlsRecords_weight (i r : List β) (v : List (DtlsPlaintext β)) (h : parseDtlsPlaintextRecords i = .ok r v) :
    weight β v + r.length ≤ i.length := weight_le_consumed parseDtlsPlaintextRecords_bd i r v h

omit [ByteLike β] in
/-- in particular the number of messages of a record, of extensions of a block, of SCTs of a list … is at most the
    number of bytes: a `Vec` is never sized from a declared length -/
theorem vec_length_le_weight {α : Type} [Weight β α] (l : List α) : l.length ≤ weight β l := by
  induction l with
  | nil => simp
  | cons x l ih => rw [weight_cons]; simp; omega

example : ∃ r v, parsePlaintext (β := Fin 256) [22, 3, 3, 0, 6, 14, 0, 0, 2, 7, 8, 9] = .ok r v ∧ weight (Fin 256) v = 3 :=
  ⟨[9], ⟨⟨22, 771, 6⟩, [.handshake (.serverDone [7, 8])]⟩, by decide +kernel, by decide +kernel⟩

end Tls
