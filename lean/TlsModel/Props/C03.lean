/-
  Props/C03.lean — a record's payload decodes to exactly its messages, in order.
-/
import TlsModel.Props.C02
import TlsModel.Props.C04
namespace Tls
variable {β : Type} [ByteLike β]

/-- well-formed messages of content types 20, 21, 22 -/
def WFMessage : Message β → Prop
  | .handshake h => WFHandshake h ∧ (hsTypeAndBody h).2.length < 16777216
  | .changeCipherSpec => True
  | .alert s c => s < 256 ∧ c < 256
  | .applicationData _ => True
  | .heartbeat t l p => t < 256 ∧ l = p.length ∧ l < 65536

/-- content type a message belongs to -/
def Message.contentType : Message β → Nat
  | .changeCipherSpec => 0x14
  | .alert _ _ => 0x15
  | .handshake _ => 0x16
  | .applicationData _ => 0x17
  | .heartbeat _ _ _ => 0x18

theorem ccs_roundtrip (rest : List β) : parseMessageCCS ((encBE 1 1 : List β) ++ rest) = .ok rest .changeCipherSpec := by
  simp [parseMessageCCS, verify, beU1_enc, Res.bind]

theorem alert_roundtrip (s c : Nat) (hs : s < 256) (hc : c < 256) (rest : List β) :
    parseMessageAlert ((encBE 1 s : List β) ++ ((encBE 1 c : List β) ++ rest)) = .ok rest (.alert s c) := by
  simp [parseMessageAlert, beU1_enc, hs, hc, Res.bind]

theorem encMessage_ne_nil (m : Message β) (h : m.contentType = 0x14 ∨ m.contentType = 0x15 ∨ m.contentType = 0x16) :
    encMessage m ≠ [] := by
  intro hh; have := congrArg List.length hh
  cases m <;> simp [encMessage, encHandshake, Message.contentType] at this h

/-- the per-message parser of a content type -/
def msgParser (ct : Nat) : Parser β (Message β) :=
  if ct = 0x14 then parseMessageCCS else if ct = 0x15 then parseMessageAlert else parseMessageHandshake

theorem msg_roundtrip (ct : Nat) (hct : ct = 0x14 ∨ ct = 0x15 ∨ ct = 0x16) (m : Message β)
    (hm : m.contentType = ct) (hw : WFMessage m) (rest : List β) :
    msgParser ct (encMessage m ++ rest) = .ok rest m := by
  cases m with
  | handshake h =>
    simp only [Message.contentType] at hm; subst hm
    simp [msgParser, encMessage, handshake_roundtrip h hw.1 hw.2]
  | changeCipherSpec =>
    simp only [Message.contentType] at hm; subst hm
    simp [msgParser, encMessage, ccs_roundtrip]
  | alert s c =>
    simp only [Message.contentType] at hm; subst hm
    simp [msgParser, encMessage, List.append_assoc, alert_roundtrip s c hw.1 hw.2]
  | applicationData b => simp [Message.contentType] at hm; subst hm; simp at hct
  | heartbeat t l p => simp [Message.contentType] at hm; subst hm; simp at hct

theorem recordWithHeader_eq_many1 (hdr : RecordHeader) (h : hdr.recordType = 0x14 ∨ hdr.recordType = 0x15 ∨ hdr.recordType = 0x16)
    (i : List β) : parseRecordWithHeader hdr i = many1 (complete (msgParser hdr.recordType)) i := by
  rcases h with h | h | h <;> simp [parseRecordWithHeader, msgParser, h]

theorem msgParser_nil (ct : Nat) : ∃ n, msgParser ct ([] : List β) = .incomplete n := by
  unfold msgParser; split
  · exact ⟨_, rfl⟩
  · split <;> exact ⟨_, rfl⟩

/-- **payload round trip** (ChangeCipherSpec, alert, handshake): the concatenation of one or more well-formed
    messages of the record's content type decodes to exactly those messages, in wire order, nothing left -/
theorem payload_roundtrip (hdr : RecordHeader) (hct : hdr.recordType = 0x14 ∨ hdr.recordType = 0x15 ∨ hdr.recordType = 0x16)
    (ms : List (Message β)) (hne : ms ≠ []) (hk : ∀ m ∈ ms, m.contentType = hdr.recordType) (hw : ∀ m ∈ ms, WFMessage m) :
    parseRecordWithHeader hdr (ms.flatMap encMessage) = .ok [] ms := by
  rw [recordWithHeader_eq_many1 hdr hct]
  have := many1_complete_roundtrip (msgParser hdr.recordType) encMessage ms [] hne
    (fun m hm => encMessage_ne_nil m (by rw [hk m hm]; exact hct))
    (fun m hm rest => msg_roundtrip hdr.recordType hct m (hk m hm) (hw m hm) rest)
    (.inl (msgParser_nil _))
  simpa using this

/-- **decoding stops at the first malformed message**; two-step parsing returns the undecoded tail as remainder -/
theorem payload_stops_at_first_bad (hdr : RecordHeader) (hct : hdr.recordType = 0x14 ∨ hdr.recordType = 0x15 ∨ hdr.recordType = 0x16)
    (ms : List (Message β)) (hne : ms ≠ []) (hk : ∀ m ∈ ms, m.contentType = hdr.recordType) (hw : ∀ m ∈ ms, WFMessage m)
    (tail : List β) (hbad : (∃ n, msgParser hdr.recordType tail = .incomplete n) ∨ (∃ k, msgParser hdr.recordType tail = .error k)) :
    parseRecordWithHeader hdr (ms.flatMap encMessage ++ tail) = .ok tail ms := by
  rw [recordWithHeader_eq_many1 hdr hct]
  exact many1_complete_roundtrip (msgParser hdr.recordType) encMessage ms tail hne
    (fun m hm => encMessage_ne_nil m (by rw [hk m hm]; exact hct))
    (fun m hm rest => msg_roundtrip hdr.recordType hct m (hk m hm) (hw m hm) rest) hbad

/-- **first message malformed or cut short ⇒ rejected, never a value** (also: empty payload) -/
theorem payload_first_bad_rejected (hdr : RecordHeader) (hct : hdr.recordType = 0x14 ∨ hdr.recordType = 0x15 ∨ hdr.recordType = 0x16)
    (i : List β) (hbad : (msgParser hdr.recordType i).isOk = false) :
    (parseRecordWithHeader hdr i).isOk = false := by
  rw [recordWithHeader_eq_many1 hdr hct]
  unfold many1 complete
  cases h : msgParser hdr.recordType i <;> simp_all [Res.isOk]

theorem empty_payload_rejected (hdr : RecordHeader) (hct : hdr.recordType = 0x14 ∨ hdr.recordType = 0x15 ∨ hdr.recordType = 0x16) :
    parseRecordWithHeader hdr ([] : List β) = .error .Complete := by
  rw [recordWithHeader_eq_many1 hdr hct]
  obtain ⟨n, hn⟩ := msgParser_nil (β := β) hdr.recordType
  simp [many1, complete, hn]

/-- **unknown content type ⇒ rejected** -/
theorem unknown_content_type_rejected (hdr : RecordHeader)
    (h : hdr.recordType ≠ 0x14 ∧ hdr.recordType ≠ 0x15 ∧ hdr.recordType ≠ 0x16 ∧ hdr.recordType ≠ 0x17 ∧ hdr.recordType ≠ 0x18)
    (i : List β) : parseRecordWithHeader hdr i = .error .Switch := by
  obtain ⟨h1, h2, h3, h4, h5⟩ := h
  simp [parseRecordWithHeader, h1, h2, h3, h4, h5]

/-- **application data**: any payload, of any length, is exactly one opaque blob -/
theorem appdata_payload (hdr : RecordHeader) (h : hdr.recordType = 0x17) (payload : List β) :
    parseRecordWithHeader hdr payload = .ok [] [.applicationData payload] := by
  simp [parseRecordWithHeader, h, mapP, parseMessageAppData, Res.map]

/-- **heartbeat**: type, u16 payload length, payload, then optional padding (returned as remainder by the
    two-step parser), for records of at least 3 bytes -/
theorem heartbeat_payload (hdr : RecordHeader) (h : hdr.recordType = 0x18) (hl : 3 ≤ hdr.len)
    (t : Nat) (ht : t < 256) (payload padding : List β) (hp : payload.length < 65536) :
    parseRecordWithHeader hdr ((encBE 1 t : List β) ++ ((encBE 2 payload.length : List β) ++ (payload ++ padding)))
      = .ok padding [.heartbeat t payload.length payload] := by
  have hl' : ¬ hdr.len < 3 := by omega
  simp [parseRecordWithHeader, h, complete, parseMessageHeartbeat, beU1_enc _ ht, beU2_enc _ hp, Res.bind, hl', take_enc]

/-- **one-step = two-step**: `parse_tls_plaintext` is framing (C02) followed by `parse_tls_record_with_header`
    on exactly the payload; its value is the two-step value, its remainder what follows the record -/
theorem one_step_eq_two_step (t v : Nat) (data r : List β) (ht : t < 256) (hv : v < 65536) (hlen : data.length ≤ 16640) :
    parseRawRecord (encHeader t v data.length ++ data ++ r) = .ok r ⟨⟨t, v, data.length⟩, data⟩ ∧
    parsePlaintext (encHeader t v data.length ++ data ++ r)
      = (parseRecordWithHeader ⟨t, v, data.length⟩ data).bind fun _ msg => .ok r ⟨⟨t, v, data.length⟩, msg⟩ :=
  ⟨raw_frame_exact t v data r ht hv hlen, plaintext_frame t v data r ht hv hlen⟩

/-! ### non-vacuity -/
example : parseRecordWithHeader (β := Fin 256) ⟨0x15, 771, 4⟩ [1, 0, 2, 40] = .ok [] [.alert 1 0, .alert 2 40] := by decide +kernel
example : parseRecordWithHeader (β := Fin 256) ⟨0x14, 771, 2⟩ [1, 2] = .ok [2] [.changeCipherSpec] := by decide +kernel

end Tls
