/-
  Serialize.lean — model of src/tls_serialize.rs (cookie-factory serializers), with the casts as written:
  `len as u8`, `len as u16`, `len as u32` then `be_u24` truncate; `ciphers.len() as u16 * 2` is checked
  arithmetic (panics on overflow in the dev profile).
-/
import TlsModel.Encode
namespace Tls
variable {β : Type} [ByteLike β]

/-- result of a serializer: bytes, `GenError::NotYetImplemented`, or a panic -/
inductive SerRes (β : Type) where
  | bytes (b : List β)
  | notImplemented
  | panic
  deriving DecidableEq, Repr

def SerRes.bind (r : SerRes β) (f : List β → SerRes β) : SerRes β :=
  match r with
  | .bytes b => f b
  | .notImplemented => .notImplemented
  | .panic => .panic

/-- `length_be_u16(f)`: the measured length `as u16`, then the bytes -/
def lengthBeU16 (b : List β) : List β := encBE 2 (b.length % 65536) ++ b
/-- `length_be_u24(f)`: `len as u32`, of which `be_u24` writes the low 24 bits -/
def lengthBeU24 (b : List β) : List β := encBE 3 (b.length % 4294967296 % 16777216) ++ b

/-- `gen_tls_sessionid` -/
def serSessionId : Option (List β) → List β
  | none => encBE 1 0
  | some o => encBE 1 (o.length % 256) ++ o

/-- `maybe_extensions` -/
def serMaybeExt : Option (List β) → List β
  | some o => encBE 2 (o.length % 65536) ++ o
  | none => encBE 2 0

/-- `gen_tls_clienthello` -/
def serClientHello (c : ClientHello β) : SerRes β :=
  if (c.ciphers.length % 65536) * 2 ≥ 65536 then .panic      -- `m.ciphers.len() as u16 * 2`
  else .bytes (encBE 1 0x01 ++ lengthBeU24 (
    encBE 2 c.version ++ (c.random ++ (serSessionId c.sessionId ++ (encBE 2 ((c.ciphers.length % 65536) * 2) ++
      (encU16s c.ciphers ++ (encBE 1 (c.comp.length % 256) ++ (encBytes c.comp ++ serMaybeExt c.ext))))))))

/-- `gen_tls_serverhello` -/
def serServerHello (s : ServerHello β) : SerRes β :=
  .bytes (encBE 1 0x02 ++ lengthBeU24 (
    encBE 2 s.version ++ (s.random ++ (serSessionId s.sessionId ++ (encBE 2 s.cipher ++ (encBE 1 s.compression ++ serMaybeExt s.ext))))))

/-- `gen_tls_serverhellodraft18` -/
def serServerHello13d18 (s : ServerHello13d18 β) : SerRes β :=
  .bytes (encBE 1 0x02 ++ lengthBeU24 (encBE 2 s.version ++ (s.random ++ (encBE 2 s.cipher ++ serMaybeExt s.ext))))

/-- `gen_tls_clientkeyexchange` -/
def serClientKeyExchange : CKE β → SerRes β
  | .unknown b => .bytes (encBE 1 0x10 ++ lengthBeU24 b)
  | .dh b => .bytes (encBE 1 0x10 ++ lengthBeU24 (lengthBeU16 b))
  | .ecdh p => .bytes (encBE 1 0x10 ++ lengthBeU24 (encBE 1 (p.length % 256) ++ p))

/-- `gen_tls_messagehandshake` -/
def serHandshake : Handshake β → SerRes β
  | .helloRequest => .bytes (encBE 1 0x00 ++ encBE 3 0)
  | .clientHello c => serClientHello c
  | .serverHello s => serServerHello s
  | .serverHello13d18 s => serServerHello13d18 s
  | .clientKeyExchange c => serClientKeyExchange c
  | .finished d => .bytes (encBE 1 0x14 ++ lengthBeU24 d)
  | _ => .notImplemented

/-- `gen_tls_message` -/
def serMessage : Message β → SerRes β
  | .handshake h => serHandshake h
  | .changeCipherSpec => .bytes (encBE 1 0x01)
  | _ => .notImplemented

/-- `all(msgs.map(gen_tls_message))`: stops at the first error -/
def serMessages : List (Message β) → SerRes β
  | [] => .bytes []
  | m :: ms => (serMessage m).bind fun a => (serMessages ms).bind fun b => .bytes (a ++ b)

/-- `gen_tls_plaintext`: type, version, `length_be_u16` of the concatenated messages -/
def serPlaintext (p : Plaintext β) : SerRes β :=
  (serMessages p.msg).bind fun body => .bytes (encBE 1 p.hdr.recordType ++ (encBE 2 p.hdr.version ++ lengthBeU16 body))

/-- `tagged_extension(tag, f)` -/
def taggedExtension (tag : Nat) (b : List β) : List β := encBE 2 tag ++ lengthBeU16 b

/-- `gen_tls_extension`: SNI, max-fragment-length and supported-groups only -/
def serExtension : Extension β → SerRes β
  | .sni l => .bytes (taggedExtension 0 (lengthBeU16 (l.flatMap fun p => encBE 1 p.1 ++ (encBE 2 (p.2.length % 65536) ++ p.2))))
  | .maxFragmentLength n => .bytes (taggedExtension 1 (encBE 1 n))
  | .ellipticCurves l => .bytes (taggedExtension 10 (lengthBeU16 (encU16s l)))
  | _ => .notImplemented

def serExtensionList : List (Extension β) → SerRes β
  | [] => .bytes []
  | e :: es => (serExtension e).bind fun a => (serExtensionList es).bind fun b => .bytes (a ++ b)

/-- `gen_tls_extensions` -/
def serExtensions (es : List (Extension β)) : SerRes β := (serExtensionList es).bind fun b => .bytes (lengthBeU16 b)

end Tls
