/-
  Lemmas/Basic.lean — helper lemmas about the nom combinators: exact behaviour on
  `encoding ++ rest`, and the closure properties `NoPanic`, `Suffix`, `Stable`.
-/
import TlsModel.Nom
namespace Tls
variable {β α γ : Type}

/-! ### take / beU on concatenations -/

theorem take_append_exact (a r : List β) : take a.length (a ++ r) = .ok r a := by
  simp [take]

theorem take_of_le {n : Nat} {i : List β} (h : n ≤ i.length) : take n i = .ok (i.drop n) (i.take n) := by
  simp [take, h]

theorem take_of_gt {n : Nat} {i : List β} (h : i.length < n) :
    take n i = .incomplete (.size (n - i.length)) := by
  simp [take, Nat.not_le.mpr h]

section
variable [ByteLike β]

theorem beU_append_exact (w : Nat) (a r : List β) (h : a.length = w) :
    beU w (a ++ r) = .ok r (beVal a) := by
  subst h; simp [beU]

theorem beU_of_gt {w : Nat} {i : List β} (h : i.length < w) :
    beU w i = .incomplete (.size (w - i.length)) := by
  simp [beU, Nat.not_le.mpr h]

theorem beU_cases (w : Nat) (i : List β) :
    (w ≤ i.length ∧ beU w i = .ok (i.drop w) (beVal (i.take w))) ∨
    (i.length < w ∧ beU w i = .incomplete (.size (w - i.length))) := by
  by_cases h : w ≤ i.length
  · exact .inl ⟨h, by simp [beU, h]⟩
  · exact .inr ⟨by omega, by simp [beU, h]⟩

theorem beVal_nil : beVal ([] : List β) = 0 := rfl

theorem beVal_append_singleton (l : List β) (b : β) : beVal (l ++ [b]) = beVal l * 256 + toNat b := by
  simp [beVal, List.foldl_append]

theorem foldl_be_lt (l : List β) (a : Nat) :
    l.foldl (fun a b => a * 256 + toNat b) a < (a + 1) * 256 ^ l.length := by
  induction l generalizing a with
  | nil => simp
  | cons b l ih =>
    simp only [List.foldl_cons, List.length_cons, Nat.pow_succ]
    have hb := ByteLike.toNat_lt b
    have h1 : (a * 256 + toNat b + 1) ≤ (a + 1) * 256 := by omega
    calc List.foldl (fun a b => a * 256 + toNat b) (a * 256 + toNat b) l
        < (a * 256 + toNat b + 1) * 256 ^ l.length := ih _
      _ ≤ ((a + 1) * 256) * 256 ^ l.length := Nat.mul_le_mul_right _ h1
      _ = (a + 1) * (256 ^ l.length * 256) := by rw [Nat.mul_assoc, Nat.mul_comm 256]

theorem beVal_lt (l : List β) : beVal l < 256 ^ l.length := by
  have := foldl_be_lt l 0
  simpa [beVal] using this

theorem foldl_be_acc (l : List β) (a : Nat) :
    l.foldl (fun a b => a * 256 + toNat b) a = a * 256 ^ l.length + l.foldl (fun a b => a * 256 + toNat b) 0 := by
  induction l generalizing a with
  | nil => simp
  | cons b l ih =>
    simp only [List.foldl_cons, List.length_cons, Nat.pow_succ]
    rw [ih (a * 256 + toNat b), ih (0 * 256 + toNat b)]
    simp only [Nat.zero_mul, Nat.zero_add, Nat.add_mul, Nat.mul_assoc, Nat.add_assoc]
    congr 2
    rw [Nat.mul_comm 256]

theorem beVal_append (a b : List β) : beVal (a ++ b) = beVal a * 256 ^ b.length + beVal b := by
  simp only [beVal, List.foldl_append]
  exact foldl_be_acc b _

/-- Big-endian encoding of `n` on `w` bytes. -/
def encBE (w n : Nat) : List β :=
  match w with
  | 0 => []
  | w + 1 => encBE w (n / 256) ++ [ByteLike.ofNat n]

@[simp] theorem encBE_length (w n : Nat) : (encBE w n : List β).length = w := by
  induction w generalizing n with
  | zero => rfl
  | succ w ih => simp [encBE, ih]

theorem beVal_encBE (w n : Nat) (h : n < 256 ^ w) : beVal (encBE w n : List β) = n := by
  induction w generalizing n with
  | zero => simp [Nat.pow_zero] at h; subst h; rfl
  | succ w ih =>
    simp only [encBE, beVal_append_singleton, ByteLike.toNat_ofNat]
    have h1 : n / 256 < 256 ^ w := by
      rw [Nat.pow_succ] at h
      exact Nat.div_lt_of_lt_mul (by rw [Nat.mul_comm]; exact h)
    rw [ih _ h1]
    omega

theorem beU_encBE (w n : Nat) (r : List β) (h : n < 256 ^ w) :
    beU w ((encBE w n : List β) ++ r) = .ok r n := by
  rw [beU_append_exact w _ r (encBE_length w n), beVal_encBE w n h]

end

/-! ### closure properties -/

/-- never panics and never answers `Err::Failure` (nothing in the parsers uses `cut`; the only
    `Failure` of the crate is produced by `parse_record_nocopy` itself) -/
def Clean (p : Parser β α) : Prop := ∀ i, p i ≠ .panic ∧ ∀ k, p i ≠ .failure k

/-- never panics -/
def NoPanic (p : Parser β α) : Prop := ∀ i, p i ≠ .panic

theorem Clean.noPanic {p : Parser β α} (h : Clean p) : NoPanic p := fun i => (h i).1

theorem Clean.noFailure {p : Parser β α} (h : Clean p) (i : List β) (k : ErrKind) : p i ≠ .failure k := (h i).2 k

/-- the remainder of a successful parse is a suffix of the input -/
def Suffix (p : Parser β α) : Prop := ∀ i r v, p i = .ok r v → ∃ c, i = c ++ r

/-- behaviour at `i` does not depend on what follows -/
def StableAt (p : Parser β α) (i : List β) : Prop := ∀ x, p (i ++ x) = (p i).mapRem (· ++ x)

/-- once the answer is not `Incomplete`, appending bytes only extends the remainder -/
def Stable (p : Parser β α) : Prop := ∀ i, (∀ n, p i ≠ .incomplete n) → StableAt p i

theorem Clean.bind {p : Parser β α} {q : α → Parser β γ} (hp : Clean p) (hq : ∀ x, Clean (q x)) :
    Clean (fun i => (p i).bind fun i1 x => q x i1) := by
  intro i; have := hp i
  cases h : p i <;> simp_all [Res.bind]
  exact hq _ _

theorem Clean.pure (v : α) : Clean (fun i : List β => Res.ok i v) := by intro i; simp
theorem Clean.error (k : ErrKind) : Clean (fun _ : List β => (Res.error k : Res β α)) := by intro i; simp
theorem Clean.take (n : Nat) : Clean (take n : Parser β (List β)) := by
  intro i; unfold Tls.take; split <;> simp
theorem Clean.beU [ByteLike β] (w : Nat) : Clean (beU w : Parser β Nat) := by
  intro i; unfold Tls.beU; split <;> simp
theorem Clean.ite {c : Prop} [Decidable c] {p q : Parser β α} (hp : Clean p) (hq : Clean q) :
    Clean (fun i => if c then p i else q i) := by
  intro i; by_cases h : c <;> simp [h, hp i, hq i]
theorem Clean.ite' {c : Prop} [Decidable c] {p q : Parser β α} (hp : Clean p) (hq : Clean q) :
    Clean (if c then p else q) := by
  by_cases h : c <;> simp [h, hp, hq]
theorem Clean.lengthData {f : Parser β Nat} (hf : Clean f) : Clean (lengthData f) :=
  Clean.bind hf (fun n => Clean.take n)
theorem Clean.mapP {f : Parser β α} {g : α → γ} (hf : Clean f) : Clean (mapP f g) := by
  intro i; have := hf i; unfold Tls.mapP; cases h : f i <;> simp_all [Res.map]
theorem Clean.mapParser {f : Parser β (List β)} {g : Parser β α} (hf : Clean f) (hg : Clean g) :
    Clean (mapParser f g) := by
  intro i; have := hf i; unfold Tls.mapParser
  cases h : f i <;> simp_all [Res.bind]
  rename_i r o; have := hg o
  cases h2 : g o <;> simp_all [Res.bind]
theorem Clean.verify {f : Parser β α} {p : α → Bool} (hf : Clean f) : Clean (verify f p) := by
  intro i; have := hf i; unfold Tls.verify
  cases h : f i <;> simp_all [Res.bind]
  split <;> simp
theorem Clean.cond {b : Bool} {f : Parser β α} (hf : Clean f) : Clean (cond b f) := by
  intro i; have := hf i; unfold Tls.cond
  cases b <;> simp
  cases h : f i <;> simp_all [Res.map]
theorem Clean.opt {f : Parser β α} (hf : Clean f) : Clean (opt f) := by
  intro i; have := hf i; unfold Tls.opt
  cases h : f i <;> simp_all
theorem Clean.complete {f : Parser β α} (hf : Clean f) : Clean (complete f) := by
  intro i; have := hf i; unfold Tls.complete
  cases h : f i <;> simp_all
theorem Clean.alt {a b : Parser β α} (ha : Clean a) (hb : Clean b) : Clean (alt a b) := by
  intro i; have := ha i; have := hb i; unfold Tls.alt
  cases h : a i <;> simp_all
theorem Clean.pair {a : Parser β α} {b : Parser β γ} (ha : Clean a) (hb : Clean b) : Clean (pair a b) := by
  unfold Tls.pair
  exact Clean.bind ha fun x => Clean.bind hb fun y => Clean.pure _
theorem Clean.tag [ByteLike β] (t : List Nat) : Clean (tag t : Parser β Unit) := by
  intro i; unfold Tls.tag; split
  · simp
  · split <;> simp

theorem Clean.many0 {f : Parser β α} (hf : Clean f) : Clean (many0 f) := by
  intro i
  induction i using many0.induct f with
  | case1 i k h => unfold Tls.many0; simp [h]
  | case2 i n h => unfold Tls.many0; simp [h]
  | case3 i k h => exact absurd h ((hf i).2 k)
  | case4 i h => exact absurd h (hf i).1
  | case5 i i1 o h hlt ih =>
    unfold Tls.many0; simp only [h, hlt, dite_true]
    cases h2 : Tls.many0 f i1 <;> simp_all [Res.map]
  | case6 i i1 o h hlt => unfold Tls.many0; simp [h, hlt]

theorem Clean.many1Loop {f : Parser β α} (hf : Clean f) : Clean (many1Loop f) := by
  intro i
  induction i using many1Loop.induct f with
  | case1 i k h => unfold Tls.many1Loop; simp [h]
  | case2 i n h => unfold Tls.many1Loop; simp [h]
  | case3 i k h => exact absurd h ((hf i).2 k)
  | case4 i h => exact absurd h (hf i).1
  | case5 i i1 o h hlt ih =>
    unfold Tls.many1Loop; simp only [h, hlt, dite_true]
    cases h2 : Tls.many1Loop f i1 <;> simp_all [Res.map]
  | case6 i i1 o h hlt => unfold Tls.many1Loop; simp [h, hlt]

theorem Clean.many1 {f : Parser β α} (hf : Clean f) : Clean (many1 f) := by
  intro i; have := hf i; unfold Tls.many1
  cases h : f i <;> simp_all
  rename_i r o
  have := Clean.many1Loop hf r
  cases h2 : Tls.many1Loop f r <;> simp_all [Res.map]

theorem Clean.countP {g : Parser β α} (hg : Clean g) (n : Nat) : Clean (countP g n) := by
  induction n with
  | zero => intro i; simp [Tls.countP]
  | succ n ih =>
    intro i; have := hg i; unfold Tls.countP
    cases h : g i <;> simp_all [Res.bind]
    rename_i r o; have := ih r
    cases h2 : Tls.countP g n r <;> simp_all [Res.map]

theorem Clean.lengthCount {f : Parser β Nat} {g : Parser β α} (hf : Clean f) (hg : Clean g) :
    Clean (lengthCount f g) :=
  Clean.bind hf fun n => Clean.countP hg n

/-! ### never answers `Incomplete` -/

def NeverIncomplete (p : Parser β α) : Prop := ∀ i n, p i ≠ .incomplete n

theorem NeverIncomplete.complete (f : Parser β α) : NeverIncomplete (complete f) := by
  intro i n; unfold Tls.complete; cases h : f i <;> simp

theorem NeverIncomplete.mapP {f : Parser β α} {g : α → γ} (hf : NeverIncomplete f) : NeverIncomplete (mapP f g) := by
  intro i n; have := hf i; unfold Tls.mapP; cases h : f i <;> simp_all [Res.map]

theorem NeverIncomplete.many1Loop {f : Parser β α} (hf : NeverIncomplete f) : NeverIncomplete (many1Loop f) := by
  intro i n
  induction i using many1Loop.induct f with
  | case1 i k h => unfold Tls.many1Loop; simp [h]
  | case2 i n' h => exact absurd h (hf i n')
  | case3 i k h => unfold Tls.many1Loop; simp [h]
  | case4 i h => unfold Tls.many1Loop; simp [h]
  | case5 i i1 o h hlt ih =>
    unfold Tls.many1Loop; simp only [h, hlt, if_true]
    cases h2 : Tls.many1Loop f i1 <;> simp_all [Res.map]
  | case6 i i1 o h hlt => unfold Tls.many1Loop; simp [h, hlt]

theorem NeverIncomplete.many1 {f : Parser β α} (hf : NeverIncomplete f) : NeverIncomplete (many1 f) := by
  intro i n; have := hf i; unfold Tls.many1
  cases h : f i <;> simp_all
  rename_i r o
  have := NeverIncomplete.many1Loop hf r
  cases h2 : Tls.many1Loop f r <;> simp_all [Res.map]

theorem NeverIncomplete.many0 {f : Parser β α} (hf : NeverIncomplete f) : NeverIncomplete (many0 f) := by
  intro i n
  induction i using many0.induct f with
  | case1 i k h => unfold Tls.many0; simp [h]
  | case2 i n' h => exact absurd h (hf i n')
  | case3 i k h => unfold Tls.many0; simp [h]
  | case4 i h => unfold Tls.many0; simp [h]
  | case5 i i1 o h hlt ih =>
    unfold Tls.many0; simp only [h, hlt, if_true]
    cases h2 : Tls.many0 f i1 <;> simp_all [Res.map]
  | case6 i i1 o h hlt => unfold Tls.many0; simp [h, hlt]

end Tls
