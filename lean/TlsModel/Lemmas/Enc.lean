/-
  Lemmas/Enc.lean — rewriting lemmas for parsing an encoding followed by a rest:
  the building blocks of every round-trip theorem.  Inputs are kept right-nested
  (`a ++ (b ++ r)`), side conditions are stated with numerals so `simp` discharges them
  from hypotheses.
-/
import TlsModel.Lemmas.Basic
namespace Tls
variable {β α : Type} [ByteLike β]

theorem beU1_enc (n : Nat) (h : n < 256) (r : List β) : beU 1 ((encBE 1 n : List β) ++ r) = .ok r n :=
  beU_encBE 1 n r (by simpa using h)
theorem beU2_enc (n : Nat) (h : n < 65536) (r : List β) : beU 2 ((encBE 2 n : List β) ++ r) = .ok r n :=
  beU_encBE 2 n r (by simpa using h)
theorem beU3_enc (n : Nat) (h : n < 16777216) (r : List β) : beU 3 ((encBE 3 n : List β) ++ r) = .ok r n :=
  beU_encBE 3 n r (by simpa using h)
theorem beU4_enc (n : Nat) (h : n < 4294967296) (r : List β) : beU 4 ((encBE 4 n : List β) ++ r) = .ok r n :=
  beU_encBE 4 n r (by simpa using h)
theorem beU8_enc (n : Nat) (h : n < 18446744073709551616) (r : List β) : beU 8 ((encBE 8 n : List β) ++ r) = .ok r n :=
  beU_encBE 8 n r (by simpa using h)

theorem take_enc (d r : List β) : take d.length (d ++ r) = .ok r d := take_append_exact d r

/-- length-prefixed opaque data: `opaque d<0..2^(8w)-1>` -/
def encLD (w : Nat) (d : List β) : List β := encBE w d.length ++ d

theorem lengthData1_enc (d : List β) (h : d.length < 256) (r : List β) :
    lengthData (beU 1) (encLD 1 d ++ r) = .ok r d := by
  simp [lengthData, encLD, List.append_assoc, beU1_enc _ h, Res.bind, take_enc]
theorem lengthData2_enc (d : List β) (h : d.length < 65536) (r : List β) :
    lengthData (beU 2) (encLD 2 d ++ r) = .ok r d := by
  simp [lengthData, encLD, List.append_assoc, beU2_enc _ h, Res.bind, take_enc]
theorem lengthData3_enc (d : List β) (h : d.length < 16777216) (r : List β) :
    lengthData (beU 3) (encLD 3 d ++ r) = .ok r d := by
  simp [lengthData, encLD, List.append_assoc, beU3_enc _ h, Res.bind, take_enc]

@[simp] theorem encLD_length (w : Nat) (d : List β) : (encLD w d : List β).length = w + d.length := by
  simp [encLD]

/-- `map_parser(take(n), g)` on `d ++ r` with `|d| = n`: `g` sees exactly `d` -/
theorem mapParser_take_enc (g : Parser β α) (d r : List β) :
    mapParser (take d.length) g (d ++ r) = (g d).bind fun _ o => .ok r o := by
  simp [mapParser, take_enc, Res.bind]

/-- `map_parser(length_data(be_uW), g)` on a length-prefixed block -/
theorem mapParser_ld2_enc (g : Parser β α) (d : List β) (h : d.length < 65536) (r : List β) :
    mapParser (lengthData (beU 2)) g (encLD 2 d ++ r) = (g d).bind fun _ o => .ok r o := by
  simp [mapParser, lengthData2_enc d h, Res.bind]

/-! ### many0 / many1 over concatenated encodings -/

/-- one more element in front: if `p` parses `x ++ rest` to `rest` and `x` is non-empty -/
theorem many0_cons (p : Parser β α) (x rest : List β) (v : α) (hx : x ≠ [])
    (hp : p (x ++ rest) = .ok rest v) : many0 p (x ++ rest) = (many0 p rest).map (v :: ·) := by
  have hlt : rest.length < (x ++ rest).length := by
    cases x with
    | nil => exact absurd rfl hx
    | cons a x => simp; omega
  conv => lhs; unfold many0
  simp [hp, hx]

theorem many0_stop_error (p : Parser β α) (i : List β) (k : ErrKind) (hp : p i = .error k) :
    many0 p i = .ok i [] := by
  unfold many0; simp [hp]

/-- `many0(complete(p))` over the concatenation of encodings `enc v` of a list of values, with nothing left:
    returns exactly the values, in order -/
theorem many0_complete_roundtrip (p : Parser β α) (enc : α → List β) (vs : List α)
    (hne : ∀ v ∈ vs, enc v ≠ [])
    (hp : ∀ v ∈ vs, ∀ rest, p (enc v ++ rest) = .ok rest v)
    (hend : ∃ n, p [] = .incomplete n) :
    many0 (complete p) (vs.flatMap enc) = .ok [] vs := by
  induction vs with
  | nil =>
    obtain ⟨n, hn⟩ := hend
    simp only [List.flatMap_nil]
    exact many0_stop_error _ _ .Complete (by simp [complete, hn])
  | cons v vs ih =>
    simp only [List.flatMap_cons]
    rw [many0_cons (complete p) (enc v) _ v (hne v (by simp))
      (by simp [complete, hp v (by simp)])]
    rw [ih (fun v hv => hne v (by simp [hv])) (fun v hv => hp v (by simp [hv]))]
    rfl

theorem many1Loop_cons (p : Parser β α) (x rest : List β) (v : α) (hx : x ≠ [])
    (hp : p (x ++ rest) = .ok rest v) : many1Loop p (x ++ rest) = (many1Loop p rest).map (v :: ·) := by
  have hlt : rest.length < (x ++ rest).length := by
    cases x with
    | nil => exact absurd rfl hx
    | cons a x => simp; omega
  conv => lhs; unfold many1Loop
  simp [hp, hx]

/-- `many1(complete(p))` over a non-empty list of encodings followed by `tail`, where `p` fails
    (error or incomplete) on `tail`: exactly the values, remainder `tail` -/
theorem many1_complete_roundtrip (p : Parser β α) (enc : α → List β) (vs : List α) (tail : List β)
    (hnil : vs ≠ [])
    (hne : ∀ v ∈ vs, enc v ≠ [])
    (hp : ∀ v ∈ vs, ∀ rest, p (enc v ++ rest) = .ok rest v)
    (hend : (∃ n, p tail = .incomplete n) ∨ (∃ k, p tail = .error k)) :
    many1 (complete p) (vs.flatMap enc ++ tail) = .ok tail vs := by
  have hstop : many1Loop (complete p) tail = .ok tail [] := by
    unfold many1Loop
    rcases hend with ⟨n, hn⟩ | ⟨k, hk⟩ <;> simp [complete, *]
  have hloop : ∀ ws : List α, (∀ v ∈ ws, enc v ≠ []) → (∀ v ∈ ws, ∀ rest, p (enc v ++ rest) = .ok rest v) →
      many1Loop (complete p) (ws.flatMap enc ++ tail) = .ok tail ws := by
    intro ws
    induction ws with
    | nil => intro _ _; simpa using hstop
    | cons w ws ih =>
      intro h1 h2
      simp only [List.flatMap_cons, List.append_assoc]
      rw [many1Loop_cons (complete p) (enc w) _ w (h1 w (by simp)) (by simp [complete, h2 w (by simp)])]
      rw [ih (fun v hv => h1 v (by simp [hv])) (fun v hv => h2 v (by simp [hv]))]
      rfl
  cases vs with
  | nil => exact absurd rfl hnil
  | cons v vs =>
    simp only [List.flatMap_cons, List.append_assoc]
    unfold many1
    simp only [complete, hp v (by simp)]
    rw [hloop vs (fun w hw => hne w (by simp [hw])) (fun w hw => hp w (by simp [hw]))]
    rfl

end Tls
