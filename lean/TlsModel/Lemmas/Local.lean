/-
  Lemmas/Local.lean — closure lemmas for locality: `Suffix` (the remainder is a suffix of the input),
  `Stable` (once the answer is not Incomplete, appending bytes only extends the remainder) and
  `StableAt` (the same at a given input, whatever the outcome).
-/
import TlsModel.Lemmas.Basic
namespace Tls
variable {β α γ : Type}

/-! ### Suffix -/

theorem Suffix.pure (v : α) : Suffix (fun i : List β => Res.ok i v) := by
  intro i r w h; simp at h; exact ⟨[], by simp [h.1]⟩
theorem Suffix.okNil (f : List β → α) : Suffix (fun i : List β => Res.ok [] (f i)) := by
  intro i r w h; simp at h; exact ⟨i, by simp [← h.1]⟩
theorem Suffix.error (k : ErrKind) : Suffix (fun _ : List β => (Res.error k : Res β α)) := by
  intro i r w h; simp at h
theorem Suffix.take (n : Nat) : Suffix (take n : Parser β (List β)) := by
  intro i r w h; unfold Tls.take at h
  split at h
  · simp at h; exact ⟨i.take n, by rw [← h.1]; simp⟩
  · simp at h
theorem Suffix.beU [ByteLike β] (w : Nat) : Suffix (beU w : Parser β Nat) := by
  intro i r v h; unfold Tls.beU at h
  split at h
  · simp at h; exact ⟨i.take w, by rw [← h.1]; simp⟩
  · simp at h
theorem Suffix.bind {p : Parser β α} {q : α → Parser β γ} (hp : Suffix p) (hq : ∀ x, Suffix (q x)) :
    Suffix (fun i => (p i).bind fun i1 x => q x i1) := by
  intro i r v h
  simp only at h
  cases hpi : p i with
  | ok r1 x =>
    rw [hpi] at h; simp only [Res.bind_ok] at h
    obtain ⟨c1, h1⟩ := hp i r1 x hpi
    obtain ⟨c2, h2⟩ := hq x r1 r v h
    exact ⟨c1 ++ c2, by rw [h1, h2, List.append_assoc]⟩
  | _ => rw [hpi] at h; simp at h
theorem Suffix.iteI {c : List β → Prop} [DecidablePred c] {p q : Parser β α} (hp : Suffix p) (hq : Suffix q) :
    Suffix (fun i => if c i then p i else q i) := by
  intro i r v h; simp only at h
  split at h
  · exact hp i r v h
  · exact hq i r v h
theorem Suffix.ite' {c : Prop} [Decidable c] {p q : Parser β α} (hp : Suffix p) (hq : Suffix q) :
    Suffix (if c then p else q) := by
  by_cases h : c <;> simp [h, hp, hq]
theorem Suffix.lengthData {f : Parser β Nat} (hf : Suffix f) : Suffix (lengthData f) :=
  Suffix.bind hf (fun n => Suffix.take n)
theorem Suffix.mapP {f : Parser β α} {g : α → γ} (hf : Suffix f) : Suffix (mapP f g) := by
  intro i r v h; unfold Tls.mapP at h
  cases hfi : f i with
  | ok r1 x => rw [hfi] at h; simp at h; exact hf i r x (by rw [hfi, h.1])
  | _ => rw [hfi] at h; simp at h
/-- `map_parser(f, g)`: the remainder is `f`'s, whatever `g` does -/
theorem Suffix.mapParser {f : Parser β (List β)} {g : Parser β α} (hf : Suffix f) : Suffix (mapParser f g) := by
  intro i r v h; unfold Tls.mapParser at h
  cases hfi : f i with
  | ok r1 x =>
    rw [hfi] at h; simp only [Res.bind_ok] at h
    cases hg : g x with
    | ok r2 y => rw [hg] at h; simp at h; exact hf i r x (by rw [hfi, h.1])
    | _ => rw [hg] at h; simp at h
  | _ => rw [hfi] at h; simp at h
/-- a sub-parser run on an already extracted slice -/
theorem Suffix.sub {g : Parser β α} {f : α → γ} (x : List β) : Suffix (fun i => (g x).bind fun _ m => Res.ok i (f m)) := by
  intro i r v h; simp only at h
  cases hg : g x with
  | ok r2 y => rw [hg] at h; simp at h; exact ⟨[], by simp [h.1]⟩
  | _ => rw [hg] at h; simp at h
theorem Suffix.verify {f : Parser β α} {p : α → Bool} (hf : Suffix f) : Suffix (verify f p) := by
  intro i r v h; unfold Tls.verify at h
  cases hfi : f i with
  | ok r1 x =>
    rw [hfi] at h; simp only [Res.bind_ok] at h
    split at h
    · simp at h; exact hf i r x (by rw [hfi, h.1])
    · simp at h
  | _ => rw [hfi] at h; simp at h
theorem Suffix.cond {b : Bool} {f : Parser β α} (hf : Suffix f) : Suffix (cond b f) := by
  intro i r v h; unfold Tls.cond at h
  cases b with
  | false => simp at h; exact ⟨[], by simp [h.1]⟩
  | true =>
    simp only [if_true] at h
    cases hfi : f i with
    | ok r1 x => rw [hfi] at h; simp at h; exact hf i r x (by rw [hfi, h.1])
    | _ => rw [hfi] at h; simp at h
theorem Suffix.opt {f : Parser β α} (hf : Suffix f) : Suffix (opt f) := by
  intro i r v h; unfold Tls.opt at h
  cases hfi : f i with
  | ok r1 x => rw [hfi] at h; simp at h; exact hf i r x (by rw [hfi, h.1])
  | error k => rw [hfi] at h; simp at h; exact ⟨[], by simp [h.1]⟩
  | _ => rw [hfi] at h; simp at h
theorem Suffix.complete {f : Parser β α} (hf : Suffix f) : Suffix (complete f) := by
  intro i r v h; unfold Tls.complete at h
  cases hfi : f i with
  | ok r1 x => rw [hfi] at h; simp at h; exact hf i r x (by rw [hfi, h.1, h.2])
  | _ => rw [hfi] at h; simp at h
theorem Suffix.alt {a b : Parser β α} (ha : Suffix a) (hb : Suffix b) : Suffix (alt a b) := by
  intro i r v h; unfold Tls.alt at h
  cases hai : a i with
  | ok r1 x => rw [hai] at h; simp at h; exact ha i r x (by rw [hai, h.1, h.2])
  | error k => rw [hai] at h; simp at h; exact hb i r v h
  | _ => rw [hai] at h; simp at h
theorem Suffix.pair {a : Parser β α} {b : Parser β γ} (ha : Suffix a) (hb : Suffix b) : Suffix (pair a b) := by
  unfold Tls.pair
  exact Suffix.bind ha fun x => Suffix.bind hb fun y => Suffix.pure _
theorem Suffix.tag [ByteLike β] (t : List Nat) : Suffix (tag t : Parser β Unit) := by
  intro i r v h; unfold Tls.tag at h
  split at h
  · simp at h
  · split at h
    · simp at h; exact ⟨i.take t.length, by rw [← h]; simp⟩
    · simp at h

theorem Suffix.many0 {f : Parser β α} (hf : Suffix f) : Suffix (many0 f) := by
  intro i
  induction i using many0.induct f with
  | case1 i k h => intro r v hm; unfold Tls.many0 at hm; simp [h] at hm; exact ⟨[], by simp [hm.1]⟩
  | case2 i n h => intro r v hm; unfold Tls.many0 at hm; simp [h] at hm
  | case3 i k h => intro r v hm; unfold Tls.many0 at hm; simp [h] at hm
  | case4 i h => intro r v hm; unfold Tls.many0 at hm; simp [h] at hm
  | case5 i i1 o h hlt ih =>
    intro r v hm; unfold Tls.many0 at hm; simp only [h, hlt, dite_true] at hm
    cases h2 : Tls.many0 f i1 with
    | ok r2 vs =>
      rw [h2] at hm; simp at hm
      obtain ⟨c1, hc1⟩ := hf i i1 o h
      obtain ⟨c2, hc2⟩ := ih r2 vs h2
      exact ⟨c1 ++ c2, by rw [hc1, hc2, List.append_assoc, hm.1]⟩
    | _ => rw [h2] at hm; simp at hm
  | case6 i i1 o h hlt => intro r v hm; unfold Tls.many0 at hm; simp [h, hlt] at hm

theorem Suffix.many1Loop {f : Parser β α} (hf : Suffix f) : Suffix (many1Loop f) := by
  intro i
  induction i using many1Loop.induct f with
  | case1 i k h => intro r v hm; unfold Tls.many1Loop at hm; simp [h] at hm; exact ⟨[], by simp [hm.1]⟩
  | case2 i n h => intro r v hm; unfold Tls.many1Loop at hm; simp [h] at hm
  | case3 i k h => intro r v hm; unfold Tls.many1Loop at hm; simp [h] at hm
  | case4 i h => intro r v hm; unfold Tls.many1Loop at hm; simp [h] at hm
  | case5 i i1 o h hlt ih =>
    intro r v hm; unfold Tls.many1Loop at hm; simp only [h, hlt, dite_true] at hm
    cases h2 : Tls.many1Loop f i1 with
    | ok r2 vs =>
      rw [h2] at hm; simp at hm
      obtain ⟨c1, hc1⟩ := hf i i1 o h
      obtain ⟨c2, hc2⟩ := ih r2 vs h2
      exact ⟨c1 ++ c2, by rw [hc1, hc2, List.append_assoc, hm.1]⟩
    | _ => rw [h2] at hm; simp at hm
  | case6 i i1 o h hlt => intro r v hm; unfold Tls.many1Loop at hm; simp [h, hlt] at hm

theorem Suffix.many1 {f : Parser β α} (hf : Suffix f) : Suffix (many1 f) := by
  intro i r v h; unfold Tls.many1 at h
  cases hfi : f i with
  | ok r1 x =>
    rw [hfi] at h; simp only at h
    cases h2 : Tls.many1Loop f r1 with
    | ok r2 vs =>
      rw [h2] at h; simp at h
      obtain ⟨c1, hc1⟩ := hf i r1 x hfi
      obtain ⟨c2, hc2⟩ := Suffix.many1Loop hf r1 r2 vs h2
      exact ⟨c1 ++ c2, by rw [hc1, hc2, List.append_assoc, h.1]⟩
    | _ => rw [h2] at h; simp at h
  | _ => rw [hfi] at h; simp at h

theorem Suffix.countP {g : Parser β α} (hg : Suffix g) (n : Nat) : Suffix (countP g n) := by
  induction n with
  | zero => intro i r v h; simp [Tls.countP] at h; exact ⟨[], by simp [h.1]⟩
  | succ n ih =>
    intro i r v h; unfold Tls.countP at h
    cases hgi : g i with
    | ok r1 x =>
      rw [hgi] at h; simp only [Res.bind_ok] at h
      cases h2 : Tls.countP g n r1 with
      | ok r2 vs =>
        rw [h2] at h; simp at h
        obtain ⟨c1, hc1⟩ := hg i r1 x hgi
        obtain ⟨c2, hc2⟩ := ih r1 r2 vs h2
        exact ⟨c1 ++ c2, by rw [hc1, hc2, List.append_assoc, h.1]⟩
      | _ => rw [h2] at h; simp at h
    | _ => rw [hgi] at h; simp at h

theorem Suffix.lengthCount {f : Parser β Nat} {g : Parser β α} (hf : Suffix f) (hg : Suffix g) : Suffix (lengthCount f g) :=
  Suffix.bind hf fun n => Suffix.countP hg n

/-! ### Stable -/

theorem StableAt.of_ok {p : Parser β α} {i r : List β} {v : α} (h : p i = .ok r v)
    (hx : ∀ x, p (i ++ x) = .ok (r ++ x) v) : StableAt p i := by
  intro x; rw [hx x, h]; rfl

theorem Stable.pure (v : α) : Stable (fun i : List β => Res.ok i v) := by
  intro i _ x; rfl
theorem Stable.error (k : ErrKind) : Stable (fun _ : List β => (Res.error k : Res β α)) := by
  intro i _ x; rfl
theorem Stable.take (n : Nat) : Stable (take n : Parser β (List β)) := by
  intro i hni x
  unfold Tls.take at *
  by_cases h : n ≤ i.length
  · have h' : n ≤ i.length + x.length := by omega
    simp [h, h', List.take_append_of_le_length h, List.drop_append_of_le_length h]
  · simp [h] at hni
theorem Stable.beU [ByteLike β] (w : Nat) : Stable (beU w : Parser β Nat) := by
  intro i hni x
  unfold Tls.beU at *
  by_cases h : w ≤ i.length
  · have h' : w ≤ i.length + x.length := by omega
    simp [h, h', List.take_append_of_le_length h, List.drop_append_of_le_length h]
  · simp [h] at hni

theorem Stable.bind {p : Parser β α} {q : α → Parser β γ} (hp : Stable p) (hq : ∀ x, Stable (q x)) :
    Stable (fun i => (p i).bind fun i1 x => q x i1) := by
  intro i hni x
  simp only at hni
  show (p (i ++ x)).bind (fun i1 y => q y i1) = ((p i).bind fun i1 y => q y i1).mapRem (· ++ x)
  cases hpi : p i with
  | ok r v =>
    have h1 := hp i (by intro n; rw [hpi]; simp) x
    rw [hpi] at h1; simp only [Res.mapRem_ok] at h1
    rw [h1]; simp only [Res.bind_ok]
    have hq' : ∀ n, q v r ≠ .incomplete n := by
      intro n hh; exact hni n (by rw [hpi]; simp [hh])
    exact hq v r hq' x
  | incomplete n => exact absurd (by rw [hpi]; rfl) (hni n)
  | error k =>
    have h1 := hp i (by intro n; rw [hpi]; simp) x
    rw [hpi] at h1; rw [h1]; rfl
  | failure k =>
    have h1 := hp i (by intro n; rw [hpi]; simp) x
    rw [hpi] at h1; rw [h1]; rfl
  | panic =>
    have h1 := hp i (by intro n; rw [hpi]; simp) x
    rw [hpi] at h1; rw [h1]; rfl

theorem Stable.ite' {c : Prop} [Decidable c] {p q : Parser β α} (hp : Stable p) (hq : Stable q) :
    Stable (if c then p else q) := by
  by_cases h : c <;> simp [h, hp, hq]
theorem Stable.ite {c : Prop} [Decidable c] {p q : Parser β α} (hp : Stable p) (hq : Stable q) :
    Stable (fun i => if c then p i else q i) := by
  by_cases h : c <;> simp [h] <;> assumption
theorem Stable.lengthData {f : Parser β Nat} (hf : Stable f) : Stable (lengthData f) :=
  Stable.bind hf (fun n => Stable.take n)
theorem Stable.mapP {f : Parser β α} {g : α → γ} (hf : Stable f) : Stable (mapP f g) := by
  intro i hni x
  unfold Tls.mapP at *
  have h1 := hf i (by intro n hh; exact hni n (by rw [hh]; rfl)) x
  rw [h1]; cases f i <;> rfl
/-- **confinement**: `map_parser(f, g)` is stable whatever `g` is -/
theorem Stable.mapParser {f : Parser β (List β)} (g : Parser β α) (hf : Stable f) : Stable (mapParser f g) := by
  intro i hni x
  unfold Tls.mapParser at *
  have h1 := hf i (by intro n hh; exact hni n (by rw [hh]; rfl)) x
  rw [h1]
  cases hfi : f i with
  | ok r o => simp only [Res.mapRem_ok, Res.bind_ok]; cases g o <;> rfl
  | _ => rfl
/-- a sub-parser run on an already extracted slice, whatever it is -/
theorem Stable.sub (g : Parser β α) (f : α → γ) (y : List β) : Stable (fun i => (g y).bind fun _ m => Res.ok i (f m)) := by
  intro i _ x; simp only; cases g y <;> rfl
theorem Stable.verify {f : Parser β α} {p : α → Bool} (hf : Stable f) : Stable (verify f p) := by
  unfold Tls.verify
  refine Stable.bind hf fun o => ?_
  by_cases h : p o = true
  · simp only [h, if_true]; exact Stable.pure o
  · simp only [h]; exact Stable.error _
theorem Stable.pair {a : Parser β α} {b : Parser β γ} (ha : Stable a) (hb : Stable b) : Stable (pair a b) := by
  unfold Tls.pair
  exact Stable.bind ha fun x => Stable.bind hb fun y => Stable.pure _

end Tls
