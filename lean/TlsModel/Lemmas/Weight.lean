/-
  Lemmas/Weight.lean — the size of a parsed value is bounded by the bytes consumed, as a closure property.

  `weight v` counts everything a value owns or references: one unit per element of every `Vec` (at every nesting
  level) plus the length of every borrowed slice.  `Bd s K p` says: whenever `p i = ok r v`,
  `weight v + s ≤ (bytes consumed) + K` — `s` is slack (header bytes that are not part of any value, which is what
  pays for the `Vec` cell of an element inside a repetition) and `K` is the weight of values already extracted by
  the enclosing sequence.  `Bd 0 0 p` is the statement: a parser can never be made to build a value larger than the
  input it consumed, whatever the declared lengths say.
-/
import TlsModel.Lemmas.Basic
import TlsModel.Types
namespace Tls
variable {β α γ : Type}

class Weight (β : Type) (α : Type) where
  weight : α → Nat

open Weight (weight)

instance : Weight β Nat := ⟨fun _ => 0⟩
instance : Weight β Unit := ⟨fun _ => 0⟩
instance : Weight β Bool := ⟨fun _ => 0⟩
/-- a borrowed slice: the bytes it references -/
instance weightSlice : Weight β (List β) := ⟨fun l => l.length⟩
instance [Weight β α] : Weight β (Option α) := ⟨fun o => match o with | none => 0 | some x => weight β x⟩
instance [Weight β α] [Weight β γ] : Weight β (α × γ) := ⟨fun p => weight β p.1 + weight β p.2⟩
/-- a `Vec`: one cell per element plus what the elements hold -/
instance weightVec [Weight β α] : Weight β (List α) := ⟨fun l => (l.map (fun x => 1 + weight β x)).sum⟩

@[simp] theorem weight_nat (n : Nat) : weight β n = 0 := rfl
@[simp] theorem weight_unit (n : Unit) : weight β n = 0 := rfl
@[simp] theorem weight_slice (l : List β) : weight β l = l.length := rfl
@[simp] theorem weight_none [Weight β α] : weight β (none : Option α) = 0 := rfl
@[simp] theorem weight_some [Weight β α] (x : α) : weight β (some x) = weight β x := rfl
@[simp] theorem weight_pair [Weight β α] [Weight β γ] (x : α) (y : γ) : weight β (x, y) = weight β x + weight β y := rfl
@[simp] theorem weight_nil [Weight β α] : weight β ([] : List α) = 0 := rfl
@[simp] theorem weight_cons [Weight β α] (x : α) (l : List α) : weight β (x :: l) = 1 + weight β x + weight β l := by
  change ((x :: l).map (fun y => 1 + Weight.weight β y)).sum = 1 + Weight.weight β x + (l.map (fun y => 1 + Weight.weight β y)).sum
  simp [Nat.add_assoc]
@[simp] theorem sum_map_one {δ : Type} (l : List δ) : (l.map (fun _ => 1)).sum = l.length := by
  induction l with
  | nil => rfl
  | cons x l ih => simp [ih]; omega
@[simp] theorem weight_natList (l : List Nat) : weight β l = l.length := by
  induction l with
  | nil => rfl
  | cons x l ih => rw [weight_cons, ih]; simp; omega

/-- `weight v + s ≤ consumed + K` -/
def Bd [Weight β α] (s K : Nat) (p : Parser β α) : Prop :=
  ∀ i r v, p i = .ok r v → r.length ≤ i.length ∧ weight β v + s + r.length ≤ i.length + K

theorem Bd.mono [Weight β α] {s s' K K' : Nat} {p : Parser β α} (h : Bd s K p) (hs : s' ≤ s) (hK : K ≤ K') : Bd s' K' p := by
  intro i r v hv; have := h i r v hv; omega

theorem Bd.pure [Weight β α] {K : Nat} (v : α) (h : weight β v ≤ K) : Bd 0 K (fun i : List β => Res.ok i v) := by
  intro i r w hw; simp at hw; obtain ⟨rfl, rfl⟩ := hw; omega
theorem Bd.error [Weight β α] {s K : Nat} (k : ErrKind) : Bd s K (fun _ : List β => (Res.error k : Res β α)) := by
  intro i r v h; simp at h
theorem Bd.panic [Weight β α] {s K : Nat} : Bd s K (fun _ : List β => (Res.panic : Res β α)) := by
  intro i r v h; simp at h

theorem Bd.take {s K : Nat} (n : Nat) (hs : s = 0) : Bd s K (Tls.take n : Parser β (List β)) := by
  intro i r w h; unfold Tls.take at h
  split at h
  · simp at h; rw [← h.1, ← h.2]; simp; omega
  · simp at h

theorem Bd.beU [ByteLike β] {s K : Nat} (w : Nat) (hs : s ≤ w) : Bd s K (Tls.beU w : Parser β Nat) := by
  intro i r v h; unfold Tls.beU at h
  split at h
  · simp at h; rw [← h.1]; simp; omega
  · simp at h

theorem Bd.tag [ByteLike β] {s K : Nat} (t : List Nat) (hs : s ≤ t.length) : Bd s K (Tls.tag t : Parser β Unit) := by
  intro i r v h; unfold Tls.tag at h
  split at h
  · simp at h
  · split at h
    · simp at h; rw [← h]; simp; omega
    · simp at h

/-- sequencing: the first parser pays for its own value (and provides the slack); what it extracted becomes the
    budget of the continuation -/
theorem Bd.bind [Weight β α] [Weight β γ] {s K : Nat} {p : Parser β α} {q : α → Parser β γ}
    (hp : Bd s 0 p) (hq : ∀ x, Bd 0 (weight β x + K) (q x)) : Bd s K (fun i => (p i).bind fun i1 x => q x i1) := by
  intro i r v h
  simp only at h
  cases hpi : p i with
  | ok r1 x =>
    rw [hpi] at h; simp only [Res.bind_ok] at h
    have h1 := hp i r1 x hpi
    have h2 := hq x r1 r v h
    omega
  | _ => rw [hpi] at h; simp at h

/-- the same, handing `t` units of the first parser's slack (header bytes) to the continuation as budget -/
theorem Bd.bindCredit [Weight β α] [Weight β γ] {s K : Nat} (t : Nat) {p : Parser β α} {q : α → Parser β γ}
    (hp : Bd (s + t) 0 p) (hq : ∀ x, Bd 0 (weight β x + K + t) (q x)) : Bd s K (fun i => (p i).bind fun i1 x => q x i1) := by
  intro i r v h
  simp only at h
  cases hpi : p i with
  | ok r1 x =>
    rw [hpi] at h; simp only [Res.bind_ok] at h
    have h1 := hp i r1 x hpi
    have h2 := hq x r1 r v h
    omega
  | _ => rw [hpi] at h; simp at h

/-- slack adds up along a sequence -/
theorem Bd.bindAdd [Weight β α] [Weight β γ] {K : Nat} (s1 s2 : Nat) {p : Parser β α} {q : α → Parser β γ}
    (hp : Bd s1 0 p) (hq : ∀ x, Bd s2 (weight β x + K) (q x)) : Bd (s1 + s2) K (fun i => (p i).bind fun i1 x => q x i1) := by
  intro i r v h
  simp only at h
  cases hpi : p i with
  | ok r1 x =>
    rw [hpi] at h; simp only [Res.bind_ok] at h
    have h1 := hp i r1 x hpi
    have h2 := hq x r1 r v h
    omega
  | _ => rw [hpi] at h; simp at h

/-- part of the budget (`K1`) may be spent by the first parser, the rest by the continuation -/
theorem Bd.bindSplit [Weight β α] [Weight β γ] {s K1 K2 : Nat} {p : Parser β α} {q : α → Parser β γ}
    (hp : Bd s K1 p) (hq : ∀ x, Bd 0 (weight β x + K2) (q x)) : Bd s (K2 + K1) (fun i => (p i).bind fun i1 x => q x i1) := by
  intro i r v h
  simp only at h
  cases hpi : p i with
  | ok r1 x =>
    rw [hpi] at h; simp only [Res.bind_ok] at h
    have h1 := hp i r1 x hpi
    have h2 := hq x r1 r v h
    omega
  | _ => rw [hpi] at h; simp at h

theorem Bd.peek [Weight β γ] {s K : Nat} {p : Parser β α} {F : α → Parser β γ} (hF : ∀ x, Bd s K (F x)) :
    Bd s K (fun i => (p i).bind fun _ x => F x i) := by
  intro i r v h; simp only at h
  cases hpi : p i with
  | ok r1 x => rw [hpi] at h; simp only [Res.bind_ok] at h; exact hF x i r v h
  | _ => rw [hpi] at h; simp at h

theorem Bd.lengthData [ByteLike β] {s K : Nat} (w : Nat) (hs : s ≤ w) : Bd s K (Tls.lengthData (Tls.beU w) : Parser β (List β)) := by
  unfold Tls.lengthData
  exact Bd.bind (Bd.beU w hs) (fun n => Bd.take n rfl)

theorem Bd.mapP [Weight β α] [Weight β γ] {s K : Nat} {f : Parser β α} {g : α → γ} (hf : Bd s K f)
    (hg : ∀ x, weight β (g x) ≤ weight β x) : Bd s K (mapP f g) := by
  intro i r v h; unfold Tls.mapP at h
  cases hfi : f i with
  | ok r1 x =>
    rw [hfi] at h; simp at h
    have := hf i r1 x hfi
    have := hg x
    rw [← h.1, ← h.2]; omega
  | _ => rw [hfi] at h; simp at h

/-- `map(f, g)` where `g` wraps the value in up to `t` fresh `Vec` cells, paid from `f`'s slack -/
theorem Bd.mapPSlack [Weight β α] [Weight β γ] {s K : Nat} (t : Nat) {f : Parser β α} {g : α → γ} (hf : Bd (s + t) K f)
    (hg : ∀ x, weight β (g x) ≤ weight β x + t) : Bd s K (Tls.mapP f g) := by
  intro i r v h; unfold Tls.mapP at h
  cases hfi : f i with
  | ok r1 x =>
    rw [hfi] at h; simp at h
    have := hf i r1 x hfi
    have := hg x
    rw [← h.1, ← h.2]; omega
  | _ => rw [hfi] at h; simp at h

/-- `map_parser(f, g)`: `g` can only build from the slice `f` extracted -/
theorem Bd.mapParser [Weight β α] {s K : Nat} {f : Parser β (List β)} {g : Parser β α}
    (hf : Bd s 0 f) (hg : Bd 0 K g) : Bd s K (mapParser f g) := by
  intro i r v h; unfold Tls.mapParser at h
  cases hfi : f i with
  | ok r1 x =>
    rw [hfi] at h; simp only [Res.bind_ok] at h
    cases hgx : g x with
    | ok r2 y =>
      rw [hgx] at h; simp at h
      have h1 := hf i r1 x hfi
      have h2 := hg x r2 y hgx
      simp only [weight_slice] at h1
      rw [← h.1, ← h.2]; omega
    | _ => rw [hgx] at h; simp at h
  | _ => rw [hfi] at h; simp at h

/-- a sub-parser run on a slice extracted earlier, whose bytes are in the budget -/
theorem Bd.sub [Weight β α] [Weight β γ] {K : Nat} {g : Parser β α} {f : α → γ} (x : List β)
    (hx : x.length ≤ K) (hg : Bd 0 0 g) (hf : ∀ m, weight β (f m) ≤ weight β m) :
    Bd 0 K (fun i => (g x).bind fun _ m => Res.ok i (f m)) := by
  intro i r v h; simp only at h
  cases hgx : g x with
  | ok r2 y =>
    rw [hgx] at h; simp at h
    have h2 := hg x r2 y hgx
    have := hf y
    rw [← h.1, ← h.2]; omega
  | _ => rw [hgx] at h; simp at h

theorem Bd.verify [Weight β α] {s K : Nat} {f : Parser β α} {p : α → Bool} (hf : Bd s K f) : Bd s K (verify f p) := by
  intro i r v h; unfold Tls.verify at h
  cases hfi : f i with
  | ok r1 x =>
    rw [hfi] at h; simp only [Res.bind_ok] at h
    split at h
    · simp at h; obtain ⟨h1, h2⟩ := h; subst h1 h2; exact hf i _ _ hfi
    · simp at h
  | _ => rw [hfi] at h; simp at h

theorem Bd.cond [Weight β α] {K : Nat} {b : Bool} {f : Parser β α} (hf : Bd 0 K f) : Bd 0 K (cond b f) := by
  intro i r v h; unfold Tls.cond at h
  cases b with
  | false => simp at h; rw [← h.1, ← h.2]; simp
  | true =>
    simp only [if_true] at h
    cases hfi : f i with
    | ok r1 x =>
      rw [hfi] at h; simp at h
      have := hf i r1 x hfi
      rw [← h.1, ← h.2]; simpa using this
    | _ => rw [hfi] at h; simp at h

theorem Bd.opt [Weight β α] {K : Nat} {f : Parser β α} (hf : Bd 0 K f) : Bd 0 K (opt f) := by
  intro i r v h; unfold Tls.opt at h
  cases hfi : f i with
  | ok r1 x =>
    rw [hfi] at h; simp at h
    have := hf i r1 x hfi
    rw [← h.1, ← h.2]; simpa using this
  | error k => rw [hfi] at h; simp at h; rw [← h.1, ← h.2]; simp
  | _ => rw [hfi] at h; simp at h

theorem Bd.complete [Weight β α] {s K : Nat} {f : Parser β α} (hf : Bd s K f) : Bd s K (complete f) := by
  intro i r v h; unfold Tls.complete at h
  cases hfi : f i with
  | ok r1 x => rw [hfi] at h; simp at h; exact hf i r v (by rw [hfi, h.1, h.2])
  | _ => rw [hfi] at h; simp at h

theorem Bd.alt [Weight β α] {s K : Nat} {a b : Parser β α} (ha : Bd s K a) (hb : Bd s K b) : Bd s K (alt a b) := by
  intro i r v h; unfold Tls.alt at h
  cases hai : a i with
  | ok r1 x => rw [hai] at h; simp at h; exact ha i r v (by rw [hai, h.1, h.2])
  | error k => rw [hai] at h; simp at h; exact hb i r v h
  | _ => rw [hai] at h; simp at h

theorem Bd.iteI [Weight β α] {s K : Nat} {c : List β → Prop} [DecidablePred c] {p q : Parser β α}
    (hp : Bd s K p) (hq : Bd s K q) : Bd s K (fun i => if c i then p i else q i) := by
  intro i r v h; simp only at h
  split at h
  · exact hp i r v h
  · exact hq i r v h

theorem Bd.ite' [Weight β α] {s K : Nat} {c : Prop} [Decidable c] {p q : Parser β α}
    (hp : Bd s K p) (hq : Bd s K q) : Bd s K (if c then p else q) := by
  by_cases h : c <;> simp [h, hp, hq]

theorem Bd.ite [Weight β α] {s K : Nat} {c : Prop} [Decidable c] {p q : Parser β α}
    (hp : Bd s K p) (hq : Bd s K q) : Bd s K (fun i => if c then p i else q i) := by
  by_cases h : c <;> simp [h] <;> assumption

theorem Bd.pair [Weight β α] [Weight β γ] {s K : Nat} {a : Parser β α} {b : Parser β γ}
    (ha : Bd s 0 a) (hb : Bd 0 0 b) : Bd s K (pair a b) := by
  unfold Tls.pair
  refine Bd.bind ha fun x => Bd.bind hb fun y => Bd.pure _ ?_
  simp; omega

/-- the whole (confined) input becomes the value -/
theorem Bd.okAll [Weight β α] {K : Nat} (f : List β → α) (hf : ∀ i, weight β (f i) ≤ i.length) :
    Bd 0 K (fun i : List β => Res.ok [] (f i)) := by
  intro i r v h; simp at h
  have := hf i
  obtain ⟨rfl, rfl⟩ := h
  simp; omega

/-- repetition: an element pays for its own `Vec` cell with the slack of its header -/
theorem Bd.many0 [Weight β α] {K : Nat} {f : Parser β α} (hf : Bd 1 0 f) : Bd 0 K (many0 f) := by
  intro i
  induction i using many0.induct f with
  | case1 i k h => intro r v hm; unfold Tls.many0 at hm; simp [h] at hm; rw [← hm.1, hm.2]; simp
  | case2 i n h => intro r v hm; unfold Tls.many0 at hm; simp [h] at hm
  | case3 i k h => intro r v hm; unfold Tls.many0 at hm; simp [h] at hm
  | case4 i h => intro r v hm; unfold Tls.many0 at hm; simp [h] at hm
  | case5 i i1 o h hlt ih =>
    intro r v hm; unfold Tls.many0 at hm; simp only [h, hlt, dite_true] at hm
    cases h2 : Tls.many0 f i1 with
    | ok r2 vs =>
      rw [h2] at hm; simp at hm
      have h1 := hf i i1 o h
      have h3 := ih r2 vs h2
      rw [← hm.1, ← hm.2, weight_cons]; omega
    | _ => rw [h2] at hm; simp at hm
  | case6 i i1 o h hlt => intro r v hm; unfold Tls.many0 at hm; simp [h, hlt] at hm

theorem Bd.many1Loop [Weight β α] {K : Nat} {f : Parser β α} (hf : Bd 1 0 f) : Bd 0 K (many1Loop f) := by
  intro i
  induction i using many1Loop.induct f with
  | case1 i k h => intro r v hm; unfold Tls.many1Loop at hm; simp [h] at hm; rw [← hm.1, hm.2]; simp
  | case2 i n h => intro r v hm; unfold Tls.many1Loop at hm; simp [h] at hm
  | case3 i k h => intro r v hm; unfold Tls.many1Loop at hm; simp [h] at hm
  | case4 i h => intro r v hm; unfold Tls.many1Loop at hm; simp [h] at hm
  | case5 i i1 o h hlt ih =>
    intro r v hm; unfold Tls.many1Loop at hm; simp only [h, hlt, dite_true] at hm
    cases h2 : Tls.many1Loop f i1 with
    | ok r2 vs =>
      rw [h2] at hm; simp at hm
      have h1 := hf i i1 o h
      have h3 := ih r2 vs h2
      rw [← hm.1, ← hm.2, weight_cons]; omega
    | _ => rw [h2] at hm; simp at hm
  | case6 i i1 o h hlt => intro r v hm; unfold Tls.many1Loop at hm; simp [h, hlt] at hm

theorem Bd.many1 [Weight β α] {K : Nat} {f : Parser β α} (hf : Bd 1 0 f) : Bd 0 K (many1 f) := by
  intro i r v h; unfold Tls.many1 at h
  cases hfi : f i with
  | ok r1 x =>
    rw [hfi] at h; simp only at h
    cases h2 : Tls.many1Loop f r1 with
    | ok r2 vs =>
      rw [h2] at h; simp at h
      have h1 := hf i r1 x hfi
      have h3 := Bd.many1Loop (K := 0) hf r1 r2 vs h2
      rw [← h.1, ← h.2, weight_cons]; omega
    | _ => rw [h2] at h; simp at h
  | _ => rw [hfi] at h; simp at h

theorem Bd.countP [Weight β α] {K : Nat} {g : Parser β α} (hg : Bd 1 0 g) (n : Nat) : Bd 0 K (countP g n) := by
  induction n with
  | zero => intro i r v h; simp [Tls.countP] at h; rw [← h.1, h.2]; simp
  | succ n ih =>
    intro i r v h; unfold Tls.countP at h
    cases hgi : g i with
    | ok r1 x =>
      rw [hgi] at h; simp only [Res.bind_ok] at h
      cases h2 : Tls.countP g n r1 with
      | ok r2 vs =>
        rw [h2] at h; simp at h
        have h1 := hg i r1 x hgi
        have h3 := ih r1 r2 vs h2
        rw [← h.1, ← h.2, weight_cons]; omega
      | _ => rw [h2] at h; simp at h
    | _ => rw [hgi] at h; simp at h

theorem Bd.lengthCount [Weight β α] {s K : Nat} {f : Parser β Nat} {g : Parser β α} (hf : Bd s 0 f) (hg : Bd 1 0 g) :
    Bd s K (lengthCount f g) := by
  unfold Tls.lengthCount
  exact Bd.bind hf fun n => Bd.countP hg n

/-! ### the weight of each value type: every `Vec` element and every borrowed byte -/

instance : Weight β RecordHeader := ⟨fun _ => 0⟩
instance : Weight β DtlsHeader := ⟨fun _ => 0⟩
instance : Weight β (RawRecord β) := ⟨fun r => r.data.length⟩
instance : Weight β (Encrypted β) := ⟨fun r => r.blob.length⟩
instance : Weight β (ClientHello β) := ⟨fun c =>
  c.random.length + weight β c.sessionId + c.ciphers.length + c.comp.length + weight β c.ext⟩
instance : Weight β (ServerHello β) := ⟨fun c => c.random.length + weight β c.sessionId + weight β c.ext⟩
instance : Weight β (ServerHello13d18 β) := ⟨fun c => c.random.length + weight β c.ext⟩
instance : Weight β (HelloRetryRequest β) := ⟨fun c => weight β c.ext⟩
instance : Weight β (NewSessionTicket β) := ⟨fun c => c.ticket.length⟩
instance : Weight β (CertRequest β) := ⟨fun c => c.certTypes.length + weight β c.sigHashAlgs + weight β c.unparsedCa⟩
instance : Weight β (CertStatus β) := ⟨fun c => c.blob.length⟩
instance : Weight β (NextProtocol β) := ⟨fun c => c.selected.length + c.padding.length⟩
instance : Weight β (CKE β) := ⟨fun c => match c with | .dh d => d.length | .ecdh d => d.length | .unknown d => d.length⟩
instance : Weight β (Handshake β) := ⟨fun h => match h with
  | .helloRequest => 0 | .clientHello c => weight β c | .serverHello c => weight β c | .serverHello13d18 c => weight β c
  | .newSessionTicket t => weight β t | .endOfEarlyData => 0 | .helloRetryRequest h => weight β h
  | .certificate chain => weight β chain | .serverKeyExchange d => d.length | .certificateRequest r => weight β r
  | .serverDone d => d.length | .certificateVerify d => d.length | .clientKeyExchange c => weight β c
  | .finished d => d.length | .certificateStatus s => weight β s | .nextProtocol n => weight β n | .keyUpdate _ => 0⟩
instance : Weight β (Message β) := ⟨fun m => match m with
  | .handshake h => weight β h | .changeCipherSpec => 0 | .alert _ _ => 0 | .applicationData b => b.length
  | .heartbeat _ _ p => p.length⟩
instance : Weight β (Plaintext β) := ⟨fun p => weight β p.msg⟩
instance : Weight β (Extension β) := ⟨fun e => match e with
  | .sni l => weight β l | .maxFragmentLength _ => 0 | .statusRequest r => weight β r | .ellipticCurves l => l.length
  | .ecPointFormats d => d.length | .signatureAlgorithms l => l.length | .recordSizeLimit _ => 0
  | .sessionTicket d => d.length | .keyShareOld d => d.length | .keyShare d => d.length | .preSharedKey d => d.length
  | .earlyData _ => 0 | .supportedVersions l => l.length | .cookie d => d.length | .pskExchangeModes v => v.length
  | .heartbeat _ => 0 | .alpn l => weight β l | .signedCertificateTimestamp o => weight β o | .padding d => d.length
  | .encryptThenMac => 0 | .extendedMasterSecret => 0 | .oidFilters l => weight β l | .postHandshakeAuth => 0
  | .nextProtocolNegotiation => 0 | .renegotiationInfo d => d.length
  | .encryptedServerName _ _ ks rd es => ks.length + rd.length + es.length | .grease _ d => d.length
  | .unknown _ d => d.length⟩
instance : Weight β (DHParams β) := ⟨fun d => d.p.length + d.g.length + d.ys.length⟩
instance : Weight β (ExplicitPrime β) := ⟨fun e =>
  e.primeP.length + e.a.length + e.b.length + e.base.length + e.order.length + e.cofactor.length⟩
instance : Weight β (ECContent β) := ⟨fun c => match c with | .explicitPrime e => weight β e | .namedGroup _ => 0⟩
instance : Weight β (ECParameters β) := ⟨fun c => weight β c.content⟩
instance : Weight β (ECDHParams β) := ⟨fun c => weight β c.curve + c.pub.length⟩
instance : Weight β (DigitallySigned β) := ⟨fun d => d.data.length⟩
instance : Weight β (SCT β) := ⟨fun s => s.keyId.length + s.extensions.length + weight β s.signature⟩
instance : Weight β (DtlsClientHello β) := ⟨fun c =>
  c.random.length + weight β c.sessionId + c.cookie.length + c.ciphers.length + c.comp.length + weight β c.ext⟩
instance : Weight β (DtlsBody β) := ⟨fun b => match b with
  | .clientHello c => weight β c | .helloVerifyRequest _ cookie => cookie.length | .serverHello s => weight β s
  | .certificate chain => weight β chain | .serverDone d => d.length | .clientKeyExchange c => weight β c
  | .fragment d => d.length⟩
instance : Weight β (DtlsHandshake β) := ⟨fun h => weight β h.body⟩
instance : Weight β (DtlsMessage β) := ⟨fun m => match m with
  | .handshake h => weight β h | .changeCipherSpec => 0 | .alert _ _ => 0⟩
instance : Weight β (DtlsPlaintext β) := ⟨fun p => weight β p.messages⟩

end Tls
