/-
  Lemmas/Alias.lean — zero-copy as a closure property.

  `Slices β α` names the byte slices (`&'a [u8]`) reachable in a value of type `α`.
  `Al ctx p` says: whenever `p i = ok r v`, the input splits as `i = c ++ r` and every slice of `v` is an
  infix of the consumed part `c` (or of a slice already extracted earlier, listed in `ctx`).  `Al [] p` is the
  property as stated: every slice reachable from the returned value lies inside the consumed part of the
  caller's buffer.  On position-tagged bytes (all elements distinct) an infix has a unique position, so this is
  pointer-level aliasing.
-/
import TlsModel.Lemmas.Basic
import TlsModel.Types
namespace Tls
variable {β α γ : Type}

class Slices (β : Type) (α : Type) where
  slices : α → List (List β)

export Slices (slices)

instance : Slices β Nat := ⟨fun _ => []⟩
instance : Slices β Unit := ⟨fun _ => []⟩
instance : Slices β Bool := ⟨fun _ => []⟩
/-- a borrowed slice -/
instance sliceSelf : Slices β (List β) := ⟨fun l => [l]⟩
instance [Slices β α] : Slices β (Option α) := ⟨fun o => match o with | none => [] | some x => slices x⟩
instance [Slices β α] [Slices β γ] : Slices β (α × γ) := ⟨fun p => slices p.1 ++ slices p.2⟩
/-- a `Vec` of values -/
instance listSlices [Slices β α] : Slices β (List α) := ⟨fun l => l.flatMap slices⟩

@[simp] theorem slices_nat (n : Nat) : (slices n : List (List β)) = [] := rfl
@[simp] theorem slices_unit (n : Unit) : (slices n : List (List β)) = [] := rfl
@[simp] theorem slices_self (l : List β) : (slices l : List (List β)) = [l] := rfl
@[simp] theorem slices_none [Slices β α] : (slices (none : Option α) : List (List β)) = [] := rfl
@[simp] theorem slices_some [Slices β α] (x : α) : (slices (some x) : List (List β)) = slices x := rfl
@[simp] theorem slices_pair [Slices β α] [Slices β γ] (x : α) (y : γ) :
    (slices (x, y) : List (List β)) = slices x ++ slices y := rfl
@[simp] theorem slices_nil [Slices β α] : (slices ([] : List α) : List (List β)) = [] := rfl
@[simp] theorem slices_cons [Slices β α] (x : α) (l : List α) :
    (slices (x :: l) : List (List β)) = slices x ++ slices l := by
  simp [slices, List.flatMap_cons]

/-- `s` lies inside one of the allowed regions -/
def Inside (s : List β) (regions : List (List β)) : Prop := ∃ t ∈ regions, s <:+: t

theorem Inside.mono {s : List β} {a b : List (List β)} (h : Inside s a) (hab : ∀ t ∈ a, Inside t b) : Inside s b := by
  obtain ⟨t, ht, hs⟩ := h
  obtain ⟨u, hu, htu⟩ := hab t ht
  exact ⟨u, hu, hs.trans htu⟩

theorem Inside.self {s : List β} {a : List (List β)} (h : s ∈ a) : Inside s a := ⟨s, h, List.infix_refl s⟩

/-- every slice of a successful result lies in the consumed part of the input, or in `ctx` -/
def Al [Slices β α] (ctx : List (List β)) (p : Parser β α) : Prop :=
  ∀ i r v, p i = .ok r v → ∃ c, i = c ++ r ∧ ∀ s ∈ (slices v : List (List β)), Inside s (c :: ctx)

theorem Al.weaken [Slices β α] {ctx ctx' : List (List β)} {p : Parser β α} (h : Al ctx p)
    (hc : ∀ t ∈ ctx, Inside t ctx') : Al ctx' p := by
  intro i r v hv
  obtain ⟨c, hc1, hs⟩ := h i r v hv
  refine ⟨c, hc1, fun s hs' => ?_⟩
  refine (hs s hs').mono ?_
  intro t ht
  rcases List.mem_cons.mp ht with rfl | ht
  · exact Inside.self (List.mem_cons_self)
  · obtain ⟨u, hu, htu⟩ := hc t ht
    exact ⟨u, List.mem_cons_of_mem _ hu, htu⟩

theorem Al.ofNil [Slices β α] {ctx : List (List β)} {p : Parser β α} (h : Al [] p) : Al ctx p :=
  h.weaken (by simp)

/-- a value whose slices are all already known (no input consumed) -/
theorem Al.pure [Slices β α] {ctx : List (List β)} (v : α) (h : ∀ s ∈ (slices v : List (List β)), Inside s ([] :: ctx)) :
    Al ctx (fun i : List β => Res.ok i v) := by
  intro i r w hw; simp at hw
  obtain ⟨rfl, rfl⟩ := hw
  exact ⟨[], by simp, h⟩

theorem Al.error [Slices β α] {ctx : List (List β)} (k : ErrKind) : Al ctx (fun _ : List β => (Res.error k : Res β α)) := by
  intro i r v h; simp at h
theorem Al.panic [Slices β α] {ctx : List (List β)} : Al ctx (fun _ : List β => (Res.panic : Res β α)) := by
  intro i r v h; simp at h

theorem Al.take {ctx : List (List β)} (n : Nat) : Al ctx (take n : Parser β (List β)) := by
  intro i r w h; unfold Tls.take at h
  split at h
  · simp at h
    refine ⟨i.take n, by rw [← h.1]; simp, ?_⟩
    intro s hs; simp at hs; subst hs
    exact ⟨i.take n, by simp, by rw [h.2]; exact List.infix_refl _⟩
  · simp at h

theorem Al.beU [ByteLike β] {ctx : List (List β)} (w : Nat) : Al ctx (beU w : Parser β Nat) := by
  intro i r v h; unfold Tls.beU at h
  split at h
  · simp at h; exact ⟨i.take w, by rw [← h.1]; simp, by simp⟩
  · simp at h

theorem Al.tag [ByteLike β] {ctx : List (List β)} (t : List Nat) : Al ctx (tag t : Parser β Unit) := by
  intro i r v h; unfold Tls.tag at h
  split at h
  · simp at h
  · split at h
    · simp at h; exact ⟨i.take t.length, by rw [← h]; simp, by simp⟩
    · simp at h

/-- sequencing: what the first parser extracted becomes context for the continuation -/
theorem Al.bind [Slices β α] [Slices β γ] {ctx : List (List β)} {p : Parser β α} {q : α → Parser β γ}
    (hp : Al ctx p) (hq : ∀ x, Al ((slices x : List (List β)) ++ ctx) (q x)) :
    Al ctx (fun i => (p i).bind fun i1 x => q x i1) := by
  intro i r v h
  simp only at h
  cases hpi : p i with
  | ok r1 x =>
    rw [hpi] at h; simp only [Res.bind_ok] at h
    obtain ⟨c1, h1, hs1⟩ := hp i r1 x hpi
    obtain ⟨c2, h2, hs2⟩ := hq x r1 r v h
    refine ⟨c1 ++ c2, by rw [h1, h2, List.append_assoc], ?_⟩
    intro s hs
    refine (hs2 s hs).mono ?_
    intro t ht
    rcases List.mem_cons.mp ht with rfl | ht
    · exact ⟨c1 ++ t, by simp, List.infix_append' c1 t []|>.trans (by simp) ⟩
    · rcases List.mem_append.mp ht with ht | ht
      · refine (hs1 t ht).mono ?_
        intro u hu
        rcases List.mem_cons.mp hu with rfl | hu
        · exact ⟨u ++ c2, by simp, List.infix_append' [] u c2 |>.trans (by simp)⟩
        · exact Inside.self (List.mem_cons_of_mem _ hu)
      · exact Inside.self (List.mem_cons_of_mem _ ht)
  | _ => rw [hpi] at h; simp at h

theorem Inside.left {s c1 : List β} (c2 : List β) {ctx : List (List β)} (h : Inside s (c1 :: ctx)) : Inside s ((c1 ++ c2) :: ctx) := by
  refine h.mono ?_
  intro u hu
  rcases List.mem_cons.mp hu with rfl | hu
  · exact ⟨u ++ c2, by simp, List.infix_append' [] u c2 |>.trans (by simp)⟩
  · exact Inside.self (List.mem_cons_of_mem _ hu)

theorem Inside.right {s c2 : List β} (c1 : List β) {ctx : List (List β)} (h : Inside s (c2 :: ctx)) : Inside s ((c1 ++ c2) :: ctx) := by
  refine h.mono ?_
  intro u hu
  rcases List.mem_cons.mp hu with rfl | hu
  · exact ⟨c1 ++ u, by simp, List.infix_append' c1 u [] |>.trans (by simp)⟩
  · exact Inside.self (List.mem_cons_of_mem _ hu)

theorem Al.lengthData [ByteLike β] {ctx : List (List β)} (w : Nat) : Al ctx (Tls.lengthData (Tls.beU w) : Parser β (List β)) := by
  unfold Tls.lengthData
  exact Al.bind (Al.beU w) (fun n => Al.take n)

/-- `map(f, g)` where `g` only re-wraps: the slices of `g x` are among those of `x` -/
theorem Al.mapP [Slices β α] [Slices β γ] {ctx : List (List β)} {f : Parser β α} {g : α → γ} (hf : Al ctx f)
    (hg : ∀ x, ∀ s ∈ (slices (g x) : List (List β)), s ∈ (slices x : List (List β))) : Al ctx (mapP f g) := by
  intro i r v h; unfold Tls.mapP at h
  cases hfi : f i with
  | ok r1 x =>
    rw [hfi] at h; simp at h
    obtain ⟨c, hc, hs⟩ := hf i r1 x hfi
    refine ⟨c, by rw [hc, h.1], ?_⟩
    intro s hs'; rw [← h.2] at hs'
    exact hs s (hg x s hs')
  | _ => rw [hfi] at h; simp at h

/-- `map_parser(f, g)`: `g` works inside the slice `f` extracted, so its slices lie inside that slice -/
theorem Al.mapParser [Slices β α] {ctx : List (List β)} {f : Parser β (List β)} {g : Parser β α}
    (hf : Al ctx f) (hg : Al [] g) : Al ctx (mapParser f g) := by
  intro i r v h; unfold Tls.mapParser at h
  cases hfi : f i with
  | ok r1 x =>
    rw [hfi] at h; simp only [Res.bind_ok] at h
    cases hgx : g x with
    | ok r2 y =>
      rw [hgx] at h; simp at h
      obtain ⟨c, hc, hs⟩ := hf i r1 x hfi
      obtain ⟨c2, hc2, hs2⟩ := hg x r2 y hgx
      refine ⟨c, by rw [hc, h.1], ?_⟩
      intro s hs'; rw [← h.2] at hs'
      obtain ⟨t, ht, hst⟩ := hs2 s hs'
      simp at ht; subst ht
      have hx : Inside x (c :: ctx) := hs x (by simp)
      obtain ⟨u, hu, hxu⟩ := hx
      exact ⟨u, hu, hst.trans ((List.infix_append' [] t r2 |>.trans (by simp [hc2])).trans hxu)⟩
    | _ => rw [hgx] at h; simp at h
  | _ => rw [hfi] at h; simp at h

/-- a sub-parser run on a slice extracted earlier (`x` is in the context) -/
theorem Al.sub [Slices β α] [Slices β γ] {ctx : List (List β)} {g : Parser β α} {f : α → γ} (x : List β)
    (hx : Inside x ([] :: ctx)) (hg : Al [] g)
    (hf : ∀ m, ∀ s ∈ (slices (f m) : List (List β)), s ∈ (slices m : List (List β))) :
    Al ctx (fun i => (g x).bind fun _ m => Res.ok i (f m)) := by
  intro i r v h; simp only at h
  cases hgx : g x with
  | ok r2 y =>
    rw [hgx] at h; simp at h
    obtain ⟨c2, hc2, hs2⟩ := hg x r2 y hgx
    refine ⟨[], by simp [h.1], ?_⟩
    intro s hs'; rw [← h.2] at hs'
    obtain ⟨t, ht, hst⟩ := hs2 s (hf y s hs')
    simp at ht; subst ht
    obtain ⟨u, hu, hxu⟩ := hx
    exact ⟨u, hu, hst.trans ((List.infix_append' [] t r2 |>.trans (by simp [hc2])).trans hxu)⟩
  | _ => rw [hgx] at h; simp at h

theorem Al.verify [Slices β α] {ctx : List (List β)} {f : Parser β α} {p : α → Bool} (hf : Al ctx f) : Al ctx (verify f p) := by
  intro i r v h; unfold Tls.verify at h
  cases hfi : f i with
  | ok r1 x =>
    rw [hfi] at h; simp only [Res.bind_ok] at h
    split at h
    · simp at h; obtain ⟨h1, h2⟩ := h; subst h1 h2; exact hf i _ _ hfi
    · simp at h
  | _ => rw [hfi] at h; simp at h

theorem Al.cond [Slices β α] {ctx : List (List β)} {b : Bool} {f : Parser β α} (hf : Al ctx f) : Al ctx (cond b f) := by
  intro i r v h; unfold Tls.cond at h
  cases b with
  | false => simp at h; exact ⟨[], by simp [h.1], by rw [← h.2]; simp⟩
  | true =>
    simp only [if_true] at h
    cases hfi : f i with
    | ok r1 x =>
      rw [hfi] at h; simp at h
      obtain ⟨c, hc, hs⟩ := hf i r1 x hfi
      exact ⟨c, by rw [hc, h.1], by rw [← h.2]; simpa using hs⟩
    | _ => rw [hfi] at h; simp at h

theorem Al.opt [Slices β α] {ctx : List (List β)} {f : Parser β α} (hf : Al ctx f) : Al ctx (opt f) := by
  intro i r v h; unfold Tls.opt at h
  cases hfi : f i with
  | ok r1 x =>
    rw [hfi] at h; simp at h
    obtain ⟨c, hc, hs⟩ := hf i r1 x hfi
    exact ⟨c, by rw [hc, h.1], by rw [← h.2]; simpa using hs⟩
  | error k => rw [hfi] at h; simp at h; exact ⟨[], by simp [h.1], by rw [← h.2]; simp⟩
  | _ => rw [hfi] at h; simp at h

theorem Al.complete [Slices β α] {ctx : List (List β)} {f : Parser β α} (hf : Al ctx f) : Al ctx (complete f) := by
  intro i r v h; unfold Tls.complete at h
  cases hfi : f i with
  | ok r1 x => rw [hfi] at h; simp at h; exact hf i r v (by rw [hfi, h.1, h.2])
  | _ => rw [hfi] at h; simp at h

theorem Al.alt [Slices β α] {ctx : List (List β)} {a b : Parser β α} (ha : Al ctx a) (hb : Al ctx b) : Al ctx (alt a b) := by
  intro i r v h; unfold Tls.alt at h
  cases hai : a i with
  | ok r1 x => rw [hai] at h; simp at h; exact ha i r v (by rw [hai, h.1, h.2])
  | error k => rw [hai] at h; simp at h; exact hb i r v h
  | _ => rw [hai] at h; simp at h

theorem Al.iteI [Slices β α] {ctx : List (List β)} {c : List β → Prop} [DecidablePred c] {p q : Parser β α}
    (hp : Al ctx p) (hq : Al ctx q) : Al ctx (fun i => if c i then p i else q i) := by
  intro i r v h; simp only at h
  split at h
  · exact hp i r v h
  · exact hq i r v h

theorem Al.ite' [Slices β α] {ctx : List (List β)} {c : Prop} [Decidable c] {p q : Parser β α}
    (hp : Al ctx p) (hq : Al ctx q) : Al ctx (if c then p else q) := by
  by_cases h : c <;> simp [h, hp, hq]

theorem Al.pair [Slices β α] [Slices β γ] {ctx : List (List β)} {a : Parser β α} {b : Parser β γ}
    (ha : Al ctx a) (hb : Al ctx b) : Al ctx (pair a b) := by
  unfold Tls.pair
  refine Al.bind ha fun x => Al.bind (hb.weaken fun t ht => Inside.self (List.mem_append_right _ ht)) fun y => Al.pure _ ?_
  intro s hs
  simp only [slices_pair, List.mem_append] at hs
  rcases hs with hs | hs
  · exact Inside.self (by simp [hs])
  · exact Inside.self (by simp [hs])

theorem Al.many0 [Slices β α] {ctx : List (List β)} {f : Parser β α} (hf : Al ctx f) : Al ctx (many0 f) := by
  intro i
  induction i using many0.induct f with
  | case1 i k h => intro r v hm; unfold Tls.many0 at hm; simp [h] at hm; exact ⟨[], by simp [hm.1], by rw [hm.2]; simp⟩
  | case2 i n h => intro r v hm; unfold Tls.many0 at hm; simp [h] at hm
  | case3 i k h => intro r v hm; unfold Tls.many0 at hm; simp [h] at hm
  | case4 i h => intro r v hm; unfold Tls.many0 at hm; simp [h] at hm
  | case5 i i1 o h hlt ih =>
    intro r v hm; unfold Tls.many0 at hm; simp only [h, hlt, dite_true] at hm
    cases h2 : Tls.many0 f i1 with
    | ok r2 vs =>
      rw [h2] at hm; simp at hm
      obtain ⟨c1, hc1, hs1⟩ := hf i i1 o h
      obtain ⟨c2, hc2, hs2⟩ := ih r2 vs h2
      refine ⟨c1 ++ c2, by rw [hc1, hc2, List.append_assoc, hm.1], ?_⟩
      intro s hs; rw [← hm.2, slices_cons, List.mem_append] at hs
      rcases hs with hs | hs
      · exact (hs1 s hs).left c2
      · exact (hs2 s hs).right c1
    | _ => rw [h2] at hm; simp at hm
  | case6 i i1 o h hlt => intro r v hm; unfold Tls.many0 at hm; simp [h, hlt] at hm

theorem Al.many1Loop [Slices β α] {ctx : List (List β)} {f : Parser β α} (hf : Al ctx f) : Al ctx (many1Loop f) := by
  intro i
  induction i using many1Loop.induct f with
  | case1 i k h => intro r v hm; unfold Tls.many1Loop at hm; simp [h] at hm; exact ⟨[], by simp [hm.1], by rw [hm.2]; simp⟩
  | case2 i n h => intro r v hm; unfold Tls.many1Loop at hm; simp [h] at hm
  | case3 i k h => intro r v hm; unfold Tls.many1Loop at hm; simp [h] at hm
  | case4 i h => intro r v hm; unfold Tls.many1Loop at hm; simp [h] at hm
  | case5 i i1 o h hlt ih =>
    intro r v hm; unfold Tls.many1Loop at hm; simp only [h, hlt, dite_true] at hm
    cases h2 : Tls.many1Loop f i1 with
    | ok r2 vs =>
      rw [h2] at hm; simp at hm
      obtain ⟨c1, hc1, hs1⟩ := hf i i1 o h
      obtain ⟨c2, hc2, hs2⟩ := ih r2 vs h2
      refine ⟨c1 ++ c2, by rw [hc1, hc2, List.append_assoc, hm.1], ?_⟩
      intro s hs; rw [← hm.2, slices_cons, List.mem_append] at hs
      rcases hs with hs | hs
      · exact (hs1 s hs).left c2
      · exact (hs2 s hs).right c1
    | _ => rw [h2] at hm; simp at hm
  | case6 i i1 o h hlt => intro r v hm; unfold Tls.many1Loop at hm; simp [h, hlt] at hm

theorem Al.many1 [Slices β α] {ctx : List (List β)} {f : Parser β α} (hf : Al ctx f) : Al ctx (many1 f) := by
  intro i r v h; unfold Tls.many1 at h
  cases hfi : f i with
  | ok r1 x =>
    rw [hfi] at h; simp only at h
    cases h2 : Tls.many1Loop f r1 with
    | ok r2 vs =>
      rw [h2] at h; simp at h
      obtain ⟨c1, hc1, hs1⟩ := hf i r1 x hfi
      obtain ⟨c2, hc2, hs2⟩ := Al.many1Loop hf r1 r2 vs h2
      refine ⟨c1 ++ c2, by rw [hc1, hc2, List.append_assoc, h.1], ?_⟩
      intro s hs; rw [← h.2, slices_cons, List.mem_append] at hs
      rcases hs with hs | hs
      · exact (hs1 s hs).left c2
      · exact (hs2 s hs).right c1
    | _ => rw [h2] at h; simp at h
  | _ => rw [hfi] at h; simp at h

theorem Al.countP [Slices β α] {ctx : List (List β)} {g : Parser β α} (hg : Al ctx g) (n : Nat) : Al ctx (countP g n) := by
  induction n with
  | zero => intro i r v h; simp [Tls.countP] at h; exact ⟨[], by simp [h.1], by rw [h.2]; simp⟩
  | succ n ih =>
    intro i r v h; unfold Tls.countP at h
    cases hgi : g i with
    | ok r1 x =>
      rw [hgi] at h; simp only [Res.bind_ok] at h
      cases h2 : Tls.countP g n r1 with
      | ok r2 vs =>
        rw [h2] at h; simp at h
        obtain ⟨c1, hc1, hs1⟩ := hg i r1 x hgi
        obtain ⟨c2, hc2, hs2⟩ := ih r1 r2 vs h2
        refine ⟨c1 ++ c2, by rw [hc1, hc2, List.append_assoc, h.1], ?_⟩
        intro s hs; rw [← h.2, slices_cons, List.mem_append] at hs
        rcases hs with hs | hs
        · exact (hs1 s hs).left c2
        · exact (hs2 s hs).right c1
      | _ => rw [h2] at h; simp at h
    | _ => rw [hgi] at h; simp at h

theorem Al.lengthCount [Slices β α] {ctx : List (List β)} {f : Parser β Nat} {g : Parser β α} (hf : Al ctx f) (hg : Al ctx g) :
    Al ctx (lengthCount f g) := by
  unfold Tls.lengthCount
  exact Al.bind hf fun n => (Al.countP hg n).weaken fun t ht => Inside.self (List.mem_append_right _ ht)

/-- the conclusion in the property's words: with no context, every slice is an infix of the consumed input -/
theorem Al.infix [Slices β α] {p : Parser β α} (h : Al [] p) {i r : List β} {v : α} (hv : p i = .ok r v) :
    ∃ c, i = c ++ r ∧ ∀ s ∈ (slices v : List (List β)), s <:+: c := by
  obtain ⟨c, hc, hs⟩ := h i r v hv
  refine ⟨c, hc, fun s hs' => ?_⟩
  obtain ⟨t, ht, hst⟩ := hs s hs'
  simp at ht; subst ht; exact hst

theorem Al.ite [Slices β α] {ctx : List (List β)} {c : Prop} [Decidable c] {p q : Parser β α}
    (hp : Al ctx p) (hq : Al ctx q) : Al ctx (fun i => if c then p i else q i) := by
  by_cases h : c <;> simp [h] <;> assumption

/-- look-ahead: the first parser's result only selects how the *same* input is parsed -/
theorem Al.peek [Slices β γ] {ctx : List (List β)} {p : Parser β α} {F : α → Parser β γ} (hF : ∀ x, Al ctx (F x)) :
    Al ctx (fun i => (p i).bind fun _ x => F x i) := by
  intro i r v h; simp only at h
  cases hpi : p i with
  | ok r1 x => rw [hpi] at h; simp only [Res.bind_ok] at h; exact hF x i r v h
  | _ => rw [hpi] at h; simp at h

/-- the whole (confined) input becomes the value: `parse_tls_message_applicationdata`, `Fragment` -/
theorem Al.okAll [Slices β α] {ctx : List (List β)} (f : List β → α)
    (hf : ∀ i, ∀ s ∈ (slices (f i) : List (List β)), s = i) : Al ctx (fun i : List β => Res.ok [] (f i)) := by
  intro i r v h; simp at h
  refine ⟨i, by simp [← h.1], ?_⟩
  intro s hs; rw [← h.2] at hs
  exact ⟨i, by simp, by rw [hf i s hs]; exact List.infix_refl _⟩

/-- a parser whose values hold no slice at all only has to return a suffix -/
theorem Al.ofSuffix [Slices β α] {ctx : List (List β)} {p : Parser β α} (hp : Suffix p)
    (hv : ∀ v : α, (slices v : List (List β)) = []) : Al ctx p := by
  intro i r v h
  obtain ⟨c, hc⟩ := hp i r v h
  exact ⟨c, hc, by simp [hv v]⟩

/-! ### which slices a value holds (one instance per value type of `Types.lean`; every `List β` field is listed,
    `Vec<u8>` copies (`PskKeyExchangeModes`) and integers hold none) -/

instance : Slices β (RawRecord β) := ⟨fun r => [r.data]⟩
instance : Slices β (Encrypted β) := ⟨fun r => [r.blob]⟩
instance : Slices β (ClientHello β) := ⟨fun c => c.random :: (slices c.sessionId ++ slices c.ext)⟩
instance : Slices β (ServerHello β) := ⟨fun c => c.random :: (slices c.sessionId ++ slices c.ext)⟩
instance : Slices β (ServerHello13d18 β) := ⟨fun c => c.random :: slices c.ext⟩
instance : Slices β (HelloRetryRequest β) := ⟨fun c => slices c.ext⟩
instance : Slices β (NewSessionTicket β) := ⟨fun c => [c.ticket]⟩
instance : Slices β (CertRequest β) := ⟨fun c => c.unparsedCa⟩
instance : Slices β (CertStatus β) := ⟨fun c => [c.blob]⟩
instance : Slices β (NextProtocol β) := ⟨fun c => [c.selected, c.padding]⟩
instance : Slices β (CKE β) := ⟨fun c => match c with | .dh d => [d] | .ecdh d => [d] | .unknown d => [d]⟩
instance : Slices β (Handshake β) := ⟨fun h => match h with
  | .helloRequest => [] | .clientHello c => slices c | .serverHello c => slices c | .serverHello13d18 c => slices c
  | .newSessionTicket t => slices t | .endOfEarlyData => [] | .helloRetryRequest h => slices h
  | .certificate chain => chain | .serverKeyExchange d => [d] | .certificateRequest r => slices r
  | .serverDone d => [d] | .certificateVerify d => [d] | .clientKeyExchange c => slices c | .finished d => [d]
  | .certificateStatus s => slices s | .nextProtocol n => slices n | .keyUpdate _ => []⟩
instance : Slices β (Message β) := ⟨fun m => match m with
  | .handshake h => slices h | .changeCipherSpec => [] | .alert _ _ => [] | .applicationData b => [b]
  | .heartbeat _ _ p => [p]⟩
instance : Slices β (Plaintext β) := ⟨fun p => slices p.msg⟩
instance : Slices β (Extension β) := ⟨fun e => match e with
  | .sni l => slices l | .maxFragmentLength _ => [] | .statusRequest r => slices r | .ellipticCurves _ => []
  | .ecPointFormats d => [d] | .signatureAlgorithms _ => [] | .recordSizeLimit _ => [] | .sessionTicket d => [d]
  | .keyShareOld d => [d] | .keyShare d => [d] | .preSharedKey d => [d] | .earlyData _ => []
  | .supportedVersions _ => [] | .cookie d => [d] | .pskExchangeModes _ => [] | .heartbeat _ => []
  | .alpn l => l | .signedCertificateTimestamp o => slices o | .padding d => [d] | .encryptThenMac => []
  | .extendedMasterSecret => [] | .oidFilters l => slices l | .postHandshakeAuth => []
  | .nextProtocolNegotiation => [] | .renegotiationInfo d => [d]
  | .encryptedServerName _ _ ks rd es => [ks, rd, es] | .grease _ d => [d] | .unknown _ d => [d]⟩
instance : Slices β (DHParams β) := ⟨fun d => [d.p, d.g, d.ys]⟩
instance : Slices β (ExplicitPrime β) := ⟨fun e => [e.primeP, e.a, e.b, e.base, e.order, e.cofactor]⟩
instance : Slices β (ECContent β) := ⟨fun c => match c with | .explicitPrime e => slices e | .namedGroup _ => []⟩
instance : Slices β (ECParameters β) := ⟨fun c => slices c.content⟩
instance : Slices β (ECDHParams β) := ⟨fun c => slices c.curve ++ [c.pub]⟩
instance : Slices β (DigitallySigned β) := ⟨fun d => [d.data]⟩
instance : Slices β (SCT β) := ⟨fun s => s.keyId :: s.extensions :: slices s.signature⟩
instance : Slices β (DtlsClientHello β) := ⟨fun c => c.random :: (slices c.sessionId ++ (c.cookie :: slices c.ext))⟩
instance : Slices β (DtlsBody β) := ⟨fun b => match b with
  | .clientHello c => slices c | .helloVerifyRequest _ cookie => [cookie] | .serverHello s => slices s
  | .certificate chain => chain | .serverDone d => [d] | .clientKeyExchange c => slices c | .fragment d => [d]⟩
instance : Slices β (DtlsHandshake β) := ⟨fun h => slices h.body⟩
instance : Slices β (DtlsMessage β) := ⟨fun m => match m with
  | .handshake h => slices h | .changeCipherSpec => [] | .alert _ _ => []⟩
instance : Slices β (DtlsPlaintext β) := ⟨fun p => slices p.messages⟩
instance : Slices β RecordHeader := ⟨fun _ => []⟩
instance : Slices β DtlsHeader := ⟨fun _ => []⟩

end Tls
