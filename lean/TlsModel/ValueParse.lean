/-
  ValueParse.lean — parser for the canonical value grammar (PROTOCOL.md) with `x:hex` slices, used by the
  driver's `ser_*` ops to build model values from value descriptions.  Not part of any theorem.
-/
import TlsModel.Types
namespace Tls

inductive SExp where
  | atom (s : String)
  | node (name : String) (args : List SExp)
  | list (items : List SExp)
  deriving Repr, Inhabited

partial def tokenize (s : String) : List String :=
  let flush (cur : List Char) (acc : List String) : List String :=
    if cur.isEmpty then acc else String.ofList cur.reverse :: acc
  let rec go (cs : List Char) (cur : List Char) (acc : List String) : List String :=
    match cs with
    | [] => (flush cur acc).reverse
    | c :: r =>
      if c == '(' || c == ')' || c == '[' || c == ']' then go r [] (String.singleton c :: flush cur acc)
      else if c == ' ' then go r [] (flush cur acc)
      else go r (c :: cur) acc
  go s.toList [] []

mutual
partial def parseSExp : List String → Option (SExp × List String)
  | "(" :: name :: rest =>
    match parseMany rest ")" with
    | some (args, r) => some (.node name args, r)
    | none => none
  | "[" :: rest =>
    match parseMany rest "]" with
    | some (items, r) => some (.list items, r)
    | none => none
  | t :: rest => if t == ")" || t == "]" then none else some (.atom t, rest)
  | [] => none
partial def parseMany (toks : List String) (close : String) : Option (List SExp × List String) :=
  match toks with
  | [] => none
  | t :: rest =>
    if t == close then some ([], rest)
    else match parseSExp toks with
      | some (e, r) => match parseMany r close with
        | some (es, r2) => some (e :: es, r2)
        | none => none
      | none => none
end

abbrev VB := UInt8 × Nat

def hexv (c : Char) : Option Nat :=
  if '0' ≤ c ∧ c ≤ '9' then some (c.toNat - 48) else if 'a' ≤ c ∧ c ≤ 'f' then some (c.toNat - 87) else none

def hexBytes (s : String) : Option (List VB) :=
  let rec go : List Char → Option (List VB)
    | [] => some []
    | [_] => none
    | a :: b :: r => match hexv a, hexv b, go r with
      | some x, some y, some l => some ((UInt8.ofNat (x * 16 + y), 0) :: l)
      | _, _, _ => none
  go s.toList

def vBytes : SExp → Option (List VB)
  | .atom s => if s == "+0" then some [] else if s.startsWith "x:" then hexBytes (s.drop 2).toString
               else if s.startsWith "X:" then hexBytes (s.drop 2).toString else none
  | _ => none
def vNat : SExp → Option Nat
  | .atom s => s.toNat?
  | _ => none
def vOpt {α : Type} (f : SExp → Option α) : SExp → Option (Option α)
  | .atom "none" => some none
  | .node "some" [x] => (f x).map some
  | _ => none
def vList {α : Type} (f : SExp → Option α) : SExp → Option (List α)
  | .list items => items.mapM f
  | _ => none
def vPair {α γ : Type} (f : SExp → Option α) (g : SExp → Option γ) : SExp → Option (α × γ)
  | .node "P" [a, b] => match f a, g b with
    | some x, some y => some (x, y)
    | _, _ => none
  | _ => none

def vCKE : SExp → Option (CKE VB)
  | .node "Unknown" [s] => (vBytes s).map .unknown
  | .node "Dh" [s] => (vBytes s).map .dh
  | .node "Ecdh" [s] => (vBytes s).map .ecdh
  | _ => none

def vHandshake : SExp → Option (Handshake VB)
  | .atom "HelloRequest" => some .helloRequest
  | .atom "EndOfEarlyData" => some .endOfEarlyData
  | .node "ClientHello" [v, r, sid, ci, co, e] => do
    some (.clientHello ⟨← vNat v, ← vBytes r, ← vOpt vBytes sid, ← vList vNat ci, ← vList vNat co, ← vOpt vBytes e⟩)
  | .node "ServerHello" [v, r, sid, ci, co, e] => do
    some (.serverHello ⟨← vNat v, ← vBytes r, ← vOpt vBytes sid, ← vNat ci, ← vNat co, ← vOpt vBytes e⟩)
  | .node "ServerHello13d18" [v, r, ci, e] => do
    some (.serverHello13d18 ⟨← vNat v, ← vBytes r, ← vNat ci, ← vOpt vBytes e⟩)
  | .node "NewSessionTicket" [h, t] => do some (.newSessionTicket ⟨← vNat h, ← vBytes t⟩)
  | .node "HelloRetryRequest" [v, c, e] => do some (.helloRetryRequest ⟨← vNat v, ← vNat c, ← vOpt vBytes e⟩)
  | .node "Certificate" [c] => (vList vBytes c).map .certificate
  | .node "ServerKeyExchange" [p] => (vBytes p).map .serverKeyExchange
  | .node "CertificateRequest" [t, a, ca] => do
    some (.certificateRequest ⟨← vList vNat t, ← vOpt (vList vNat) a, ← vList vBytes ca⟩)
  | .node "ServerDone" [s] => (vBytes s).map .serverDone
  | .node "CertificateVerify" [s] => (vBytes s).map .certificateVerify
  | .node "Finished" [s] => (vBytes s).map .finished
  | .node "ClientKeyExchange" [c] => (vCKE c).map .clientKeyExchange
  | .node "CertificateStatus" [t, b] => do some (.certificateStatus ⟨← vNat t, ← vBytes b⟩)
  | .node "NextProtocol" [s, p] => do some (.nextProtocol ⟨← vBytes s, ← vBytes p⟩)
  | .node "KeyUpdate" [n] => (vNat n).map .keyUpdate
  | _ => none

def vMessage : SExp → Option (Message VB)
  | .node "Hs" [h] => (vHandshake h).map .handshake
  | .atom "CCS" => some .changeCipherSpec
  | .node "Alert" [s, c] => do some (.alert (← vNat s) (← vNat c))
  | .node "App" [b] => (vBytes b).map .applicationData
  | .node "Hb" [t, l, p] => do some (.heartbeat (← vNat t) (← vNat l) (← vBytes p))
  | _ => none

def vPlaintext : SExp → Option (Plaintext VB)
  | .node "Plain" [.node "Hdr" [t, v, l], ms] => do
    some ⟨⟨← vNat t, ← vNat v, ← vNat l⟩, ← vList vMessage ms⟩
  | _ => none

def vExtension : SExp → Option (Extension VB)
  | .node "SNI" [l] => (vList (vPair vNat vBytes) l).map .sni
  | .node "MaxFragmentLength" [n] => (vNat n).map .maxFragmentLength
  | .node "StatusRequest" [o] => (vOpt (vPair vNat vBytes) o).map .statusRequest
  | .node "EllipticCurves" [l] => (vList vNat l).map .ellipticCurves
  | .node "EcPointFormats" [s] => (vBytes s).map .ecPointFormats
  | .node "SignatureAlgorithms" [l] => (vList vNat l).map .signatureAlgorithms
  | .node "RecordSizeLimit" [n] => (vNat n).map .recordSizeLimit
  | .node "SessionTicket" [s] => (vBytes s).map .sessionTicket
  | .node "KeyShareOld" [s] => (vBytes s).map .keyShareOld
  | .node "KeyShare" [s] => (vBytes s).map .keyShare
  | .node "PreSharedKey" [s] => (vBytes s).map .preSharedKey
  | .node "EarlyData" [o] => (vOpt vNat o).map .earlyData
  | .node "SupportedVersions" [l] => (vList vNat l).map .supportedVersions
  | .node "Cookie" [s] => (vBytes s).map .cookie
  | .node "Heartbeat" [n] => (vNat n).map .heartbeat
  | .node "ALPN" [l] => (vList vBytes l).map .alpn
  | .node "SCT" [o] => (vOpt vBytes o).map .signedCertificateTimestamp
  | .node "Padding" [s] => (vBytes s).map .padding
  | .atom "EncryptThenMac" => some .encryptThenMac
  | .atom "ExtendedMasterSecret" => some .extendedMasterSecret
  | .atom "PostHandshakeAuth" => some .postHandshakeAuth
  | .atom "NextProtocolNegotiation" => some .nextProtocolNegotiation
  | .node "RenegotiationInfo" [s] => (vBytes s).map .renegotiationInfo
  | .node "Grease" [t, s] => do some (.grease (← vNat t) (← vBytes s))
  | .node "Unknown" [t, s] => do some (.unknown (← vNat t) (← vBytes s))
  | _ => none

def parseValue (s : String) : Option SExp :=
  match parseSExp (tokenize s) with
  | some (e, []) => some e
  | _ => none

end Tls
