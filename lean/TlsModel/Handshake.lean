/-
  Handshake.lean — model of src/tls_handshake.rs (parsers only), line by line.
  `fun i => (p i).bind fun i x => …` is the Rust's `let (i, x) = p(i)?;`.
-/
import TlsModel.Types
namespace Tls
variable {β : Type} [ByteLike β]

/-- `parse_cipher_suites(i, len)`; `i[..len]`, `chunk[1]` are the panic sites. -/
def parseCipherSuites (len : Nat) : Parser β (List Nat) := fun i =>
  if len = 0 then .ok i []
  else if len % 2 = 1 ∨ len > i.length then .error .LengthValue
  else if len ≤ i.length then
    match chunks2 (i.take len) with
    | some v => .ok (i.drop len) v
    | none => .panic
  else .panic

/-- `parse_compressions_algs(i, len)` -/
def parseCompressionsAlgs (len : Nat) : Parser β (List Nat) := fun i =>
  if len = 0 then .ok i []
  else if len > i.length then .error .LengthValue
  else if len ≤ i.length then .ok (i.drop len) ((i.take len).map toNat)
  else .panic

/-- `parse_tls_versions(i)` / `parse_named_groups(i)`: the whole input as u16 list -/
def parseU16All : Parser β (List Nat) := fun i =>
  let len := i.length
  if len = 0 then .ok i []
  else if len % 2 = 1 ∨ len > i.length then .error .LengthValue
  else if len ≤ i.length then
    match chunks2 (i.take len) with
    | some v => .ok (i.drop len) v
    | none => .panic
  else .panic

/-- `opt(complete(length_data(be_u16)))` — the optional extension block -/
def optExtBlock : Parser β (Option (List β)) := opt (complete (lengthData (beU 2)))

/-- `parse_tls_handshake_client_hello` -/
def parseClientHello : Parser β (ClientHello β) := fun i =>
  (beU 2 i).bind fun i version =>
  (take 32 i).bind fun i random =>
  (verify (beU 1) (fun n => n ≤ 32) i).bind fun i sidlen =>
  (cond (sidlen > 0) (take sidlen) i).bind fun i sid =>
  (beU 2 i).bind fun i ciphersLen =>
  (parseCipherSuites ciphersLen i).bind fun i ciphers =>
  (beU 1 i).bind fun i compLen =>
  (parseCompressionsAlgs compLen i).bind fun i comp =>
  (optExtBlock i).bind fun i ext =>
  .ok i ⟨version, random, sid, ciphers, comp, ext⟩

/-- `parse_tls_server_hello_tlsv12::<HAS_EXT>` -/
def parseServerHelloV12 (hasExt : Bool) : Parser β (ServerHello β) := fun i =>
  (beU 2 i).bind fun i version =>
  (take 32 i).bind fun i random =>
  (verify (beU 1) (fun n => n ≤ 32) i).bind fun i sidlen =>
  (cond (sidlen > 0) (take sidlen) i).bind fun i sid =>
  (beU 2 i).bind fun i cipher =>
  (beU 1 i).bind fun i comp =>
  (if hasExt then optExtBlock i else .ok i none).bind fun i ext =>
  .ok i ⟨version, random, sid, cipher, comp, ext⟩

/-- `parse_tls_handshake_msg_server_hello_tlsv13draft18` -/
def parseServerHello13d18 : Parser β (Handshake β) := fun i =>
  (beU 2 i).bind fun i version =>
  (take 32 i).bind fun i random =>
  (beU 2 i).bind fun i cipher =>
  (optExtBlock i).bind fun i ext =>
  .ok i (.serverHello13d18 ⟨version, random, cipher, ext⟩)

/-- `parse_tls_handshake_server_hello` -/
def parseServerHello : Parser β (ServerHello β) := fun i =>
  (beU 2 i).bind fun _ version =>
  if version = 0x0303 then parseServerHelloV12 true i
  else if version = 0x0302 then parseServerHelloV12 true i
  else if version = 0x0301 then parseServerHelloV12 true i
  else if version = 0x0300 then parseServerHelloV12 false i
  else .error .Tag

/-- `parse_tls_handshake_msg_server_hello` -/
def parseMsgServerHello : Parser β (Handshake β) := fun i =>
  (beU 2 i).bind fun _ version =>
  if version = 0x7f12 then parseServerHello13d18 i
  else if version = 0x0303 then mapP (parseServerHelloV12 true) .serverHello i
  else if version = 0x0302 then mapP (parseServerHelloV12 true) .serverHello i
  else if version = 0x0301 then mapP (parseServerHelloV12 true) .serverHello i
  else if version = 0x0300 then mapP (parseServerHelloV12 false) .serverHello i
  else .error .Tag

/-- `parse_tls_handshake_msg_newsessionticket(i, len)`; `len - 4` is guarded by `len < 4`. -/
def parseNewSessionTicket (len : Nat) : Parser β (Handshake β) := fun i =>
  if len < 4 then .error .Verify
  else
    (beU 4 i).bind fun i hint =>
    (if 4 ≤ len then take (len - 4) i else .panic).bind fun i ticket =>
    .ok i (.newSessionTicket ⟨hint, ticket⟩)

/-- `parse_tls_handshake_msg_hello_retry_request` -/
def parseHelloRetryRequest : Parser β (Handshake β) := fun i =>
  (beU 2 i).bind fun i version =>
  (beU 2 i).bind fun i cipher =>
  (optExtBlock i).bind fun i ext =>
  .ok i (.helloRetryRequest ⟨version, cipher, ext⟩)

/-- `parse_certs` -/
def parseCerts : Parser β (List (List β)) := many0 (complete (lengthData (beU 3)))

/-- `parse_tls_certificate` -/
def parseCertificate : Parser β (List (List β)) := fun i =>
  (beU 3 i).bind fun i certLen =>
  mapParser (take certLen) parseCerts i

/-- the CA list of a certificate request -/
def parseCaList : Parser β (List (List β)) := fun i =>
  (beU 2 i).bind fun i caLen =>
  mapParser (take caLen) (many0 (complete (lengthData (beU 2)))) i

/-- `parse_certrequest_nosigalg` -/
def parseCertRequestNoSigAlg : Parser β (CertRequest β) := fun i =>
  (lengthCount (beU 1) (beU 1) i).bind fun i certTypes =>
  (parseCaList i).bind fun i ca =>
  .ok i ⟨certTypes, none, ca⟩

/-- `parse_certrequest_full` -/
def parseCertRequestFull : Parser β (CertRequest β) := fun i =>
  (lengthCount (beU 1) (beU 1) i).bind fun i certTypes =>
  (beU 2 i).bind fun i sigLen =>
  (mapParser (take sigLen) (many0 (complete (beU 2))) i).bind fun i sigAlgs =>
  (parseCaList i).bind fun i ca =>
  .ok i ⟨certTypes, some sigAlgs, ca⟩

/-- `parse_tls_handshake_certificaterequest` -/
def parseCertRequest : Parser β (CertRequest β) :=
  alt (complete parseCertRequestFull) (complete parseCertRequestNoSigAlg)

/-- `parse_tls_handshake_certificatestatus` -/
def parseCertStatus : Parser β (CertStatus β) := fun i =>
  (beU 1 i).bind fun i statusType =>
  (lengthData (beU 3) i).bind fun i blob =>
  .ok i ⟨statusType, blob⟩

/-- `parse_tls_handshake_next_protocol` -/
def parseNextProtocol : Parser β (NextProtocol β) := fun i =>
  (lengthData (beU 1) i).bind fun i sel =>
  (lengthData (beU 1) i).bind fun i pad =>
  .ok i ⟨sel, pad⟩

/-- body dispatch of `parse_tls_message_handshake` (`raw_msg`, `hl`) -/
def parseHandshakeBody (ht hl : Nat) : Parser β (Handshake β) := fun raw =>
  if ht = 0x00 then .ok raw .helloRequest
  else if ht = 0x01 then mapP parseClientHello .clientHello raw
  else if ht = 0x02 then parseMsgServerHello raw
  else if ht = 0x04 then parseNewSessionTicket hl raw
  else if ht = 0x05 then .ok raw .endOfEarlyData
  else if ht = 0x06 then parseHelloRetryRequest raw
  else if ht = 0x0b then mapP parseCertificate .certificate raw
  else if ht = 0x0c then mapP (take hl) .serverKeyExchange raw
  else if ht = 0x0d then mapP parseCertRequest .certificateRequest raw
  else if ht = 0x0e then mapP (take hl) .serverDone raw
  else if ht = 0x0f then mapP (take hl) .certificateVerify raw
  else if ht = 0x10 then mapP (take hl) (fun d => .clientKeyExchange (.unknown d)) raw
  else if ht = 0x14 then mapP (take hl) .finished raw
  else if ht = 0x16 then mapP parseCertStatus .certificateStatus raw
  else if ht = 0x18 then mapP (beU 1) .keyUpdate raw
  else if ht = 0x43 then mapP parseNextProtocol .nextProtocol raw
  else .error .Switch

/-- `parse_tls_message_handshake` -/
def parseMessageHandshake : Parser β (Message β) := fun i =>
  (beU 1 i).bind fun i ht =>
  (beU 3 i).bind fun i hl =>
  (take hl i).bind fun i raw =>
  (parseHandshakeBody ht hl raw).bind fun _ msg =>
  .ok i (.handshake msg)

end Tls
