/-
  DriverCore.lean — the line-protocol driver's request handler: runs the model on position-tagged bytes (PROTOCOL.md).
  (`Driver.lean` is the stdin/stdout loop around `handle`; `DriverFFI.lean` exports `handle` to C.)
-/
import TlsModel.Render
import TlsModel.States
import TlsModel.Serialize
import TlsModel.ValueParse
import TlsModel.Accessors
import TlsModel.Gen.Ciphers
open Tls

abbrev TB := UInt8 × Nat

def hexVal (c : Char) : Option Nat :=
  if '0' ≤ c ∧ c ≤ '9' then some (c.toNat - 48)
  else if 'a' ≤ c ∧ c ≤ 'f' then some (c.toNat - 87)
  else none

/-- decode hex (`-` = empty) into bytes tagged with positions `base, base+1, …` -/
def decodeHex (s : String) (base : Nat := 0) : Option (List TB) :=
  if s == "-" then some [] else
  let rec go (cs : List Char) (p : Nat) (acc : Array TB) : Option (List TB) :=
    match cs with
    | [] => some acc.toList
    | [_] => none
    | a :: b :: r =>
      match hexVal a, hexVal b with
      | some x, some y => go r (p + 1) (acc.push (UInt8.ofNat (x * 16 + y), p))
      | _, _ => none
  go s.toList base #[]

def withHex (s : String) (k : List TB → String) : String :=
  match decodeHex s with
  | some i => k i
  | none => "badrequest"

def run {α : Type} (p : Parser TB α) (f : α → String) (h : String) : String :=
  withHex h fun i => rRes f (p i)

def tagParsers : List (String × Parser TB (Extension TB)) := [
  ("sni", parseTagSni), ("max_fragment_length", parseTagMaxFragmentLength),
  ("status_request", parseTagStatusRequest), ("elliptic_curves", parseTagEllipticCurves),
  ("ec_point_formats", parseTagEcPointFormats), ("signature_algorithms", parseTagSignatureAlgorithms),
  ("heartbeat", parseTagHeartbeat), ("encrypt_then_mac", parseTagEncryptThenMac),
  ("extended_master_secret", parseTagExtendedMasterSecret), ("session_ticket", parseTagSessionTicket),
  ("key_share", parseTagKeyShare), ("pre_shared_key", parseTagPreSharedKey),
  ("early_data", parseTagEarlyData), ("supported_versions", parseTagSupportedVersions),
  ("cookie", parseTagCookie), ("psk_key_exchange_modes", parseTagPskModes)]

def contentParsers : List (String × Parser TB (Extension TB)) := [
  ("sni", parseSniContent), ("max_fragment_length", parseMaxFragmentLengthContent),
  ("elliptic_curves", parseEllipticCurvesContent), ("ec_point_formats", parseEcPointFormatsContent),
  ("signature_algorithms", parseSignatureAlgorithmsContent), ("heartbeat", parseHeartbeatContent),
  ("alpn", parseAlpnContent), ("signed_certificate_timestamp", parseSctContent),
  ("psk_key_exchange_modes", parsePskModesContent), ("renegotiation_info", parseRenegotiationInfoContent),
  ("encrypted_server_name", parseEncryptedServerName)]

def dispatcherOf (op : String) : Option Dispatcher :=
  if op == "ext" then some .generic else if op == "ext_client" then some .client
  else if op == "ext_server" then some .server else none

def parseRawStep (s : String) : Option (Bool × RawRecord TB) :=
  match s.splitOn ":" with
  | [k, t, v, l, h] =>
    match t.toNat?, v.toNat?, l.toNat?, decodeHex h with
    | some t, some v, some l, some d =>
      if k == "p" then some (true, ⟨⟨t, v, l⟩, d⟩) else if k == "n" then some (false, ⟨⟨t, v, l⟩, d⟩) else none
    | _, _, _, _ => none
  | _ => none

def runRp (steps : List String) : String :=
  let rec go (s : RPState TB) (steps : List String) (acc : List String) : List String :=
    match steps with
    | [] => acc.reverse
    | st :: rest =>
      if st == "r" then go RPState.init rest (s!"reset | 0 | 0" :: acc)
      else match parseRawStep st with
        | none => ("badrequest" :: acc).reverse
        | some (isParse, r) =>
          let (s', o) := if isParse then rpParse parseRecordWithHeader s r else rpNocopy parseRecordWithHeader s r
          let line := s!"{rRes (rList rMessage) o} | {if s'.inProgress then 1 else 0} | {s'.buf.length}"
          go s' rest (line :: acc)
  " ; ".intercalate (go RPState.init steps [])

def mkMessage (args : List String) : Option (Message TB) :=
  match args with
  | ["hs", h] =>
    match decodeHex h with
    | some i => match parseMessageHandshake i with
      | .ok _ m => some m
      | _ => none
    | none => none
  | ["chnew", sid, ext] =>
    -- a constructed ClientHello (`TlsClientHelloContents::new`): `none` | `-` (present but empty) | hex
    let o (x : String) : Option (Option (List TB)) := if x == "none" then some none else (decodeHex x).map some
    match o sid, o ext with
    | some sid, some ext => some (.handshake (.clientHello ⟨0x0303, List.replicate 32 (7, 0), sid, [0x2f], [0], ext⟩))
    | _, _ => none
  | ["shnew", v, ext] =>
    let o (x : String) : Option (Option (List TB)) := if x == "none" then some none else (decodeHex x).map some
    match v.toNat?, o ext with
    | some v, some ext => some (.handshake (.serverHello ⟨v, List.replicate 32 (9, 0), none, 0x2f, 0, ext⟩))
    | _, _ => none
  | ["ccs"] => some .changeCipherSpec
  | ["alert", s, d] => match s.toNat?, d.toNat? with
    | some s, some d => some (.alert s d)
    | _, _ => none
  | ["app", h] => (decodeHex h).map .applicationData
  | ["hb", t, h] => match t.toNat?, decodeHex h with
    | some t, some p => some (.heartbeat t p.length p)
    | _, _ => none
  | _ => none

def rSer (r : SerRes TB) : String :=
  match r with
  | .bytes b => if b.isEmpty then "bytes -" else "bytes " ++ hexOfNats (b.map fun x => x.1.toNat)
  | .notImplemented => "generr NotYetImplemented"
  | .panic => "panic"

def runSer (op : String) (value : String) : String :=
  match parseValue value with
  | none => "badrequest"
  | some e =>
    if op == "ser_msg" then (match vMessage e with | some m => rSer (serMessage m) | none => "badrequest")
    else if op == "ser_hs" then (match vHandshake e with | some h => rSer (serHandshake h) | none => "badrequest")
    else if op == "ser_rec" then (match vPlaintext e with | some p => rSer (serPlaintext p) | none => "badrequest")
    else if op == "ser_ext" then (match vExtension e with | some x => rSer (serExtension x) | none => "badrequest")
    else if op == "ser_exts" then (match vList vExtension e with | some l => rSer (serExtensions l) | none => "badrequest")
    else "unsupported"

def rBool (b : Bool) : String := if b then "1" else "0"

/-- `(Acc version random sid ciphers comp ext rand_time rand_bytes [cipher_suites] [get_ciphers] get_version)`: the trait
    accessors of a parsed hello, through the accessor model and the regenerated registry table -/
def rAcc (v : HelloView TB) (withGet : Bool) : String :=
  let suites := "[" ++ " ".intercalate ((cipherSuites Tls.Gen.runtimeCiphers v.ciphers).map fun o => match o with
    | some r => toString r.id | none => "none") ++ "]"
  s!"(Acc {v.version} {rS v.random} {rOpt rS v.sessionId} {rList rN v.ciphers} {rList rN v.comp} {rOpt rS v.ext} {randTime v.random} {rS (randBytes v.random)} {suites} {if withGet then suites else "[]"} {if withGet then v.version else 0})"

def handle (line : String) : String :=
  let trimmed := line.trimAscii.toString
  if trimmed.startsWith "ser_" then
    match trimmed.splitOn " " with
    | op :: rest => runSer op (" ".intercalate rest)
    | [] => "badrequest"
  else
  match trimmed.splitOn " " with
  | ["tls_header", h] => run parseRecordHeader rHdr h
  | ["tls_raw", h] => run parseRawRecord rRaw h
  | ["tls_encrypted", h] => run parseEncrypted rEnc h
  | ["tls_plaintext", h] => run parsePlaintext rPlaintext h
  | ["tls_parser", h] => run tlsParser rPlaintext h
  | ["tls_many", h] => run tlsParserMany (rList rPlaintext) h
  | ["rec_with_hdr", t, v, l, h] =>
    match t.toNat?, v.toNat?, l.toNat? with
    | some t, some v, some l => run (parseRecordWithHeader ⟨t, v, l⟩) (rList rMessage) h
    | _, _, _ => "badrequest"
  | ["msg_ccs", h] => run parseMessageCCS rMessage h
  | ["msg_alert", h] => run parseMessageAlert rMessage h
  | ["msg_appdata", h] => run parseMessageAppData rMessage h
  | ["msg_handshake", h] => run parseMessageHandshake rMessage h
  | ["msg_heartbeat", l, h] =>
    match l.toNat? with
    | some l => run (parseMessageHeartbeat l) (rList rMessage) h
    | none => "badrequest"
  | ["hs_hello_request", h] => run (fun i => Res.ok i (Handshake.helloRequest : Handshake TB)) rHandshake h
  | ["hs_client_hello", h] => run parseClientHello rClientHello h
  | ["hs_msg_client_hello", h] => run (mapP parseClientHello .clientHello) rHandshake h
  | ["hs_server_hello", h] => run parseServerHello rServerHello h
  | ["hs_msg_server_hello", h] => run parseMsgServerHello rHandshake h
  | ["hs_hello_retry_request", h] => run parseHelloRetryRequest rHandshake h
  | ["hs_certificate", h] => run (mapP parseCertificate .certificate) rHandshake h
  | ["hs_certificaterequest", h] => run parseCertRequest rCertRequest h
  | ["hs_msg_certificaterequest", h] => run (mapP parseCertRequest .certificateRequest) rHandshake h
  | ["hs_certificatestatus", h] => run parseCertStatus rCertStatus h
  | ["hs_msg_certificatestatus", h] => run (mapP parseCertStatus .certificateStatus) rHandshake h
  | ["hs_next_protocol", h] => run parseNextProtocol rNextProtocol h
  | ["hs_msg_next_protocol", h] => run (mapP parseNextProtocol .nextProtocol) rHandshake h
  | ["hs_key_update", h] => run (α := Handshake TB) (mapP (beU 1) .keyUpdate) rHandshake h
  | ["ext", h] => run parseExtension rExtension h
  | ["ext_client", h] => run parseClientHelloExtension rExtension h
  | ["ext_server", h] => run parseServerHelloExtension rExtension h
  | ["exts", h] => run parseExtensions (rList rExtension) h
  | ["exts_client", h] => run parseClientHelloExtensions (rList rExtension) h
  | ["exts_server", h] => run parseServerHelloExtensions (rList rExtension) h
  | ["ext_sni_hostname", h] => run parseSniHostname rPairNS h
  | ["ext_unknown", h] => run parseExtensionUnknown rExtension h
  | ["hello_acc", "tls", h] =>
    withHex h fun i => match parseClientHello i with
      | .ok _ c => "ok " ++ rAcc c.view true
      | r => rRes (fun _ => "") r
  | ["hello_acc", "dtls", h] =>
    withHex h fun i => match parseDtlsMessageHandshake i with
      | .ok _ (.handshake ⟨_, _, _, _, _, .clientHello c⟩) => "ok " ++ rAcc c.view false
      | .ok _ _ => "badmsg"
      | r => rRes (fun _ => "") r
  | ["ext_type_of", op, h] =>
    match dispatcherOf op with
    | some d => run (parseExtensionD d) (fun e => toString e.typeOf) h
    | none => "badrequest"
  | ["dh", h] => run parseDhParams rDH h
  | ["ec_params", h] => run parseEcParameters rECParams h
  | ["ecdh", h] => run parseEcdhParams rECDH h
  | ["named_groups", h] => run parseNamedGroups (rList rN) h
  | ["dsig", h] => run parseDigitallySigned rDSig h
  | ["dsig_old", h] => run parseDigitallySignedOld rDSig h
  | ["content_sig", k, f, h] =>
    let ext := f == "1"
    if k == "dh" then run (parseContentAndSignature parseDhParams ext) (fun p => s!"(P {rDH p.1} {rDSig p.2})") h
    else if k == "ecdh" then run (parseContentAndSignature parseEcdhParams ext) (fun p => s!"(P {rECDH p.1} {rDSig p.2})") h
    else "badrequest"
  | ["sct", h] => run parseSct rSCT h
  | ["sct_list", h] => run parseSctList (rList rSCT) h
  | ["dtls_header", h] => run parseDtlsRecordHeader rDtlsHdr h
  | ["dtls_record", h] => run parseDtlsPlaintextRecord rDtlsPlaintext h
  | ["dtls_records", h] => run parseDtlsPlaintextRecords (rList rDtlsPlaintext) h
  | ["dtls_hs", h] => run parseDtlsMessageHandshake rDtlsMessage h
  | ["dtls_ccs", h] => run parseDtlsMessageCCS rDtlsMessage h
  | ["dtls_alert", h] => run parseDtlsMessageAlert rDtlsMessage h
  | ["dtls_rec_with_hdr", t, v, l, h] =>
    match t.toNat?, v.toNat?, l.toNat? with
    | some t, some v, some l => run (parseDtlsRecordWithHeader ⟨t, v, 0, 0, l⟩) (rList rDtlsMessage) h
    | _, _, _ => "badrequest"
  | "st" :: s :: d :: rest =>
    match s.toNat?.bind TlsState.ofIdx, mkMessage rest with
    | some st, some m =>
      match tlsStateTransition st m (d == "1") with
      | some s' => s!"ok {s'.toIdx}"
      | none => "err InvalidTransition"
    | some _, none => "badmsg"
    | none, _ => "badrequest"
  | "rp" :: steps => runRp steps
  | [op, l, h] =>
    match l.toNat? with
    | none => "badrequest"
    | some l =>
      if op == "hs_newsessionticket" then run (parseNewSessionTicket l) rHandshake h
      else if op == "hs_serverkeyexchange" then run (mapP (take l) .serverKeyExchange) rHandshake h
      else if op == "hs_serverdone" then run (mapP (take l) .serverDone) rHandshake h
      else if op == "hs_certificateverify" then run (mapP (take l) .certificateVerify) rHandshake h
      else if op == "hs_clientkeyexchange" then run (mapP (take l) (fun d => Handshake.clientKeyExchange (.unknown d))) rHandshake h
      else if op == "hs_finished" then run (mapP (take l) .finished) rHandshake h
      else "unsupported"
  | op :: rest =>
    if op.startsWith "ext_tag_" then
      match tagParsers.lookup (op.drop 8).toString, rest with
      | some p, [h] => run p rExtension h
      | _, _ => "unsupported"
    else if op.startsWith "ext_c_" then
      match contentParsers.lookup (op.drop 6).toString, rest with
      | some p, [h] => run p rExtension h
      | _, _ => "unsupported"
    else "unsupported"
  | [] => "badrequest"
