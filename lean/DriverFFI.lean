/-
  DriverFFI.lean — the driver's `handle` exported under a C name, so that the model can be linked into the
  coverage-guided differential fuzz target (cgfuzz) and answer in-process.
-/
import DriverCore

@[export tlsmodel_handle]
def tlsmodelHandle (line : String) : String := handle line
