/-
  Driver.lean — line-protocol driver executable: one request per stdin line, one answer per stdout line.
-/
import DriverCore

partial def loop (hin : IO.FS.Stream) (hout : IO.FS.Stream) : IO Unit := do
  let line ← hin.getLine
  if line.isEmpty then return ()
  hout.putStrLn (handle line)
  loop hin hout

def main : IO Unit := do
  let hin ← IO.getStdin
  let hout ← IO.getStdout
  loop hin hout
  hout.flush
